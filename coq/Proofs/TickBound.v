(* TickBound: how long the tick loop of generate_ticks (`while d <= len
   { .. d += tick_dist }`) can run.

   - [tick_dists_oof] (any arithmetic): the loop runs out of its fuel [tf]
     only if the first [tf] running sums td, td+td, (td+td)+td, .. ALL pass the
     loop guard (d <= len, and not len - mdfe <= d);
   - [rsum_lower] (binary64): with a finite tick distance td >= 2^-k the j-th
     running sum, when finite, is at least (j+1) * 2^-k -- by monotonicity of
     round-to-nearest and because the multiples of 2^-k below 2^(53-k) are
     representable; no error analysis needed;
   - [span_dists_bound] (binary64): hence for a finite length len <= L the
     loop makes at most L * 2^k + 1 guard evaluations, each span has at most
     L * 2^k ticks, and any fuel above that is enough;
   - [sp_events_length_le]: the whole stream has at most 3 + n * (ticks + 1)
     events.
   The effective length of the iterator is min(MAX_LEN, total_dist) <= 100000
   ([sp_len_le]) whenever total_dist is not negative. *)
From RM Require Import Model.SliderEvents Proofs.SliderEventsFacts Proofs.SliderEventsIEEE
     Proofs.SliderEventsMono Proofs.FloatNonneg.
From RM Require Import Gen.Generated.
From Flocq Require Import Core BinarySingleNaN.
From Coq Require Import Reals Lra Lia ZArith List.
Import ListNotations.

(* ---------- any arithmetic ---------- *)

Section Generic.
  Context {F : Type} (OP : fops F).

  Lemma tick_dists_oof tf : forall len mdfe td d,
    tick_dists OP tf len mdfe td d = OutOfFuel ->
    forall j, (j < tf)%nat -> guard OP len mdfe (rsum OP td d j) = true.
  Proof.
    induction tf as [|k IH]; intros len mdfe td d H j Hj; [lia|].
    cbn [tick_dists] in H. fold (guard OP len mdfe d) in H.
    destruct (guard OP len mdfe d) eqn:G; [|discriminate].
    destruct (tick_dists OP k len mdfe td (f_add OP d td)) as [l| |] eqn:E; cbn [obind] in H; try discriminate.
    destruct j as [|j']; [exact G|]. cbn [rsum]. apply (IH _ _ _ _ E). lia.
  Qed.

  (* a span: its ticks and at most one repeat *)
  Lemma sp_span_length start dur len n ds s :
    (length (sp_span OP start dur len n ds s) <= length ds + 1)%nat.
  Proof.
    unfold sp_span. rewrite app_length.
    assert (length (if Z.odd s then rev (map (sp_tick OP start dur len s) ds)
                    else map (sp_tick OP start dur len s) ds) = length ds)
      by (destruct (Z.odd s); rewrite ?rev_length, map_length; reflexivity).
    destruct (s <? n - 1)%Z; cbn [length]; lia.
  Qed.

  Lemma flat_map_length_le {A B} (f : A -> list B) (m : nat) l :
    (forall a, length (f a) <= m)%nat -> (length (flat_map f l) <= length l * m)%nat.
  Proof.
    intros H. induction l as [|a r IH]; cbn [flat_map length]; [lia|].
    rewrite app_length. specialize (H a). lia.
  Qed.

  Lemma sp_events_length_le start dur len n ds :
    (length (sp_events OP start dur len n ds) <= 3 + Z.to_nat n * (length ds + 1))%nat.
  Proof.
    unfold sp_events. cbn [length]. rewrite app_length. cbn [length].
    pose proof (flat_map_length_le (sp_span OP start dur len n ds) (length ds + 1) (spans n)
                  (sp_span_length start dur len n ds)) as H.
    unfold spans in H at 2. rewrite map_length, seq_length in H. lia.
  Qed.
End Generic.

(* ---------- binary64 ---------- *)

Open Scope R_scope.

Local Notation fin x := (is_finite x = true).
Local Notation fexp64 := (SpecFloat.fexp 53 1024).
Local Notation RN := (round radix2 fexp64 (round_mode mode_NE)).

(* running sums of a non-negative tick distance are not negative *)
Lemma rsum_nn (td : F64) : nn64 td = true -> forall j d, nn64 d = true -> nn64 (rsum ops64 td d j) = true.
Proof.
  intros Ht. induction j as [|j IH]; intros d Hd; [exact Hd|].
  cbn [rsum]. apply IH. exact (nn64_add d td Hd Ht).
Qed.

(* m * 2^-k is a binary64 number for |m| < 2^53 and 0 <= k <= 1074 *)
Lemma dyadic_format (m k : Z) : (Z.abs m < 2 ^ 53)%Z -> (0 <= k <= 1074)%Z ->
  generic_format radix2 fexp64 (IZR m * bpow radix2 (- k)).
Proof.
  intros Hm Hk.
  change fexp64 with (FLT_exp (3 - 1024 - 53) 53).
  apply generic_format_FLT. exists (Float radix2 m (- k)).
  - unfold F2R. reflexivity.
  - cbn [Fnum]. change (radix2 ^ 53)%Z with (2 ^ 53)%Z. exact Hm.
  - cbn [Fexp]. lia.
Qed.

Lemma rsum_lower (td : F64) (k : Z) : (0 <= k <= 1074)%Z -> fin td -> bpow radix2 (- k) <= B2R td ->
  forall j, (Z.of_nat j + 1 < 2 ^ 53)%Z -> fin (rsum ops64 td td j) ->
  IZR (Z.of_nat j + 1) * bpow radix2 (- k) <= B2R (rsum ops64 td td j).
Proof.
  intros Hk Ft Hq. induction j as [|j IH]; intros Hj Fj.
  - cbn [rsum]. change (Z.of_nat 0 + 1)%Z with 1%Z. lra.
  - rewrite rsum_S in *. cbn [ops64 f_add] in *.
    destruct (fin_add_inv _ _ Fj) as (Fp & _).
    specialize (IH ltac:(lia) Fp).
    rewrite (add_R _ _ Fp Ft Fj).
    replace (Z.of_nat (S j) + 1)%Z with (Z.of_nat j + 1 + 1)%Z by lia.
    rewrite <- (round_generic radix2 fexp64 (round_mode mode_NE)
                  (IZR (Z.of_nat j + 1 + 1) * bpow radix2 (- k))).
    + apply RN_le. rewrite plus_IZR. lra.
    + apply dyadic_format; [|exact Hk]. lia.
Qed.

(* a value that passes `d <= len` against a finite len, and is not negative, is finite *)
Lemma le_finite_nn (x len : F64) : fin len -> nn64 x = true -> D.le x len = true ->
  fin x /\ B2R x <= B2R len.
Proof.
  intros Fl Hn Hle.
  assert (Fx : fin x).
  { destruct x as [s|s| |s m e H]; try reflexivity.
    - destruct s; [discriminate|]. destruct len as [sl|sl| |sl ml el Hl]; try discriminate;
        try (destruct sl); discriminate.
    - destruct len; discriminate. }
  split; [exact Fx|].
  unfold D.le, fle in Hle. rewrite (Bleb_correct 53 1024 x len Fx Fl) in Hle.
  apply Rle_bool_true_inv in Hle || idtac.
  destruct (Rle_bool_spec (B2R x) (B2R len)) as [H|H]; [exact H|discriminate].
Qed.

(* the tick loop of a span: at most L * 2^k ticks, and that much fuel (+2) suffices *)
Theorem span_dists_bound (len mdfe td : F64) (k L : Z) (tf : nat) :
  (0 <= k <= 1074)%Z -> (0 <= L)%Z -> (L * 2 ^ k + 2 < 2 ^ 53)%Z ->
  fin len -> B2R len <= IZR L ->
  fin td -> bpow radix2 (- k) <= B2R td ->
  (L * 2 ^ k + 1 < Z.of_nat tf)%Z ->
  exists ds, span_dists ops64 tf len mdfe td = Done ds /\ (Z.of_nat (length ds) <= L * 2 ^ k)%Z.
Proof.
  intros Hk HL Hbig Fl Hlen Ft Hq Htf.
  assert (Hpow : bpow radix2 (- k) * IZR (2 ^ k) = 1).
  { change 2%Z with (radix_val radix2). rewrite IZR_Zpower by lia. rewrite <- bpow_plus.
    replace (- k + k)%Z with 0%Z by lia. reflexivity. }
  assert (Hpos : 0 < bpow radix2 (- k)) by apply bpow_gt_0.
  assert (Hnn : nn64 td = true).
  { apply (@finite_R_nnb 53 1024); [exact Ft|lra]. }
  (* a running sum that passes the guard has index below L * 2^k *)
  assert (Key : forall j, (Z.of_nat j + 1 < 2 ^ 53)%Z ->
            guard ops64 len mdfe (rsum ops64 td td j) = true -> (Z.of_nat j + 1 <= L * 2 ^ k)%Z).
  { intros j Hj G. unfold guard in G. apply andb_prop in G. destruct G as (G & _).
    cbn [ops64 f_le] in G.
    destruct (le_finite_nn _ len Fl (rsum_nn td Hnn j td Hnn) G) as (Fj & Rj).
    pose proof (rsum_lower td k Hk Ft Hq j Hj Fj) as Hlow.
    assert (IZR (Z.of_nat j + 1) * bpow radix2 (- k) <= IZR L) by lra.
    apply le_IZR. rewrite mult_IZR.
    apply Rmult_le_reg_r with (bpow radix2 (- k)); [exact Hpos|].
    rewrite Rmult_assoc, (Rmult_comm (IZR (2 ^ k))), Hpow. lra. }
  unfold span_dists. destruct (f_lt ops64 (c_zero ops64) td); [|exists []; split; [reflexivity|cbn; lia]].
  destruct (tick_dists ops64 tf len mdfe td td) as [ds|w|] eqn:E.
  - exists ds. split; [reflexivity|].
    destruct (tick_dists_char ops64 tf _ _ _ _ _ E) as (_ & Hall & _).
    destruct ds as [|x r] eqn:Eds; [cbn; lia|].
    (* the last tick is running sum number length-1 *)
    destruct (tick_dists_char ops64 tf _ _ _ _ _ E) as (Hmap & _ & _).
    set (j := (length (x :: r) - 1)%nat).
    assert (Hj : guard ops64 len mdfe (rsum ops64 td td j) = true).
    { rewrite Forall_forall in Hall. apply Hall. rewrite Hmap at 1.
      apply in_map. apply in_seq. unfold j. cbn [length]. lia. }
    destruct (Z_lt_le_dec (Z.of_nat j + 1) (2 ^ 53)) as [Hs|Hs].
    + specialize (Key j Hs Hj). unfold j in Key. cbn [length] in *. lia.
    + (* an index beyond 2^53: then index L*2^k+1 also passes, contradiction *)
      exfalso. set (j0 := Z.to_nat (L * 2 ^ k + 1)).
      assert (Hj0 : guard ops64 len mdfe (rsum ops64 td td j0) = true).
      { rewrite Forall_forall in Hall. apply Hall. rewrite Hmap at 1.
        apply in_map. apply in_seq. unfold j0, j in *. cbn [length] in *. lia. }
      assert (Z.of_nat j0 + 1 <= L * 2 ^ k)%Z by (apply Key; [unfold j0; lia|exact Hj0]).
      unfold j0 in *. lia.
  - exfalso. exact (tick_dists_no_panic ops64 tf _ _ _ _ _ E).
  - exfalso. set (j0 := Z.to_nat (L * 2 ^ k + 1)).
    assert (Hj0 : guard ops64 len mdfe (rsum ops64 td td j0) = true).
    { apply (tick_dists_oof ops64 tf _ _ _ _ E). unfold j0. lia. }
    assert (Z.of_nat j0 + 1 <= L * 2 ^ k)%Z by (apply Key; [unfold j0; lia|exact Hj0]).
    unfold j0 in *. lia.
Qed.

(* ---------- the effective length of the iterator ---------- *)

Lemma max_len_sf : B2SF (c_max_len ops64) = SpecFloat.S754_finite false 6871947673600000 (-36).
Proof. vm_compute. reflexivity. Qed.

Lemma max_len_fin : fin (c_max_len ops64).
Proof. rewrite <- is_finite_SF_B2SF, max_len_sf. reflexivity. Qed.

Lemma max_len_R : B2R (c_max_len ops64) = 100000.
Proof.
  pose proof max_len_sf as H. destruct (c_max_len ops64) as [s|s| |s m e Hb]; try discriminate.
  cbn in H. inversion H; subst. unfold B2R, F2R. cbn. lra.
Qed.

(* len = MAX_LEN.min(total_dist): finite and within [0, 100000] unless total_dist < 0 *)
Lemma sp_len_le (p : params F64) : nn64 (p_total p) = true ->
  fin (sp_len ops64 p) /\ 0 <= B2R (sp_len ops64 p) <= 100000.
Proof.
  intros Hn. unfold sp_len. cbn [ops64 f_min].
  pose proof (sp_len_cases (p_total p)) as Hc. cbv zeta in Hc.
  rewrite nn64_lt_zero, Hn in Hc. cbn [negb] in Hc.
  pose proof max_len_fin as FM. pose proof max_len_R as RM.
  unfold D.min, fmin in *. fold D.is_nan D.lt in *. rewrite max_len_not_nan in *.
  destruct (D.is_nan (p_total p)) eqn:En.
  - split; [exact FM|]. rewrite RM. lra.
  - destruct (D.lt (p_total p) (c_max_len ops64)) eqn:El.
    + (* total < MAX_LEN and 0 <= total *)
      assert (Ft : fin (p_total p)).
      { destruct (p_total p) as [s|s| |s m e H]; try reflexivity; try discriminate.
        destruct s; [discriminate|]. destruct (c_max_len ops64); discriminate. }
      split; [exact Ft|].
      unfold D.lt, flt in El. rewrite (Bltb_correct 53 1024 _ _ Ft FM) in El.
      destruct (Rlt_bool_spec (B2R (p_total p)) (B2R (c_max_len ops64))) as [H|H]; [|discriminate].
      pose proof (@nnb_finite_R 53 1024 (p_total p) Ft Hn). lra.
    + split; [exact FM|]. rewrite RM. lra.
Qed.

(* ---------- a tick distance clamped to the length itself: at most one tick ---------- *)

Lemma double_format (x : F64) : fin x -> generic_format radix2 fexp64 (B2R x + B2R x).
Proof.
  intros Fx. pose proof (generic_format_B2R 53 1024 x) as G.
  change fexp64 with (FLT_exp (3 - 1024 - 53) 53) in *.
  apply FLT_format_generic in G; [|reflexivity]. destruct G as [f Hf Hm He].
  apply generic_format_FLT. exists (Float radix2 (Fnum f) (Fexp f + 1)).
  - rewrite Hf. unfold F2R. cbn [Fnum Fexp]. rewrite bpow_plus.
    replace (bpow radix2 1) with 2 by (cbn; lra). lra.
  - exact Hm.
  - cbn [Fexp]. lia.
Qed.

Lemma le_double_false (len : F64) : fin len -> 0 < B2R len -> D.le (D.add len len) len = false.
Proof.
  intros Fl Hpos. destruct (D.le (D.add len len) len) eqn:E; [|reflexivity]. exfalso.
  assert (Hn : nn64 len = true) by (apply (@finite_R_nnb 53 1024); [exact Fl|lra]).
  destruct (le_finite_nn _ len Fl (nn64_add len len Hn Hn) E) as (Fs & Rs).
  rewrite (add_R len len Fl Fl Fs) in Rs.
  rewrite round_generic in Rs; [lra|apply valid_rnd_N|apply double_format; exact Fl].
Qed.

Lemma span_dists_at_len (len mdfe : F64) (tf : nat) : fin len -> 0 < B2R len -> (2 <= tf)%nat ->
  exists ds, span_dists ops64 tf len mdfe len = Done ds /\ (length ds <= 1)%nat.
Proof.
  intros Fl Hpos Htf. unfold span_dists.
  destruct (f_lt ops64 (c_zero ops64) len); [|exists []; split; [reflexivity|cbn; lia]].
  destruct tf as [|[|k]]; try lia. cbn [tick_dists].
  destruct (f_le ops64 len len && negb (f_le ops64 (f_sub ops64 len mdfe) len))%bool;
    [|exists []; split; [reflexivity|cbn; lia]].
  cbn [ops64 f_add f_le]. rewrite (le_double_false len Fl Hpos). cbn [andb obind].
  exists [len]. split; [reflexivity|cbn; lia].
Qed.

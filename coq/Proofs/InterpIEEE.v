(* InterpIEEE: T19 in IEEE arithmetic -- the rounding error of the position
   on a segment computed by interpolate_vertices,

       p0 + (p1 - p0) * (((d - d0) / (d1 - d0)) as f32)

   (per coordinate: two binary64 subtractions, the binary64 division, the
   narrowing, and a binary32 subtraction, product and sum), against the SAME
   formula over the reals ([interp_R] of InterpExact) on the same inputs.

   Hypotheses: the two coordinates finite with |c| <= 2^20; d0, d1, d finite
   with 0 <= d0 <= d <= d1; the near-zero-segment guard of the code is false
   ( |fl(d0 - d1)| <= f64::EPSILON is false -- which 2^-51 <= d1 - d0
   guarantees ).  NO lower bound on d1 - d0 beyond the guard is needed and no
   upper bound on the lengths: the weight (d - d0) / (d1 - d0) lies in [0, 1].
   Result, per coordinate:
     | q.c - interp_R c0 c1 d0 d1 d |
         <=  E19 c0 c1 = 2^-24 * ( max |c0| |c1| + 3.01 * |c1 - c0| ) + 2^-125
   and its consequences: the point is within E19 of the segment, at d = d1 it
   is within E19 of the vertex p1, and it is locally Lipschitz in d up to
   2 * E19. *)
From RM Require Import Model.ControlPoints Model.Curve Proofs.FloatFacts Proofs.PositionFacts
  Proofs.InterpExact Proofs.LengthBound Proofs.AdjustExact Proofs.AdjustIEEEBase Proofs.AdjustIEEE Proofs.PositionEndIEEE.
From Flocq Require Import Core BinarySingleNaN.
From Coq Require Import Reals Lra Psatz.
Open Scope R_scope.

Local Notation fin x := (is_finite x = true).
Local Notation pw k := (bpow radix2 k).

(* ---------- binary64 subtraction of ordered non-negative numbers ---------- *)

Lemma D_sub_nonneg_spec (a b : F64) : fin a -> fin b -> 0 <= B2R b <= B2R a ->
  fin (D.sub a b) /\ rel (B2R (D.sub a b)) (B2R a - B2R b) u64.
Proof.
  intros Fa Fb H. destruct (sub_finite_bounded a b Fa Fb H) as (F & R). split; [exact F|].
  rewrite R, <- uro64. unfold Rminus.
  apply (RN_plus 53 1024 Hp64); [apply generic_format_B2R|apply generic_format_opp, generic_format_B2R].
Qed.

(* ---------- the interpolation weight ---------- *)

(* w = ((d - d0) / (d1 - d0)) as f32 for 0 <= d0 <= d <= d1, d0 < d1:
   w = W (1 + 1.001 u) + 2^-149 with W the exact weight in [0, 1] *)
Lemma weight_rela (d0 d1 d : F64) :
  fin d0 -> fin d1 -> fin d -> 0 <= B2R d0 -> B2R d0 <= B2R d <= B2R d1 -> B2R d0 < B2R d1 ->
  let w := f32_of_f64 (D.div (D.sub d d0) (D.sub d1 d0)) in
  let W := (B2R d - B2R d0) / (B2R d1 - B2R d0) in
  fin w /\ Rabs (B2R w) <= pw 1 /\ 0 <= W <= 1 /\ rela (B2R w) W (1.001 * u32) (pw (-149)).
Proof.
  intros F0 F1 Fd H0 [Hd0 Hd1] Hlt. cbv zeta.
  pose proof u32_pos as Up. pose proof u64_pos as Vp. pose proof u64_le as Vl.
  pose proof eta32_pos as E32. pose proof eta64_pos as E64.
  destruct (D_sub_nonneg_spec d d0 Fd F0 ltac:(lra)) as (FA & RA).
  destruct (D_sub_nonneg_spec d1 d0 F1 F0 ltac:(lra)) as (FB & RB).
  set (A := D.sub d d0) in *. set (B := D.sub d1 d0) in *.
  set (Dd := B2R d - B2R d0) in *. set (Dl := B2R d1 - B2R d0) in *.
  assert (HDl : 0 < Dl) by (unfold Dl; lra).
  assert (HB0 : 0 < B2R B) by (apply (rel_pos _ _ _ RB); [wk|exact HDl]).
  assert (HW : 0 <= Dd / Dl <= 1).
  { split.
    - apply Rmult_le_pos; [unfold Dd; lra|left; apply Rinv_0_lt_compat; exact HDl].
    - apply (Rmult_le_reg_r Dl); [exact HDl|]. unfold Rdiv. rewrite Rmult_assoc, Rinv_l by lra. unfold Dd, Dl. lra. }
  assert (RiB : rel (/ B2R B) (/ Dl) (1.001 * u64)).
  { apply (rel_inv _ _ u64); [exact RB|lra|wk|wk]. }
  assert (RAB : rel (B2R A / B2R B) (Dd / Dl) (2.002 * u64)).
  { eapply rel_weaken; [exact (rel_mul _ _ _ _ _ _ RA RiB)|]. unfold u64 in *. nra. }
  assert (MAB : Rabs (B2R A / B2R B) <= pw 1).
  { eapply Rle_trans; [apply (rel_abs_le _ _ _ RAB)|]. rewrite Rabs_pos_eq by lra.
    change (pw 1) with 2. unfold u64 in *. nra. }
  destruct (D_div_spec A B 1 FA FB (Rgt_not_eq _ _ HB0) ltac:(zl) MAB) as (FQ & MQ & RQ).
  destruct (f32_of_f64_spec _ 1 FQ ltac:(zl) MQ) as (Fw & Mw & Rw).
  split; [exact Fw|]. split; [exact Mw|]. split; [exact HW|].
  eapply rela_weaken; [exact (rela_round _ _ _ _ _ _ _ (rela_round _ _ _ _ _ _ _ (rel_rela _ _ _ RAB) RQ) Rw)| |].
  - unfold u32, u64 in *. nra.
  - assert (P : eta32 + eta32 = pw (-149)) by exact eta32_2.
    assert (Q : eta64 <= / 2 * eta32).
    { unfold eta64, eta32. apply Rle_trans with (pw (-151)); [apply bpow_le; zl|].
      change (-150)%Z with (-151 + 1)%Z. rewrite bpow_plus. change (pw 1) with 2.
      pose proof (bpow_gt_0 radix2 (-151)). lra. }
    rewrite <- P. unfold u32 in *. nra.
Qed.

(* ---------- one coordinate ---------- *)

Definition interp_coord_ieee (c0 c1 : F32) (d0 d1 d : F64) : F32 :=
  interp_coord_g D.sub D.div f32_of_f64 S.add S.sub S.mul c0 c1 d0 d1 d.

(* the error bound of one coordinate *)
Definition E19 (c0 c1 : R) : R := u32 * (Rmax (Rabs c0) (Rabs c1) + 3.01 * Rabs (c1 - c0)) + pw (-125).

Lemma E19_nonneg c0 c1 : 0 <= E19 c0 c1.
Proof.
  unfold E19. pose proof (Rabs_pos c0). pose proof (Rmax_l (Rabs c0) (Rabs c1)).
  pose proof (Rabs_pos (c1 - c0)). pose proof (bpow_gt_0 radix2 (-125)). pose proof u32_pos.
  assert (0 <= u32 * (Rmax (Rabs c0) (Rabs c1) + 3.01 * Rabs (c1 - c0))); [|lra].
  apply Rmult_le_pos; lra.
Qed.

(* a convex combination is not larger than the larger end *)
Lemma convex_abs_le c0 c1 W : 0 <= W <= 1 -> Rabs (c0 + (c1 - c0) * W) <= Rmax (Rabs c0) (Rabs c1).
Proof.
  intros HW. replace (c0 + (c1 - c0) * W) with ((1 - W) * c0 + W * c1) by ring.
  eapply Rle_trans; [apply Rabs_triang|]. rewrite !Rabs_mult, (Rabs_pos_eq (1 - W)), (Rabs_pos_eq W) by lra.
  pose proof (Rmax_l (Rabs c0) (Rabs c1)). pose proof (Rmax_r (Rabs c0) (Rabs c1)).
  pose proof (Rabs_pos c0). pose proof (Rabs_pos c1). nra.
Qed.

Lemma interp_coord_bound (c0 c1 : F32) (d0 d1 d : F64) :
  bnd32 c0 20 -> bnd32 c1 20 ->
  fin d0 -> fin d1 -> fin d -> 0 <= B2R d0 -> B2R d0 <= B2R d <= B2R d1 -> B2R d0 < B2R d1 ->
  fin (interp_coord_ieee c0 c1 d0 d1 d) /\
  Rabs (B2R (interp_coord_ieee c0 c1 d0 d1 d) - interp_R (B2R c0) (B2R c1) (B2R d0) (B2R d1) (B2R d))
  <= E19 (B2R c0) (B2R c1).
Proof.
  intros (Fc0 & Mc0) (Fc1 & Mc1) F0 F1 Fd H0 Hd Hlt.
  destruct (weight_rela d0 d1 d F0 F1 Fd H0 Hd Hlt) as (Fw & Mw & HW & Rw).
  pose proof u32_pos as Up. pose proof eta32_pos as E32.
  unfold interp_coord_ieee, interp_R, interp_coord_g.
  set (w := f32_of_f64 (D.div (D.sub d d0) (D.sub d1 d0))) in *.
  set (W := (B2R d - B2R d0) / (B2R d1 - B2R d0)) in *.
  set (Dc := B2R c1 - B2R c0).
  (* c1 - c0 *)
  destruct (S_sub_spec c1 c0 21 Fc1 Fc0 ltac:(zl) (abs_sub_bpow _ _ 20 Mc1 Mc0)) as (Fe & Me & Re). fold Dc in Re.
  assert (MDc : Rabs Dc <= pw 21) by (apply (abs_sub_bpow _ _ 20); assumption).
  (* (c1 - c0) * w *)
  destruct (S_mul_spec _ w 22 Fe Fw ltac:(zl) (abs_mul_bpow _ _ 21 1 Me Mw)) as (Fm & Mm & Rm).
  assert (MW : Rabs W <= 1) by (rewrite Rabs_pos_eq; lra).
  pose proof (rela_round _ _ _ _ _ _ _ (rela_mul _ _ _ _ _ _ _ _ (Rabs Dc) 1 (rel_rela _ _ _ Re) Rw (Rle_refl _) MW) Rm) as Am0.
  assert (Am : rela (B2R (S.mul (S.sub c1 c0) w)) (Dc * W) (3.003 * u32) (pw (-126))).
  { eapply rela_weaken; [exact Am0| |].
    - unfold u32 in *. nra.
    - assert (P21 : pw 21 = 2097152) by (cbn; lra).
      assert (Pa : pw (-149) * 4194304 = pw (-127)).
      { change (-127)%Z with (-149 + 22)%Z. rewrite bpow_plus. cbn. lra. }
      assert (Pb : pw (-127) * 2 = pw (-126)).
      { change (-126)%Z with (-127 + 1)%Z. rewrite bpow_plus. change (pw 1) with 2. ring. }
      assert (Pe : eta32 <= pw (-149)) by (unfold eta32; apply bpow_le; zl).
      pose proof (bpow_gt_0 radix2 (-149)) as Pp. pose proof (Rabs_pos Dc) as D0.
      rewrite P21 in MDc. rewrite <- Pb, <- Pa. unfold u32 in *. nra. }
  (* c0 + ... *)
  assert (Mc0' : Rabs (B2R c0) <= pw 22) by (apply (abs_le_bpow_mono _ 20); [exact Mc0|zl]).
  destruct (S_add_spec c0 _ 23 Fc0 Fm ltac:(zl) (abs_add_bpow _ _ 22 Mc0' Mm)) as (Fr & Mr & Rr).
  split; [exact Fr|].
  destruct Rr as (eps & Er & Be). destruct Am as (dd & h & Em & Bd & Bh).
  set (m := B2R (S.mul (S.sub c1 c0) w)) in *.
  rewrite Er. fold Dc W.
  replace ((B2R c0 + m) * (1 + eps) - (B2R c0 + Dc * W))
    with ((B2R c0 + Dc * W) * eps + (Dc * W * dd + h) * (1 + eps)) by (rewrite Em; ring).
  pose proof (convex_abs_le (B2R c0) (B2R c1) W HW) as HC. fold Dc in HC.
  set (M := Rmax (Rabs (B2R c0)) (Rabs (B2R c1))) in *.
  assert (HDW : Rabs (Dc * W) <= Rabs Dc).
  { rewrite Rabs_mult. rewrite <- (Rmult_1_r (Rabs Dc)) at 2. apply Rmult_le_compat_l; [apply Rabs_pos|exact MW]. }
  assert (B1 : Rabs ((B2R c0 + Dc * W) * eps) <= M * u32).
  { rewrite Rabs_mult. apply Rmult_le_compat; try apply Rabs_pos; assumption. }
  assert (B2 : Rabs (Dc * W * dd + h) <= Rabs Dc * (3.003 * u32) + pw (-126)).
  { eapply Rle_trans; [apply Rabs_triang|]. apply Rplus_le_compat; [|exact Bh].
    rewrite Rabs_mult. apply Rmult_le_compat; try apply Rabs_pos; assumption. }
  assert (B3 : Rabs (1 + eps) <= 1 + u32).
  { eapply Rle_trans; [apply Rabs_triang|]. rewrite Rabs_R1. lra. }
  assert (B4 : Rabs ((Dc * W * dd + h) * (1 + eps)) <= (Rabs Dc * (3.003 * u32) + pw (-126)) * (1 + u32)).
  { rewrite Rabs_mult. apply Rmult_le_compat; try apply Rabs_pos; assumption. }
  eapply Rle_trans; [apply Rabs_triang|].
  assert (P126 : pw (-126) * 2 = pw (-125)).
  { change (-125)%Z with (-126 + 1)%Z. rewrite bpow_plus. change (pw 1) with 2. ring. }
  pose proof (bpow_gt_0 radix2 (-126)) as P0. pose proof (Rabs_pos Dc) as D0.
  unfold E19. fold Dc M. rewrite <- P126. unfold u32 in *. lra.
Qed.

(* ---------- the guard of the code ---------- *)

Lemma eps_R : fin D.eps /\ B2R D.eps = pw (-52).
Proof.
  assert (H : B2SF D.eps = SpecFloat.S754_finite false 4503599627370496 (-104)) by (vm_compute; reflexivity).
  destruct D.eps as [s|s| |s m e Hm]; try discriminate. cbn in H. inversion H; subst.
  split; [reflexivity|]. unfold B2R, F2R. cbn. lra.
Qed.

(* outside the guard the two lengths are different numbers *)
Lemma guard_false_lt (d0 d1 : F64) : fin d0 -> fin d1 -> 0 <= B2R d0 <= B2R d1 ->
  D.le (D.abs (D.sub d0 d1)) D.eps = false -> B2R d0 < B2R d1.
Proof.
  intros F0 F1 H Hg. pose proof (guard_false_nonzero d0 d1 F0 F1 H Hg) as Hnz.
  destruct (Rle_lt_or_eq_dec _ _ (proj2 H)) as [Hlt|Heq]; [exact Hlt|]. exfalso. apply Hnz.
  destruct (sub_finite_bounded d1 d0 F1 F0 H) as (_ & R). rewrite R, Heq, Rminus_diag_eq by reflexivity.
  apply round_0. apply valid_rnd_N.
Qed.

(* a gap of 2^-51 (twice f64::EPSILON) is outside the guard *)
Lemma guard_false_of_gap (d0 d1 : F64) : fin d0 -> fin d1 -> 0 <= B2R d0 -> pw (-51) <= B2R d1 - B2R d0 ->
  D.le (D.abs (D.sub d0 d1)) D.eps = false.
Proof.
  intros F0 F1 H0 Hgap. pose proof (bpow_gt_0 radix2 (-51)) as P51.
  pose proof (Bminus_correct 53 1024 Hp64 He64 mode_NE d0 d1 F0 F1) as C.
  assert (Hle : RN64 (B2R d0 - B2R d1) <= - pw (-51)).
  { rewrite <- (round_generic radix2 (SpecFloat.fexp 53 1024) (round_mode mode_NE) (- pw (-51))).
    - apply round_le; [apply (fexp_correct 53 1024 Hp64)|apply valid_rnd_N|lra].
    - apply generic_format_opp, generic_format_bpow. unfold SpecFloat.fexp, SpecFloat.emin. clear. lia. }
  assert (Hab : Rabs (RN64 (B2R d0 - B2R d1)) <= B2R d1).
  { apply abs_round_le_generic; [apply (fexp_correct 53 1024 Hp64)|apply valid_rnd_N|apply generic_format_B2R|].
    rewrite Rabs_left1 by lra. lra. }
  rewrite Rlt_bool_true in C.
  - destruct C as (CR & CF & _). destruct eps_R as (Fe & Re).
    unfold D.le, fle, D.abs, fabs, D.sub, fsub.
    rewrite Bleb_correct; [|rewrite is_finite_Babs; exact CF|exact Fe].
    rewrite B2R_Babs, CR, Re. apply Rle_bool_false. rewrite Rabs_left1 by lra.
    apply Rlt_le_trans with (pw (-51)); [apply bpow_lt; clear; lia|lra].
  - apply Rle_lt_trans with (1 := Hab). pose proof (abs_B2R_lt_emax 53 1024 d1) as Hb.
    rewrite Rabs_pos_eq in Hb by lra. exact Hb.
Qed.

(* ---------- interpolate_vertices ---------- *)

Definition interp_hyps (p0 p1 : Pos) (d0 d1 d : F64) : Prop :=
  bnd32 (px p0) 20 /\ bnd32 (py p0) 20 /\ bnd32 (px p1) 20 /\ bnd32 (py p1) 20 /\
  fin d0 /\ fin d1 /\ fin d /\ 0 <= B2R d0 /\ B2R d0 <= B2R d <= B2R d1 /\
  D.le (D.abs (D.sub d0 d1)) D.eps = false.

Lemma interp_hyps_lt p0 p1 d0 d1 d : interp_hyps p0 p1 d0 d1 d -> B2R d0 < B2R d1.
Proof.
  intros (_ & _ & _ & _ & F0 & F1 & _ & H0 & Hd & Hg). apply guard_false_lt; try assumption. lra.
Qed.

Theorem interpolation_ieee_bound path lengths i d p0 p1 d0 d1 :
  nth_error path i = Some p0 -> nth_error path (S i) = Some p1 ->
  nth_error lengths i = Some d0 -> nth_error lengths (S i) = Some d1 ->
  interp_hyps p0 p1 d0 d1 d ->
  exists q, interpolate_vertices path lengths (S i) d = Done q /\
    fin (px q) /\ fin (py q) /\
    Rabs (B2R (px q) - interp_R (B2R (px p0)) (B2R (px p1)) (B2R d0) (B2R d1) (B2R d)) <= E19 (B2R (px p0)) (B2R (px p1)) /\
    Rabs (B2R (py q) - interp_R (B2R (py p0)) (B2R (py p1)) (B2R d0) (B2R d1) (B2R d)) <= E19 (B2R (py p0)) (B2R (py p1)).
Proof.
  intros H0 H1 L0 L1 H. pose proof (interp_hyps_lt _ _ _ _ _ H) as Hlt.
  destruct H as (Bx0 & By0 & Bx1 & By1 & F0 & F1 & Fd & Hd0 & Hd & Hg).
  rewrite (interpolate_between path lengths i d p0 p1 d0 d1 H0 H1 L0 L1), Hg, model_interp.
  eexists. split; [reflexivity|]. cbn [px py].
  destruct (interp_coord_bound (px p0) (px p1) d0 d1 d Bx0 Bx1 F0 F1 Fd Hd0 Hd Hlt) as (Fx & Ex).
  destruct (interp_coord_bound (py p0) (py p1) d0 d1 d By0 By1 F0 F1 Fd Hd0 Hd Hlt) as (Fy & Ey).
  repeat split; assumption.
Qed.

(* (a) the computed point is within E19 (per coordinate) of a point of the segment [p0, p1] *)
Theorem interpolation_near_segment path lengths i d p0 p1 d0 d1 :
  nth_error path i = Some p0 -> nth_error path (S i) = Some p1 ->
  nth_error lengths i = Some d0 -> nth_error lengths (S i) = Some d1 ->
  interp_hyps p0 p1 d0 d1 d ->
  exists q w, interpolate_vertices path lengths (S i) d = Done q /\ 0 <= w <= 1 /\
    Rabs (B2R (px q) - ((1 - w) * B2R (px p0) + w * B2R (px p1))) <= E19 (B2R (px p0)) (B2R (px p1)) /\
    Rabs (B2R (py q) - ((1 - w) * B2R (py p0) + w * B2R (py p1))) <= E19 (B2R (py p0)) (B2R (py p1)).
Proof.
  intros H0 H1 L0 L1 H. pose proof (interp_hyps_lt _ _ _ _ _ H) as Hlt.
  destruct (interpolation_ieee_bound path lengths i d p0 p1 d0 d1 H0 H1 L0 L1 H) as (q & Hq & _ & _ & Ex & Ey).
  destruct H as (_ & _ & _ & _ & _ & _ & _ & Hd0 & Hd & _).
  exists q, ((B2R d - B2R d0) / (B2R d1 - B2R d0)). split; [exact Hq|]. split.
  - split.
    + apply Rmult_le_pos; [lra|left; apply Rinv_0_lt_compat; lra].
    + apply (Rmult_le_reg_r (B2R d1 - B2R d0)); [lra|]. unfold Rdiv. rewrite Rmult_assoc, Rinv_l by lra. lra.
  - unfold interp_R, interp_coord_g in Ex, Ey. split.
    + replace ((1 - (B2R d - B2R d0) / (B2R d1 - B2R d0)) * B2R (px p0) + (B2R d - B2R d0) / (B2R d1 - B2R d0) * B2R (px p1))
        with (B2R (px p0) + (B2R (px p1) - B2R (px p0)) * ((B2R d - B2R d0) / (B2R d1 - B2R d0))) by ring. exact Ex.
    + replace ((1 - (B2R d - B2R d0) / (B2R d1 - B2R d0)) * B2R (py p0) + (B2R d - B2R d0) / (B2R d1 - B2R d0) * B2R (py p1))
        with (B2R (py p0) + (B2R (py p1) - B2R (py p0)) * ((B2R d - B2R d0) / (B2R d1 - B2R d0))) by ring. exact Ey.
Qed.

(* (b) vertex hit: at a distance numerically equal to d1 the position is the
   vertex p1 up to E19 (the weight is exactly 1 there -- PositionEndIEEE --
   so the result is fl(p0 + fl(p1 - p0))) *)
Theorem interpolation_vertex_hit path lengths i d p0 p1 d0 d1 :
  nth_error path i = Some p0 -> nth_error path (S i) = Some p1 ->
  nth_error lengths i = Some d0 -> nth_error lengths (S i) = Some d1 ->
  interp_hyps p0 p1 d0 d1 d -> B2R d = B2R d1 ->
  interpolate_vertices path lengths (S i) d = Done (padd p0 (psub p1 p0)) /\
  Rabs (B2R (px (padd p0 (psub p1 p0))) - B2R (px p1)) <= E19 (B2R (px p0)) (B2R (px p1)) /\
  Rabs (B2R (py (padd p0 (psub p1 p0))) - B2R (py p1)) <= E19 (B2R (py p0)) (B2R (py p1)).
Proof.
  intros H0 H1 L0 L1 H He. pose proof (interp_hyps_lt _ _ _ _ _ H) as Hlt.
  destruct (interpolation_ieee_bound path lengths i d p0 p1 d0 d1 H0 H1 L0 L1 H) as (q & Hq & _ & _ & Ex & Ey).
  destruct H as ((Fx0 & Mx0) & (Fy0 & My0) & (Fx1 & Mx1) & (Fy1 & My1) & F0 & F1 & Fd & Hd0 & Hd & Hg).
  destruct (S_sub_spec (px p1) (px p0) 21 Fx1 Fx0 ltac:(zl) (abs_sub_bpow _ _ 20 Mx1 Mx0)) as (Fdx & _).
  destruct (S_sub_spec (py p1) (py p0) 21 Fy1 Fy0 ltac:(zl) (abs_sub_bpow _ _ 20 My1 My0)) as (Fdy & _).
  pose proof (interpolate_at_equal_length path lengths i p0 p1 d0 d1 d H0 H1 L0 L1 F0 F1 Fd ltac:(lra) He Fdx Fdy) as HI.
  rewrite Hg in HI. rewrite HI in Hq. injection Hq as <-.
  split; [exact HI|]. rewrite He in Ex, Ey.
  rewrite interp_R_at_d1 in Ex, Ey by (apply Rgt_not_eq; lra). split; assumption.
Qed.

(* (c) local Lipschitz bound on one segment, per coordinate and Euclidean *)
Theorem interpolation_local_lipschitz path lengths i a b p0 p1 d0 d1 :
  nth_error path i = Some p0 -> nth_error path (S i) = Some p1 ->
  nth_error lengths i = Some d0 -> nth_error lengths (S i) = Some d1 ->
  interp_hyps p0 p1 d0 d1 a -> interp_hyps p0 p1 d0 d1 b ->
  let Ex := E19 (B2R (px p0)) (B2R (px p1)) in
  let Ey := E19 (B2R (py p0)) (B2R (py p1)) in
  let k := Rabs (B2R a - B2R b) / (B2R d1 - B2R d0) in
  exists qa qb,
    interpolate_vertices path lengths (S i) a = Done qa /\
    interpolate_vertices path lengths (S i) b = Done qb /\
    Rabs (B2R (px qa) - B2R (px qb)) <= Rabs (B2R (px p1) - B2R (px p0)) * k + 2 * Ex /\
    Rabs (B2R (py qa) - B2R (py qb)) <= Rabs (B2R (py p1) - B2R (py p0)) * k + 2 * Ey /\
    edist (R2 qa) (R2 qb) <= edist (R2 p0) (R2 p1) * k + 2 * (Ex + Ey).
Proof.
  intros H0 H1 L0 L1 Ha Hb Ex Ey k. pose proof (interp_hyps_lt _ _ _ _ _ Ha) as Hlt.
  destruct (interpolation_ieee_bound path lengths i a p0 p1 d0 d1 H0 H1 L0 L1 Ha) as (qa & Hqa & _ & _ & Eax & Eay).
  destruct (interpolation_ieee_bound path lengths i b p0 p1 d0 d1 H0 H1 L0 L1 Hb) as (qb & Hqb & _ & _ & Ebx & Eby).
  exists qa, qb. split; [exact Hqa|]. split; [exact Hqb|].
  assert (Hne : B2R d1 <> B2R d0) by (apply Rgt_not_eq; lra).
  assert (HD : 0 < B2R d1 - B2R d0) by lra.
  assert (Hk : forall c0 c1, Rabs (interp_R c0 c1 (B2R d0) (B2R d1) (B2R a) - interp_R c0 c1 (B2R d0) (B2R d1) (B2R b))
                             = Rabs (c1 - c0) * k).
  { intros c0 c1. rewrite (interp_R_affine c0 c1 (B2R d0) (B2R d1) (B2R a) (B2R b) Hne).
    unfold k, Rdiv. rewrite !Rabs_mult, (Rabs_pos_eq (/ (B2R d1 - B2R d0))) by (left; apply Rinv_0_lt_compat; exact HD).
    reflexivity. }
  set (rax := interp_R (B2R (px p0)) (B2R (px p1)) (B2R d0) (B2R d1) (B2R a)) in *.
  set (ray := interp_R (B2R (py p0)) (B2R (py p1)) (B2R d0) (B2R d1) (B2R a)) in *.
  set (rbx := interp_R (B2R (px p0)) (B2R (px p1)) (B2R d0) (B2R d1) (B2R b)) in *.
  set (rby := interp_R (B2R (py p0)) (B2R (py p1)) (B2R d0) (B2R d1) (B2R b)) in *.
  pose proof (Hk (B2R (px p0)) (B2R (px p1))) as Kx. fold rax rbx in Kx.
  pose proof (Hk (B2R (py p0)) (B2R (py p1))) as Ky. fold ray rby in Ky.
  fold Ex in Eax, Ebx. fold Ey in Eay, Eby.
  assert (Tx : Rabs (B2R (px qa) - B2R (px qb)) <= Rabs (B2R (px p1) - B2R (px p0)) * k + 2 * Ex).
  { replace (B2R (px qa) - B2R (px qb)) with ((B2R (px qa) - rax) + (rax - rbx) + - (B2R (px qb) - rbx)) by ring.
    eapply Rle_trans; [apply Rabs_triang|]. eapply Rle_trans; [apply Rplus_le_compat_r, Rabs_triang|].
    rewrite Rabs_Ropp, Kx. lra. }
  assert (Ty : Rabs (B2R (py qa) - B2R (py qb)) <= Rabs (B2R (py p1) - B2R (py p0)) * k + 2 * Ey).
  { replace (B2R (py qa) - B2R (py qb)) with ((B2R (py qa) - ray) + (ray - rby) + - (B2R (py qb) - rby)) by ring.
    eapply Rle_trans; [apply Rabs_triang|]. eapply Rle_trans; [apply Rplus_le_compat_r, Rabs_triang|].
    rewrite Rabs_Ropp, Ky. lra. }
  split; [exact Tx|]. split; [exact Ty|].
  (* Euclidean: through the two exact points *)
  pose proof (edist_triangle (R2 qa) (rax, ray) (R2 qb)) as T1.
  pose proof (edist_triangle (rax, ray) (rbx, rby) (R2 qb)) as T2.
  pose proof (edist_le_l1 (R2 qa) (rax, ray)) as La. cbn [R2 fst snd] in La.
  pose proof (edist_le_l1 (rbx, rby) (R2 qb)) as Lb. cbn [R2 fst snd] in Lb.
  rewrite (Rabs_minus_sym rbx), (Rabs_minus_sym rby) in Lb.
  assert (Hmid : edist (rax, ray) (rbx, rby) = edist (R2 p0) (R2 p1) * k).
  { assert (k0 : 0 <= k) by (unfold k; apply Rmult_le_pos; [apply Rabs_pos|left; apply Rinv_0_lt_compat; exact HD]).
    apply edist_eq; [apply Rmult_le_pos; [apply edist_ge0|exact k0]|]. cbn [fst snd].
    rewrite Rpow_mult_distr, edist_sq. cbn [R2 fst snd].
    replace ((rbx - rax) ^ 2) with (Rabs (rax - rbx) ^ 2) by (rewrite pow2_abs; ring).
    replace ((rby - ray) ^ 2) with (Rabs (ray - rby) ^ 2) by (rewrite pow2_abs; ring).
    rewrite Kx, Ky, !Rpow_mult_distr, !pow2_abs. ring. }
  lra.
Qed.

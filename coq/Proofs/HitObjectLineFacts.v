(* Facts about Model/HitObjectLine.v: the transcribed parse_hit_objects is
   total (no Panic, no OutOfFuel) and computes the declarative [line_spec_with]
   of Model/HitObjectSpec.v; consequences clause by clause. *)
From RM Require Import Model.Text Model.Num Model.HitSamples Model.PathString
     Model.HitObjectLine Model.HitObjectSpec.
From RM Require Import Proofs.HitSamplesFacts Proofs.PathStringFacts Proofs.FloatFacts14.
From RM Require Import Gen.Generated.
From Coq Require Import ZifyBool.
Open Scope Z_scope.

(* ---------- type-flag arithmetic ---------- *)
Lemma has_flag_bit : forall f t, 0 < f -> f = 2 ^ Z.log2 f -> has_flag t f = flag_bit f t.
Proof. intros. unfold has_flag. apply mask_flag_bit; assumption. Qed.

Definition cleared (t : Z) : Z :=
  Z.land (Z.land t (Z.lnot hot_combo_offset)) (Z.lnot hot_new_combo).

Lemma cleared_kept : forall t, cleared t = kept_type t.
Proof.
  intros t. unfold cleared, kept_type.
  change (hot_combo_offset + hot_new_combo) with (Z.lor hot_combo_offset hot_new_combo).
  rewrite Z.ldiff_land, Z.lnot_lor, Z.land_assoc. reflexivity.
Qed.

Lemma cleared_bit : forall t k, 0 <= k ->
  Z.testbit hot_combo_offset k = false -> Z.testbit hot_new_combo k = false ->
  Z.testbit (cleared t) k = Z.testbit t k.
Proof.
  intros t k Hk H1 H2. unfold cleared.
  rewrite !Z.land_spec, !Z.lnot_spec, H1, H2 by assumption. cbn. rewrite !andb_true_r. reflexivity.
Qed.

Lemma cleared_flag : forall f t, 0 < f -> f = 2 ^ Z.log2 f ->
  Z.testbit hot_combo_offset (Z.log2 f) = false -> Z.testbit hot_new_combo (Z.log2 f) = false ->
  has_flag (cleared t) f = flag_bit f t.
Proof.
  intros f t Hf Hp H1 H2. rewrite has_flag_bit by assumption. unfold flag_bit.
  apply cleared_bit; try assumption. apply Z.log2_nonneg.
Qed.

Lemma new_combo_flag : forall t,
  has_flag (Z.land t (Z.lnot hot_combo_offset)) hot_new_combo = flag_bit hot_new_combo t.
Proof.
  intros t. rewrite has_flag_bit by reflexivity. unfold flag_bit.
  rewrite Z.land_spec, Z.lnot_spec by (vm_compute; discriminate).
  change (Z.testbit hot_combo_offset (Z.log2 hot_new_combo)) with false.
  cbn. apply andb_true_r.
Qed.

Lemma combo_offset_bits : forall t, Z.shiftr (Z.land t hot_combo_offset) 4 = combo_bits t.
Proof.
  intros t. unfold combo_bits. rewrite Z.shiftr_land.
  change (Z.shiftr hot_combo_offset 4) with (Z.ones 3).
  rewrite Z.land_ones by lia. rewrite Z.shiftr_div_pow2 by lia. reflexivity.
Qed.

Lemma combo_bits_range : forall t, 0 <= combo_bits t <= 7.
Proof. intros t. unfold combo_bits. pose proof (Z.mod_pos_bound (t / 16) 8). lia. Qed.

Lemma sound_byte : forall n, Z.land n 255 = n mod 256.
Proof. intros n. change 255 with (Z.ones 8). rewrite Z.land_ones by lia. reflexivity. Qed.

(* ---------- the common head ---------- *)
Definition header_of (f : Fields) : Header :=
  mkHeader (f_pos f) (f_start f) (kept_type (f_type f)) (flag_bit hot_new_combo (f_type f))
           (combo_bits (f_type f)) (f_sound f) (f_rest f).

Lemma parse_header_spec : forall line,
  parse_header line = omap header_of (common_spec line).
Proof.
  intros line. unfold parse_header, common_spec, parse_coord, parse_sound_type.
  destruct (split_on 44 (trim_comment line)) as [|x [|y [|t [|ty [|sn rest]]]]]; try reflexivity.
  cbn [nth_error skipn].
  destruct (pn_f32_lim coord_lim32 x) as [xv|]; cbn [omap]; [|reflexivity].
  destruct (pn_f32_lim coord_lim32 y) as [yv|]; cbn [omap]; [|reflexivity].
  destruct (pn_f64 t) as [tv|]; [|reflexivity].
  destruct (parse_i32_raw ty) as [tyv|]; [|reflexivity].
  destruct (parse_i32_raw sn) as [sv|]; cbn [omap]; [|reflexivity].
  unfold header_of. cbn [f_pos f_start f_type f_sound f_rest].
  rewrite combo_offset_bits, new_combo_flag, sound_byte.
  fold (cleared tyv). rewrite cleared_kept. reflexivity.
Qed.

(* ---------- integers from ParseNumber stay within the limit ---------- *)
Lemma pn_i32_range : forall s n, pn_i32 s = Some n -> - max_parse_value <= n <= max_parse_value.
Proof.
  intros s n. unfold pn_i32, pn_i32_lim. destruct (parse_i32_raw (trim s)) as [m|]; [|discriminate].
  destruct (m <? - max_parse_value) eqn:E1; [discriminate|].
  destruct (max_parse_value <? m) eqn:E2; [discriminate|]. intros [= <-]. lia.
Qed.

(* ---------- node samples ---------- *)
Lemma all_some_length : forall {A} (l : list (option A)) r, all_some l = Some r -> length r = length l.
Proof.
  intros A l. induction l as [|[x|] l IH]; intros r; cbn [all_some].
  - intros [= <-]. reflexivity.
  - destruct (all_some l) as [r'|]; cbn [omap]; [|discriminate]. intros [= <-]. cbn. f_equal. apply IH. reflexivity.
  - discriminate.
Qed.

Lemma map_seq_shift : forall {A} (f : nat -> A) k n, map f (seq (S k) n) = map (fun i => f (S i)) (seq k n).
Proof. intros A f k n. rewrite <- seq_shift, map_map. reflexivity. Qed.

Lemma zip_banks_nil : forall infos, zip_banks infos [] = Some infos.
Proof. intros [|b br]; reflexivity. Qed.

Lemma all_some_const : forall {A} (x : A) n, all_some (map (fun _ => Some x) (seq 0 n)) = Some (replicate n x).
Proof.
  intros A x n. generalize 0%nat. induction n as [|n IH]; intros k; cbn [seq map all_some replicate]; [reflexivity|].
  rewrite IH. reflexivity.
Qed.

Lemma zip_banks_spec : forall n b sets,
  zip_banks (replicate n b) sets = all_some (map (node_bank_at b sets) (seq 0 n)).
Proof.
  intros n b. induction n as [|n IH]; intros sets.
  - destruct sets; reflexivity.
  - cbn [replicate seq map]. destruct sets as [|s sr].
    + rewrite zip_banks_nil. unfold node_bank_at at 1. cbn [nth_error all_some].
      rewrite map_seq_shift.
      replace (map (fun i => node_bank_at b [] (S i)) (seq 0 n)) with (map (fun _ : nat => Some b) (seq 0 n))
        by (apply map_ext; intros i; unfold node_bank_at; destruct i; reflexivity).
      rewrite all_some_const. reflexivity.
    + cbn [zip_banks]. unfold node_bank_at at 1. cbn [nth_error all_some].
      rewrite read_custom_sample_banks_spec.
      destruct (banks_spec b (split_on 58 s) false) as [b'|]; [|reflexivity].
      rewrite IH, map_seq_shift. reflexivity.
Qed.

Lemma zip_sounds_nil : forall sounds, zip_sounds sounds [] = sounds.
Proof. intros [|x r]; reflexivity. Qed.

Lemma map_const_seq : forall {A} (f : nat -> A) x k n, (forall i, f i = x) -> map f (seq k n) = replicate n x.
Proof.
  intros A f x k n H. revert k. induction n as [|n IH]; intros k; cbn [seq map replicate]; [reflexivity|].
  rewrite H, IH. reflexivity.
Qed.

Lemma zip_sounds_spec : forall n s toks,
  zip_sounds (replicate n s) toks = map (node_sound_at s toks) (seq 0 n).
Proof.
  intros n s. induction n as [|n IH]; intros toks.
  - destruct toks; reflexivity.
  - destruct toks as [|t tr].
    + rewrite zip_sounds_nil. symmetry. apply map_const_seq.
      intros i. unfold node_sound_at. destruct i; reflexivity.
    + cbn [replicate seq map zip_sounds]. unfold node_sound_at at 1. cbn [nth_error]. f_equal.
      rewrite IH, map_seq_shift. reflexivity.
Qed.

Lemma zip_convert_spec : forall banks (f : nat -> Z) k,
  zip_convert banks (map f (seq k (length banks)))
  = map (fun ib : nat * SampleBankInfo => samples_spec (snd ib) (f (fst ib)))
        (combine (seq k (length banks)) banks).
Proof.
  intros banks f. induction banks as [|b br IH]; intros k; [reflexivity|].
  cbn [length seq map zip_convert combine fst snd].
  rewrite convert_sound_type_spec, IH. reflexivity.
Qed.

Lemma zip_convert_spec' : forall n banks (f : nat -> Z), length banks = n ->
  zip_convert banks (map f (seq 0 n))
  = map (fun ib : nat * SampleBankInfo => samples_spec (snd ib) (f (fst ib))) (combine (seq 0 n) banks).
Proof. intros n banks f <-. apply zip_convert_spec. Qed.

Lemma replicate_length : forall {A} n (x : A), length (replicate n x) = n.
Proof. intros A n x. induction n; cbn; congruence. Qed.

Lemma nonempty_pieces : forall o,
  pieces o = match nonempty o with Some s => split_on 124 s | None => [] end.
Proof. intros [[|c s]|]; reflexivity. Qed.

(* ---------- slider fields before the path ---------- *)
Lemma parse_slider_pre_spec : forall sound rest,
  parse_slider_pre sound rest = Done (slider_fields_spec sound rest).
Proof.
  intros sound rest. unfold parse_slider_pre, slider_fields_spec.
  destruct rest as [|path [|rep r2]]; try reflexivity.
  cbn [nth_error obnd].
  destruct (pn_i32 rep) as [rc0|] eqn:Erc; [|reflexivity].
  destruct (repeat_cap <? rc0) eqn:Ecap; [reflexivity|].
  pose proof (pn_i32_range _ _ Erc) as Hrange.
  assert (Hnp : (rc0 - 1 <? i32_min) = false).
  { unfold i32_min. unfold max_parse_value in Hrange. change (2 ^ 31) with 2147483648. lia. }
  rewrite Hnp.
  destruct r2 as [|ln r3]; cbn [next nth_error].
  - (* no further field *)
    cbn [length_spec]. replace (Z.max 0 (rc0 - 1) <? 0) with false by lia.
    cbn [nonempty]. unfold node_samples_spec. cbn [pieces].
    set (n := Z.to_nat (Z.max 0 (rc0 - 1) + 2)).
    rewrite <- zip_banks_spec, zip_banks_nil. cbn [omap].
    rewrite <- (map_const_seq (node_sound_at sound []) sound 0 n)
      by (intros i; unfold node_sound_at; destruct i; reflexivity).
    rewrite (zip_convert_spec' n) by apply replicate_length. reflexivity.
  - unfold length_spec.
    destruct (pn_f64_lim coord_lim64 ln) as [v|]; cbn [omap]; [|reflexivity].
    pose proof (length_rule v) as Hl. cbv zeta in Hl. cbv zeta. rewrite Hl. clear Hl.
    set (len := if D.ge v D.eps then Some v else None).
    set (o8 := fst (next r3)). set (o9 := fst (next (snd (next r3)))).
    set (o10 := fst (next (snd (next (snd (next r3)))))).
    assert (E8 : nth_error (path :: rep :: ln :: r3) 3 = o8) by (destruct r3; reflexivity).
    assert (E9 : nth_error (path :: rep :: ln :: r3) 4 = o9) by (destruct r3 as [|? [|? ?]]; reflexivity).
    assert (E10 : nth_error (path :: rep :: ln :: r3) 5 = o10) by (destruct r3 as [|? [|? [|? ?]]]; reflexivity).
    cbn [nth_error] in E8, E9, E10. rewrite E8, E9, E10.
    replace (let '(next_8, r4) := next r3 in
             let '(next_9, r5) := next r4 in
             let '(next_10, _) := next r5 in _)
      with (match (match o10 with
                   | Some s => read_custom_sample_banks sbi_default (split_on 58 s) true
                   | None => Some sbi_default end) with
            | None => Done None
            | Some bank_info =>
                if Z.max 0 (rc0 - 1) <? 0 then Panic 150
                else
                  let nodes := Z.to_nat (Z.max 0 (rc0 - 1) + 2) in
                  match (match nonempty o9 with
                         | Some s => zip_banks (replicate nodes bank_info) (split_on 124 s)
                         | None => Some (replicate nodes bank_info) end) with
                  | None => Done None
                  | Some node_bank_infos =>
                      let node_sound_types :=
                        match nonempty o8 with
                        | Some s => zip_sounds (replicate nodes sound) (split_on 124 s)
                        | None => replicate nodes sound
                        end in
                      Done (Some (mkSliderPre path (Z.max 0 (rc0 - 1)) len
                                    (zip_convert node_bank_infos node_sound_types) bank_info))
                  end
            end)
      by (subst o8 o9 o10; destruct r3 as [|a [|b [|c r6]]]; reflexivity).
    clearbody o8 o9 o10.
    assert (H10 : (match o10 with
                   | Some s => banks_spec sbi_default (split_on 58 s) true
                   | None => Some sbi_default end)
                  = (match o10 with
                     | Some s => read_custom_sample_banks sbi_default (split_on 58 s) true
                     | None => Some sbi_default end)).
    { destruct o10; [rewrite read_custom_sample_banks_spec|]; reflexivity. }
    rewrite H10. clear H10.
    destruct (match o10 with
              | Some s => read_custom_sample_banks sbi_default (split_on 58 s) true
              | None => Some sbi_default end) as [bank|]; [|reflexivity].
    replace (Z.max 0 (rc0 - 1) <? 0) with false by lia. cbv zeta.
    set (n := Z.to_nat (Z.max 0 (rc0 - 1) + 2)).
    unfold node_samples_spec.
    assert (Hb : (match nonempty o9 with
                  | Some s => zip_banks (replicate n bank) (split_on 124 s)
                  | None => Some (replicate n bank) end)
                 = all_some (map (node_bank_at bank (pieces o9)) (seq 0 n))).
    { rewrite nonempty_pieces. destruct (nonempty o9).
      - apply zip_banks_spec.
      - rewrite <- zip_banks_spec. symmetry. apply zip_banks_nil. }
    rewrite Hb.
    destruct (all_some (map (node_bank_at bank (pieces o9)) (seq 0 n))) as [banks|] eqn:Eb; [|reflexivity].
    cbn [omap]. do 2 f_equal. f_equal.
    assert (Hs : (match nonempty o8 with
                  | Some s => zip_sounds (replicate n sound) (split_on 124 s)
                  | None => replicate n sound end)
                 = map (node_sound_at sound (pieces o8)) (seq 0 n)).
    { rewrite nonempty_pieces. destruct (nonempty o8).
      - apply zip_sounds_spec.
      - rewrite <- zip_sounds_spec. destruct n; reflexivity. }
    rewrite Hs.
    apply all_some_length in Eb. rewrite map_length, seq_length in Eb.
    apply zip_convert_spec'. exact Eb.
Qed.

(* ---------- the whole line ---------- *)
Lemma next_nth0 : forall {A} (l : list A), fst (next l) = nth_error l 0.
Proof. intros A [|x r]; reflexivity. Qed.

Lemma read_extras_spec : forall o, read_extras o sbi_default = extras_spec o.
Proof. intros [s|]; [apply read_custom_sample_banks_spec|reflexivity]. Qed.

Lemma forced_new_combo_spec : forall st t,
  forced_new_combo st (flag_bit hot_new_combo t) = starts_combo st t.
Proof.
  intros st t. unfold forced_new_combo, starts_combo, first_object, last_object_was_spinner.
  destruct (ho_last st) as [k|].
  - rewrite !has_flag_bit by reflexivity. cbn [orb].
    unfold type_is_spinner, kind_of_type.
    destruct (flag_bit hot_circle k), (flag_bit hot_slider k), (flag_bit hot_spinner k),
      (flag_bit hot_hold k), (flag_bit hot_new_combo t); reflexivity.
  - cbn [orb]. rewrite orb_true_r. reflexivity.
Qed.

(* the spinner test of the parser is the kind precedence applied to the remembered type *)
Lemma last_object_was_spinner_spec : forall st,
  last_object_was_spinner st =
  match ho_last st with Some k => type_is_spinner k | None => false end.
Proof.
  intros st. unfold last_object_was_spinner. destruct (ho_last st) as [k|]; [|reflexivity].
  rewrite !has_flag_bit by reflexivity. unfold type_is_spinner, kind_of_type.
  destruct (flag_bit hot_circle k), (flag_bit hot_slider k), (flag_bit hot_spinner k),
    (flag_bit hot_hold k); reflexivity.
Qed.

Theorem parse_hit_objects_spec : forall st line,
  exists scratch, parse_hit_objects st line = Done (line_spec_with st line scratch).
Proof.
  intros st line. unfold parse_hit_objects, line_spec_with.
  rewrite parse_header_spec.
  destruct (common_spec line) as [f|]; cbn [omap]; [|exists []; reflexivity].
  unfold parse_kind, header_of, kind_of_type.
  cbn [hd_type hd_rest hd_pos hd_start hd_new_combo hd_combo_offset hd_sound].
  rewrite <- !cleared_kept.
  rewrite !cleared_flag by reflexivity.
  rewrite cleared_kept.
  set (t := f_type f). set (r := f_rest f).
  destruct (flag_bit hot_circle t).
  { (* circle *)
    rewrite next_nth0, read_extras_spec.
    destruct (extras_spec (nth_error r 0)) as [bank|]; [|exists []; reflexivity].
    exists []. unfold accept. rewrite forced_new_combo_spec, convert_sound_type_spec. reflexivity. }
  destruct (flag_bit hot_slider t).
  { (* slider *)
    rewrite parse_slider_pre_spec.
    destruct (slider_fields_spec (f_sound f) r) as [pre|]; [|exists []; reflexivity].
    destruct (convert_path_str_spec (mkPB [] (ho_vertices st)) (spre_point_str pre) (f_pos f))
      as [V HV].
    rewrite HV. cbn [pb_curve app].
    destruct (path_spec (spre_point_str pre) (f_pos f)) as [cps ok]. cbn [fst snd].
    exists V. destruct ok.
    - unfold accept, set_bufs. cbn [pb_curve pb_vertices ho_last ho_curve ho_vertices ho_objects ho_mode].
      rewrite convert_sound_type_spec.
      replace (forced_new_combo (mkHO (ho_last st) [] V (ho_objects st) (ho_mode st)) (flag_bit hot_new_combo t))
        with (starts_combo st t) by (rewrite <- forced_new_combo_spec; reflexivity).
      reflexivity.
    - reflexivity. }
  destruct (flag_bit hot_spinner t).
  { (* spinner *)
    destruct r as [|dur r1]; [exists []; reflexivity|].
    change (nth_error (dur :: r1) 0) with (Some dur).
    change (nth_error (dur :: r1) 1) with (nth_error r1 0). cbn [obnd].
    destruct (pn_f64 dur) as [d|]; [|exists []; reflexivity].
    rewrite next_nth0, read_extras_spec.
    destruct (extras_spec (nth_error r1 0)) as [bank|]; [|exists []; reflexivity].
    exists []. unfold accept. rewrite convert_sound_type_spec. reflexivity. }
  destruct (flag_bit hot_hold t); [|exists []; reflexivity].
  (* hold *)
  rewrite next_nth0.
  destruct (nth_error r 0) as [[|c s]|]; cbn [nonempty].
  - exists []. unfold accept. rewrite convert_sound_type_spec. reflexivity.
  - destruct (split_on 58 (c :: s)) as [|e_s ss] eqn:Esp; [exfalso; eapply split_on_nonnil; exact Esp|].
    cbn [nth_error obnd skipn].
    destruct (pn_f64 e_s) as [e|]; [|exists []; reflexivity].
    rewrite read_custom_sample_banks_spec.
    destruct (banks_spec sbi_default ss false) as [bank|]; [|exists []; reflexivity].
    exists []. unfold accept. rewrite convert_sound_type_spec. reflexivity.
  - exists []. unfold accept. rewrite convert_sound_type_spec. reflexivity.
Qed.

(* no panic, on all inputs (needed by C01) *)
Corollary parse_hit_objects_total : forall st line,
  exists st' r, parse_hit_objects st line = Done (st', r).
Proof.
  intros st line. destruct (parse_hit_objects_spec st line) as [scratch H].
  destruct (line_spec_with st line scratch) as [st' r] eqn:E. exists st', r. exact H.
Qed.

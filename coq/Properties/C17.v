(* C17 -- Computed paths follow the exact curves within tolerance.
   Statements only ([exact] of lemmas from Proofs).

   Proved, IEEE arithmetic, every input, any libm (T17a): linear segments copy
   their vertices; a Bezier / B-spline segment starts with its first control
   point and ends with its last (pure routine and the code-level routine with
   arbitrary scratch buffers); perfect curves that are not three points, are
   collinear (|det| <= f32::EPSILON) or would need >= 1000 sub-points fall back
   to Bezier; an arc has exactly sub_points vertices with 2 <= sub_points <
   1000; Catmull emits 2 * CATMULL_DETAIL vertices per span; the joint vertex
   produced identically by two consecutive segments is removed (rotate_left +
   pop = deletion of that one vertex), and only then.

   Proved, EXACT (real) arithmetic, on definitions shared with the model --
   each routine is written once over abstract operations, the model is the
   IEEE instance (by reflexivity / a structural lemma, C17_model_...), the
   theorems speak about the instance over the reals:
     T17b de Casteljau subdivision; T17c the Catmull-Rom polynomial identity;
     T17d circum-centre and arc points;
     T17e the two-sided Hausdorff bounds between the computed polyline and the
     exact curve:
       arc      4 * CIRCULAR_ARC_TOLERANCE = 0.4 (C17_arc_hausdorff).  NOT 0.1:
                the source takes ceil(range / (2 acos(1 - tol/r))) VERTICES, one
                chord less than the tolerance asks for, so the angle per chord
                can be twice the tolerated one and the sagitta 4 tol - 2 tol^2/r
                (C17_arc_tolerance_0_1_refuted: 0.38 at r = 1; same in lazer);
       Bezier   n (2n - 1) / 8 * (2 * BEZIER_TOLERANCE), n = degree, for the whole
                subdivision loop (C17_bezier_hausdorff); convex-hull property
                (C17_bezier_convex_hull);
       Catmull  vertices ON the Catmull-Rom curve, chords within
                (1/8) (1/50)^2 max(|P''(0)|, |P''(1)|) <= 3 L / 10000, L = longest
                edge of the control polygon (C17_catmull_span_hausdorff,
                C17_catmull_hausdorff); osu!-mode simplification: kept and full
                polyline within 6 px of each other (C17_catmull_simplification_hausdorff);
       linear   distance 0 (C17_linear_exact).

   Proved, IEEE binary32 against the EXACT curve of the same binary32 control
   points (T17f; finite coordinates |c| <= 2^E; Proofs/VertexIEEE*.v):
     linear   the computed vertices ARE the control points (C17_linear_ieee_exact);
     Catmull  every computed vertex coordinate within E_cat E = 72 * 2^(E-24) of
              the Catmull-Rom polynomial at k/50 resp. (k+1)/50 -- the rounding
              of t = fl(k/50) included (C17_catmull_vertex_ieee); in the plane:
              vertices within 3/2 E_cat E, chord points within S/8/2500 +
              3/2 E_cat E of the curve point of the same parameter
              (C17_catmull_span_hausdorff_ieee, C17_catmull_hausdorff_ieee; the
              last span uses the COMPUTED phantom point fl(2 v3 - v2), which is
              within 3 * 2^(E-24) of 2 v3 - v2: C17_catmull_phantom_point);
              osu! mode: the simplification loop as computed (binary32
              distance widened to binary64, compared with 6.0) keeps the
              kept and the full computed polyline within 6 + 2^-19 of each
              other, both ways, for vertices within 2^20
              (C17_catmull_simplification_hausdorff_ieee; control points
              within 2^16: C17_catmull_then_simplify_ieee);
     Bezier   for n * 2^E <= 2^22 (so the loop returns at depth <= 19, T01g):
              the two-sided Hausdorff bound Kbez (n-1) + E_bez E (n-1) 19
              between the polyline emitted by the binary32 subdivision loop
              and the exact Bezier curve -- vertices, chord points and curve
              points (C17_bezier_hausdorff_ieee; C17_bezier_hausdorff_ieee_depth
              for any depth bound d of the binary32 tree); E_bez is explicit
              (pin_E_bez), e.g. <= 1/40 for cubic segments with |c| <= 1024;
              the same with the smaller allowance E_bez_t (pin_E_bez_t), whose
              only depth-dependent term is 3/2 (k + 1) m u: for cubics
              E_bez_t E 3 19 <= 2^-19 + 161 * 2^(E-25)
              (C17_bezier_hausdorff_ieee_tight, C17_E_bez_t_cubic).

     arc      under explicit accuracy hypotheses on libm's sin / cos (finite,
              |result| <= 1, within el of the real function; hypotheses of the
              theorem, not axioms): every vertex of the emitted arc is within
              E_arc E el = 2^E (el + 2^-47) + 2^(E-23) per coordinate of the
              vertex of the EXACT arc with the same centre, radius, start
              angle, range and number of points -- the real numbers denoted by
              the computed arc properties (C17_arc_vertex_ieee,
              C17_arc_vertices_ieee; the binary64 angle arithmetic:
              C17_arc_angle_ieee, 2^-47); hence the two-sided bound
              sag_n + 3/2 E_arc between the emitted polyline and that exact
              arc, sag_n = r (1 - cos (range / (2 (n - 1)))) being the sagitta
              for the number of points n the code computed
              (C17_arc_hausdorff_ieee_partial; over the reals for any n:
              C17_arc_hausdorff_any_count).

   NOT proved (the property stays PARTIAL for this reason only):
     - circular arcs, the rest: (i) sag_n <= 4 * tolerance for the COMPUTED
       number of points (C17_arc_hausdorff is about the count taken over the
       reals; the computed count goes through acosf, a binary32 division and
       ceil), (ii) the error of the computed centre, radius, start angle and
       range themselves against the circle through the three control points
       (circum-centre cancellation, atan2), (iii) that libm meets the accuracy
       hypotheses.  These are MEASURED by the oracle of harness/src/c17.rs
       against curves evaluated in f64, with the exact bounds above plus an
       explicit rounding slack;
     - that the second control point of a perfect curve lies on the arc that
       is run through (the direction choice), and the angle of the last
       vertex: T17d has the end points under libm hypotheses only;
     - D19 (radius >~ 1e6): the "(int)Infinity" branch; excluded from
       C17_arc_hausdorff by hypothesis. *)
From RM Require Import Model.ControlPoints Model.Curve Gen.Generated Proofs.BezierRefine Proofs.PathFacts
  Proofs.CatmullFacts Proofs.ArcExact Proofs.DeCasteljau Proofs.BezierTermination Proofs.SimplifyExact
  Proofs.HausdorffPlane Proofs.HausdorffArc Proofs.HausdorffBezierCore Proofs.HausdorffBezier
  Proofs.HausdorffCatmull Proofs.HausdorffCatmullDeriv Proofs.HausdorffSimplify
  Proofs.BezierIEEE Proofs.BezierIEEETight Proofs.VertexIEEEBase Proofs.VertexIEEECatmull Proofs.VertexIEEECatmullPath
  Proofs.VertexIEEEBezierScalar Proofs.VertexIEEEBezier Proofs.VertexIEEEBezierPath Proofs.VertexIEEEBezierTight Proofs.VertexIEEEArc Proofs.VertexIEEEArcPath Proofs.VertexIEEESimplify.
From Flocq Require Import Core BinarySingleNaN.
From Coq Require Import Reals.
Open Scope Z_scope.

(* ---------- the approximation tolerances named by the property ---------- *)
Example pin_bezier_tolerance : bezier_tolerance_dec = (false, 25, -2).          (* 0.25 *)
Proof. reflexivity. Qed.
Example pin_catmull_detail : catmull_detail = 50.
Proof. reflexivity. Qed.
Example pin_circular_arc_tolerance : circular_arc_tolerance_dec = (false, 1, -1). (* 0.1 *)
Proof. reflexivity. Qed.
Example pin_arc_subpoint_cap : arc_subpoint_cap = 1000.
Proof. reflexivity. Qed.
Example pin_catmull_simplify_dist : catmull_simplify_dist_dec = (false, 60, -1).  (* 6.0 *)
Proof. reflexivity. Qed.

(* ---------- segment end points ---------- *)

Theorem C17_linear_copies_vertices :
  forall (B : Type) (bezier : list Pos -> list Pos -> B -> outcome (list Pos * B)) lm osu path sub opt b,
  calculate_subpath bezier lm osu path sub Linear opt b = Done (path ++ sub, opt, b).
Proof. exact @linear_copies. Qed.
Print Assumptions C17_linear_copies_vertices.

Theorem C17_bezier_endpoints :
  forall fuel path points path',
  approximate_bezier_L1 fuel path points tt = Done (path', tt) ->
  exists mid, path' = path ++ hd pos0 points :: mid ++ [last points pos0].
Proof. exact bezier_endpoints. Qed.
Print Assumptions C17_bezier_endpoints.

Theorem C17_bezier_endpoints_code_level :
  forall fuel path points b path' b', bb_wf b ->
  approximate_bezier_L0 fuel path points b = Done (path', b') ->
  exists mid, path' = path ++ hd pos0 points :: mid ++ [last points pos0].
Proof. exact bezier_endpoints_L0. Qed.
Print Assumptions C17_bezier_endpoints_code_level.

(* ---------- fall-backs of perfect curves ---------- *)

Theorem C17_bspline_is_bezier :
  forall (B : Type) (bezier : list Pos -> list Pos -> B -> outcome (list Pos * B)) lm osu path sub opt b,
  calculate_subpath bezier lm osu path sub BSpline opt b = bez3 bezier path sub opt b.
Proof. exact @bspline_is_bezier. Qed.
Print Assumptions C17_bspline_is_bezier.

Theorem C17_perfect_not_three_points_is_bezier :
  forall (B : Type) (bezier : list Pos -> list Pos -> B -> outcome (list Pos * B)) lm osu path sub opt b,
  length sub <> 3%nat ->
  calculate_subpath bezier lm osu path sub PerfectCurve opt b = bez3 bezier path sub opt b.
Proof. exact @perfect_not_three. Qed.
Print Assumptions C17_perfect_not_three_points_is_bezier.

Theorem C17_perfect_three_points :
  forall (B : Type) (bezier : list Pos -> list Pos -> B -> outcome (list Pos * B)) lm osu path a m c opt b,
  calculate_subpath bezier lm osu path [a; m; c] PerfectCurve opt b =
  obind (approximate_circular_arc lm a m c) (fun o =>
    match o with
    | Some arc => Done (path ++ arc, opt, b)
    | None => bez3 bezier path [a; m; c] opt b
    end).
Proof. exact @perfect_three. Qed.
Print Assumptions C17_perfect_three_points.

Theorem C17_collinear_falls_back :
  forall lm a b c, S.le (S.abs (arc_det a b c)) S.eps = true -> approximate_circular_arc lm a b c = Done None.
Proof. exact collinear_no_arc. Qed.
Print Assumptions C17_collinear_falls_back.

(* an arc needing >= arc_subpoint_cap sub-points falls back; otherwise it has
   exactly sub_points vertices, between 2 and 999 *)
Theorem C17_arc_vertex_count_and_enormous_fall_back :
  forall lm a b c,
  match circular_arc_properties lm a b c with
  | Done (Some pr) =>
      if arc_subpoint_cap <=? arc_sub_points lm pr
      then approximate_circular_arc lm a b c = Done None
      else exists arc, approximate_circular_arc lm a b c = Done (Some arc) /\
                       length arc = Z.to_nat (arc_sub_points lm pr) /\
                       (2 <= length arc < Z.to_nat arc_subpoint_cap)%nat
  | Done None => approximate_circular_arc lm a b c = Done None
  | Panic w => approximate_circular_arc lm a b c = Panic w
  | OutOfFuel => approximate_circular_arc lm a b c = OutOfFuel
  end.
Proof. exact arc_outcome. Qed.
Print Assumptions C17_arc_vertex_count_and_enormous_fall_back.

Theorem C17_catmull_vertex_count :
  forall points cat, approximate_catmull points = Done cat ->
  length cat = ((length points - 1) * (2 * Z.to_nat catmull_detail))%nat.
Proof. exact catmull_length. Qed.
Print Assumptions C17_catmull_vertex_count.

(* T17b [exact arithmetic]: bezier_subdivide.  The model's subdivision
   (avg_step / subdiv: repeated averaging of neighbours, heads -> left polygon,
   lasts -> right polygon) is the instance, for points and (a + b) / 2 in
   binary32, of the generic subdiv_g; for real coordinates (each coordinate
   separately: the averaging is component-wise) the two polygons evaluate, by
   de Casteljau's algorithm [dc], to the same curve as the parent on [0, 1/2]
   and on [1/2, 1] *)
Theorem C17_model_subdivision_is_generic :
  forall n m, subdiv n m = subdiv_g avg2 pos0 n m.
Proof. exact model_subdiv. Qed.
Print Assumptions C17_model_subdivision_is_generic.

Theorem C17_de_casteljau_subdivision :
  forall n (m : list R), length m = S n ->
  let '(L, Rr) := subdiv_g avgR 0%R (S n) m in
  forall t : R, dc n t L = dc n (t / 2) m /\ dc n t Rr = dc n ((1 + t) / 2) m.
Proof. exact de_casteljau_subdivision. Qed.
Print Assumptions C17_de_casteljau_subdivision.

(* T17c [exact arithmetic]: the Catmull coefficient/evaluation formulas of the
   model are written once over a record of scalar operations; read over the
   reals they are the uniform Catmull-Rom polynomial, which interpolates v2 at
   t = 0 and v3 at t = 1; the executable model instantiates the same two
   functions with the IEEE binary32 operations and evaluates them at c/50 and
   (c+1)/50, c = 0..49 (definition of catmull_subpath) *)
Theorem C17_catmull_formula_is_catmull_rom :
  forall v1 v2 v3 v4 t : R,
  catmull_eval_g real_ops (catmull_coord_g real_ops v1 v2 v3 v4) t = catmull_rom v1 v2 v3 v4 t.
Proof. exact catmull_is_catmull_rom. Qed.
Print Assumptions C17_catmull_formula_is_catmull_rom.

Theorem C17_catmull_interpolates_its_control_points :
  forall v1 v2 v3 v4 : R,
  catmull_eval_g real_ops (catmull_coord_g real_ops v1 v2 v3 v4) 0%R = v2 /\
  catmull_eval_g real_ops (catmull_coord_g real_ops v1 v2 v3 v4) 1%R = v3.
Proof. intros. split; [apply catmull_at_0|apply catmull_at_1]. Qed.
Print Assumptions C17_catmull_interpolates_its_control_points.

Theorem C17_model_uses_the_same_formulas :
  catmull_coord = catmull_coord_g f32_ops /\ catmull_eval = catmull_eval_g f32_ops.
Proof. exact model_uses_same_text. Qed.
Print Assumptions C17_model_uses_the_same_formulas.

(* T17d [exact arithmetic]: the circum-centre formula (Model/Curve.v:
   arc_centre_g, used by circular_arc_properties with the binary32 operations)
   read over the reals gives a point equidistant from a, b, c; an arc point
   centre + (cos, sin) * radius (arc_point is the IEEE instance of arc_coord_g)
   is at distance radius from the centre as soon as cos^2 + sin^2 = 1; it IS
   the vertex v when radius * (cos, sin) = v - centre, which is what
   theta_start = atan2(a - centre) (fraction 0) and theta_start + direction *
   range (fraction 1, the angle of c) give for an exact libm *)
Theorem C17_centre_equidistant :
  forall ax ay bx by_ cx cy : R, det2 ax ay bx by_ cx cy <> 0%R ->
  let '(X, Y) := arc_centre_g Rplus Rminus Rmult Rdiv 2%R ax ay bx by_ cx cy in
  sqd ax ay X Y = sqd bx by_ X Y /\ sqd ax ay X Y = sqd cx cy X Y.
Proof. exact centre_equidistant. Qed.
Print Assumptions C17_centre_equidistant.

Theorem C17_model_arc_point_formula :
  forall lm pr divisor directed i,
  arc_point lm pr divisor directed i =
  let theta := D.add (a_theta_start pr) (D.mul (D.div (D.of_Z (Z.of_nat i)) divisor) directed) in
  mkPos (arc_coord_g f32_of_f64 S.add S.mul (px (a_centre pr)) (l_cos lm theta) (a_radius pr))
        (arc_coord_g f32_of_f64 S.add S.mul (py (a_centre pr)) (l_sin lm theta) (a_radius pr)).
Proof. exact model_arc_point. Qed.
Print Assumptions C17_model_arc_point_formula.

Theorem C17_arc_points_on_the_circle :
  forall X Y r co si : R, (co ^ 2 + si ^ 2 = 1)%R ->
  sqd (arc_coord_R X co r) (arc_coord_R Y si r) X Y = (r ^ 2)%R.
Proof. exact arc_point_on_circle. Qed.
Print Assumptions C17_arc_points_on_the_circle.

Theorem C17_arc_end_points_are_the_vertices :
  forall X Y vx vy r co si : R, (r * co = vx - X)%R -> (r * si = vy - Y)%R ->
  arc_coord_R X co r = vx /\ arc_coord_R Y si r = vy.
Proof. exact arc_point_is_vertex. Qed.
Print Assumptions C17_arc_end_points_are_the_vertices.

(* ---------- the joint vertex appears once ---------- *)

(* the new segment's first vertex is dropped iff it equals (IEEE ==, per
   coordinate) the last vertex of the path so far ... *)
Theorem C17_joint_vertex_skipped_iff_equal :
  forall pre l x t, skip_first ((pre ++ [l]) ++ x :: t) (length (pre ++ [l])) = peqb l x.
Proof. exact skip_first_spec. Qed.
Print Assumptions C17_joint_vertex_skipped_iff_equal.

(* ... and dropping removes exactly that vertex *)
Theorem C17_joint_vertex_removed :
  forall pre x t, drop_joint (pre ++ x :: t) (length pre) = pre ++ t.
Proof. exact drop_joint_spec. Qed.
Print Assumptions C17_joint_vertex_removed.

Theorem C17_nothing_skipped_on_first_segment_or_empty_segment :
  forall path, skip_first path 0 = false /\ skip_first path (length path) = false.
Proof. intros. split; [apply skip_first_nil|apply skip_first_none]. Qed.
Print Assumptions C17_nothing_skipped_on_first_segment_or_empty_segment.

(* D19: the "(int)Infinity" workaround gives 2 sub-points whenever
   2 * acosf(1 - 0.1 / radius) is within f32::EPSILON of zero, whatever the
   angular range: such an arc never reaches the fall-back, however long it is *)
Theorem C17_degenerate_sub_point_count :
  forall lm pr,
  S.le (S.mul s2 (a_radius pr)) circular_arc_tolerance = false ->
  S.le (S.abs (S.mul s2 (l_acosf lm (S.sub S.one (S.div circular_arc_tolerance (a_radius pr)))))) S.eps = true ->
  arc_sub_points lm pr = 2.
Proof. exact arc_sub_points_degenerate. Qed.
Print Assumptions C17_degenerate_sub_point_count.

(* ... and that happens from a radius of a few 10^6 on: 1 - 0.1/r IS 1.0f32 *)
Example C17_D19_radius_argument :
  S.bits (S.sub S.one (S.div circular_arc_tolerance (S.of_Z 4000000))) = S.bits S.one /\
  S.bits (S.sub S.one (S.div circular_arc_tolerance (S.of_Z 1000000))) <> S.bits S.one.
Proof. vm_compute. split; [reflexivity|discriminate]. Qed.

(* ---------- concrete reading ---------- *)

Definition lm0 : Libm := mkLibm (fun x => x) (fun x => x) (fun y _ => y) (fun x => x).
Definition pt (x y : Z) (t : option SplineType) : PathControlPoint := mkPCP (mkPos (S.of_Z x) (S.of_Z y)) t.

(* non-vacuity: linear (0,0)->(10,0), then a Bezier (10,0) (10,10) (20,15):
   the joint (10,0) appears once; the path starts at (0,0), ends at (20,15),
   and the Bezier part has more than two vertices *)
Example C17_nonvacuous :
  match curve_L1 lm0 bezier_fuel 1
          [pt 0 0 (Some Linear); pt 10 0 (Some BSpline); pt 10 10 None; pt 20 15 None] None with
  | Done c =>
      (dump_pos (hd pos0 (c_path c)), dump_pos (last (c_path c) pos0),
       Nat.ltb 4 (length (c_path c)),
       length (filter (fun p => peqb p (mkPos (S.of_Z 10) (S.of_Z 0))) (c_path c)))
  | _ => ([], [], false, O)
  end
  = (dump_pos (mkPos (S.of_Z 0) (S.of_Z 0)), dump_pos (mkPos (S.of_Z 20) (S.of_Z 15)), true, 1%nat).
Proof. vm_compute. reflexivity. Qed.

(* ================================================================== *)
(* T17e [exact arithmetic]: the Hausdorff bounds                       *)
(* ================================================================== *)

(* the tolerances as real numbers *)
Example pin_arc_tol_R : arc_tol_R = (1 / 10)%R.
Proof. exact arc_tol_value. Qed.
Example pin_bez_tol_R : bez_tol_R = (1 / 4)%R /\ (bez_tol_R * bez_tol_R * 4 = 1 / 4)%R.
Proof. split; [exact bez_tol_value|exact bez_limit_value]. Qed.
Example pin_detail_R : detail_R = 50%R.
Proof. exact detail_value. Qed.
Example pin_simplify_dist_R : simplify_dist_R = 6%R.
Proof. exact simplify_dist_value. Qed.

(* ---------- circular arc ---------- *)

(* the sub-point count and the emitted arc of the model are the binary32 /
   binary64 instance of arc_sub_points_g / arc_path_g *)
Theorem C17_model_arc_sub_points_is_generic :
  forall lm pr,
  arc_sub_points lm pr =
  arc_sub_points_g S.le S.mul S.sub S.div S.abs (l_acosf lm) s2 S.one circular_arc_tolerance S.eps
                   f64_of_f32 D.div (fun x => f64_as_usize (D.ceil x)) (a_radius pr) (a_theta_range pr).
Proof. exact model_arc_sub_points. Qed.
Print Assumptions C17_model_arc_sub_points_is_generic.

Theorem C17_model_arc_path_is_generic :
  forall lm a b c pr,
  circular_arc_properties lm a b c = Done (Some pr) ->
  (arc_subpoint_cap <=? arc_sub_points lm pr) = false ->
  approximate_circular_arc lm a b c =
  Done (Some (map pos_of
    (arc_path_g (fun k => D.of_Z (Z.of_nat k)) D.add D.mul D.div (l_cos lm) (l_sin lm) f32_of_f64 S.add S.mul D.of_Z
                (px (a_centre pr)) (py (a_centre pr)) (a_radius pr) (a_theta_start pr)
                (a_direction pr) (a_theta_range pr) (arc_sub_points lm pr)))).
Proof. exact model_arc_path. Qed.
Print Assumptions C17_model_arc_path_is_generic.

(* real instance (cos, sin, acos of Coq's Reals): centre (X, Y), radius r,
   start angle ts, direction dir = +-1, range in [0, 2 PI]; eps stands for
   f32::EPSILON.  Hypotheses: the arc is emitted (count below the cap) and the
   "(int)Infinity" branch is not the one taken (D19).  Conclusion: n >= 2
   vertices, all ON the arc; every point of every chord within 4 tol of the
   arc; every point of the arc within 4 tol of a chord *)
Theorem C17_arc_hausdorff :
  forall X Y r ts dir range eps : R,
  (0 < r)%R -> (0 <= range <= 2 * PI)%R -> (dir = 1 \/ dir = -1)%R -> (0 <= eps)%R ->
  let n := arc_sub_points_R eps r range in
  let path := arc_path_R X Y r ts dir range n in
  let arc := arc_at X Y r ts dir range in
  n < arc_subpoint_cap ->
  ((arc_tol_R < 2 * r)%R -> (eps < 2 * acos (1 - arc_tol_R / r))%R) ->
  length path = Z.to_nat n /\ 2 <= n /\
  (forall i, (i < Z.to_nat n)%nat -> exists f, (0 <= f <= 1)%R /\ nth i path (0, 0)%R = arc f) /\
  (forall i s, (S i < Z.to_nat n)%nat -> (0 <= s <= 1)%R ->
     exists f, (0 <= f <= 1)%R /\
       (dist2 (lerp2 (nth i path (0, 0)%R) (nth (S i) path (0, 0)%R) s) (arc f) <= 4 * arc_tol_R)%R) /\
  (forall f, (0 <= f <= 1)%R ->
     exists i s, (S i < Z.to_nat n)%nat /\ (0 <= s <= 1)%R /\
       (dist2 (arc f) (lerp2 (nth i path (0, 0)%R) (nth (S i) path (0, 0)%R) s) <= 4 * arc_tol_R)%R).
Proof. exact arc_hausdorff. Qed.
Print Assumptions C17_arc_hausdorff.

(* the arc, and the sagitta that the comment in the source intends *)
Theorem C17_arc_points_have_radius_r :
  forall X Y r th : R, sqd2 (cpt X Y r th) (X, Y) = (r ^ 2)%R.
Proof. exact cpt_on_circle. Qed.
Print Assumptions C17_arc_points_have_radius_r.

Theorem C17_arc_intended_sagitta :
  forall r h : R, (0 < r)%R -> (arc_tol_R < 2 * r)%R -> (0 <= h <= acos (1 - arc_tol_R / r))%R ->
  (0 <= r * (1 - cos h) <= arc_tol_R)%R.
Proof. exact sagitta_intended. Qed.
Print Assumptions C17_arc_intended_sagitta.

(* ... which the vertex count does not deliver: radius 1, range = twice the
   tolerated angle, 2 vertices, the middle of the chord is 0.38 > 0.1 from
   EVERY point of the circle (and all hypotheses of C17_arc_hausdorff hold:
   this is also its non-vacuity example) *)
Theorem C17_arc_tolerance_0_1_refuted :
  let range := (4 * acos (9 / 10))%R in
  let n := arc_sub_points_R 0 1 range in
  let path := arc_path_R 0 0 1 0 1 range n in
  n = 2 /\ (0 <= range <= 2 * PI)%R /\ n < arc_subpoint_cap /\
  (0 < 2 * acos (1 - arc_tol_R / 1))%R /\
  forall th : R,
    (38 / 100 <= dist2 (lerp2 (nth 0 path (0, 0)%R) (nth 1 path (0, 0)%R) (1 / 2)) (cpt 0 0 1 th))%R.
Proof. exact arc_tolerance_not_met. Qed.
Print Assumptions C17_arc_tolerance_0_1_refuted.

(* ---------- Bezier / B-spline ---------- *)

Theorem C17_model_bezier_is_generic :
  forall fuel path points,
  approximate_bezier_L1 fuel path points tt =
  obind (approximate_bezier_g flat_enough sub32 bezier_approx_pts pos0 fuel path points) (fun p => Done (p, tt)).
Proof. exact model_approximate_bezier. Qed.
Print Assumptions C17_model_bezier_is_generic.

Theorem C17_model_bezier_pieces_are_generic :
  (forall points, bezier_approx_pts points = approx_pts_g avg2 tri pos0 points) /\
  (forall a b c, tri a b c = tri_g padd pmul s2 s_quarter a b c) /\
  (forall pts, flat_enough pts = flat_g far32 pts) /\
  (forall m, sub32 m = subdiv_g avg2 pos0 (length m) m).
Proof. repeat split; intros; reflexivity. Qed.
Print Assumptions C17_model_bezier_pieces_are_generic.

(* (a) convex hull: a strip |u . p - c| <= delta that contains the control
   points contains the curve *)
Theorem C17_bezier_convex_hull :
  forall (P : list RP) n (ux uy c delta t : R),
  length P = S n -> (0 <= t <= 1)%R ->
  (forall p, In p P -> (Rabs (ux * fst p + uy * snd p - c) <= delta)%R) ->
  (Rabs (ux * fst (Bez P t) + uy * snd (Bez P t) - c) <= delta)%R.
Proof. exact bezier_convex_hull. Qed.
Print Assumptions C17_bezier_convex_hull.

(* (b) one flat piece (all second differences <= 2 tol in norm): its polyline
   (emitted points, then the last control point), read at j / n, stays within
   Kbez n = n (2n - 1) / 8 * 2 tol of the curve at the same parameter *)
Theorem C17_bezier_flat_piece :
  forall (P : list RP) n' j (s : R),
  length P = S (S n') -> flat_R P = true -> (j < S n')%nat -> (0 <= s <= 1)%R ->
  (dist2 (Bez P ((INR j + s) / INR (S n'))) (lerp2 (nth j (Epts P) zeroRR) (nth (S j) (Epts P) zeroRR) s)
   <= Kbez (S n'))%R.
Proof. exact piece_close_2D. Qed.
Print Assumptions C17_bezier_flat_piece.

Example pin_Kbez : forall n, Kbez n = (INR n * (2 * INR n - 1) / 8 * (2 * bez_tol_R))%R.
Proof. reflexivity. Qed.

(* the whole routine (subdivision loop, T17b inside): whenever it returns,
   the emitted vertices, the emitted polyline and the exact curve Bez points
   are within Kbez (degree) of each other *)
Theorem C17_bezier_hausdorff :
  forall (points : list RP) n' (path0 : list RP) fuel (path' : list RP),
  length points = S (S n') ->
  approximate_bezier_R fuel path0 points = Done path' ->
  let K := Kbez (S n') in
  let B := Bez points in
  exists new, path' = path0 ++ new /\ (2 <= length new)%nat /\
    (forall k, (k < length new)%nat ->
       exists t, (0 <= t <= 1)%R /\ (dist2 (B t) (nth k new zeroRR) <= K)%R) /\
    (forall k s, (S k < length new)%nat -> (0 <= s <= 1)%R ->
       exists t, (0 <= t <= 1)%R /\ (dist2 (B t) (lerp2 (nth k new zeroRR) (nth (S k) new zeroRR) s) <= K)%R) /\
    (forall t, (0 <= t <= 1)%R ->
       exists k s, (S k < length new)%nat /\ (0 <= s <= 1)%R /\
         (dist2 (B t) (lerp2 (nth k new zeroRR) (nth (S k) new zeroRR) s) <= K)%R).
Proof. exact bezier_hausdorff. Qed.
Print Assumptions C17_bezier_hausdorff.

(* it does return, with the fuel of the model, for second differences up to 2^37 *)
Theorem C17_bezier_returns :
  forall (c : list RP) (M : R) path,
  c <> [] -> B2 M (dd (map fst c)) (dd (map snd c)) -> (0 <= M)%R -> (M <= 4 ^ 19 / 2)%R ->
  exists path', approximate_bezier_R bezier_fuel path c = Done path'.
Proof. exact approximate_bezier_R_returns. Qed.
Print Assumptions C17_bezier_returns.

Example C17_bezier_hausdorff_nonvacuous :
  exists path', approximate_bezier_R bezier_fuel [] [(0, 0); (1, 0); (0, 0)]%R = Done path'.
Proof. exact bezier_hausdorff_nonvacuous. Qed.

(* ---------- Catmull ---------- *)

Theorem C17_model_catmull_is_generic :
  forall points,
  approximate_catmull points =
  match approximate_catmull_g f32_ops S.div S.one catmull_detail_f of_nat32 phantom32 (map pair_of points) with
  | Done l => Done (map pos_of2 l)
  | Panic w => Panic w
  | OutOfFuel => OutOfFuel
  end.
Proof. exact model_approximate_catmull. Qed.
Print Assumptions C17_model_catmull_is_generic.

(* one span: 100 vertices, all ON the Catmull-Rom curve crP; the chord k stays
   within (1/8) (1/50)^2 S of the curve on [k/50, (k+1)/50], S bounding the
   second derivative at both ends of the span ([span_follows]) *)
Theorem C17_catmull_span_hausdorff :
  forall (v1 v2 v3 v4 : RP2) (S : R), (0 <= S)%R -> second_le S v1 v2 v3 v4 ->
  span_follows (S / 8 / 2500) v1 v2 v3 v4 (catmull_subpath_R v1 v2 v3 v4).
Proof. exact catmull_span_hausdorff. Qed.
Print Assumptions C17_catmull_span_hausdorff.

Example pin_span_follows : forall bound v1 v2 v3 v4 path,
  span_follows bound v1 v2 v3 v4 path <->
  (length path = 100%nat /\
   forall k, (k < 50)%nat ->
     nth (2 * k) path (0, 0)%R = crP v1 v2 v3 v4 (INR k / 50) /\
     nth (S (2 * k)) path (0, 0)%R = crP v1 v2 v3 v4 ((INR k + 1) / 50) /\
     forall s, (0 <= s <= 1)%R ->
       (dist2 (crP v1 v2 v3 v4 ((INR k + s) / 50))
              (lerp2 (nth (2 * k) path (0, 0)%R) (nth (S (2 * k)) path (0, 0)%R) s) <= bound)%R).
Proof. intros. reflexivity. Qed.

(* cr2, whose values at 0 and 1 second_le bounds, is the second derivative *)
Theorem C17_catmull_second_derivative :
  forall v1 v2 v3 v4 t : R,
  Coquelicot.Derive.is_derive_n (catmull_rom v1 v2 v3 v4) 2 t (cr2 v1 v2 v3 v4 t).
Proof. exact cr2_second_derivative. Qed.
Print Assumptions C17_catmull_second_derivative.

(* every parameter of [0, 1] lies on one of the 50 chords *)
Theorem C17_catmull_chords_cover_the_span :
  forall t : R, (0 <= t <= 1)%R -> exists k s, (k < 50)%nat /\ (0 <= s <= 1)%R /\ t = ((INR k + s) / 50)%R.
Proof. exact param_cover. Qed.
Print Assumptions C17_catmull_chords_cover_the_span.

(* the whole segment, as a function of the size of the control polygon: L =
   longest edge; every span follows its curve within 3 L / 10000 *)
Theorem C17_catmull_hausdorff :
  forall (points cat : list RP2) (L : R),
  approximate_catmull_R points = Done cat -> (0 <= L)%R -> edges_le L points ->
  let spans := catmull_spans phantomR points in
  cat = flat_map (span_path real_ops Rdiv 1%R detail_R INR) spans /\
  Forall (fun sp : span (T := R) => let '(v1, v2, v3, v4) := sp in
            span_follows (3 * L / 10000) v1 v2 v3 v4 (span_path real_ops Rdiv 1%R detail_R INR sp)) spans.
Proof. exact catmull_hausdorff. Qed.
Print Assumptions C17_catmull_hausdorff.

Example C17_catmull_hausdorff_nonvacuous :
  (exists cat, approximate_catmull_R [(0, 0); (10, 0)]%R = Done cat) /\ edges_le 10 [(0, 0); (10, 0)]%R.
Proof.
  split; [eexists; reflexivity|]. cbn [edges_le]. split; [|exact I].
  unfold sqd2, sqd. cbn [fst snd]. apply Req_le. ring.
Qed.

(* osu! mode: the simplification loop (the model runs the same loop:
   SimplifyExact.model_uses_same_loop) over the real plane, "far" = more than
   6 px from the start of the group.  Both polylines within 6 px of each other
   ([HD]: every point of either one has a point of the other within delta) *)
Theorem C17_catmull_simplification_hausdorff :
  forall sub_path : list (R * R), HD simplify_dist_R sub_path (catmull_simplify_R sub_path).
Proof. exact catmull_simplify_hausdorff. Qed.
Print Assumptions C17_catmull_simplification_hausdorff.

Example pin_HD : forall delta orig kept,
  HD delta orig kept <->
  ((forall q, on_poly orig q -> exists q', on_poly kept q' /\ (dist2 q q' <= delta)%R) /\
   (forall q', on_poly kept q' -> exists q, on_poly orig q /\ (dist2 q' q <= delta)%R)).
Proof. intros. reflexivity. Qed.

Example C17_simplification_nonvacuous :
  catmull_simplify_R [(0, 0); (1, 0); (10, 0)]%R = [(0, 0); (10, 0)]%R.
Proof. exact simplify_example. Qed.

(* ---------- linear ---------- *)

(* the path is the control polygon (C17_linear_copies_vertices, IEEE): distance 0 *)
Theorem C17_linear_exact : forall l : list (R * R), HD 0 l l.
Proof. intros l. apply HD_refl. apply Rle_refl. Qed.
Print Assumptions C17_linear_exact.

(* ================================================================== *)
(* T17f [IEEE binary32 vs the exact curve of the same control points]   *)
(* ================================================================== *)

(* hypotheses: finite coordinates of magnitude <= 2^E *)
Example pin_point_ok : forall E p,
  point_ok E p <-> ((is_finite (px p) = true /\ (Rabs (B2R (px p)) <= bpow radix2 E)%R) /\
                    (is_finite (py p) = true /\ (Rabs (B2R (py p)) <= bpow radix2 E)%R)).
Proof. intros. reflexivity. Qed.
Example pin_coordU : forall E k x,
  coordU E k x <-> (is_finite x = true /\ (Rabs (B2R x) <= k * bpow radix2 E)%R).
Proof. intros. reflexivity. Qed.
Example pin_posR : forall p, posR p = (B2R (px p), B2R (py p)).
Proof. intros. reflexivity. Qed.

(* ---------- linear ---------- *)

(* the computed sub-path is the list of control points itself (IEEE, every
   input): the real points of the computed vertices are the real control
   points, distance 0 *)
Theorem C17_linear_ieee_exact :
  forall (B : Type) (bezier : list Pos -> list Pos -> B -> outcome (list Pos * B)) lm osu path sub opt b,
  calculate_subpath bezier lm osu path sub Linear opt b = Done (path ++ sub, opt, b) /\
  HD 0 (map posR sub) (map posR sub).
Proof. intros. split; [apply @linear_copies|]. apply HD_refl. apply Rle_refl. Qed.
Print Assumptions C17_linear_ieee_exact.

(* ---------- Catmull ---------- *)

Example pin_E_cat : forall E, E_cat E = (72 * bpow radix2 (E - 24))%R.
Proof. reflexivity. Qed.

(* one coordinate of one vertex: control values v1 v2 v3 within 2^E, v4 within
   3 * 2^E (it may be the phantom point), t any binary32 number of [0, 1]
   within 2^-25 of the intended parameter q *)
Theorem C17_catmull_vertex_ieee :
  forall E v1 v2 v3 v4 t (q : R), 0 <= E <= 100 ->
  coordU E 1 v1 -> coordU E 1 v2 -> coordU E 1 v3 -> coordU E 3 v4 ->
  is_finite t = true -> (0 <= B2R t <= 1)%R -> (0 <= q <= 1)%R -> (Rabs (B2R t - q) <= bpow radix2 (-25))%R ->
  is_finite (catmull_eval (catmull_coord v1 v2 v3 v4) t) = true /\
  (Rabs (B2R (catmull_eval (catmull_coord v1 v2 v3 v4) t)
         - catmull_rom (B2R v1) (B2R v2) (B2R v3) (B2R v4) q) <= E_cat E)%R.
Proof. exact catmull_vertex_coord. Qed.
Print Assumptions C17_catmull_vertex_ieee.

(* the parameters the code uses: fl(c / 50) and fl(fl(c + 1) / 50) *)
Theorem C17_catmull_parameters_ieee :
  forall c, (c < 50)%nat ->
  let ta := S.div (S.of_Z (Z.of_nat c)) catmull_detail_f in
  let tb := S.div (S.add (S.of_Z (Z.of_nat c)) S.one) catmull_detail_f in
  (is_finite ta = true /\ (0 <= B2R ta <= 1)%R /\ (Rabs (B2R ta - INR c / 50) <= bpow radix2 (-25))%R) /\
  (is_finite tb = true /\ (0 <= B2R tb <= 1)%R /\ (Rabs (B2R tb - (INR c + 1) / 50) <= bpow radix2 (-25))%R).
Proof. intros c Hc. split; [apply catmull_param_a|apply catmull_param_b]; exact Hc. Qed.
Print Assumptions C17_catmull_parameters_ieee.

Example pin_vertex_near : forall e p q,
  vertex_near e p q <->
  ((is_finite (px p) = true /\ is_finite (py p) = true) /\
   (Rabs (B2R (px p) - fst q) <= e)%R /\ (Rabs (B2R (py p) - snd q) <= e)%R).
Proof. intros. reflexivity. Qed.

(* the 100 vertices of one span, as computed by the model *)
Theorem C17_catmull_subpath_ieee :
  forall E v1 v2 v3 v4, 0 <= E <= 100 ->
  pointU E 1 v1 -> pointU E 1 v2 -> pointU E 1 v3 -> pointU E 3 v4 ->
  let path := catmull_subpath v1 v2 v3 v4 in
  length path = 100%nat /\
  forall k, (k < 50)%nat ->
    vertex_near (E_cat E) (nth (2 * k) path pos0) (crP (posR v1) (posR v2) (posR v3) (posR v4) (INR k / 50)) /\
    vertex_near (E_cat E) (nth (S (2 * k)) path pos0) (crP (posR v1) (posR v2) (posR v3) (posR v4) ((INR k + 1) / 50)).
Proof. exact catmull_subpath_ieee. Qed.
Print Assumptions C17_catmull_subpath_ieee.

Example pin_span_follows_ieee : forall bound err v1 v2 v3 v4 path,
  span_follows_ieee bound err v1 v2 v3 v4 path <->
  (length path = 100%nat /\
   forall k, (k < 50)%nat ->
     (dist2 (crP v1 v2 v3 v4 (INR k / 50)) (nth (2 * k) path (0, 0)%R) <= err)%R /\
     (dist2 (crP v1 v2 v3 v4 ((INR k + 1) / 50)) (nth (S (2 * k)) path (0, 0)%R) <= err)%R /\
     forall s, (0 <= s <= 1)%R ->
       (dist2 (crP v1 v2 v3 v4 ((INR k + s) / 50))
              (lerp2 (nth (2 * k) path (0, 0)%R) (nth (S (2 * k)) path (0, 0)%R) s) <= bound + err)%R).
Proof. intros. reflexivity. Qed.

(* one span: the computed polyline against the exact curve (the chords'
   parameters cover [0, 1]: C17_catmull_chords_cover_the_span) *)
Theorem C17_catmull_span_hausdorff_ieee :
  forall E v1 v2 v3 v4 (S : R), 0 <= E <= 100 ->
  pointU E 1 v1 -> pointU E 1 v2 -> pointU E 1 v3 -> pointU E 3 v4 ->
  (0 <= S)%R -> second_le S (posR v1) (posR v2) (posR v3) (posR v4) ->
  span_follows_ieee (S / 8 / 2500) (3 / 2 * E_cat E) (posR v1) (posR v2) (posR v3) (posR v4)
                    (map posR (catmull_subpath v1 v2 v3 v4)).
Proof. exact catmull_span_hausdorff_ieee. Qed.
Print Assumptions C17_catmull_span_hausdorff_ieee.

(* the phantom fourth point of the last span, as computed *)
Theorem C17_catmull_phantom_point :
  forall E a b, 0 <= E <= 100 -> coord_ok E a -> coord_ok E b ->
  coordU E 3 (S.sub (S.mul a s2) b) /\
  (Rabs (B2R (S.sub (S.mul a s2) b) - (B2R a * 2 - B2R b)) <= 3 * bpow radix2 (E - 24))%R.
Proof. exact phantom_coord. Qed.
Print Assumptions C17_catmull_phantom_point.

(* the whole segment: the model's output is the concatenation of the spans'
   paths; every span (control points: the binary32 points, the last one with
   the computed phantom point) follows its exact curve within
   3 L / 10000 + 3/2 E_cat E, L bounding the edges of the spans *)
Theorem C17_catmull_hausdorff_ieee :
  forall E points cat (L : R), 0 <= E <= 100 -> Forall (point_ok E) points ->
  approximate_catmull points = Done cat -> (0 <= L)%R ->
  let spans := catmull_spans phantom32 (map pair_of points) in
  Forall (fun sp => span_ok L (spanR sp)) spans ->
  cat = flat_map span_path32 spans /\
  Forall (fun sp => let '(v1, v2, v3, v4) := spanR sp in
            span_follows_ieee (3 * L / 10000) (3 / 2 * E_cat E) v1 v2 v3 v4 (map posR (span_path32 sp))) spans.
Proof. exact catmull_hausdorff_ieee. Qed.
Print Assumptions C17_catmull_hausdorff_ieee.

(* the same with the hypothesis on the control points only: consecutive
   points at most L apart; the edge to the computed phantom point is then at
   most L + 9/2 * 2^(E-24) long *)
Theorem C17_catmull_hausdorff_ieee_points :
  forall E points cat (L : R), 0 <= E <= 100 -> Forall (point_ok E) points ->
  approximate_catmull points = Done cat -> (0 <= L)%R -> edges_le L (map posR points) ->
  let spans := catmull_spans phantom32 (map pair_of points) in
  let L' := (L + 9 / 2 * bpow radix2 (E - 24))%R in
  cat = flat_map span_path32 spans /\
  Forall (fun sp => let '(v1, v2, v3, v4) := spanR sp in
            span_follows_ieee (3 * L' / 10000) (3 / 2 * E_cat E) v1 v2 v3 v4 (map posR (span_path32 sp))) spans.
Proof. exact catmull_hausdorff_ieee_points. Qed.
Print Assumptions C17_catmull_hausdorff_ieee_points.

(* osu! mode: the simplification loop AS COMPUTED.  The decisions are the
   model's (binary32 distance, widened, compared with 6.0); a vertex is only
   dropped when that test is false, and then its real distance from the start
   of the group is at most 6 + 2^-19 *)
Theorem C17_catmull_simplification_test_ieee :
  forall s c : Pos, point_ok 20 s -> point_ok 20 c ->
  D.gt (f64_of_f32 (pdist s c)) catmull_simplify_dist = false ->
  (dist2 (posR s) (posR c) <= 6 + bpow radix2 (-19))%R.
Proof. exact far_false_dist. Qed.
Print Assumptions C17_catmull_simplification_test_ieee.

Theorem C17_catmull_simplification_hausdorff_ieee :
  forall (cat : list Pos) (opt : F64), Forall (point_ok 20) cat ->
  HD (6 + bpow radix2 (-19)) (map posR cat) (map posR (fst (catmull_simplify cat opt))).
Proof. exact catmull_simplify_hausdorff_ieee. Qed.
Print Assumptions C17_catmull_simplification_hausdorff_ieee.

(* the computed Catmull vertices stay within 14 * 2^E <= 2^(E+4) ... *)
Theorem C17_catmull_vertices_bounded_ieee :
  forall E points cat, 0 <= E <= 100 -> Forall (point_ok E) points -> approximate_catmull points = Done cat ->
  Forall (point_ok (E + 4)) cat.
Proof. exact approximate_catmull_ok. Qed.
Print Assumptions C17_catmull_vertices_bounded_ieee.

(* ... so the whole Catmull branch of calculate_subpath in osu! mode is
   covered for control points within 2^16 *)
Theorem C17_catmull_then_simplify_ieee :
  forall E points cat opt, 0 <= E <= 16 -> Forall (point_ok E) points -> approximate_catmull points = Done cat ->
  HD (6 + bpow radix2 (-19)) (map posR cat) (map posR (fst (catmull_simplify cat opt))).
Proof. exact catmull_then_simplify_ieee. Qed.
Print Assumptions C17_catmull_then_simplify_ieee.

(* the hypotheses are satisfiable: (0,0) (100,50) (200,0), E = 8 *)
Example C17_catmull_ieee_nonvacuous :
  map dump_pos ex_cat = [[0; 0]; [1120403456; 1112014848]; [1128792064; 0]] /\
  Forall (point_ok 8) ex_cat /\ edges_le 112 (map posR ex_cat) /\ exists cat, approximate_catmull ex_cat = Done cat.
Proof. split; [exact ex_cat_dump|]. split; [exact ex_cat_ok|]. split; [exact ex_cat_edges|exact ex_cat_runs]. Qed.

(* ---------- Bezier / B-spline ---------- *)

Example pin_uE : forall E, uE E = (bpow radix2 (E - 25) + bpow radix2 (-150))%R.
Proof. reflexivity. Qed.

(* the rounding allowance: m = degree, k = depth of the subdivision tree *)
Example pin_E_bez : forall E m k,
  E_bez E m k =
  (INR m * (2 * INR m - 1) / 8 * (bpow radix2 (-20) + 3 / 2 * (bpow radix2 (E - 22) + 4 * (INR k * (INR m * uE E))))
   + 3 / 2 * (INR k * (INR m * uE E) + INR m * uE E + (bpow radix2 (E - 24) + bpow radix2 (-150))))%R.
Proof. reflexivity. Qed.

Example pin_bez_vertex_ok : forall E points m k p,
  bez_vertex_ok E points m k p <->
  ((is_finite (px p) = true /\ is_finite (py p) = true) /\
   exists t : R, (0 <= t <= 1)%R /\ (dist2 (Bez (map posR points) t) (posR p) <= Kbez m + E_bez E m k)%R).
Proof. intros. reflexivity. Qed.

(* every vertex the binary32 loop emits (whatever the fuel, whenever it
   returns) is within Kbez (n-1) + E_bez E (n-1) d of the exact curve, d any
   bound on the depth of the binary32 subdivision tree *)
Theorem C17_bezier_vertices_ieee_depth :
  forall E points n' d path fuel path', 0 <= E <= 40 ->
  length points = S (S n') -> Forall (point_ok E) points -> within32 d points ->
  approximate_bezier_L1 fuel path points tt = Done (path', tt) ->
  exists new, path' = path ++ new ++ [last points pos0] /\
    Forall (bez_vertex_ok E points (S n') d) new.
Proof. exact bezier_vertices_ieee_depth. Qed.
Print Assumptions C17_bezier_vertices_ieee_depth.

(* n * 2^E <= 2^22: depth 19 (T01g, C01) *)
Theorem C17_bezier_vertices_ieee :
  forall E points n' path fuel path', 0 <= E -> Z.of_nat (length points) * 2 ^ E <= 2 ^ 22 ->
  length points = S (S n') -> Forall (point_ok E) points ->
  approximate_bezier_L1 fuel path points tt = Done (path', tt) ->
  exists new, path' = path ++ new ++ [last points pos0] /\
    Forall (bez_vertex_ok E points (S n') 19) new.
Proof. exact bezier_vertices_ieee. Qed.
Print Assumptions C17_bezier_vertices_ieee.

(* the two-sided bound: [new] is everything the routine appends (the emitted
   vertices and the final push of the last control point) *)
Theorem C17_bezier_hausdorff_ieee_depth :
  forall E points n' d path fuel path', 0 <= E <= 40 ->
  length points = S (S n') -> Forall (point_ok E) points -> within32 d points ->
  approximate_bezier_L1 fuel path points tt = Done (path', tt) ->
  let K := (Kbez (S n') + E_bez E (S n') d)%R in
  let B := Bez (map posR points) in
  exists new, path' = path ++ new /\ (2 <= length new)%nat /\ Forall pos_fin new /\
    (forall k, (k < length new)%nat ->
       exists t, (0 <= t <= 1)%R /\ (dist2 (B t) (posR (nth k new pos0)) <= K)%R) /\
    (forall k s, (S k < length new)%nat -> (0 <= s <= 1)%R ->
       exists t, (0 <= t <= 1)%R /\
         (dist2 (B t) (lerp2 (posR (nth k new pos0)) (posR (nth (S k) new pos0)) s) <= K)%R) /\
    (forall t, (0 <= t <= 1)%R ->
       exists k s, (S k < length new)%nat /\ (0 <= s <= 1)%R /\
         (dist2 (B t) (lerp2 (posR (nth k new pos0)) (posR (nth (S k) new pos0)) s) <= K)%R).
Proof. exact bezier_hausdorff_ieee_depth. Qed.
Print Assumptions C17_bezier_hausdorff_ieee_depth.

Theorem C17_bezier_hausdorff_ieee :
  forall E points n' path fuel path', 0 <= E -> Z.of_nat (length points) * 2 ^ E <= 2 ^ 22 ->
  length points = S (S n') -> Forall (point_ok E) points ->
  approximate_bezier_L1 fuel path points tt = Done (path', tt) ->
  let K := (Kbez (S n') + E_bez E (S n') 19)%R in
  let B := Bez (map posR points) in
  exists new, path' = path ++ new /\ (2 <= length new)%nat /\ Forall pos_fin new /\
    (forall k, (k < length new)%nat ->
       exists t, (0 <= t <= 1)%R /\ (dist2 (B t) (posR (nth k new pos0)) <= K)%R) /\
    (forall k s, (S k < length new)%nat -> (0 <= s <= 1)%R ->
       exists t, (0 <= t <= 1)%R /\
         (dist2 (B t) (lerp2 (posR (nth k new pos0)) (posR (nth (S k) new pos0)) s) <= K)%R) /\
    (forall t, (0 <= t <= 1)%R ->
       exists k s, (S k < length new)%nat /\ (0 <= s <= 1)%R /\
         (dist2 (B t) (lerp2 (posR (nth k new pos0)) (posR (nth (S k) new pos0)) s) <= K)%R).
Proof. exact bezier_hausdorff_ieee. Qed.
Print Assumptions C17_bezier_hausdorff_ieee.

(* the same bound with the smaller allowance E_bez_t: the discrepancy between
   the second differences of a node and of the exact control polygon it stands
   for does not grow with the depth (fixed point 16/3 m u) *)
Example pin_E_bez_t : forall E m k,
  E_bez_t E m k =
  (INR m * (2 * INR m - 1) / 8 * (bpow radix2 (-20) + 3 / 2 * (bpow radix2 (E - 22) + 16 / 3 * (INR m * uE E)))
   + 3 / 2 * (INR k * (INR m * uE E) + INR m * uE E + (bpow radix2 (E - 24) + bpow radix2 (-150))))%R.
Proof. reflexivity. Qed.

Theorem C17_bezier_hausdorff_ieee_tight_depth :
  forall E points n' d path fuel path', 0 <= E <= 40 ->
  length points = S (S n') -> Forall (point_ok E) points -> within32 d points ->
  approximate_bezier_L1 fuel path points tt = Done (path', tt) ->
  let K := (Kbez (S n') + E_bez_t E (S n') d)%R in
  let B := Bez (map posR points) in
  exists new, path' = path ++ new /\ (2 <= length new)%nat /\ Forall pos_fin new /\
    (forall k, (k < length new)%nat ->
       exists t, (0 <= t <= 1)%R /\ (dist2 (B t) (posR (nth k new pos0)) <= K)%R) /\
    (forall k s, (S k < length new)%nat -> (0 <= s <= 1)%R ->
       exists t, (0 <= t <= 1)%R /\
         (dist2 (B t) (lerp2 (posR (nth k new pos0)) (posR (nth (S k) new pos0)) s) <= K)%R) /\
    (forall t, (0 <= t <= 1)%R ->
       exists k s, (S k < length new)%nat /\ (0 <= s <= 1)%R /\
         (dist2 (B t) (lerp2 (posR (nth k new pos0)) (posR (nth (S k) new pos0)) s) <= K)%R).
Proof. exact bezier_hausdorff_ieee_tight_depth. Qed.
Print Assumptions C17_bezier_hausdorff_ieee_tight_depth.

Theorem C17_bezier_hausdorff_ieee_tight :
  forall E points n' path fuel path', 0 <= E -> Z.of_nat (length points) * 2 ^ E <= 2 ^ 22 ->
  length points = S (S n') -> Forall (point_ok E) points ->
  approximate_bezier_L1 fuel path points tt = Done (path', tt) ->
  let K := (Kbez (S n') + E_bez_t E (S n') 19)%R in
  let B := Bez (map posR points) in
  exists new, path' = path ++ new /\ (2 <= length new)%nat /\ Forall pos_fin new /\
    (forall k, (k < length new)%nat ->
       exists t, (0 <= t <= 1)%R /\ (dist2 (B t) (posR (nth k new pos0)) <= K)%R) /\
    (forall k s, (S k < length new)%nat -> (0 <= s <= 1)%R ->
       exists t, (0 <= t <= 1)%R /\
         (dist2 (B t) (lerp2 (posR (nth k new pos0)) (posR (nth (S k) new pos0)) s) <= K)%R) /\
    (forall t, (0 <= t <= 1)%R ->
       exists k s, (S k < length new)%nat /\ (0 <= s <= 1)%R /\
         (dist2 (B t) (lerp2 (posR (nth k new pos0)) (posR (nth (S k) new pos0)) s) <= K)%R).
Proof. exact bezier_hausdorff_ieee_tight. Qed.
Print Assumptions C17_bezier_hausdorff_ieee_tight.

(* cubic segments, depth 19, any magnitude 2^E: below 4.8e-6 * 2^E + 2e-6 *)
Theorem C17_E_bez_t_cubic :
  forall E, 0 <= E -> (E_bez_t E 3 19 <= 2 * bpow radix2 (-20) + 161 * bpow radix2 (E - 25))%R.
Proof. exact E_bez_t_cubic. Qed.
Print Assumptions C17_E_bez_t_cubic.

Example pin_pos_fin : forall p, pos_fin p <-> (is_finite (px p) = true /\ is_finite (py p) = true).
Proof. intros. reflexivity. Qed.

(* the last vertex (pushed after the loop) is the last control point: the
   curve's end point, distance 0 *)
Theorem C17_bezier_last_vertex_ieee :
  forall points n', length points = S n' ->
  Bez (map posR points) 1 = posR (last points pos0).
Proof. exact bez_last_posR. Qed.
Print Assumptions C17_bezier_last_vertex_ieee.

(* the pieces *)
Theorem C17_bezier_emitted_coordinate_ieee :
  forall E p c n, 0 <= E <= 100 -> coord_ok E p -> coord_ok E c -> coord_ok E n ->
  coord_ok E (tri1 p c n) /\
  (Rabs (B2R (tri1 p c n) - (B2R p + 2 * B2R c + B2R n) / 4) <= bpow radix2 (E - 24) + bpow radix2 (-150))%R.
Proof. exact tri1_spec. Qed.
Print Assumptions C17_bezier_emitted_coordinate_ieee.

Theorem C17_bezier_flat_test_ieee_converse :
  forall E p c n, 0 <= E <= 40 -> point_ok E p -> point_ok E c -> point_ok E n ->
  far32 p c n = false ->
  exists X Y : R,
    (Rabs (X - (B2R (px p) - 2 * B2R (px c) + B2R (px n))) <= bpow radix2 (E - 22))%R /\
    (Rabs (Y - (B2R (py p) - 2 * B2R (py c) + B2R (py n))) <= bpow radix2 (E - 22))%R /\
    (X * X + Y * Y <= 1 / 4 + bpow radix2 (-20))%R.
Proof. exact far32_false_inv. Qed.
Print Assumptions C17_bezier_flat_test_ieee_converse.

(* the size of the allowance: cubic segments with |c| <= 1024 *)
Example C17_E_bez_cubic_1024 : (E_bez 10 3 19 <= 1 / 40)%R.
Proof. exact E_bez_10_3_19. Qed.

(* the hypotheses are satisfiable: W's example segment
   `B|131072:-131072|-131072:131072|131072:131072` (E = 17, n = 4) *)
Example C17_bezier_ieee_nonvacuous :
  map dump_pos ex_seg = [[0; 0]; [1207959552; 3355443200]; [3355443200; 1207959552]; [1207959552; 1207959552]] /\
  Forall (point_ok 17) ex_seg /\ Z.of_nat (length ex_seg) * 2 ^ 17 <= 2 ^ 22 /\
  forall path, exists path', approximate_bezier_L1 bezier_fuel path ex_seg tt = Done (path', tt).
Proof.
  split; [exact ex_seg_dump|]. split; [exact ex_seg_ok|]. split; [vm_compute; discriminate|exact ex_seg_terminates_tight].
Qed.

(* ---------- circular arc ---------- *)

Example pin_E_arc : forall E el, E_arc E el = (bpow radix2 E * (el + bpow radix2 (-47)) + bpow radix2 (E - 23))%R.
Proof. reflexivity. Qed.

(* the hypotheses on the computed arc properties: centre and radius finite
   within 2^E, start angle finite within [-4, 4], direction +-1, range finite
   within [0, 8] *)
Example pin_arc_props_ok : forall E pr,
  arc_props_ok E pr <->
  (point_ok E (a_centre pr) /\ coord_ok E (a_radius pr) /\
   is_finite (a_theta_start pr) = true /\ (Rabs (B2R (a_theta_start pr)) <= 4)%R /\
   is_finite (a_direction pr) = true /\ (B2R (a_direction pr) = 1 \/ B2R (a_direction pr) = -1)%R /\
   is_finite (a_theta_range pr) = true /\ (0 <= B2R (a_theta_range pr) <= 8)%R).
Proof. intros. reflexivity. Qed.

(* the binary64 angle of vertex i: theta_start + (i / (n - 1)) * (direction * range) *)
Theorem C17_arc_angle_ieee :
  forall (ts dir range : F64) (n : Z) (i : nat),
  is_finite ts = true -> is_finite dir = true -> is_finite range = true ->
  (Rabs (B2R ts) <= 4)%R -> (B2R dir = 1 \/ B2R dir = -1)%R -> (0 <= B2R range <= 8)%R ->
  2 <= n <= 1000 -> Z.of_nat i <= n - 1 ->
  let theta := D.add ts (D.mul (D.div (D.of_Z (Z.of_nat i)) (D.of_Z (n - 1))) (D.mul dir range)) in
  is_finite theta = true /\
  (Rabs (B2R theta - (B2R ts + INR i / IZR (n - 1) * (B2R dir * B2R range))) <= bpow radix2 (-47))%R.
Proof. exact theta_ieee. Qed.
Print Assumptions C17_arc_angle_ieee.

(* one vertex, libm's accuracy as hypotheses *)
Theorem C17_arc_vertex_ieee :
  forall (lm : Libm) (el : R), (0 <= el)%R ->
  (forall x : F64, is_finite x = true ->
     is_finite (l_cos lm x) = true /\ (Rabs (B2R (l_cos lm x)) <= 1)%R /\ (Rabs (B2R (l_cos lm x) - cos (B2R x)) <= el)%R) ->
  (forall x : F64, is_finite x = true ->
     is_finite (l_sin lm x) = true /\ (Rabs (B2R (l_sin lm x)) <= 1)%R /\ (Rabs (B2R (l_sin lm x) - sin (B2R x)) <= el)%R) ->
  forall E pr (n : Z) (i : nat), 0 <= E <= 100 -> arc_props_ok E pr -> 2 <= n <= 1000 -> Z.of_nat i <= n - 1 ->
  let p := arc_point lm pr (D.of_Z (n - 1)) (D.mul (a_direction pr) (a_theta_range pr)) i in
  let q := cpt (B2R (px (a_centre pr))) (B2R (py (a_centre pr))) (B2R (a_radius pr))
               (B2R (a_theta_start pr) + INR i / IZR (n - 1) * (B2R (a_direction pr) * B2R (a_theta_range pr))) in
  vertex_near (E_arc E el) p q.
Proof. exact arc_point_ieee. Qed.
Print Assumptions C17_arc_vertex_ieee.

(* the emitted arc, vertex by vertex, against arc_path_R taken at the real
   numbers the computed arc properties denote, WITH THE SAME NUMBER OF POINTS n *)
Theorem C17_arc_vertices_ieee :
  forall (lm : Libm) (el : R), (0 <= el)%R ->
  (forall x : F64, is_finite x = true ->
     is_finite (l_cos lm x) = true /\ (Rabs (B2R (l_cos lm x)) <= 1)%R /\ (Rabs (B2R (l_cos lm x) - cos (B2R x)) <= el)%R) ->
  (forall x : F64, is_finite x = true ->
     is_finite (l_sin lm x) = true /\ (Rabs (B2R (l_sin lm x)) <= 1)%R /\ (Rabs (B2R (l_sin lm x) - sin (B2R x)) <= el)%R) ->
  forall E a b c pr arc, 0 <= E <= 100 ->
  circular_arc_properties lm a b c = Done (Some pr) -> arc_props_ok E pr ->
  approximate_circular_arc lm a b c = Done (Some arc) ->
  let n := arc_sub_points lm pr in
  let arcR := arc_path_R (B2R (px (a_centre pr))) (B2R (py (a_centre pr))) (B2R (a_radius pr))
                         (B2R (a_theta_start pr)) (B2R (a_direction pr)) (B2R (a_theta_range pr)) n in
  2 <= n < arc_subpoint_cap /\ length arc = Z.to_nat n /\ length arcR = Z.to_nat n /\
  forall i, (i < Z.to_nat n)%nat -> vertex_near (E_arc E el) (nth i arc pos0) (nth i arcR (0, 0)%R).
Proof. exact arc_path_ieee. Qed.
Print Assumptions C17_arc_vertices_ieee.

(* over the reals, ANY number n >= 2 of points: the chords are within the
   sagitta sag_n of the arc and conversely (C17_arc_hausdorff is the case
   n = arc_sub_points_R, where the sagitta is at most 4 * tolerance) *)
Example pin_sag_n : forall r range n, sag_n r range n = (r * (1 - cos (range / (2 * IZR (n - 1)))))%R.
Proof. reflexivity. Qed.

Theorem C17_arc_hausdorff_any_count :
  forall X Y r ts dir range : R, forall n : Z,
  (0 <= r)%R -> (0 <= range <= 2 * PI)%R -> (dir = 1 \/ dir = -1)%R -> 2 <= n ->
  let path := arc_path_R X Y r ts dir range n in
  let arc := fun f : R => cpt X Y r (ts + f * (dir * range)) in
  length path = Z.to_nat n /\
  (forall i, (i < Z.to_nat n)%nat -> exists f, (0 <= f <= 1)%R /\ nth i path (0, 0)%R = arc f) /\
  (forall i s, (S i < Z.to_nat n)%nat -> (0 <= s <= 1)%R ->
     exists f, (0 <= f <= 1)%R /\
       (dist2 (lerp2 (nth i path (0, 0)%R) (nth (S i) path (0, 0)%R) s) (arc f) <= sag_n r range n)%R) /\
  (forall f, (0 <= f <= 1)%R ->
     exists i s, (S i < Z.to_nat n)%nat /\ (0 <= s <= 1)%R /\
       (dist2 (arc f) (lerp2 (nth i path (0, 0)%R) (nth (S i) path (0, 0)%R) s) <= sag_n r range n)%R).
Proof. exact arc_hausdorff_n. Qed.
Print Assumptions C17_arc_hausdorff_any_count.

(* the emitted arc against the exact arc, both ways.  PARTIAL with respect to
   the wanted
     C17_arc_hausdorff_ieee: "the computed arc and the circular arc through the
     three control points are within 4 * tol + (explicit rounding term) of each
     other, both ways":
   proved here -- the two-sided bound sag_n + 3/2 E_arc E el between the emitted
   polyline and the exact arc whose centre, radius, start angle and range are
   the real numbers the computed arc properties denote, sag_n being the
   sagitta for the number of points n the code computed (2 <= n < 1000);
   missing -- (i) sag_n <= 4 * tolerance for the COMPUTED n (proved for the
   count over the reals, C17_arc_hausdorff; the computed count goes through
   acosf, a binary32 division and ceil), (ii) the error of the computed arc
   properties against the circle through a, b, c (circum-centre, atan2),
   (iii) libm's accuracy (hypotheses here). *)
Theorem C17_arc_hausdorff_ieee_partial :
  forall (lm : Libm) (el : R), (0 <= el)%R ->
  (forall x : F64, is_finite x = true ->
     is_finite (l_cos lm x) = true /\ (Rabs (B2R (l_cos lm x)) <= 1)%R /\ (Rabs (B2R (l_cos lm x) - cos (B2R x)) <= el)%R) ->
  (forall x : F64, is_finite x = true ->
     is_finite (l_sin lm x) = true /\ (Rabs (B2R (l_sin lm x)) <= 1)%R /\ (Rabs (B2R (l_sin lm x) - sin (B2R x)) <= el)%R) ->
  forall E a b c pr arc, 0 <= E <= 100 ->
  circular_arc_properties lm a b c = Done (Some pr) -> arc_props_ok E pr ->
  (0 <= B2R (a_radius pr))%R -> (B2R (a_theta_range pr) <= 2 * PI)%R ->
  approximate_circular_arc lm a b c = Done (Some arc) ->
  let n := arc_sub_points lm pr in
  let X := B2R (px (a_centre pr)) in let Y := B2R (py (a_centre pr)) in let r := B2R (a_radius pr) in
  let ts := B2R (a_theta_start pr) in let dir := B2R (a_direction pr) in let range := B2R (a_theta_range pr) in
  let exact := fun f : R => cpt X Y r (ts + f * (dir * range)) in
  let K := (sag_n r range n + 3 / 2 * E_arc E el)%R in
  2 <= n < arc_subpoint_cap /\ length arc = Z.to_nat n /\ Forall pos_fin arc /\
  (forall i, (i < Z.to_nat n)%nat ->
     exists f, (0 <= f <= 1)%R /\ (dist2 (exact f) (posR (nth i arc pos0)) <= 3 / 2 * E_arc E el)%R) /\
  (forall i s, (S i < Z.to_nat n)%nat -> (0 <= s <= 1)%R ->
     exists f, (0 <= f <= 1)%R /\
       (dist2 (exact f) (lerp2 (posR (nth i arc pos0)) (posR (nth (S i) arc pos0)) s) <= K)%R) /\
  (forall f, (0 <= f <= 1)%R ->
     exists i s, (S i < Z.to_nat n)%nat /\ (0 <= s <= 1)%R /\
       (dist2 (exact f) (lerp2 (posR (nth i arc pos0)) (posR (nth (S i) arc pos0)) s) <= K)%R).
Proof. exact arc_hausdorff_ieee. Qed.
Print Assumptions C17_arc_hausdorff_ieee_partial.

(* the hypotheses on the arc properties are satisfiable: centre (256, 192),
   radius 100, start angle 0, range 3, counter-clockwise; E = 8 *)
Example C17_arc_ieee_nonvacuous :
  (S.bits (px (a_centre ex_arc_props)), S.bits (py (a_centre ex_arc_props)), S.bits (a_radius ex_arc_props),
   D.bits (a_theta_start ex_arc_props), D.bits (a_theta_range ex_arc_props), D.bits (a_direction ex_arc_props))
  = (1132462080, 1128267776, 1120403456, 0, 4613937818241073152, 4607182418800017408) /\
  arc_props_ok 8 ex_arc_props.
Proof. split; [vm_compute; reflexivity|exact ex_arc_props_ok]. Qed.

(* C17 -- Computed paths follow the exact curves within tolerance.
   Statements only ([exact] of lemmas from Proofs/PathFacts).

   Proved (T17a; every input, IEEE arithmetic, any libm): linear segments copy
   their vertices; a Bezier / B-spline segment starts with its first control
   point and ends with its last (pure routine and the code-level routine with
   arbitrary scratch buffers); perfect curves that are not three points, are
   collinear (|det| <= f32::EPSILON) or would need >= 1000 sub-points fall back
   to Bezier; an arc has exactly sub_points vertices with 2 <= sub_points <
   1000; Catmull emits 2 * CATMULL_DETAIL vertices per span; the joint vertex
   produced identically by two consecutive segments is removed (rotate_left +
   pop = deletion of that one vertex), and only then.

   NOT proved (T17b-e of DESIGN; the property is PARTIAL):
     (T17b de Casteljau subdivision, T17c the Catmull-Rom polynomial identity
     and T17d the circum-centre and arc points under libm hypotheses ARE proved
     below, over the reals, on definitions shared with the model)
     - the Hausdorff bound between path and exact curve (flatness 0.25, arc
       sagitta 0.1, 50 Catmull steps, 6 px osu! simplification).
   The bound is measured by the oracle of harness/src/c17.rs against curves
   evaluated exactly in f64 (de Casteljau, circumcircle, Catmull polynomial). *)
From RM Require Import Model.ControlPoints Model.Curve Gen.Generated Proofs.BezierRefine Proofs.PathFacts
  Proofs.CatmullFacts Proofs.ArcExact Proofs.DeCasteljau.
From Coq Require Import Reals.
Open Scope Z_scope.

(* ---------- the approximation tolerances named by the property ---------- *)
Example pin_bezier_tolerance : bezier_tolerance_dec = (false, 25, -2).          (* 0.25 *)
Proof. reflexivity. Qed.
Example pin_catmull_detail : catmull_detail = 50.
Proof. reflexivity. Qed.
Example pin_circular_arc_tolerance : circular_arc_tolerance_dec = (false, 1, -1). (* 0.1 *)
Proof. reflexivity. Qed.
Example pin_arc_subpoint_cap : arc_subpoint_cap = 1000.
Proof. reflexivity. Qed.
Example pin_catmull_simplify_dist : catmull_simplify_dist_dec = (false, 60, -1).  (* 6.0 *)
Proof. reflexivity. Qed.

(* ---------- segment end points ---------- *)

Theorem C17_linear_copies_vertices :
  forall (B : Type) (bezier : list Pos -> list Pos -> B -> outcome (list Pos * B)) lm osu path sub opt b,
  calculate_subpath bezier lm osu path sub Linear opt b = Done (path ++ sub, opt, b).
Proof. exact @linear_copies. Qed.
Print Assumptions C17_linear_copies_vertices.

Theorem C17_bezier_endpoints :
  forall fuel path points path',
  approximate_bezier_L1 fuel path points tt = Done (path', tt) ->
  exists mid, path' = path ++ hd pos0 points :: mid ++ [last points pos0].
Proof. exact bezier_endpoints. Qed.
Print Assumptions C17_bezier_endpoints.

Theorem C17_bezier_endpoints_code_level :
  forall fuel path points b path' b', bb_wf b ->
  approximate_bezier_L0 fuel path points b = Done (path', b') ->
  exists mid, path' = path ++ hd pos0 points :: mid ++ [last points pos0].
Proof. exact bezier_endpoints_L0. Qed.
Print Assumptions C17_bezier_endpoints_code_level.

(* ---------- fall-backs of perfect curves ---------- *)

Theorem C17_bspline_is_bezier :
  forall (B : Type) (bezier : list Pos -> list Pos -> B -> outcome (list Pos * B)) lm osu path sub opt b,
  calculate_subpath bezier lm osu path sub BSpline opt b = bez3 bezier path sub opt b.
Proof. exact @bspline_is_bezier. Qed.
Print Assumptions C17_bspline_is_bezier.

Theorem C17_perfect_not_three_points_is_bezier :
  forall (B : Type) (bezier : list Pos -> list Pos -> B -> outcome (list Pos * B)) lm osu path sub opt b,
  length sub <> 3%nat ->
  calculate_subpath bezier lm osu path sub PerfectCurve opt b = bez3 bezier path sub opt b.
Proof. exact @perfect_not_three. Qed.
Print Assumptions C17_perfect_not_three_points_is_bezier.

Theorem C17_perfect_three_points :
  forall (B : Type) (bezier : list Pos -> list Pos -> B -> outcome (list Pos * B)) lm osu path a m c opt b,
  calculate_subpath bezier lm osu path [a; m; c] PerfectCurve opt b =
  obind (approximate_circular_arc lm a m c) (fun o =>
    match o with
    | Some arc => Done (path ++ arc, opt, b)
    | None => bez3 bezier path [a; m; c] opt b
    end).
Proof. exact @perfect_three. Qed.
Print Assumptions C17_perfect_three_points.

Theorem C17_collinear_falls_back :
  forall lm a b c, S.le (S.abs (arc_det a b c)) S.eps = true -> approximate_circular_arc lm a b c = Done None.
Proof. exact collinear_no_arc. Qed.
Print Assumptions C17_collinear_falls_back.

(* an arc needing >= arc_subpoint_cap sub-points falls back; otherwise it has
   exactly sub_points vertices, between 2 and 999 *)
Theorem C17_arc_vertex_count_and_enormous_fall_back :
  forall lm a b c,
  match circular_arc_properties lm a b c with
  | Done (Some pr) =>
      if arc_subpoint_cap <=? arc_sub_points lm pr
      then approximate_circular_arc lm a b c = Done None
      else exists arc, approximate_circular_arc lm a b c = Done (Some arc) /\
                       length arc = Z.to_nat (arc_sub_points lm pr) /\
                       (2 <= length arc < Z.to_nat arc_subpoint_cap)%nat
  | Done None => approximate_circular_arc lm a b c = Done None
  | Panic w => approximate_circular_arc lm a b c = Panic w
  | OutOfFuel => approximate_circular_arc lm a b c = OutOfFuel
  end.
Proof. exact arc_outcome. Qed.
Print Assumptions C17_arc_vertex_count_and_enormous_fall_back.

Theorem C17_catmull_vertex_count :
  forall points cat, approximate_catmull points = Done cat ->
  length cat = ((length points - 1) * (2 * Z.to_nat catmull_detail))%nat.
Proof. exact catmull_length. Qed.
Print Assumptions C17_catmull_vertex_count.

(* T17b [exact arithmetic]: bezier_subdivide.  The model's subdivision
   (avg_step / subdiv: repeated averaging of neighbours, heads -> left polygon,
   lasts -> right polygon) is the instance, for points and (a + b) / 2 in
   binary32, of the generic subdiv_g; for real coordinates (each coordinate
   separately: the averaging is component-wise) the two polygons evaluate, by
   de Casteljau's algorithm [dc], to the same curve as the parent on [0, 1/2]
   and on [1/2, 1] *)
Theorem C17_model_subdivision_is_generic :
  forall n m, subdiv n m = subdiv_g avg2 pos0 n m.
Proof. exact model_subdiv. Qed.
Print Assumptions C17_model_subdivision_is_generic.

Theorem C17_de_casteljau_subdivision :
  forall n (m : list R), length m = S n ->
  let '(L, Rr) := subdiv_g avgR 0%R (S n) m in
  forall t : R, dc n t L = dc n (t / 2) m /\ dc n t Rr = dc n ((1 + t) / 2) m.
Proof. exact de_casteljau_subdivision. Qed.
Print Assumptions C17_de_casteljau_subdivision.

(* T17c [exact arithmetic]: the Catmull coefficient/evaluation formulas of the
   model are written once over a record of scalar operations; read over the
   reals they are the uniform Catmull-Rom polynomial, which interpolates v2 at
   t = 0 and v3 at t = 1; the executable model instantiates the same two
   functions with the IEEE binary32 operations and evaluates them at c/50 and
   (c+1)/50, c = 0..49 (definition of catmull_subpath) *)
Theorem C17_catmull_formula_is_catmull_rom :
  forall v1 v2 v3 v4 t : R,
  catmull_eval_g real_ops (catmull_coord_g real_ops v1 v2 v3 v4) t = catmull_rom v1 v2 v3 v4 t.
Proof. exact catmull_is_catmull_rom. Qed.
Print Assumptions C17_catmull_formula_is_catmull_rom.

Theorem C17_catmull_interpolates_its_control_points :
  forall v1 v2 v3 v4 : R,
  catmull_eval_g real_ops (catmull_coord_g real_ops v1 v2 v3 v4) 0%R = v2 /\
  catmull_eval_g real_ops (catmull_coord_g real_ops v1 v2 v3 v4) 1%R = v3.
Proof. intros. split; [apply catmull_at_0|apply catmull_at_1]. Qed.
Print Assumptions C17_catmull_interpolates_its_control_points.

Theorem C17_model_uses_the_same_formulas :
  catmull_coord = catmull_coord_g f32_ops /\ catmull_eval = catmull_eval_g f32_ops.
Proof. exact model_uses_same_text. Qed.
Print Assumptions C17_model_uses_the_same_formulas.

(* T17d [exact arithmetic]: the circum-centre formula (Model/Curve.v:
   arc_centre_g, used by circular_arc_properties with the binary32 operations)
   read over the reals gives a point equidistant from a, b, c; an arc point
   centre + (cos, sin) * radius (arc_point is the IEEE instance of arc_coord_g)
   is at distance radius from the centre as soon as cos^2 + sin^2 = 1; it IS
   the vertex v when radius * (cos, sin) = v - centre, which is what
   theta_start = atan2(a - centre) (fraction 0) and theta_start + direction *
   range (fraction 1, the angle of c) give for an exact libm *)
Theorem C17_centre_equidistant :
  forall ax ay bx by_ cx cy : R, det2 ax ay bx by_ cx cy <> 0%R ->
  let '(X, Y) := arc_centre_g Rplus Rminus Rmult Rdiv 2%R ax ay bx by_ cx cy in
  sqd ax ay X Y = sqd bx by_ X Y /\ sqd ax ay X Y = sqd cx cy X Y.
Proof. exact centre_equidistant. Qed.
Print Assumptions C17_centre_equidistant.

Theorem C17_model_arc_point_formula :
  forall lm pr divisor directed i,
  arc_point lm pr divisor directed i =
  let theta := D.add (a_theta_start pr) (D.mul (D.div (D.of_Z (Z.of_nat i)) divisor) directed) in
  mkPos (arc_coord_g f32_of_f64 S.add S.mul (px (a_centre pr)) (l_cos lm theta) (a_radius pr))
        (arc_coord_g f32_of_f64 S.add S.mul (py (a_centre pr)) (l_sin lm theta) (a_radius pr)).
Proof. exact model_arc_point. Qed.
Print Assumptions C17_model_arc_point_formula.

Theorem C17_arc_points_on_the_circle :
  forall X Y r co si : R, (co ^ 2 + si ^ 2 = 1)%R ->
  sqd (arc_coord_R X co r) (arc_coord_R Y si r) X Y = (r ^ 2)%R.
Proof. exact arc_point_on_circle. Qed.
Print Assumptions C17_arc_points_on_the_circle.

Theorem C17_arc_end_points_are_the_vertices :
  forall X Y vx vy r co si : R, (r * co = vx - X)%R -> (r * si = vy - Y)%R ->
  arc_coord_R X co r = vx /\ arc_coord_R Y si r = vy.
Proof. exact arc_point_is_vertex. Qed.
Print Assumptions C17_arc_end_points_are_the_vertices.

(* ---------- the joint vertex appears once ---------- *)

(* the new segment's first vertex is dropped iff it equals (IEEE ==, per
   coordinate) the last vertex of the path so far ... *)
Theorem C17_joint_vertex_skipped_iff_equal :
  forall pre l x t, skip_first ((pre ++ [l]) ++ x :: t) (length (pre ++ [l])) = peqb l x.
Proof. exact skip_first_spec. Qed.
Print Assumptions C17_joint_vertex_skipped_iff_equal.

(* ... and dropping removes exactly that vertex *)
Theorem C17_joint_vertex_removed :
  forall pre x t, drop_joint (pre ++ x :: t) (length pre) = pre ++ t.
Proof. exact drop_joint_spec. Qed.
Print Assumptions C17_joint_vertex_removed.

Theorem C17_nothing_skipped_on_first_segment_or_empty_segment :
  forall path, skip_first path 0 = false /\ skip_first path (length path) = false.
Proof. intros. split; [apply skip_first_nil|apply skip_first_none]. Qed.
Print Assumptions C17_nothing_skipped_on_first_segment_or_empty_segment.

(* D19: the "(int)Infinity" workaround gives 2 sub-points whenever
   2 * acosf(1 - 0.1 / radius) is within f32::EPSILON of zero, whatever the
   angular range: such an arc never reaches the fall-back, however long it is *)
Theorem C17_degenerate_sub_point_count :
  forall lm pr,
  S.le (S.mul s2 (a_radius pr)) circular_arc_tolerance = false ->
  S.le (S.abs (S.mul s2 (l_acosf lm (S.sub S.one (S.div circular_arc_tolerance (a_radius pr)))))) S.eps = true ->
  arc_sub_points lm pr = 2.
Proof. exact arc_sub_points_degenerate. Qed.
Print Assumptions C17_degenerate_sub_point_count.

(* ... and that happens from a radius of a few 10^6 on: 1 - 0.1/r IS 1.0f32 *)
Example C17_D19_radius_argument :
  S.bits (S.sub S.one (S.div circular_arc_tolerance (S.of_Z 4000000))) = S.bits S.one /\
  S.bits (S.sub S.one (S.div circular_arc_tolerance (S.of_Z 1000000))) <> S.bits S.one.
Proof. vm_compute. split; [reflexivity|discriminate]. Qed.

(* ---------- concrete reading ---------- *)

Definition lm0 : Libm := mkLibm (fun x => x) (fun x => x) (fun y _ => y) (fun x => x).
Definition pt (x y : Z) (t : option SplineType) : PathControlPoint := mkPCP (mkPos (S.of_Z x) (S.of_Z y)) t.

(* non-vacuity: linear (0,0)->(10,0), then a Bezier (10,0) (10,10) (20,15):
   the joint (10,0) appears once; the path starts at (0,0), ends at (20,15),
   and the Bezier part has more than two vertices *)
Example C17_nonvacuous :
  match curve_L1 lm0 bezier_fuel 1
          [pt 0 0 (Some Linear); pt 10 0 (Some BSpline); pt 10 10 None; pt 20 15 None] None with
  | Done c =>
      (dump_pos (hd pos0 (c_path c)), dump_pos (last (c_path c) pos0),
       Nat.ltb 4 (length (c_path c)),
       length (filter (fun p => peqb p (mkPos (S.of_Z 10) (S.of_Z 0))) (c_path c)))
  | _ => ([], [], false, O)
  end
  = (dump_pos (mkPos (S.of_Z 0) (S.of_Z 0)), dump_pos (mkPos (S.of_Z 20) (S.of_Z 15)), true, 1%nat).
Proof. vm_compute. reflexivity. Qed.

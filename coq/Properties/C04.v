(* C04 -- the encoder only emits text that its own decoder accepts.
   (work in progress: statements are added below as they are proved) *)
From RM Require Import Model.Encode.
Open Scope Z_scope.

Example pin_version_prefix : Gen.Generated.version_prefix = "osu file format v"%string.
Proof. reflexivity. Qed.

(* C04 -- The encoder only emits text that its own decoder accepts.

   "For every map obtained by decoding, the encoded text begins with a
   format-version line, contains each section header exactly once in the
   canonical order, and every non-blank line inside a section is accepted
   without error by that section's line parser.  No line the encoder writes is
   ever dropped or misread as a different record when the file is read back."

   Model: Model/Encode.v (Beatmap::encode as a producer of token lines),
   Model/Render.v (text of a token line, given the number-formatting
   functions), Model/EncSpec.v ([*_ok]: the values the format can represent;
   [carry_*]: what reading a section back yields).  Number formatting (Rust's
   `Display`) is an oracle: every statement is for ALL formatting functions
   that satisfy [fmt_ok] (Proofs/EncFmt.v).  The domain "maps obtained by
   decoding" enters through [simple_ok]: Proofs/EncImage.v shows that the
   decoder's image satisfies it (outside the known class D23).

   This file holds only statements, each closed by [exact] of a lemma from
   Proofs/, followed by Print Assumptions; plus pins and examples. *)
From RM Require Import Model.EncPathSpec Model.HitObjectSpec Proofs.EncPathRT Proofs.EncPathImage Proofs.EncSlider Proofs.EncLineImage Proofs.EncMapImage.
From RM Require Import Model.EncObjCarry Proofs.EncObjectsRT.
From RM Require Import Proofs.TimingPointsValues Proofs.Enc2Values Proofs.Enc2Samples Proofs.Enc2Examples.
From RM Require Import Model.EncTimingSpec Proofs.Enc2Timing Model.DrvEnc Proofs.Enc2D32.
From RM Require Import Model.EncSpec Proofs.EncFmt Proofs.EncShape Proofs.EncSimple Proofs.EncImage Proofs.EncObjects Proofs.EncRound Proofs.EncTiming.
From RM Require Import Gen.Generated.
Open Scope Z_scope.

(* ---------- pins: the literals the property text names ---------- *)

Example pin_version_prefix : version_prefix = "osu file format v"%string.
Proof. reflexivity. Qed.

(* the eight header lines, in the canonical order, as the decoder's table spells them *)
Example pin_headers :
  map (fun s => odflt [] (header_line s)) canonical_order =
  map lit ["[General]"; "[Editor]"; "[Metadata]"; "[Difficulty]"; "[Events]"; "[TimingPoints]";
           "[Colours]"; "[HitObjects]"]%string.
Proof. vm_compute. reflexivity. Qed.

Example pin_limits : max_parse_value = 2147483647 /\ color_default_alpha = 255.
Proof. split; reflexivity. Qed.
Example pin_slider_limits : max_coordinate_value = 131072 /\ repeat_cap = 9000.
Proof. split; reflexivity. Qed.

(* ---------- T04a: shape ---------- *)

(* The output is: version line, then for each of the eight sections in the
   canonical order a blank line, the header line and the body lines; the
   timing-point and hit-object body lines all start with a number. *)
Theorem C04_shape :
  forall dist events m ls,
  encode_lines dist events m = Done ls ->
  exists tp ho,
    let h := bmv_ho m in
    Forall num_first tp /\ Forall num_first ho /\
    ls = [enc_version (bmv_version m)] ++
         [] :: enc_general (hov_general h) (hov_control_points h) ++
         [] :: enc_editor (bmv_editor m) ++
         [] :: enc_metadata (bmv_metadata m) ++
         [] :: enc_difficulty (hov_difficulty h) ++
         [] :: enc_events (hov_events h) ++
         [] :: (header_tok SecTimingPoints :: tp) ++
         [] :: enc_colors (bmv_colors m) ++
         [] :: (header_tok SecHitObjects :: ho).
Proof. intros dist events m ls H. exact (encode_shape dist events m ls H). Qed.
Print Assumptions C04_shape.

(* the first line is read back as the version line of the map *)
Theorem C04_version_line :
  forall fmt_f64 fmt_f32 fmt_int, fmt_ok fmt_f64 fmt_f32 fmt_int ->
  forall v, i32_ok v = true ->
  try_version_from_line (render fmt_f64 fmt_f32 fmt_int (enc_version v)) = VBreak (Some v).
Proof. intros f64 f32 fi Hfmt v Hv. exact (version_line_parses f64 f32 fi Hfmt v Hv). Qed.
Print Assumptions C04_version_line.

(* each header line is recognised by the decoder's Section::try_from_line *)
Theorem C04_header_lines_recognised :
  forall fmt_f64 fmt_f32 fmt_int s, In s canonical_order ->
  section_of_line (render fmt_f64 fmt_f32 fmt_int (header_tok s)) = Some s.
Proof. intros f64 f32 fi s Hs. exact (header_recognised f64 f32 fi s Hs). Qed.
Print Assumptions C04_header_lines_recognised.

(* the lines that the decoder takes for headers are exactly the eight
   headers, once each, in the canonical order: no body line is a header *)
Theorem C04_headers_once_in_order :
  forall fmt_f64 fmt_f32 fmt_int, fmt_ok fmt_f64 fmt_f32 fmt_int ->
  forall dist events m ls,
  encode_lines dist events m = Done ls -> colors_ok (bmv_colors m) = true ->
  headers_of (map (render fmt_f64 fmt_f32 fmt_int) ls) = canonical_order.
Proof. intros f64 f32 fi Hfmt dist events m ls H Hc. exact (encode_headers f64 f32 fi Hfmt dist events m ls H Hc). Qed.
Print Assumptions C04_headers_once_in_order.

(* no body line is a header, and none is skipped as blank / comment: it reaches its parser *)
Theorem C04_body_lines_routed :
  forall fmt_f64 fmt_f32 fmt_int, fmt_ok fmt_f64 fmt_f32 fmt_int ->
  forall m tp ho,
  colors_ok (bmv_colors m) = true ->
  (* tp, ho: the timing-point and hit-object body lines of C04_shape *)
  Forall num_first tp -> Forall num_first ho ->
  let h := bmv_ho m in
  let bodies := body (enc_general (hov_general h) (hov_control_points h)) ++ body (enc_editor (bmv_editor m)) ++
                body (enc_metadata (bmv_metadata m)) ++ body (enc_difficulty (hov_difficulty h)) ++
                body (enc_events (hov_events h)) ++ tp ++ body (enc_colors (bmv_colors m)) ++ ho in
  Forall (fun l => section_of_line (render fmt_f64 fmt_f32 fmt_int l) = None /\
                   should_skip_line (render fmt_f64 fmt_f32 fmt_int l) = false) bodies.
Proof. intros f64 f32 fi Hfmt m tp ho Hc Htp Hho. exact (body_lines_routed f64 f32 fi Hfmt m tp ho Hc Htp Hho). Qed.
Print Assumptions C04_body_lines_routed.

(* ---------- T04b: every body line of the six simple sections is accepted ---------- *)
(* [accepted parse l]: for every parser state, parsing the rendered line returns Ok. *)

Theorem C04_general_lines_accepted :
  forall fmt_f64 fmt_f32 fmt_int, fmt_ok fmt_f64 fmt_f32 fmt_int ->
  forall g c, general_ok g = true -> enum4_ok (first_sample_bank c) = true ->
  Forall (accepted fmt_f64 fmt_f32 fmt_int parse_general) (body (enc_general g c)).
Proof. intros f64 f32 fi Hfmt g c H1 H2. exact (general_accepted f64 f32 fi Hfmt g c H1 H2). Qed.
Print Assumptions C04_general_lines_accepted.

Theorem C04_editor_lines_accepted :
  forall fmt_f64 fmt_f32 fmt_int, fmt_ok fmt_f64 fmt_f32 fmt_int ->
  forall e, editor_ok e = true ->
  Forall (accepted fmt_f64 fmt_f32 fmt_int parse_editor) (body (enc_editor e)).
Proof. intros f64 f32 fi Hfmt e H. exact (editor_accepted f64 f32 fi Hfmt e H). Qed.
Print Assumptions C04_editor_lines_accepted.

Theorem C04_metadata_lines_accepted :
  forall fmt_f64 fmt_f32 fmt_int, fmt_ok fmt_f64 fmt_f32 fmt_int ->
  forall m, metadata_ok m = true ->
  Forall (accepted fmt_f64 fmt_f32 fmt_int parse_metadata) (body (enc_metadata m)).
Proof. intros f64 f32 fi Hfmt m H. exact (metadata_accepted f64 f32 fi Hfmt m H). Qed.
Print Assumptions C04_metadata_lines_accepted.

Theorem C04_difficulty_lines_accepted :
  forall fmt_f64 fmt_f32 fmt_int, fmt_ok fmt_f64 fmt_f32 fmt_int ->
  forall d, difficulty_ok d = true ->
  Forall (accepted fmt_f64 fmt_f32 fmt_int parse_difficulty) (body (enc_difficulty d)).
Proof. intros f64 f32 fi Hfmt d H. exact (difficulty_accepted f64 f32 fi Hfmt d H). Qed.
Print Assumptions C04_difficulty_lines_accepted.

Theorem C04_events_lines_accepted :
  forall fmt_f64 fmt_f32 fmt_int, fmt_ok fmt_f64 fmt_f32 fmt_int ->
  forall e, events_ok e = true ->
  Forall (accepted fmt_f64 fmt_f32 fmt_int parse_events) (body (enc_events e)).
Proof. intros f64 f32 fi Hfmt e H. exact (events_accepted f64 f32 fi Hfmt e H). Qed.
Print Assumptions C04_events_lines_accepted.

Theorem C04_colours_lines_accepted :
  forall fmt_f64 fmt_f32 fmt_int, fmt_ok fmt_f64 fmt_f32 fmt_int ->
  forall c, colors_ok c = true ->
  Forall (accepted fmt_f64 fmt_f32 fmt_int parse_colors) (body (enc_colors c)).
Proof. intros f64 f32 fi Hfmt c H. exact (colors_accepted f64 f32 fi Hfmt c H). Qed.
Print Assumptions C04_colours_lines_accepted.

(* ---------- T04c: not misread -- reading a whole encoded section back ---------- *)
(* Parsing the body lines, in order, from the decoder's initial state yields
   the record the section was written from ([carry_*]: minus what the legacy
   format does not carry). *)

Theorem C04_general_read_back :
  forall fmt_f64 fmt_f32 fmt_int, fmt_ok fmt_f64 fmt_f32 fmt_int ->
  forall g c, general_ok g = true -> enum4_ok (first_sample_bank c) = true ->
  run_lines parse_general general_default (map (render fmt_f64 fmt_f32 fmt_int) (body (enc_general g c)))
  = carry_general g c.
Proof. intros f64 f32 fi Hfmt g c H1 H2. exact (general_section f64 f32 fi Hfmt g c H1 H2). Qed.
Print Assumptions C04_general_read_back.

Theorem C04_editor_read_back :
  forall fmt_f64 fmt_f32 fmt_int, fmt_ok fmt_f64 fmt_f32 fmt_int ->
  forall e, editor_ok e = true ->
  run_lines parse_editor editor_default (map (render fmt_f64 fmt_f32 fmt_int) (body (enc_editor e))) = e.
Proof. intros f64 f32 fi Hfmt e H. exact (editor_section f64 f32 fi Hfmt e H). Qed.
Print Assumptions C04_editor_read_back.

Theorem C04_metadata_read_back :
  forall fmt_f64 fmt_f32 fmt_int, fmt_ok fmt_f64 fmt_f32 fmt_int ->
  forall m, metadata_ok m = true ->
  run_lines parse_metadata metadata_default (map (render fmt_f64 fmt_f32 fmt_int) (body (enc_metadata m)))
  = carry_metadata m.
Proof. intros f64 f32 fi Hfmt m H. exact (metadata_section f64 f32 fi Hfmt m H). Qed.
Print Assumptions C04_metadata_read_back.

Theorem C04_difficulty_read_back :
  forall fmt_f64 fmt_f32 fmt_int, fmt_ok fmt_f64 fmt_f32 fmt_int ->
  forall d, difficulty_ok d = true ->
  run_lines parse_difficulty difficulty_default (map (render fmt_f64 fmt_f32 fmt_int) (body (enc_difficulty d)))
  = carry_difficulty d.
Proof. intros f64 f32 fi Hfmt d H. exact (difficulty_section f64 f32 fi Hfmt d H). Qed.
Print Assumptions C04_difficulty_read_back.

Theorem C04_events_read_back :
  forall fmt_f64 fmt_f32 fmt_int, fmt_ok fmt_f64 fmt_f32 fmt_int ->
  forall e, events_ok e = true ->
  run_lines parse_events events_default (map (render fmt_f64 fmt_f32 fmt_int) (body (enc_events e))) = e.
Proof. intros f64 f32 fi Hfmt e H. exact (events_section f64 f32 fi Hfmt e H). Qed.
Print Assumptions C04_events_read_back.

Theorem C04_colours_read_back :
  forall fmt_f64 fmt_f32 fmt_int, fmt_ok fmt_f64 fmt_f32 fmt_int ->
  forall c, colors_ok c = true ->
  run_lines parse_colors colors_default (map (render fmt_f64 fmt_f32 fmt_int) (body (enc_colors c))) = c.
Proof. intros f64 f32 fi Hfmt c H. exact (colors_section f64 f32 fi Hfmt c H). Qed.
Print Assumptions C04_colours_read_back.

(* ---------- the domain: maps obtained by decoding ---------- *)

(* decode_image_inv.  Whatever the input lines (well-formed, non-chronological,
   hostile; a line is a piece between two line feeds), every field of the six
   simple sections of the decoded map holds a representable value: strings
   are trimmed and free of line breaks, numbers lie within the parse limits,
   clamped values within their clamp range, enums are enum values, breaks do
   not end before they start, colour names are distinct keys, sample banks are banks.
   One exception (known finding D23): the file names may contain "//". *)
Theorem C04_decode_image_inv :
  forall dist lines m,
  Forall no_lf_line lines -> decode_beatmap dist lines = Done m ->
  simple_pre m = true /\ (d23_class m = false -> simple_ok m = true).
Proof.
  intros dist lines m Hl H.
  exact (conj (decode_image_pre dist lines m Hl H) (decode_image_inv dist lines m Hl H)).
Qed.
Print Assumptions C04_decode_image_inv.

(* hence the hypotheses of the per-section statements above hold of every decoded map *)
Theorem C04_decoded_sections_representable :
  forall m, simple_ok m = true ->
  i32_ok (bmv_version m) = true /\ general_ok (hov_general (bmv_ho m)) = true /\
  editor_ok (bmv_editor m) = true /\ metadata_ok (bmv_metadata m) = true /\
  difficulty_ok (hov_difficulty (bmv_ho m)) = true /\ events_ok (hov_events (bmv_ho m)) = true /\
  colors_ok (bmv_colors m) = true /\ enum4_ok (first_sample_bank (hov_control_points (bmv_ho m))) = true.
Proof. exact simple_ok_parts. Qed.
Print Assumptions C04_decoded_sections_representable.

(* D23 (known finding): the full statement "every decoded map satisfies simple_ok" is
   refuted -- `AudioFilename: a\\b.mp3` decodes to the name a//b.mp3, and the record
   the encoder writes from that name is read back with a different name, for every
   formatting function and every parser state. *)
Theorem C04_file_name_misread_refuted :
  exists text,
  let g := decode_general (lines_of_text text) in
  general_pre g = true /\ has_ss (g_audio_file g) = true /\
  forall f64 f32 fi st,
    g_audio_file (fst (parse_general st (render f64 f32 fi (kv_line (gkey GAudioFilename) (TStr (g_audio_file g))))))
    <> g_audio_file g.
Proof. exists d23_text. exact d23_witness. Qed.
Print Assumptions C04_file_name_misread_refuted.

(* ---------- T04b for hit-object lines: circles, spinners, holds ---------- *)
(* [object_ok h]: start time within the parse limits, integer coordinates within
   +-131072, combo offset 0..7, end time start + duration within the limits, sample
   banks / custom index / volume representable, sample file name without `,` `:` "//".
   For EVERY parser state the line is accepted and adds exactly one object of the same
   kind with the same start time and position ([adds]); nothing is dropped or misread
   as another kind of record. *)

Theorem C04_circle_line_accepted :
  forall fmt_f64 fmt_f32 fmt_int, fmt_ok fmt_f64 fmt_f32 fmt_int ->
  forall dist mode h c l,
  h_kind h = KCircle c -> object_ok h = true -> object_line dist mode h = Done l ->
  forall st, exists st', parse_hit_objects st (render fmt_f64 fmt_f32 fmt_int l) = Done (st', Ok) /\
                         adds st st' (h_start h) 0 (Some (ci_pos c)).
Proof. intros f64 f32 fi Hfmt dist mode h c l H1 H2 H3. exact (circle_line_accepted f64 f32 fi Hfmt dist mode h c l H1 H2 H3). Qed.
Print Assumptions C04_circle_line_accepted.

Theorem C04_spinner_line_accepted :
  forall fmt_f64 fmt_f32 fmt_int, fmt_ok fmt_f64 fmt_f32 fmt_int ->
  forall dist mode h s l,
  h_kind h = KSpinner s -> object_ok h = true -> object_line dist mode h = Done l ->
  forall st, exists st', parse_hit_objects st (render fmt_f64 fmt_f32 fmt_int l) = Done (st', Ok) /\
                         adds st st' (h_start h) 2 None.
Proof. intros f64 f32 fi Hfmt dist mode h s l H1 H2 H3. exact (spinner_line_accepted f64 f32 fi Hfmt dist mode h s l H1 H2 H3). Qed.
Print Assumptions C04_spinner_line_accepted.

Theorem C04_hold_line_accepted :
  forall fmt_f64 fmt_f32 fmt_int, fmt_ok fmt_f64 fmt_f32 fmt_int ->
  forall dist mode h hd l,
  h_kind h = KHold hd -> object_ok h = true -> object_line dist mode h = Done l ->
  forall st, exists st', parse_hit_objects st (render fmt_f64 fmt_f32 fmt_int l) = Done (st', Ok) /\
                         adds st st' (h_start h) 3 (Some (mkPos (hd_pos_x hd) (hd_pos_x hd))).
Proof. intros f64 f32 fi Hfmt dist mode h hd l H1 H2 H3. exact (hold_line_accepted f64 f32 fi Hfmt dist mode h hd l H1 H2 H3). Qed.
Print Assumptions C04_hold_line_accepted.

(* non-vacuity: the circle, the hold and the spinner of a decoded file satisfy [object_ok] *)
Example decoded_objects_ok :
  match decode_beatmap stub_dist (lines_of_text plain_text) with
  | Done m => forallb object_ok (hov_hit_objects (bmv_ho m)) = true /\
              map (fun h => kind_tag (h_kind h)) (hov_hit_objects (bmv_ho m)) = [0; 3; 2]
  | _ => False
  end.
Proof. vm_compute. split; reflexivity. Qed.

(* ---------- T04b for slider lines ---------- *)
(* [slider_ok h s d] (Model/EncPathSpec.v): start time within the parse limits, sample data
   representable, integer position within +-131072, combo offset 0..7, repeat count 0..8999,
   control points in the decoder's image ([path_image]) and outside D13 / D17 / consecutive
   Catmull, and the written length [d] (explicit length, or the length of the computed curve)
   within the coordinate limit -- its negation is the known finding D21.  Besides [fmt_ok] one
   more fact about `Display` is assumed: [fmt_f32_int], an integer-valued f32 prints like the
   integer.
   For EVERY parser state the whole line -- position, time, type byte, hit sound, path, span
   count, length, edge sounds, edge sets, extras -- is accepted and adds exactly one slider with
   the same start time, position, control points, repeat count and node count. *)
Theorem C04_slider_line_accepted :
  forall fmt_f64 fmt_f32 fmt_int, fmt_ok fmt_f64 fmt_f32 fmt_int -> fmt_f32_int fmt_f32 fmt_int ->
  forall dist mode h s d l,
  h_kind h = KSlider s -> written_len dist s = Done d -> slider_ok h s d = true ->
  object_line dist mode h = Done l ->
  forall st, exists st' o s',
    parse_hit_objects st (render fmt_f64 fmt_f32 fmt_int l) = Done (st', Ok) /\
    ho_objects st' = ho_objects st ++ [o] /\
    h_start o = h_start h /\ h_kind o = KSlider s' /\
    sl_pos s' = sl_pos s /\
    sl_control_points s' = sl_control_points s /\
    sl_repeat_count s' = sl_repeat_count s /\
    length (sl_node_samples s') = Z.to_nat (sl_repeat_count s + 2).
Proof.
  intros f64 f32 fi Hfmt H32 dist mode h s d l H1 H2 H3 H4.
  exact (slider_line_accepted f64 f32 fi Hfmt H32 dist mode h s d l H1 H2 H3 H4).
Qed.
Print Assumptions C04_slider_line_accepted.

(* the path field on its own: T02c (stated in full in C02_path_round_trip) *)
Theorem C04_path_field_read_back :
  forall fmt_f64 fmt_f32 fmt_int, fmt_ok fmt_f64 fmt_f32 fmt_int -> fmt_f32_int fmt_f32 fmt_int ->
  forall pos cps,
  path_image pos cps = true ->
  d13_class cps = false -> d17_class cps = false -> consec_catmull cps = false ->
  exists s, render fmt_f64 fmt_f32 fmt_int (path_toks pos cps) = s ++ [comma] /\ memb comma s = false /\
            forallb safec s = true /\
            path_spec s pos = (cps, true) /\
            forall vs, exists vs', convert_path_str (mkPB [] vs) s pos = Done (mkPB cps vs', Ok).
Proof. intros f64 f32 fi Hfmt H32 pos cps H1 H2 H3 H4. exact (path_round_trip f64 f32 fi Hfmt H32 pos cps H1 H2 H3 H4). Qed.
Print Assumptions C04_path_field_read_back.

(* ---------- T04b: every body line of [HitObjects] ---------- *)
(* [encodable dist h]: [object_ok h] for a circle, spinner or hold, [slider_ok h s d] for a
   slider (d the length the encoder writes).  Every line written for a list of encodable objects
   is accepted in every parser state and adds exactly one object with the start time of the
   object it was written from; reading the section back yields as many objects as lines, with
   the same start times in the same order: nothing is dropped. *)
Theorem C04_hit_object_lines_accepted :
  forall fmt_f64 fmt_f32 fmt_int, fmt_ok fmt_f64 fmt_f32 fmt_int -> fmt_f32_int fmt_f32 fmt_int ->
  forall dist mode objs ls,
  Forall (encodable dist) objs -> object_lines dist mode objs = Done ls ->
  Forall2 (fun h l => ho_accepted fmt_f64 fmt_f32 fmt_int (h_start h) l) objs ls.
Proof.
  intros f64 f32 fi Hfmt H32 dist mode objs ls H1 H2.
  exact (hit_object_lines_accepted f64 f32 fi Hfmt H32 dist mode objs ls H1 H2).
Qed.
Print Assumptions C04_hit_object_lines_accepted.

Theorem C04_hit_objects_section_read_back :
  forall fmt_f64 fmt_f32 fmt_int, fmt_ok fmt_f64 fmt_f32 fmt_int -> fmt_f32_int fmt_f32 fmt_int ->
  forall dist mode objs ls st,
  Forall (encodable dist) objs -> object_lines dist mode objs = Done ls ->
  exists st', run_ho st (map (render fmt_f64 fmt_f32 fmt_int) ls) = Done st' /\
              map h_start (ho_objects st') = map h_start (ho_objects st) ++ map h_start objs.
Proof.
  intros f64 f32 fi Hfmt H32 dist mode objs ls st H1 H2.
  exact (hit_objects_section_read_back f64 f32 fi Hfmt H32 dist mode objs ls st H1 H2).
Qed.
Print Assumptions C04_hit_objects_section_read_back.

(* the decoder's image, at line level: every object that an accepted hit-object line adds has a
   start time within the parse limits, an integer position within +-131072, a combo offset
   0..7; a slider has control points in [path_image], a repeat count 0..8999, repeat count + 2
   nodes and an explicit length (if any) within the coordinate limit *)
Theorem C04_accepted_line_object_image :
  forall st line st', parse_hit_objects st line = Done (st', Ok) ->
  exists o, ho_objects st' = ho_objects st ++ [o] /\ object_image o = true.
Proof. exact parse_object_image. Qed.
Print Assumptions C04_accepted_line_object_image.

Theorem C04_path_image_is_decoder_image :
  forall pos s vs cps vs',
  coord_ok (px pos) = true -> coord_ok (py pos) = true ->
  convert_path_str (mkPB [] vs) s pos = Done (mkPB cps vs', Ok) -> path_image pos cps = true.
Proof. exact convert_path_str_image. Qed.
Print Assumptions C04_path_image_is_decoder_image.

(* ... and that image survives the whole decoder (every line parser, the stable sort, the break
   post-processing, the per-object loop): it holds of every hit object of every decoded map *)
Theorem C04_decoded_objects_image :
  forall dist lines m, decode_beatmap dist lines = Done m ->
  Forall (fun h => object_image h = true) (hov_hit_objects (bmv_ho m)).
Proof. exact decoded_objects_image. Qed.
Print Assumptions C04_decoded_objects_image.

(* "every non-blank line of [HitObjects] is accepted", for decoded maps: whatever the input,
   if the objects of the decoded map are outside the recorded classes -- [residual]: D13 / D17 /
   consecutive Catmull, D21 (written length), D26 (end time) -- and carry representable sample
   data ([sample_ok]; discharged below: C04_decoded_hit_object_lines_accepted_classes), then every
   line the encoder writes for them is accepted in every parser state and adds one object with
   the same start time *)
Theorem C04_decoded_hit_object_lines_accepted :
  forall fmt_f64 fmt_f32 fmt_int, fmt_ok fmt_f64 fmt_f32 fmt_int -> fmt_f32_int fmt_f32 fmt_int ->
  forall dist lines m mode ls,
  decode_beatmap dist lines = Done m ->
  Forall (residual dist) (hov_hit_objects (bmv_ho m)) ->
  object_lines dist mode (hov_hit_objects (bmv_ho m)) = Done ls ->
  Forall2 (fun h l => ho_accepted fmt_f64 fmt_f32 fmt_int (h_start h) l) (hov_hit_objects (bmv_ho m)) ls.
Proof.
  intros f64 f32 fi Hfmt H32 dist lines m mode ls H1 H2 H3.
  exact (decoded_hit_object_lines_accepted f64 f32 fi Hfmt H32 dist lines m mode ls H1 H2 H3).
Qed.
Print Assumptions C04_decoded_hit_object_lines_accepted.

(* ---------- the sample data of decoded maps ---------- *)
(* [sample_img s]: custom index and volume within the i32 parse limits, the bank an enum value, a
   file name free of `,` `:` "//" and line feeds -- [sample_ok] without "the file name does not end
   in white space".  It holds of every sample of every hit object and of every slider node of every
   decoded map, whatever the input lines (a line is a piece between two line feeds): carried through
   read_custom_sample_banks / convert_sound_type, the stable sort, the break post-processing and
   SamplePoint::apply in the per-object loop (with the sample points' banks and custom indices
   carried through the [TimingPoints] parser). *)
Theorem C04_decoded_samples_image :
  forall dist lines m,
  Forall no_lf_line lines -> decode_beatmap dist lines = Done m ->
  Forall (fun h => obj_simg h = true) (hov_hit_objects (bmv_ho m)).
Proof. exact decoded_samples_img. Qed.
Print Assumptions C04_decoded_samples_image.

(* [sample_ok] is exactly [sample_img] outside class D30 *)
Theorem C04_sample_ok_iff :
  forall s, sample_ok s = true <-> (sample_img s = true /\ d30_sample s = false).
Proof. intros s. split; [exact (sample_ok_img s)|intros [H1 H2]; exact (sample_img_ok s H1 H2)]. Qed.
Print Assumptions C04_sample_ok_iff.

(* "every non-blank line of [HitObjects] is accepted", for decoded maps, with NO hypothesis left
   that is not a recorded finding class: [residual_classes] = outside D30 (sample file name ending
   in white space), D13 / D17 / consecutive Catmull, D21 (written length), D26 (end time) *)
Theorem C04_decoded_hit_object_lines_accepted_classes :
  forall fmt_f64 fmt_f32 fmt_int, fmt_ok fmt_f64 fmt_f32 fmt_int -> fmt_f32_int fmt_f32 fmt_int ->
  forall dist lines m mode ls,
  Forall no_lf_line lines -> decode_beatmap dist lines = Done m ->
  Forall (residual_classes dist) (hov_hit_objects (bmv_ho m)) ->
  object_lines dist mode (hov_hit_objects (bmv_ho m)) = Done ls ->
  Forall2 (fun h l => ho_accepted fmt_f64 fmt_f32 fmt_int (h_start h) l) (hov_hit_objects (bmv_ho m)) ls.
Proof.
  intros f64 f32 fi Hfmt H32 dist lines m mode ls H0 H1 H2 H3.
  exact (decoded_hit_object_lines_accepted_classes f64 f32 fi Hfmt H32 dist lines m mode ls H0 H1 H2 H3).
Qed.
Print Assumptions C04_decoded_hit_object_lines_accepted_classes.

(* D30 (known finding): the remaining clause of [sample_ok] is NOT an invariant.  A file name that is
   followed by further text on its line keeps trailing white space; the encoder writes it at the
   end of the line and the decoder trims it: the four lines of [d30_text] are accepted on re-read
   but carry other sample names (a name of white space only comes back as the normal sample). *)
Theorem C04_sample_name_trimmed_refuted :
  match round_trip d30_text with
  | Done (m1, m2) =>
      forallb obj_simg (hov_hit_objects (bmv_ho m1)) = true /\
      map d30_class (hov_hit_objects (bmv_ho m1)) = [true; true; true; true] /\
      map (fun h => object_image h) (hov_hit_objects (bmv_ho m1)) = [true; true; true; true] /\
      name_dump m1 = [[1 :: dump_str (lit "a.wav ")]; [1 :: dump_str (lit "b.wav ")];
                      [1 :: dump_str (lit "c.wav ")]; [1 :: dump_str (lit " ")]] /\
      name_dump m2 = [[1 :: dump_str (lit "a.wav")]; [1 :: dump_str (lit "b.wav")];
                      [1 :: dump_str (lit "c.wav")]; [[0; nm_normal]]]
  | _ => False
  end.
Proof. exact d30_witness. Qed.
Print Assumptions C04_sample_name_trimmed_refuted.

Theorem C04_decoded_sample_ok_refuted :
  exists text m, Forall no_lf_line (lines_of_text text) /\ decode_beatmap stub_dist (lines_of_text text) = Done m /\
                 existsb (fun h => negb (forallb sample_ok (h_samples h))) (hov_hit_objects (bmv_ho m)) = true.
Proof. exact decoded_sample_ok_refuted. Qed.
Print Assumptions C04_decoded_sample_ok_refuted.

(* non-vacuity: a decoded file with file names, additions, a spinner and a hold is in the image and
   outside D30 *)
Example C04_samples_image_example :
  match decode_beatmap stub_dist (lines_of_text rt_text) with
  | Done m => forallb obj_simg (hov_hit_objects (bmv_ho m)) = true /\
              existsb d30_class (hov_hit_objects (bmv_ho m)) = false /\
              forallb (fun h => forallb sample_ok (h_samples h)) (hov_hit_objects (bmv_ho m)) = true /\
              length (hov_hit_objects (bmv_ho m)) = 6%nat
  | _ => False
  end.
Proof. exact samples_img_example. Qed.

(* the sample points of decoded maps (what SamplePoint::apply copies into the samples), and the
   other control points: values within their clamps / the parse limits, finite times *)
Theorem C04_decoded_control_point_ranges :
  forall dist lines m, decode_beatmap dist lines = Done m ->
  let c := hov_control_points (bmv_ho m) in
  Forall good_tp (cp_timing c) /\ Forall good_dp (cp_difficulty c) /\
  Forall range_ep (cp_effect c) /\ Forall range_sp (cp_sample c).
Proof. exact decoded_cp_ranges. Qed.
Print Assumptions C04_decoded_control_point_ranges.

(* D26 (known finding): [object_ok] does not hold of every decoded spinner / hold -- the end time
   start + duration can exceed the parse limit by rounding; the line is then rejected in every
   state, for every formatting function, and the decoded object is lost on re-read *)
Theorem C04_end_beyond_limit_rejected :
  forall fmt_f64 fmt_f32 fmt_int, fmt_ok fmt_f64 fmt_f32 fmt_int ->
  forall dist mode h l, end_beyond_limit h = true -> object_line dist mode h = Done l ->
  forall st, parse_hit_objects st (render fmt_f64 fmt_f32 fmt_int l) = Done (st, Rejected).
Proof. intros f64 f32 fi Hfmt dist mode h l H1 H2. exact (end_beyond_limit_rejected f64 f32 fi Hfmt dist mode h l H1 H2). Qed.
Print Assumptions C04_end_beyond_limit_rejected.

Theorem C04_decoded_end_beyond_limit_refuted :
  exists text m, decode_beatmap stub_dist (lines_of_text text) = Done m /\
  hov_hit_objects (bmv_ho m) <> [] /\
  forall fmt_f64 fmt_f32 fmt_int, fmt_ok fmt_f64 fmt_f32 fmt_int ->
  forall h, In h (hov_hit_objects (bmv_ho m)) ->
  forall dist mode l, object_line dist mode h = Done l ->
  forall st, parse_hit_objects st (render fmt_f64 fmt_f32 fmt_int l) = Done (st, Rejected).
Proof. exact decoded_end_beyond_limit_refuted. Qed.
Print Assumptions C04_decoded_end_beyond_limit_refuted.

(* ---------- T04b for timing-point lines (line grammar) ---------- *)

(* every body line of the [TimingPoints] section has the shape time,beat,sig,bank,custom,volume,flag,effects *)
Theorem C04_timing_lines_shape :
  forall c last gs ls, group_lines c last gs = Done ls ->
  Forall (fun l => exists time beat p tc, l = tp_line time beat p tc) ls.
Proof. intros c last gs ls H. exact (group_lines_shape c gs last ls H). Qed.
Print Assumptions C04_timing_lines_shape.

(* and such a line -- numbers within the parse limits, positive signature -- is accepted by the
   decoder's field parser whatever the General settings, with the time, the beat-length field,
   the custom index, the volume and the uninherited flag it was written from; so
   parse_timing_points never answers Rejected for it *)
Theorem C04_timing_line_accepted :
  forall fmt_f64 fmt_f32 fmt_int, fmt_ok fmt_f64 fmt_f32 fmt_int ->
  forall time beat p tc, tp_line_ok time beat p tc = true ->
  forall g, exists r, parse_tp_line g (render fmt_f64 fmt_f32 fmt_int (tp_line time beat p tc)) = Some r /\
                      l_time r = time /\ l_tc r = tc /\ l_beat r = beat /\ l_custom r = pr_custom p /\ l_vol r = pr_vol p.
Proof. intros f64 f32 fi Hfmt time beat p tc H. exact (tp_line_accepted f64 f32 fi Hfmt time beat p tc H). Qed.
Print Assumptions C04_timing_line_accepted.

(* T04b for the [TimingPoints] section of decoded maps: every body line the encoder writes is
   accepted by the decoder's field parser, whatever the General settings -- provided no sample
   point collected from a hit object lies beyond the parse limit ([sample_times_ok]; its negation
   is class D26 for spinners / holds and the new class D32 for sliders).  All other numbers written
   are proved within the limits: clamped beat lengths, -100/sv for clamped sv, signatures, banks,
   custom indices, volumes, effect flags, the times of timing / difficulty / effect points. *)
Theorem C04_decoded_timing_lines_accepted :
  forall dist events fmt_f64 fmt_f32 fmt_int, fmt_ok fmt_f64 fmt_f32 fmt_int ->
  forall lines m c,
  Forall no_lf_line lines -> decode_beatmap dist lines = Done m ->
  enc_control_points dist events m = Done c -> sample_times_ok c = true ->
  exists ls, enc_timing_points dist events m = Done (header_tok SecTimingPoints :: ls) /\
             Forall (fun l => forall g, exists r, parse_tp_line g (render fmt_f64 fmt_f32 fmt_int l) = Some r) ls.
Proof.
  intros dist events f64 f32 fi Hfmt lines m c H1 H2 H3 H4.
  exact (decoded_timing_lines_accepted dist events f64 f32 fi Hfmt lines m c H1 H2 H3 H4).
Qed.
Print Assumptions C04_decoded_timing_lines_accepted.

(* D32 (known finding, new): [sample_times_ok] is NOT an invariant -- the sample point collected at
   the tail of a slider that ends beyond the parse limit is written as a line that the decoder's
   field parser rejects in every General state, for every formatting function.  Witness with the
   real curve and slider-event models (one slider, 16 spans of 100000 px at 6.7e-4 px/ms). *)
Theorem C04_timing_line_time_beyond_limit_rejected :
  forall fmt_f64 fmt_f32 fmt_int, fmt_ok fmt_f64 fmt_f32 fmt_int ->
  forall time beat p tc, is_finite time = true -> in_lim64 time = false ->
  forall g, parse_tp_line g (render fmt_f64 fmt_f32 fmt_int (tp_line time beat p tc)) = None.
Proof. intros f64 f32 fi Hfmt time beat p tc H1 H2. exact (tp_line_time_beyond_rejected f64 f32 fi Hfmt time beat p tc H1 H2). Qed.
Print Assumptions C04_timing_line_time_beyond_limit_rejected.

Theorem C04_slider_end_beyond_limit_refuted :
  exists text m c r,
    decode_beatmap (dist_real lm0) (lines_of_text text) = Done m /\
    enc_control_points (dist_real lm0) events_real m = Done c /\
    In r (enc_records c) /\ sample_times_ok c = false /\
    forall fmt_f64 fmt_f32 fmt_int, fmt_ok fmt_f64 fmt_f32 fmt_int ->
    forall g, parse_tp_line g (render fmt_f64 fmt_f32 fmt_int (wrec_line r)) = None.
Proof. exact slider_end_beyond_limit_refuted. Qed.
Print Assumptions C04_slider_end_beyond_limit_refuted.

Theorem C04_decoded_timing_records_within_limits :
  forall dist events lines m c,
  Forall no_lf_line lines -> decode_beatmap dist lines = Done m ->
  enc_control_points dist events m = Done c -> sample_times_ok c = true ->
  forallb wrec_ok (enc_records c) = true.
Proof. exact decoded_enc_records_ok. Qed.
Print Assumptions C04_decoded_timing_records_within_limits.

(* ---------- what is not proved here (full statements kept visible) ----------

   Timing-point lines: MECHANISED for decoded maps (C04_decoded_timing_lines_accepted): every
     written record satisfies [tp_line_ok] -- signature > 0, bank / custom / volume / effect flags
     within i32, clamped beat length and -100/sv within the parse limits, the times of the map's
     own control points within the limits -- EXCEPT for the times of sample points collected from
     hit objects, which sit at start + duration and can leave the parse limit: class D26 (spinner /
     hold, by rounding) and the new class D32 (slider: durations are not bounded by the format;
     confirmed on the crate, probes/D32_probe).  parse_timing_points itself is total on sorted
     control points (C13), so "accepted" = "parse_tp_line returns the record".  That the section
     reads back as the timing points and timelines is in C02 (C02_timing_round_trip_decoded).

   Hit-object lines, what is left [P]:
     "every non-blank line of [HitObjects] is accepted for every decoded map outside the recorded
     classes": proved above for every list of [encodable] objects
     (C04_hit_object_lines_accepted) and for every decoded map whose objects satisfy [residual]
     (C04_decoded_hit_object_lines_accepted): start time, position, combo offset, control points,
     repeat count, node count and explicit length are proved of every object of every decoded
     map (C04_accepted_line_object_image, C04_decoded_objects_image), and so is the sample data
     (C04_decoded_samples_image: custom index / volume within i32, bank an enum value, file names
     free of `,` `:` `//` and line feeds), so that for decoded maps the hypothesis is reduced to
     the recorded classes only (C04_decoded_hit_object_lines_accepted_classes).  Not invariants
     at all (recorded classes, the clauses of [residual_classes]): a sample file name ending in
     white space (D30, new: C04_sample_name_trimmed_refuted), start + duration within the parse
     limits (D26), the computed length of a slider without explicit length (D21), D13 / D17 /
     consecutive Catmull (C02).
     T04c in full for hit objects (samples up to carry): C02's T02b.
   Covered by the `enc` correspondence (slider files included, curve and slider-event models
   connected) and by the C04 / C02 oracles (each encoded hit-object line is parsed, kind and
   start time compared; objects compared field by field in C02). *)

(* C04 -- The encoder only emits text that its own decoder accepts.

   "For every map obtained by decoding, the encoded text begins with a
   format-version line, contains each section header exactly once in the
   canonical order, and every non-blank line inside a section is accepted
   without error by that section's line parser.  No line the encoder writes is
   ever dropped or misread as a different record when the file is read back."

   Model: Model/Encode.v (Beatmap::encode as a producer of token lines),
   Model/Render.v (text of a token line, given the number-formatting
   functions), Model/EncSpec.v ([*_ok]: the values the format can represent;
   [carry_*]: what reading a section back yields).  Number formatting (Rust's
   `Display`) is an oracle: every statement is for ALL formatting functions
   that satisfy [fmt_ok] (Proofs/EncFmt.v).  The domain "maps obtained by
   decoding" enters through [simple_ok]: Proofs/EncImage.v shows that the
   decoder's image satisfies it (outside the known class D23).

   This file holds only statements, each closed by [exact] of a lemma from
   Proofs/, followed by Print Assumptions; plus pins and examples. *)
From RM Require Import Model.EncSpec Proofs.EncFmt Proofs.EncShape Proofs.EncSimple Proofs.EncImage Proofs.EncObjects Proofs.EncRound Proofs.EncTiming.
From RM Require Import Gen.Generated.
Open Scope Z_scope.

(* ---------- pins: the literals the property text names ---------- *)

Example pin_version_prefix : version_prefix = "osu file format v"%string.
Proof. reflexivity. Qed.

(* the eight header lines, in the canonical order, as the decoder's table spells them *)
Example pin_headers :
  map (fun s => odflt [] (header_line s)) canonical_order =
  map lit ["[General]"; "[Editor]"; "[Metadata]"; "[Difficulty]"; "[Events]"; "[TimingPoints]";
           "[Colours]"; "[HitObjects]"]%string.
Proof. vm_compute. reflexivity. Qed.

Example pin_limits : max_parse_value = 2147483647 /\ color_default_alpha = 255.
Proof. split; reflexivity. Qed.

(* ---------- T04a: shape ---------- *)

(* The output is: version line, then for each of the eight sections in the
   canonical order a blank line, the header line and the body lines; the
   timing-point and hit-object body lines all start with a number. *)
Theorem C04_shape :
  forall dist events m ls,
  encode_lines dist events m = Done ls ->
  exists tp ho,
    let h := bmv_ho m in
    Forall num_first tp /\ Forall num_first ho /\
    ls = [enc_version (bmv_version m)] ++
         [] :: enc_general (hov_general h) (hov_control_points h) ++
         [] :: enc_editor (bmv_editor m) ++
         [] :: enc_metadata (bmv_metadata m) ++
         [] :: enc_difficulty (hov_difficulty h) ++
         [] :: enc_events (hov_events h) ++
         [] :: (header_tok SecTimingPoints :: tp) ++
         [] :: enc_colors (bmv_colors m) ++
         [] :: (header_tok SecHitObjects :: ho).
Proof. intros dist events m ls H. exact (encode_shape dist events m ls H). Qed.
Print Assumptions C04_shape.

(* the first line is read back as the version line of the map *)
Theorem C04_version_line :
  forall fmt_f64 fmt_f32 fmt_int, fmt_ok fmt_f64 fmt_f32 fmt_int ->
  forall v, i32_ok v = true ->
  try_version_from_line (render fmt_f64 fmt_f32 fmt_int (enc_version v)) = VBreak (Some v).
Proof. intros f64 f32 fi Hfmt v Hv. exact (version_line_parses f64 f32 fi Hfmt v Hv). Qed.
Print Assumptions C04_version_line.

(* each header line is recognised by the decoder's Section::try_from_line *)
Theorem C04_header_lines_recognised :
  forall fmt_f64 fmt_f32 fmt_int s, In s canonical_order ->
  section_of_line (render fmt_f64 fmt_f32 fmt_int (header_tok s)) = Some s.
Proof. intros f64 f32 fi s Hs. exact (header_recognised f64 f32 fi s Hs). Qed.
Print Assumptions C04_header_lines_recognised.

(* the lines that the decoder takes for headers are exactly the eight
   headers, once each, in the canonical order: no body line is a header *)
Theorem C04_headers_once_in_order :
  forall fmt_f64 fmt_f32 fmt_int, fmt_ok fmt_f64 fmt_f32 fmt_int ->
  forall dist events m ls,
  encode_lines dist events m = Done ls -> colors_ok (bmv_colors m) = true ->
  headers_of (map (render fmt_f64 fmt_f32 fmt_int) ls) = canonical_order.
Proof. intros f64 f32 fi Hfmt dist events m ls H Hc. exact (encode_headers f64 f32 fi Hfmt dist events m ls H Hc). Qed.
Print Assumptions C04_headers_once_in_order.

(* no body line is a header, and none is skipped as blank / comment: it reaches its parser *)
Theorem C04_body_lines_routed :
  forall fmt_f64 fmt_f32 fmt_int, fmt_ok fmt_f64 fmt_f32 fmt_int ->
  forall m tp ho,
  colors_ok (bmv_colors m) = true ->
  (* tp, ho: the timing-point and hit-object body lines of C04_shape *)
  Forall num_first tp -> Forall num_first ho ->
  let h := bmv_ho m in
  let bodies := body (enc_general (hov_general h) (hov_control_points h)) ++ body (enc_editor (bmv_editor m)) ++
                body (enc_metadata (bmv_metadata m)) ++ body (enc_difficulty (hov_difficulty h)) ++
                body (enc_events (hov_events h)) ++ tp ++ body (enc_colors (bmv_colors m)) ++ ho in
  Forall (fun l => section_of_line (render fmt_f64 fmt_f32 fmt_int l) = None /\
                   should_skip_line (render fmt_f64 fmt_f32 fmt_int l) = false) bodies.
Proof. intros f64 f32 fi Hfmt m tp ho Hc Htp Hho. exact (body_lines_routed f64 f32 fi Hfmt m tp ho Hc Htp Hho). Qed.
Print Assumptions C04_body_lines_routed.

(* ---------- T04b: every body line of the six simple sections is accepted ---------- *)
(* [accepted parse l]: for every parser state, parsing the rendered line returns Ok. *)

Theorem C04_general_lines_accepted :
  forall fmt_f64 fmt_f32 fmt_int, fmt_ok fmt_f64 fmt_f32 fmt_int ->
  forall g c, general_ok g = true -> enum4_ok (first_sample_bank c) = true ->
  Forall (accepted fmt_f64 fmt_f32 fmt_int parse_general) (body (enc_general g c)).
Proof. intros f64 f32 fi Hfmt g c H1 H2. exact (general_accepted f64 f32 fi Hfmt g c H1 H2). Qed.
Print Assumptions C04_general_lines_accepted.

Theorem C04_editor_lines_accepted :
  forall fmt_f64 fmt_f32 fmt_int, fmt_ok fmt_f64 fmt_f32 fmt_int ->
  forall e, editor_ok e = true ->
  Forall (accepted fmt_f64 fmt_f32 fmt_int parse_editor) (body (enc_editor e)).
Proof. intros f64 f32 fi Hfmt e H. exact (editor_accepted f64 f32 fi Hfmt e H). Qed.
Print Assumptions C04_editor_lines_accepted.

Theorem C04_metadata_lines_accepted :
  forall fmt_f64 fmt_f32 fmt_int, fmt_ok fmt_f64 fmt_f32 fmt_int ->
  forall m, metadata_ok m = true ->
  Forall (accepted fmt_f64 fmt_f32 fmt_int parse_metadata) (body (enc_metadata m)).
Proof. intros f64 f32 fi Hfmt m H. exact (metadata_accepted f64 f32 fi Hfmt m H). Qed.
Print Assumptions C04_metadata_lines_accepted.

Theorem C04_difficulty_lines_accepted :
  forall fmt_f64 fmt_f32 fmt_int, fmt_ok fmt_f64 fmt_f32 fmt_int ->
  forall d, difficulty_ok d = true ->
  Forall (accepted fmt_f64 fmt_f32 fmt_int parse_difficulty) (body (enc_difficulty d)).
Proof. intros f64 f32 fi Hfmt d H. exact (difficulty_accepted f64 f32 fi Hfmt d H). Qed.
Print Assumptions C04_difficulty_lines_accepted.

Theorem C04_events_lines_accepted :
  forall fmt_f64 fmt_f32 fmt_int, fmt_ok fmt_f64 fmt_f32 fmt_int ->
  forall e, events_ok e = true ->
  Forall (accepted fmt_f64 fmt_f32 fmt_int parse_events) (body (enc_events e)).
Proof. intros f64 f32 fi Hfmt e H. exact (events_accepted f64 f32 fi Hfmt e H). Qed.
Print Assumptions C04_events_lines_accepted.

Theorem C04_colours_lines_accepted :
  forall fmt_f64 fmt_f32 fmt_int, fmt_ok fmt_f64 fmt_f32 fmt_int ->
  forall c, colors_ok c = true ->
  Forall (accepted fmt_f64 fmt_f32 fmt_int parse_colors) (body (enc_colors c)).
Proof. intros f64 f32 fi Hfmt c H. exact (colors_accepted f64 f32 fi Hfmt c H). Qed.
Print Assumptions C04_colours_lines_accepted.

(* ---------- T04c: not misread -- reading a whole encoded section back ---------- *)
(* Parsing the body lines, in order, from the decoder's initial state yields
   the record the section was written from ([carry_*]: minus what the legacy
   format does not carry). *)

Theorem C04_general_read_back :
  forall fmt_f64 fmt_f32 fmt_int, fmt_ok fmt_f64 fmt_f32 fmt_int ->
  forall g c, general_ok g = true -> enum4_ok (first_sample_bank c) = true ->
  run_lines parse_general general_default (map (render fmt_f64 fmt_f32 fmt_int) (body (enc_general g c)))
  = carry_general g c.
Proof. intros f64 f32 fi Hfmt g c H1 H2. exact (general_section f64 f32 fi Hfmt g c H1 H2). Qed.
Print Assumptions C04_general_read_back.

Theorem C04_editor_read_back :
  forall fmt_f64 fmt_f32 fmt_int, fmt_ok fmt_f64 fmt_f32 fmt_int ->
  forall e, editor_ok e = true ->
  run_lines parse_editor editor_default (map (render fmt_f64 fmt_f32 fmt_int) (body (enc_editor e))) = e.
Proof. intros f64 f32 fi Hfmt e H. exact (editor_section f64 f32 fi Hfmt e H). Qed.
Print Assumptions C04_editor_read_back.

Theorem C04_metadata_read_back :
  forall fmt_f64 fmt_f32 fmt_int, fmt_ok fmt_f64 fmt_f32 fmt_int ->
  forall m, metadata_ok m = true ->
  run_lines parse_metadata metadata_default (map (render fmt_f64 fmt_f32 fmt_int) (body (enc_metadata m)))
  = carry_metadata m.
Proof. intros f64 f32 fi Hfmt m H. exact (metadata_section f64 f32 fi Hfmt m H). Qed.
Print Assumptions C04_metadata_read_back.

Theorem C04_difficulty_read_back :
  forall fmt_f64 fmt_f32 fmt_int, fmt_ok fmt_f64 fmt_f32 fmt_int ->
  forall d, difficulty_ok d = true ->
  run_lines parse_difficulty difficulty_default (map (render fmt_f64 fmt_f32 fmt_int) (body (enc_difficulty d)))
  = carry_difficulty d.
Proof. intros f64 f32 fi Hfmt d H. exact (difficulty_section f64 f32 fi Hfmt d H). Qed.
Print Assumptions C04_difficulty_read_back.

Theorem C04_events_read_back :
  forall fmt_f64 fmt_f32 fmt_int, fmt_ok fmt_f64 fmt_f32 fmt_int ->
  forall e, events_ok e = true ->
  run_lines parse_events events_default (map (render fmt_f64 fmt_f32 fmt_int) (body (enc_events e))) = e.
Proof. intros f64 f32 fi Hfmt e H. exact (events_section f64 f32 fi Hfmt e H). Qed.
Print Assumptions C04_events_read_back.

Theorem C04_colours_read_back :
  forall fmt_f64 fmt_f32 fmt_int, fmt_ok fmt_f64 fmt_f32 fmt_int ->
  forall c, colors_ok c = true ->
  run_lines parse_colors colors_default (map (render fmt_f64 fmt_f32 fmt_int) (body (enc_colors c))) = c.
Proof. intros f64 f32 fi Hfmt c H. exact (colors_section f64 f32 fi Hfmt c H). Qed.
Print Assumptions C04_colours_read_back.

(* ---------- the domain: maps obtained by decoding ---------- *)

(* decode_image_inv.  Whatever the input lines (well-formed, non-chronological,
   hostile; a line is a piece between two line feeds), every field of the six
   simple sections of the decoded map holds a representable value: strings
   are trimmed and free of line breaks, numbers lie within the parse limits,
   clamped values within their clamp range, enums are enum values, breaks end
   after they start, colour names are distinct keys, sample banks are banks.
   One exception (known finding D23): the file names may contain "//". *)
Theorem C04_decode_image_inv :
  forall dist lines m,
  Forall no_lf_line lines -> decode_beatmap dist lines = Done m ->
  simple_pre m = true /\ (d23_class m = false -> simple_ok m = true).
Proof.
  intros dist lines m Hl H.
  exact (conj (decode_image_pre dist lines m Hl H) (decode_image_inv dist lines m Hl H)).
Qed.
Print Assumptions C04_decode_image_inv.

(* hence the hypotheses of the per-section statements above hold of every decoded map *)
Theorem C04_decoded_sections_representable :
  forall m, simple_ok m = true ->
  i32_ok (bmv_version m) = true /\ general_ok (hov_general (bmv_ho m)) = true /\
  editor_ok (bmv_editor m) = true /\ metadata_ok (bmv_metadata m) = true /\
  difficulty_ok (hov_difficulty (bmv_ho m)) = true /\ events_ok (hov_events (bmv_ho m)) = true /\
  colors_ok (bmv_colors m) = true /\ enum4_ok (first_sample_bank (hov_control_points (bmv_ho m))) = true.
Proof. exact simple_ok_parts. Qed.
Print Assumptions C04_decoded_sections_representable.

(* D23 (known finding): the full statement "every decoded map satisfies simple_ok" is
   refuted -- `AudioFilename: a\\b.mp3` decodes to the name a//b.mp3, and the record
   the encoder writes from that name is read back with a different name, for every
   formatting function and every parser state. *)
Theorem C04_file_name_misread_refuted :
  exists text,
  let g := decode_general (lines_of_text text) in
  general_pre g = true /\ has_ss (g_audio_file g) = true /\
  forall f64 f32 fi st,
    g_audio_file (fst (parse_general st (render f64 f32 fi (kv_line (gkey GAudioFilename) (TStr (g_audio_file g))))))
    <> g_audio_file g.
Proof. exists d23_text. exact d23_witness. Qed.
Print Assumptions C04_file_name_misread_refuted.

(* ---------- T04b for hit-object lines: circles, spinners, holds ---------- *)
(* [object_ok h]: start time within the parse limits, integer coordinates within
   +-131072, combo offset 0..7, end time start + duration within the limits, sample
   banks / custom index / volume representable, sample file name without `,` `:` "//".
   For EVERY parser state the line is accepted and adds exactly one object of the same
   kind with the same start time and position ([adds]); nothing is dropped or misread
   as another kind of record. *)

Theorem C04_circle_line_accepted :
  forall fmt_f64 fmt_f32 fmt_int, fmt_ok fmt_f64 fmt_f32 fmt_int ->
  forall dist mode h c l,
  h_kind h = KCircle c -> object_ok h = true -> object_line dist mode h = Done l ->
  forall st, exists st', parse_hit_objects st (render fmt_f64 fmt_f32 fmt_int l) = Done (st', Ok) /\
                         adds st st' (h_start h) 0 (Some (ci_pos c)).
Proof. intros f64 f32 fi Hfmt dist mode h c l H1 H2 H3. exact (circle_line_accepted f64 f32 fi Hfmt dist mode h c l H1 H2 H3). Qed.
Print Assumptions C04_circle_line_accepted.

Theorem C04_spinner_line_accepted :
  forall fmt_f64 fmt_f32 fmt_int, fmt_ok fmt_f64 fmt_f32 fmt_int ->
  forall dist mode h s l,
  h_kind h = KSpinner s -> object_ok h = true -> object_line dist mode h = Done l ->
  forall st, exists st', parse_hit_objects st (render fmt_f64 fmt_f32 fmt_int l) = Done (st', Ok) /\
                         adds st st' (h_start h) 2 None.
Proof. intros f64 f32 fi Hfmt dist mode h s l H1 H2 H3. exact (spinner_line_accepted f64 f32 fi Hfmt dist mode h s l H1 H2 H3). Qed.
Print Assumptions C04_spinner_line_accepted.

Theorem C04_hold_line_accepted :
  forall fmt_f64 fmt_f32 fmt_int, fmt_ok fmt_f64 fmt_f32 fmt_int ->
  forall dist mode h hd l,
  h_kind h = KHold hd -> object_ok h = true -> object_line dist mode h = Done l ->
  forall st, exists st', parse_hit_objects st (render fmt_f64 fmt_f32 fmt_int l) = Done (st', Ok) /\
                         adds st st' (h_start h) 3 (Some (mkPos (hd_pos_x hd) (hd_pos_x hd))).
Proof. intros f64 f32 fi Hfmt dist mode h hd l H1 H2 H3. exact (hold_line_accepted f64 f32 fi Hfmt dist mode h hd l H1 H2 H3). Qed.
Print Assumptions C04_hold_line_accepted.

(* non-vacuity: the circle, the hold and the spinner of a decoded file satisfy [object_ok] *)
Example decoded_objects_ok :
  match decode_beatmap stub_dist (lines_of_text plain_text) with
  | Done m => forallb object_ok (hov_hit_objects (bmv_ho m)) = true /\
              map (fun h => kind_tag (h_kind h)) (hov_hit_objects (bmv_ho m)) = [0; 3; 2]
  | _ => False
  end.
Proof. vm_compute. split; reflexivity. Qed.

(* ---------- T04b for timing-point lines (line grammar) ---------- *)

(* every body line of the [TimingPoints] section has the shape time,beat,sig,bank,custom,volume,flag,effects *)
Theorem C04_timing_lines_shape :
  forall c last gs ls, group_lines c last gs = Done ls ->
  Forall (fun l => exists time beat p tc, l = tp_line time beat p tc) ls.
Proof. intros c last gs ls H. exact (group_lines_shape c gs last ls H). Qed.
Print Assumptions C04_timing_lines_shape.

(* and such a line -- numbers within the parse limits, positive signature -- is accepted by the
   decoder's field parser whatever the General settings, with the time, the beat-length field,
   the custom index, the volume and the uninherited flag it was written from; so
   parse_timing_points never answers Rejected for it *)
Theorem C04_timing_line_accepted :
  forall fmt_f64 fmt_f32 fmt_int, fmt_ok fmt_f64 fmt_f32 fmt_int ->
  forall time beat p tc, tp_line_ok time beat p tc = true ->
  forall g, exists r, parse_tp_line g (render fmt_f64 fmt_f32 fmt_int (tp_line time beat p tc)) = Some r /\
                      l_time r = time /\ l_tc r = tc /\ l_beat r = beat /\ l_custom r = pr_custom p /\ l_vol r = pr_vol p.
Proof. intros f64 f32 fi Hfmt time beat p tc H. exact (tp_line_accepted f64 f32 fi Hfmt time beat p tc H). Qed.
Print Assumptions C04_timing_line_accepted.

(* ---------- what is not proved here (full statements kept visible) ----------

   Timing-point lines, what is left [P]:
     [tp_line_ok] for the lines that enc_timing_points actually writes: signature > 0, bank /
     custom / volume / effect flags within i32 and the clamped beat length / slider velocity
     follow from C12's value theorems; the TIMES do not: sample points collected from hit
     objects sit at start + duration, which can leave the parse limit by rounding (side
     condition exercised by the oracle).  parse_timing_points itself is total on sorted
     control points (C13), so "accepted" = "parse_tp_line returns the record".

   Hit-object lines, what is left [P]:
     (a) [object_ok] on the decoder's image: not mechanised (the invariant has to be carried
         through the stable sort, the break post-processing and SamplePoint::apply of
         MapLevel.v); a side condition that is NOT an invariant and is exercised by the oracle:
         start + duration may leave the parse limit by rounding.
     (b) sliders (outside D17 / D21):  parse_hit_objects st (render (object_line mode h))
         = Done (st', Ok), same kind / start / position, same control points.
     (c) T04c in full for hit objects (samples up to carry) is a map-level statement
         (SamplePoint::apply runs after parsing): C02's T02b.
   Covered by the `enc` correspondence (slider files included, curve and slider-event models
   connected) and by the C04 / C02 oracles (each encoded hit-object line is parsed, kind and
   start time compared; objects compared field by field in C02). *)

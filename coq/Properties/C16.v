(* C16 -- A slider's curve honours the requested pixel length.
   Statements only ([exact] of lemmas from Proofs/LengthFacts).

   Proved (T16a; every path, requested length and seed, IEEE arithmetic):
   the complete case analysis of calculate_length -- which branch is taken
   and exactly what it returns -- and its consequences: without a requested
   length the lengths are the natural cumulative lengths; in the adjusting
   branch the last cumulative length IS the requested value, sizes agree, the
   first length is 0.0, the new path is a prefix of the natural path plus one
   end point on the ray of the segment the cut falls in.

   Proved at the end of this file (T16d, T16b):
     - T16d [IEEE]: for a path with finite vertices and a zero seed
       (optimized_len = +0.0: every path that is not an osu!-mode Catmull path)
       every outcome of calculate_length is a list that starts at 0.0, holds
       only +0 / positive finite / +inf values (no NaN, nothing negative) and
       is NON-DECREASING for the IEEE <=; all entries are finite as soon as
       the natural total is (no intermediate overflow: e.g. finite f32 segment
       lengths and at most 2^53 vertices) and the requested length is finite;
     - T16b [exact arithmetic, on the formula shared with the model]: when
       path[k] <> path[k-1] the adjusted end point lies on the ray from
       path[k-1] through path[k] at distance exactly L - lengths[k-1]; on the
       segment when cutting, beyond path[k] in the segment's own direction when
       extending; the cumulative polyline lengths of the new path are the first
       k natural ones followed by L, so its polyline length is exactly L.
       (T16c -- polyline_len(simplified Catmull) + optimized_len =
       polyline_len(unsimplified), optimized_len >= 0 -- is proved over the
       reals, on the loop shared with the model.)
     - T16b-IEEE [IEEE, last section of this file]: under explicit magnitude
       hypotheses (the four coordinates finite with |c| <= 2^20, L and
       lengths[k-1] finite with 0 <= L - lengths[k-1] <= 2^20, the segment's
       exact length >= 2^-10) the end point calculate_length computes is
       finite and differs per coordinate from the exact point of T16b (the
       same formula over the reals on the same inputs) by at most
       2^-24 (|path[k-1].c| + 9.05 (L - lengths[k-1])) + 2^-127; hence the
       exact distance from path[k-1] to the computed end point is within
       Ex + Ey of L - lengths[k-1], and the exact polyline length of the
       adjusted path is within A + Ex + Ey of L, A being a bound on the
       accumulated rounding error of the kept cumulative length.
       For a zero seed, coordinates |c| <= 2^20, at most 2^50 vertices and
       segments that are degenerate (equal end points) or at least 2^-10 long,
       every cumulative length is the exact cumulative polyline length up to
       the relative error alpha n = 3.01 * 2^-24 + 2 n * 2^-53, which
       discharges A (C16_cumulative_lengths_ieee_bound,
       C16_adjusted_length_ieee_bound_full; on calculate_length itself:
       C16_calculate_length_ieee_bound).  The non-degeneracy hypothesis can be
       read off the computed f32 length of the segment: >= 2^-9 suffices
       (C16_ieee_hypotheses_from_f32_length).
   Still NOT proved (the property stays PARTIAL): monotonicity with a non-zero
   osu!-mode Catmull surplus (the surplus can be negative by rounding, "of the
   order of 1e-5" in the property text), and with it the accumulated error of
   the running sums for a non-zero seed; the IEEE bounds outside their
   magnitude hypotheses (coordinates beyond 2^20, non-degenerate segments
   shorter than 2^-10: see C16_underflow_witness for what happens at the far
   end).  These are monitored by the oracle of harness/src/c16.rs
   (cut/extension geometry in f64, lengths start at 0 / monotone within 1e-5 /
   finite, osu!-mode total unchanged); its end-point tolerance
   1e-3 + 4e-6 * magnitude (4e-6 = 67 * 2^-24) is wider than the proved bound
   (at most 10.05 * 2^-24 * magnitude per coordinate).

   The distance is the requested length (main statement, after the repair of
   D9): calculate_length compares the requested length with the calculated one
   EXACTLY -- (calculated_len - len).abs() > 0.0 -- so for every L > 0 (+inf
   included) and a calculated length that is not NaN the last cumulative length
   IS L, the very same value, with NO epsilon window: either L is the natural
   length itself (nothing changes, and the natural length = L) or the curve is
   cut / extended.  The only exceptions are the structural ones of the property
   text: fewer than two vertices, and "last two points equal and L longer".
   (C16_distance_is_L, C16_distance_is_L_zero_seed, C16_curve_distance_is_L.)

   Deviation of the code from the property text still recorded as a known
   finding with a witness below: D11.  D9 (a requested length within
   f64::EPSILON of the natural one but different from it left the natural
   length as the distance) is repaired; the formerly failing inputs are
   Examples below and now give dist = L. *)
From Coq Require Import Reals.
From RM Require Import Model.ControlPoints Model.Curve Proofs.BezierRefine Proofs.LengthFacts Proofs.SimplifyExact
  Proofs.LengthMono Proofs.LengthExact.
Open Scope Z_scope.

(* T16a: the case analysis.  [natural path opt] = 0, then the running sums of
   the f32 segment lengths seeded with opt; [natural_len] = the final sum. *)
Theorem C16_calculate_length_cases :
  forall path e opt,
  let nat := natural path opt in
  let calc := natural_len path opt in
  match e with
  | None => calculate_length path None opt = Done (path, nat)
  | Some L =>
      (* (i) the filter rejects L -- |calc - L| > 0.0 is false: L is the natural length
         itself or the difference is NaN (see the C16_filter theorems) -- nothing happens *)
      if keeps_natural calc L then calculate_length path e opt = Done (path, nat)
      (* (ii) last two points equal and L beyond: natural lengths plus one repeated entry *)
      else if last_two_equal path && D.gt L calc then calculate_length path e opt = Done (path, nat ++ [calc])
      (* (iii) at most one vertex *)
      else if Nat.leb (length path) 1 then calculate_length path e opt = Done (path, [D.zero])
      else
        let k := last_valid (removelast nat) L in
        match k with
        (* no cumulative length below L (L <= 0): a single point *)
        | O => calculate_length path e opt = Done (firstn 1 path, [D.zero])
        (* (iv) cut or extension *)
        | S _ => exists p', adjust_end path nat k L = Some p' /\ (k < length path)%nat /\
                            calculate_length path e opt = Done (firstn k path ++ [p'], firstn k nat ++ [L])
        end
  end.
Proof. exact calculate_length_cases. Qed.
Print Assumptions C16_calculate_length_cases.

(* without a requested length: the natural lengths, whose last entry is the
   polyline's own (f32-segment) length *)
Theorem C16_no_requested_length :
  forall path opt,
  calculate_length path None opt = Done (path, natural path opt) /\
  ((2 <= length path)%nat -> dist (natural path opt) = natural_len path opt).
Proof. exact no_requested_length. Qed.
Print Assumptions C16_no_requested_length.

(* (iv) for L > 0 that the filter lets through: the distance is exactly L -- the
   very same value -- and the shape of the new path *)
Theorem C16_distance_is_requested_length :
  forall path L opt path' lens,
  D.lt D.zero L = true ->
  keeps_natural (natural_len path opt) L = false ->
  (last_two_equal path && D.gt L (natural_len path opt))%bool = false ->
  (2 <= length path)%nat ->
  calculate_length path (Some L) opt = Done (path', lens) ->
  dist lens = L /\ length lens = length path' /\
  exists k p',
    (1 <= k < length path)%nat /\
    path' = firstn k path ++ [p'] /\
    lens = firstn k (natural path opt) ++ [L] /\
    adjust_end path (natural path opt) k L = Some p' /\
    (exists v, nth_error (natural path opt) (pred k) = Some v /\ D.lt v L = true) /\
    (forall j v, (k <= j < pred (length path))%nat -> nth_error (natural path opt) j = Some v -> D.lt v L = false).
Proof. exact calculate_length_adjusts. Qed.
Print Assumptions C16_distance_is_requested_length.

(* every outcome: a cumulative length for every vertex, the first one 0.0 *)
Theorem C16_lengths_start_at_zero :
  forall path e opt path' lens, calculate_length path e opt = Done (path', lens) ->
  (length path' <= length lens)%nat /\ exists t, lens = D.zero :: t.
Proof. exact calculate_length_shape. Qed.
Print Assumptions C16_lengths_start_at_zero.

(* sizes agree except in case (ii), where lengths is one longer than path *)
Theorem C16_sizes :
  forall path e opt path' lens, calculate_length path e opt = Done (path', lens) -> path <> [] ->
  length lens = length path' \/
  (exists L, e = Some L /\ keeps_natural (natural_len path opt) L = false /\
             last_two_equal path = true /\ D.gt L (natural_len path opt) = true /\
             path' = path /\ lens = natural path opt ++ [natural_len path opt]).
Proof. exact calculate_length_sizes. Qed.
Print Assumptions C16_sizes.

(* (i) the filter: keeps_natural calc L = !((calc - L).abs() > 0.0) *)
Theorem C16_filter_is_exact_comparison :
  forall calc L, keeps_natural calc L = negb (D.gt (D.abs (D.sub calc L)) D.zero).
Proof. reflexivity. Qed.
Print Assumptions C16_filter_is_exact_comparison.

Theorem C16_filtered_length_keeps_natural :
  forall path L opt, keeps_natural (natural_len path opt) L = true ->
  calculate_length path (Some L) opt = Done (path, natural path opt).
Proof. exact unchanged_length_keeps_natural. Qed.
Print Assumptions C16_filtered_length_keeps_natural.

(* the filter rejects L only when the difference is NaN (a NaN operand, or two
   infinities of the same sign) or when both are finite and THE SAME NUMBER: no
   window around the natural length is left *)
Theorem C16_filter_rejects_only_equal_or_nan :
  forall calc L, keeps_natural calc L = true ->
  D.is_nan (D.sub calc L) = true \/
  (Flocq.IEEE754.BinarySingleNaN.is_finite calc = true /\
   Flocq.IEEE754.BinarySingleNaN.is_finite L = true /\
   Flocq.IEEE754.BinarySingleNaN.B2R calc = Flocq.IEEE754.BinarySingleNaN.B2R L).
Proof. exact keeps_natural_cases. Qed.
Print Assumptions C16_filter_rejects_only_equal_or_nan.

(* for L > 0 and a calculated length that is not NaN: only when they are the same value *)
Theorem C16_filter_rejects_positive_only_if_same_value :
  forall calc L, D.lt D.zero L = true -> D.is_nan calc = false ->
  keeps_natural calc L = true -> calc = L.
Proof. exact keeps_natural_pos_eq. Qed.
Print Assumptions C16_filter_rejects_positive_only_if_same_value.

(* conversely, requesting the natural length itself, or NaN, changes nothing *)
Theorem C16_requesting_the_natural_length :
  forall path opt, D.is_nan (natural_len path opt) = false ->
  calculate_length path (Some (natural_len path opt)) opt = Done (path, natural path opt).
Proof. exact request_natural_length. Qed.
Print Assumptions C16_requesting_the_natural_length.

Theorem C16_requesting_nan :
  forall path L opt, D.is_nan L = true ->
  calculate_length path (Some L) opt = Done (path, natural path opt).
Proof. exact request_nan. Qed.
Print Assumptions C16_requesting_nan.

(* MAIN STATEMENT.  Requested length L > 0 (finite or +inf; "D.lt D.zero L"
   excludes NaN), calculated length not NaN, at least two vertices, not the
   "last two points equal and L longer" exception: the distance of the curve
   IS L (Leibniz equality on the float: the same bits), with no epsilon
   exception.  Either L is the natural length and the curve is the natural
   one, or the filter let L through and the curve is cut / extended *)
Theorem C16_distance_is_L :
  forall path L opt path' lens,
  D.lt D.zero L = true ->
  D.is_nan (natural_len path opt) = false ->
  (last_two_equal path && D.gt L (natural_len path opt))%bool = false ->
  (2 <= length path)%nat ->
  calculate_length path (Some L) opt = Done (path', lens) ->
  dist lens = L /\ length lens = length path' /\
  ((natural_len path opt = L /\ path' = path /\ lens = natural path opt) \/
   (keeps_natural (natural_len path opt) L = false /\
    exists k p',
      (1 <= k < length path)%nat /\
      path' = firstn k path ++ [p'] /\
      lens = firstn k (natural path opt) ++ [L] /\
      adjust_end path (natural path opt) k L = Some p' /\
      (exists v, nth_error (natural path opt) (pred k) = Some v /\ D.lt v L = true) /\
      (forall j v, (k <= j < pred (length path))%nat -> nth_error (natural path opt) j = Some v -> D.lt v L = false))).
Proof. exact calculate_length_dist_exact. Qed.
Print Assumptions C16_distance_is_L.

(* finite vertices and a zero seed (every path but an osu!-mode Catmull one):
   the calculated length is never NaN, the hypothesis disappears *)
Theorem C16_distance_is_L_zero_seed :
  forall path L path' lens,
  Forall fin_pos path ->
  D.lt D.zero L = true ->
  (last_two_equal path && D.gt L (natural_len path D.zero))%bool = false ->
  (2 <= length path)%nat ->
  calculate_length path (Some L) D.zero = Done (path', lens) ->
  dist lens = L.
Proof. exact calculate_length_dist_is_L_zero_seed. Qed.
Print Assumptions C16_distance_is_L_zero_seed.

(* on computed curves *)
Theorem C16_curve_distance_is_L :
  forall lm fuel mode pts L c,
  curve_L1 lm fuel mode pts (Some L) = Done c ->
  D.lt D.zero L = true ->
  exists path opt, calculate_path_L1 lm fuel mode pts = Done (path, opt) /\
    (D.is_nan (natural_len path opt) = false ->
     (last_two_equal path && D.gt L (natural_len path opt))%bool = false ->
     (2 <= length path)%nat ->
     dist (c_lengths c) = L).
Proof. exact curve_dist_is_requested_length. Qed.
Print Assumptions C16_curve_distance_is_L.

(* the two exceptions: the distance is the natural length (strictly below L)
   resp. 0.0 *)
Theorem C16_exceptions :
  forall path L opt,
  keeps_natural (natural_len path opt) L = false ->
  ((last_two_equal path && D.gt L (natural_len path opt))%bool = true ->
   exists lens, calculate_length path (Some L) opt = Done (path, lens) /\ dist lens = natural_len path opt /\
                D.lt (natural_len path opt) L = true) /\
  ((last_two_equal path && D.gt L (natural_len path opt))%bool = false -> (length path <= 1)%nat ->
   exists lens, calculate_length path (Some L) opt = Done (path, lens) /\ dist lens = D.zero).
Proof. exact calculate_length_exceptions. Qed.
Print Assumptions C16_exceptions.

(* T16c [exact arithmetic]: the osu!-mode Catmull simplification loop is
   written once over abstract operations (Model/Curve.v: simplify_loop_g; the
   model is its IEEE instance).  Over the reals, for any distance with
   d(x,x) = 0 and the triangle inequality and for ANY "farther than 6 px"
   test: the kept polyline's length plus the surplus added to optimized_len is
   the length of the unsimplified polyline, and the surplus is >= 0 -- the
   simplification leaves the total length unchanged *)
Theorem C16_simplification_keeps_total_length :
  forall (P : Type) (dist : P -> P -> R) (far : R -> bool),
  (forall x, dist x x = 0%R) -> (forall x y z, (dist x z <= dist x y + dist y z)%R) ->
  forall sub_path opt dummy,
  let '(kept, opt') := simplify_loop_g dist Rplus Rminus 0%R far sub_path 0 (Z.of_nat (length sub_path))
                                       dummy None 0%R [] opt in
  (plen dist kept + (opt' - opt) = plen dist sub_path /\ 0 <= opt' - opt)%R.
Proof. exact @simplify_surplus_identity. Qed.
Print Assumptions C16_simplification_keeps_total_length.

Theorem C16_model_uses_the_same_loop :
  simplify_loop = simplify_loop_g (fun a b => f64_of_f32 (pdist a b)) D.add D.sub D.zero
                                  (fun x => D.gt x catmull_simplify_dist).
Proof. exact model_uses_same_loop. Qed.
Print Assumptions C16_model_uses_the_same_loop.

(* the pure curve is calculate_length of the pure path *)
Theorem C16_curve_is_calculate_length_of_path :
  forall lm fuel mode pts e c, curve_L1 lm fuel mode pts e = Done c ->
  exists path opt, calculate_path_L1 lm fuel mode pts = Done (path, opt) /\
                   calculate_length path e opt = Done (c_path c, c_lengths c).
Proof. exact curve_L1_unfold. Qed.
Print Assumptions C16_curve_is_calculate_length_of_path.

(* ---------- witnesses (dumps) ---------- *)

Definition lm0 : Libm := mkLibm (fun x => x) (fun x => x) (fun y _ => y) (fun x => x).
Definition pt (x y : Z) (t : option SplineType) : PathControlPoint := mkPCP (mkPos (S.of_Z x) (S.of_Z y)) t.
Definition dist_bits (o : outcome Curve) : Z := match o with Done c => D.bits (dist (c_lengths c)) | _ => -1 end.

(* non-vacuity, cut: (0,0) (3,4) (8,16), natural length 18, L = 9 -> the path
   keeps 2 natural vertices + 1 new end point, lengths 0, 5, 9 *)
Example C16_nonvacuous_cut :
  match curve_L1 lm0 bezier_fuel 1 [pt 0 0 (Some Linear); pt 3 4 None; pt 8 16 None] (Some (D.of_Z 9)) with
  | Done c => (length (c_path c), map D.bits (c_lengths c))
  | _ => (O, [])
  end = (3%nat, [D.bits D.zero; D.bits (D.of_Z 5); D.bits (D.of_Z 9)]).
Proof. vm_compute. reflexivity. Qed.

(* extension: (0,0) (3,4) (3,16), natural length 17, L = 20 -> the last vertex
   moves from (3,16) to (3,19) *)
Example C16_nonvacuous_extension :
  match curve_L1 lm0 bezier_fuel 1 [pt 0 0 (Some Linear); pt 3 4 None; pt 3 16 None] (Some (D.of_Z 20)) with
  | Done c => (flat_map dump_pos (skipn 2 (c_path c)), map D.bits (c_lengths c))
  | _ => ([], [])
  end = (dump_pos (mkPos (S.of_Z 3) (S.of_Z 19)), [D.bits D.zero; D.bits (D.of_Z 5); D.bits (D.of_Z 20)]).
Proof. vm_compute. reflexivity. Qed.

(* formerly D9 (repaired): B(0,0) (0,1), L = 1 - 2^-53 = 0.9999999999999999
   (0x3FEFFFFFFFFFFFFF), natural length 1.  The old filter (|1 - L| >= f64::EPSILON)
   kept the natural curve and the distance was 1; now the distance is L *)
Definition l_below_one : F64 := D.of_bits 4607182418800017407.
Example C16_formerly_D9_one_ulp_below :
  dist_bits (curve_L1 lm0 bezier_fuel 0 [pt 0 0 (Some BSpline); pt 0 1 None] (Some l_below_one))
  = 4607182418800017407 /\ D.bits l_below_one = 4607182418800017407 /\ D.bits D.one = 4607182418800017408.
Proof. vm_compute. repeat split. Qed.
(* the same with a linear segment, and one ulp ABOVE the natural length (extension) *)
Example C16_formerly_D9_linear_both_sides :
  dist_bits (curve_L1 lm0 bezier_fuel 0 [pt 0 0 (Some Linear); pt 0 1 None] (Some l_below_one))
  = 4607182418800017407 /\
  dist_bits (curve_L1 lm0 bezier_fuel 0 [pt 0 0 (Some Linear); pt 0 1 None] (Some (D.of_bits 4607182418800017409)))
  = 4607182418800017409.
Proof. vm_compute. split; reflexivity. Qed.
(* the other recorded input: L(0,0) (1e-20,0), L = 1e-17: natural length 9.999973e-21,
   |natural - L| far below 2^-52; the distance is now 1e-17 *)
Example C16_formerly_D9_tiny :
  dist_bits (curve_L1 lm0 bezier_fuel 0
               [mkPCP (mkPos S.zero S.zero) (Some Linear); mkPCP (mkPos (S.of_decimal false 1 (-20)) S.zero) None]
               (Some (D.of_decimal false 1 (-17))))
  = D.bits (D.of_decimal false 1 (-17)).
Proof. vm_compute. reflexivity. Qed.
(* requesting exactly the natural length keeps the natural curve (2 vertices, lengths 0, 1) *)
Example C16_request_natural_example :
  match curve_L1 lm0 bezier_fuel 0 [pt 0 0 (Some Linear); pt 0 1 None] (Some D.one) with
  | Done c => (flat_map dump_pos (c_path c), map D.bits (c_lengths c))
  | _ => ([], [])
  end = (dump_pos (mkPos (S.of_Z 0) (S.of_Z 0)) ++ dump_pos (mkPos (S.of_Z 0) (S.of_Z 1)),
         [D.bits D.zero; D.bits D.one]).
Proof. vm_compute. reflexivity. Qed.

(* Narrowing of "finite coordinates" in the IEEE statements (recorded, not a
   finding): |coordinate| <= 2^60 (the squared length overflows beyond) and no
   non-zero segment shorter than ~1e-18 (its squared length underflows: the
   computed length is 0, normalize divides by 0).  Witness for the latter:
   (1e-40, 0) -> (0, 1e-40), L = 2.5: distance 2.5 but the end point is infinite *)
Example C16_underflow_witness :
  match curve_L1 lm0 bezier_fuel 1
          [mkPCP (mkPos (S.of_decimal false 1 (-40)) S.zero) (Some Linear);
           mkPCP (mkPos S.zero (S.of_decimal false 1 (-40))) None] (Some (D.of_decimal false 25 (-1))) with
  | Done c => (dump_pos (last (c_path c) pos0), D.bits (dist (c_lengths c)))
  | _ => ([], 0)
  end = ([S.bits (S.inf true); S.bits (S.inf false)], D.bits (D.of_decimal false 25 (-1))).
Proof. vm_compute. reflexivity. Qed.

(* D11: osu! mode, C(0,0) (0,0) B(-37,-31) (-30,59), L = 3.8: the first Catmull
   span (0,0)->(0,0) collapses to a zero-length segment whose cumulative length
   already carries the whole simplification surplus, so the cut lands in it; the end point is (NaN, NaN) while the
   distance is 3.8 *)
Definition l_3_8 : F64 := D.of_decimal false 38 (-1).
Definition d11_points : list PathControlPoint :=
  [pt 0 0 (Some Catmull); pt 0 0 None; pt (-37) (-31) (Some BSpline); pt (-30) 59 None].
Example C16_D11_witness :
  match curve_L1 lm0 bezier_fuel 0 d11_points (Some l_3_8) with
  | Done c => (length (c_path c), dump_pos (last (c_path c) pos0), D.bits (dist (c_lengths c)))
  | _ => (O, [], 0)
  end = (2%nat, [S.bits S.nan; S.bits S.nan], D.bits l_3_8).
Proof. vm_compute. reflexivity. Qed.
(* ... and not in any other mode (no simplification, no surplus) *)
Example C16_D11_other_mode :
  match curve_L1 lm0 bezier_fuel 1 d11_points (Some l_3_8) with
  | Done c => (Nat.ltb 2 (length (c_path c)), existsb (fun p => S.is_nan (px p) || S.is_nan (py p)) (c_path c))
  | _ => (false, true)
  end = (true, false).
Proof. vm_compute. reflexivity. Qed.

(* ================================================================== *)
(* T16d -- monotonicity and finiteness under rounding (IEEE)           *)
(* ================================================================== *)
From Flocq Require Import IEEE754.BinarySingleNaN.
From RM Require Import Proofs.LengthMono Proofs.LengthBound Proofs.AdjustExact.

(* the predicates used below, spelled out *)
Theorem C16_T16d_predicates :
  (forall p, fin_pos p <-> is_finite (px p) = true /\ is_finite (py p) = true) /\
  (* +0.0, a positive finite number or +infinity *)
  (forall x : F64, pos64 x <-> is_nan x = false /\ Bsign x = false) /\
  (forall l, nondec l <->
     forall i x y, nth_error l i = Some x -> nth_error l (S i) = Some y -> D.le x y = true) /\
  (forall l, lengths_ok l <-> (exists t, l = D.zero :: t) /\ nondec l /\ Forall pos64 l) /\
  (forall pts, no_catmull pts <-> Forall (fun cp => pc_type cp <> Some Catmull) pts).
Proof. split; [|split; [|split; [|split]]]; intros; reflexivity. Qed.
Print Assumptions C16_T16d_predicates.

(* one step of the running sum: adding an f32 segment length (widened to f64)
   to an accumulator of the class never gives NaN and never decreases it --
   overflow to +inf included *)
Theorem C16_adding_a_length_never_decreases :
  forall a b : F64, pos64 a -> pos64 b -> pos64 (D.add a b) /\ D.le a (D.add a b) = true.
Proof. exact D_add_pos. Qed.
Print Assumptions C16_adding_a_length_never_decreases.

Theorem C16_segment_length_is_nonnegative :
  forall a b, fin_pos a -> fin_pos b -> pos64 (f64_of_f32 (Curve.plen (psub b a))).
Proof. exact seglen_pos. Qed.
Print Assumptions C16_segment_length_is_nonnegative.

(* the natural cumulative lengths with a zero seed *)
Theorem C16_natural_lengths_nondecreasing :
  forall path, Forall fin_pos path ->
  nondec (natural path D.zero) /\ Forall pos64 (natural path D.zero) /\
  pos64 (natural_len path D.zero) /\
  (is_finite (natural_len path D.zero) = true ->
   Forall (fun v => is_finite v = true) (natural path D.zero)).
Proof. exact natural_nondecreasing. Qed.
Print Assumptions C16_natural_lengths_nondecreasing.

(* EVERY outcome of calculate_length with a zero seed, whatever the requested
   length (None, NaN, negative, inside, beyond): starts at 0.0, non-decreasing,
   no NaN / negative entry; finite entries without intermediate overflow.  In
   the adjusting case the entry before L is strictly below L (cut-index
   characterisation of T16a), in the extension case as well *)
Theorem C16_lengths_nondecreasing :
  forall path e path' lens,
  Forall fin_pos path -> calculate_length path e D.zero = Done (path', lens) ->
  lengths_ok lens /\
  (is_finite (natural_len path D.zero) = true -> (forall L, e = Some L -> is_finite L = true) ->
   Forall (fun v => is_finite v = true) lens).
Proof. exact calculate_length_nondecreasing. Qed.
Print Assumptions C16_lengths_nondecreasing.

(* pairwise form: lengths[i] <= lengths[j] for i <= j *)
Theorem C16_lengths_ordered :
  forall l, nondec l -> Forall pos64 l ->
  forall i j x y, (i <= j)%nat -> nth_error l i = Some x -> nth_error l j = Some y -> D.le x y = true.
Proof. exact nondec_le. Qed.
Print Assumptions C16_lengths_ordered.

(* a concrete condition for "no intermediate overflow": finite f32 segment
   lengths and at most 2^53 vertices (the sum of k binary32 numbers is at most
   k * 2^128) *)
Theorem C16_no_overflow_condition :
  forall path, Forall fin_pos path -> segs_finite path -> (Z.of_nat (length path) <= 2 ^ 53)%Z ->
  is_finite (natural_len path D.zero) = true.
Proof. exact natural_len_finite. Qed.
Print Assumptions C16_no_overflow_condition.

(* ... which a coordinate bound guarantees: every coordinate finite with
   magnitude at most 2^60 (difference <= 2^61, squares <= 2^122, sum <= 2^123,
   root <= 2^62: every f32 segment length is finite) *)
Theorem C16_coordinate_bound_gives_finite_segments :
  (forall p k, coord_le p k <->
     (is_finite (px p) = true /\ (Rabs (B2R (px p)) <= Raux.bpow Zaux.radix2 k)%R) /\
     (is_finite (py p) = true /\ (Rabs (B2R (py p)) <= Raux.bpow Zaux.radix2 k)%R)) /\
  (forall a b, coord_le a 60 -> coord_le b 60 -> is_finite (Curve.plen (psub b a)) = true) /\
  (forall path, Forall (fun p => coord_le p 60) path -> segs_finite path).
Proof.
  split; [intros; reflexivity|]. split; [exact plen_finite_of_bound|exact segs_finite_of_bound].
Qed.
Print Assumptions C16_coordinate_bound_gives_finite_segments.

(* T16d with the concrete side condition: |coordinate| <= 2^60, at most 2^53
   vertices, finite requested length: every outcome of calculate_length (zero
   seed) starts at 0.0, is non-decreasing and every entry is finite *)
Theorem C16_lengths_nondecreasing_and_finite :
  forall path e path' lens,
  Forall (fun p => coord_le p 60) path -> (Z.of_nat (length path) <= 2 ^ 53)%Z ->
  (forall L, e = Some L -> is_finite L = true) ->
  calculate_length path e D.zero = Done (path', lens) ->
  lengths_ok lens /\ Forall (fun v => is_finite v = true) lens.
Proof. exact lengths_finite_of_bound. Qed.
Print Assumptions C16_lengths_nondecreasing_and_finite.

(* the seed IS zero outside the osu!-mode Catmull simplification *)
Theorem C16_seed_is_zero_outside_osu_catmull :
  forall lm fuel mode pts path opt,
  calculate_path_L1 lm fuel mode pts = Done (path, opt) ->
  is_osu mode = false \/ no_catmull pts -> opt = D.zero.
Proof. exact calculate_path_L1_seed. Qed.
Print Assumptions C16_seed_is_zero_outside_osu_catmull.

(* hence on computed curves *)
Theorem C16_curve_lengths_nondecreasing_partial :
  forall lm fuel mode pts e c,
  curve_L1 lm fuel mode pts e = Done c ->
  is_osu mode = false \/ no_catmull pts ->
  exists path, calculate_path_L1 lm fuel mode pts = Done (path, D.zero) /\
    (Forall fin_pos path ->
     lengths_ok (c_lengths c) /\
     (is_finite (natural_len path D.zero) = true -> (forall L, e = Some L -> is_finite L = true) ->
      Forall (fun v => is_finite v = true) (c_lengths c))).
Proof. exact curve_lengths_nondecreasing. Qed.
Print Assumptions C16_curve_lengths_nondecreasing_partial.
(* partial: osu!-mode Catmull curves (non-zero seed) are not covered *)

(* ================================================================== *)
(* T16b -- the adjusted end point in exact arithmetic                  *)
(* ================================================================== *)

(* the model's expressions are the IEEE instances of the formulas read below *)
Theorem C16_model_adjust_formula :
  forall pp pe e lp,
  padd pp (pmul (pnormalize (psub pe pp)) (f32_of_f64 (D.sub e lp))) =
  let '(x, y) := adjust_point_g S.add S.sub S.mul S.div S.one D.sqrt D.sub f64_of_f32 f32_of_f64
                                (px pp) (py pp) (px pe) (py pe) e lp in mkPos x y.
Proof. exact model_adjust_end. Qed.
Print Assumptions C16_model_adjust_formula.

Theorem C16_model_running_sums :
  forall path acc,
  cum_lengths acc path = cum_g D.add (fun curr next => f64_of_f32 (Curve.plen (psub next curr))) acc path.
Proof. exact model_cum_lengths. Qed.
Print Assumptions C16_model_running_sums.

(* real instances: adjust_R = adjust_point_g over R (identity conversions),
   edist = Euclidean distance, cumlen path = 0 :: running sums of edist,
   poly_len path = the final sum *)
Theorem C16_real_instances :
  (forall pp pe L lp, adjust_R pp pe L lp =
     adjust_point_g Rplus Rminus Rmult Rdiv 1%R sqrt Rminus (fun x => x) (fun x => x)
                    (fst pp) (snd pp) (fst pe) (snd pe) L lp) /\
  (forall a b, edist a b = sqrt ((fst b - fst a) ^ 2 + (snd b - snd a) ^ 2)) /\
  (forall path, cumlen path = 0%R :: fst (cum_g Rplus edist 0%R path)) /\
  (forall path, poly_len path = snd (cum_g Rplus edist 0%R path)).
Proof. repeat split. Qed.
Print Assumptions C16_real_instances.

(* on the ray from path[k-1] through path[k], exactly L - lengths[k-1] away *)
Theorem C16_adjusted_end_on_ray :
  forall pp pe L lp, pp <> pe -> (lp <= L)%R ->
  let p' := adjust_R pp pe L lp in
  (exists t, (0 <= t)%R /\
     p' = (fst pp + t * (fst pe - fst pp), snd pp + t * (snd pe - snd pp))%R) /\
  edist pp p' = (L - lp)%R.
Proof. exact adjust_on_ray. Qed.
Print Assumptions C16_adjusted_end_on_ray.

(* cut: on the segment [path[k-1], path[k]] *)
Theorem C16_cut_lies_on_segment :
  forall pp pe L lp, pp <> pe -> (lp <= L <= lp + edist pp pe)%R ->
  let p' := adjust_R pp pe L lp in
  (exists w, (0 <= w <= 1)%R /\
     p' = ((1 - w) * fst pp + w * fst pe, (1 - w) * snd pp + w * snd pe)%R) /\
  edist pp p' = (L - lp)%R /\ edist p' pe = (lp + edist pp pe - L)%R.
Proof. exact adjust_cut_on_segment. Qed.
Print Assumptions C16_cut_lies_on_segment.

(* extension: the last segment is extended in its own direction *)
Theorem C16_extension_continues_last_segment :
  forall pp pe L lp, pp <> pe -> (lp + edist pp pe <= L)%R ->
  let p' := adjust_R pp pe L lp in
  (exists w, (1 <= w)%R /\
     p' = (fst pp + w * (fst pe - fst pp), snd pp + w * (snd pe - snd pp))%R) /\
  edist pp p' = (L - lp)%R /\ edist pe p' = (L - (lp + edist pp pe))%R.
Proof. exact adjust_extension. Qed.
Print Assumptions C16_extension_continues_last_segment.

(* the new path (first k natural vertices + the adjusted end point) has the
   cumulative polyline lengths calculate_length returns -- the first k natural
   ones, then L -- and polyline length exactly L *)
Theorem C16_adjusted_path_has_length_L :
  forall (path : list P2) k pp pe lp L,
  (1 <= k < length path)%nat ->
  nth_error path (Nat.pred k) = Some pp -> nth_error path k = Some pe ->
  nth_error (cumlen path) (Nat.pred k) = Some lp ->
  pp <> pe -> (lp <= L)%R ->
  let path' := firstn k path ++ [adjust_R pp pe L lp] in
  cumlen path' = firstn k (cumlen path) ++ [L] /\ poly_len path' = L.
Proof. exact adjusted_path_lengths. Qed.
Print Assumptions C16_adjusted_path_has_length_L.

(* the degenerate case path[k] = path[k-1] is excluded above for a reason: the
   formula returns path[k-1] itself (IEEE: 0 * inf = NaN, finding D11), so the
   new path's length is lengths[k-1], not L *)
Theorem C16_degenerate_direction_excluded :
  forall pp L lp, adjust_R pp pp L lp = pp.
Proof. exact adjust_degenerate. Qed.
Print Assumptions C16_degenerate_direction_excluded.

(* non-vacuity: (0,0) (3,4) (8,16), L = 9: the second segment is cut 4/13 of the way *)
Theorem C16_exact_cut_example :
  adjust_R (3, 4)%R (8, 16)%R 9%R 5%R = (3 + 5 * (4 / 13), 4 + 12 * (4 / 13))%R.
Proof. exact adjust_example. Qed.
Print Assumptions C16_exact_cut_example.

(* ================================================================== *)
(* T16b-IEEE -- rounding error of the adjusted end point               *)
(* ================================================================== *)
From RM Require Import Proofs.AdjustIEEEBase Proofs.AdjustIEEE Proofs.AdjustIEEESum Proofs.AdjustIEEELen Proofs.AdjustIEEEEx.
Open Scope Z_scope.

(* the hypotheses and the bound, spelled out.  Coordinates finite with
   |c| <= 2^20 (a decoded map: |c| <= 2^17 = 131072, plus head-room for the
   curve arithmetic), L and lengths[k-1] finite with 0 <= L - lengths[k-1] <= 2^20,
   the segment's exact Euclidean length at least 2^-10 (not degenerate).
   E16 c t = 2^-24 (c + 9.05 t) + 2^-127. *)
Theorem C16_ieee_hypotheses :
  (forall x k, bnd32 x k <-> is_finite x = true /\ (Rabs (B2R x) <= Raux.bpow Zaux.radix2 k)%R) /\
  (forall p, R2 p = (B2R (px p), B2R (py p))) /\
  (forall pp pe e lp, adjust_hyps pp pe e lp <->
     bnd32 (px pp) 20 /\ bnd32 (py pp) 20 /\ bnd32 (px pe) 20 /\ bnd32 (py pe) 20 /\
     is_finite e = true /\ is_finite lp = true /\
     (0 <= B2R e - B2R lp <= Raux.bpow Zaux.radix2 20)%R /\
     (Raux.bpow Zaux.radix2 (-10) <= edist (R2 pp) (R2 pe))%R) /\
  (forall c t, E16 c t = (/ 16777216 * (c + 9.05 * t) + Raux.bpow Zaux.radix2 (-127))%R).
Proof. split; [|split; [|split]]; intros; reflexivity. Qed.
Print Assumptions C16_ieee_hypotheses.

(* T16b-IEEE.  The end point calculate_length computes (adjust_end: the
   model's own expression, 13 correctly rounded binary32 / binary64
   operations per coordinate) is finite and differs per coordinate from the
   exact point adjust_R -- the same formula over the reals, on the same f32
   vertices and f64 lengths, about which T16b above speaks -- by at most
   2^-24 (|path[k-1].c| + 9.05 (L - lengths[k-1])) + 2^-127 *)
Theorem C16_adjusted_end_ieee_bound :
  forall (path : list Pos) (lens : list F64) k L pp pe lp,
  nth_error path (Nat.pred k) = Some pp -> nth_error path k = Some pe -> nth_error lens (Nat.pred k) = Some lp ->
  adjust_hyps pp pe L lp ->
  exists q, adjust_end path lens k L = Some q /\
    is_finite (px q) = true /\ is_finite (py q) = true /\
    (Rabs (B2R (px q) - fst (adjust_R (R2 pp) (R2 pe) (B2R L) (B2R lp)))
       <= E16 (Rabs (B2R (px pp))) (B2R L - B2R lp))%R /\
    (Rabs (B2R (py q) - snd (adjust_R (R2 pp) (R2 pe) (B2R L) (B2R lp)))
       <= E16 (Rabs (B2R (py pp))) (B2R L - B2R lp))%R.
Proof. exact adjust_end_ieee_bound. Qed.
Print Assumptions C16_adjusted_end_ieee_bound.

(* the same on the expression itself *)
Theorem C16_adjusted_end_expression_ieee_bound :
  forall pp pe e lp, adjust_hyps pp pe e lp ->
  let q := padd pp (pmul (pnormalize (psub pe pp)) (f32_of_f64 (D.sub e lp))) in
  let q' := adjust_R (R2 pp) (R2 pe) (B2R e) (B2R lp) in
  is_finite (px q) = true /\ is_finite (py q) = true /\
  (Rabs (B2R (px q) - fst q') <= E16 (Rabs (B2R (px pp))) (B2R e - B2R lp))%R /\
  (Rabs (B2R (py q) - snd q') <= E16 (Rabs (B2R (py pp))) (B2R e - B2R lp))%R.
Proof. exact adjusted_end_ieee_bound. Qed.
Print Assumptions C16_adjusted_end_expression_ieee_bound.

(* under the magnitude hypotheses the bound is below 0.63 px per coordinate
   (2^-24 * 10.05 * 2^20); for |c|, L - lp <= 2^17 it is below 0.08 px *)
Theorem C16_ieee_bound_is_small :
  forall c t, (0 <= c <= Raux.bpow Zaux.radix2 20)%R -> (0 <= t <= Raux.bpow Zaux.radix2 20)%R ->
  (E16 c t <= 0.63)%R.
Proof. exact E16_le. Qed.
Print Assumptions C16_ieee_bound_is_small.

(* the building block: the binary32 length of a vector whose components
   stand for X, Y up to one rounding has relative error at most 3.01 * 2^-24 *)
Theorem C16_f32_length_relative_error :
  forall (dx dy : F32) (X Y : R),
  is_finite dx = true -> is_finite dy = true ->
  (Rabs (B2R dx) <= Raux.bpow Zaux.radix2 21)%R -> (Rabs (B2R dy) <= Raux.bpow Zaux.radix2 21)%R ->
  rel (B2R dx) X u32 -> rel (B2R dy) Y u32 ->
  (Raux.bpow Zaux.radix2 (-20) <= X * X + Y * Y <= Raux.bpow Zaux.radix2 44)%R ->
  is_finite (Curve.plen (mkPos dx dy)) = true /\
  (Rabs (B2R (Curve.plen (mkPos dx dy))) <= Raux.bpow Zaux.radix2 22)%R /\
  rel (B2R (Curve.plen (mkPos dx dy))) (sqrt (X * X + Y * Y)) (3.01 * u32)%R.
Proof. exact plen_rel. Qed.
Print Assumptions C16_f32_length_relative_error.

Theorem C16_rel_definition :
  (forall c v e, rel c v e <-> exists d, (c = v * (1 + d) /\ Rabs d <= e)%R) /\ u32 = (/ 16777216)%R.
Proof. split; [intros; reflexivity|reflexivity]. Qed.
Print Assumptions C16_rel_definition.

(* Corollary: the exact Euclidean distance from path[k-1] to the computed end
   point is within Ex + Ey of L - lengths[k-1]; hence the exact polyline
   length of the adjusted path (the sum of the exact distances between its
   f32 vertices) is within A + Ex + Ey of L, where A bounds the accumulated
   rounding error of the kept cumulative length lengths[k-1] against the
   exact polyline length c of the kept vertices (a hypothesis here: the
   running sums of Proofs/LengthBound are proved finite, their accumulated
   error is not bounded in this development) *)
Theorem C16_adjusted_length_ieee_bound :
  forall (path : list Pos) (lens : list F64) k L pp pe lp c A,
  (1 <= k < length path)%nat ->
  nth_error path (Nat.pred k) = Some pp -> nth_error path k = Some pe -> nth_error lens (Nat.pred k) = Some lp ->
  adjust_hyps pp pe L lp ->
  nth_error (cumlen (map R2 path)) (Nat.pred k) = Some c -> (Rabs (c - B2R lp) <= A)%R ->
  let Ex := E16 (Rabs (B2R (px pp))) (B2R L - B2R lp) in
  let Ey := E16 (Rabs (B2R (py pp))) (B2R L - B2R lp) in
  exists q, adjust_end path lens k L = Some q /\
    (Rabs (edist (R2 pp) (R2 q) - (B2R L - B2R lp)) <= Ex + Ey)%R /\
    (Rabs (poly_len (map R2 (firstn k path ++ [q])) - B2R L) <= A + Ex + Ey)%R.
Proof. exact adjusted_length_ieee_bound. Qed.
Print Assumptions C16_adjusted_length_ieee_bound.

(* the hypotheses are met by the cut of C16_nonvacuous_cut -- (0,0) (3,4)
   (8,16), natural lengths 0, 5, 18, L = 9, cut in the second segment ... *)
Example C16_ieee_hypotheses_example :
  map D.bits (natural ex_path D.zero) = map D.bits ex_lens /\
  adjust_hyps ex_p1 ex_p2 (D.of_Z 9) (D.of_Z 5).
Proof. split; [exact ex_lens_are_natural|exact ex_adjust_hyps]. Qed.
Print Assumptions C16_ieee_hypotheses_example.

(* ... where the theorems say: the computed end point is within 2.5e-6 px per
   coordinate of the exact cut point (3 + 20/13, 4 + 48/13), and the exact
   polyline length of the adjusted path is within 4.8e-6 of L = 9 *)
Example C16_ieee_bound_example :
  (exists q, adjust_end ex_path ex_lens 2 (D.of_Z 9) = Some q /\
     is_finite (px q) = true /\ is_finite (py q) = true /\
     (Rabs (B2R (px q) - (3 + 5 * (4 / 13))) <= 2.5 / 1000000)%R /\
     (Rabs (B2R (py q) - (4 + 12 * (4 / 13))) <= 2.5 / 1000000)%R) /\
  (exists q, adjust_end ex_path ex_lens 2 (D.of_Z 9) = Some q /\
     (Rabs (poly_len (map R2 (firstn 2 ex_path ++ [q])) - 9) <= 4.8 / 1000000)%R).
Proof. split; [exact ex_adjust_bound|exact ex_adjusted_length]. Qed.
Print Assumptions C16_ieee_bound_example.

(* the computed end point, as bit patterns: (4.5384617, 7.692308) *)
Example C16_ieee_end_point_dump :
  match adjust_end ex_path ex_lens 2 (D.of_Z 9) with Some q => dump_pos q | None => [] end
  = [S.bits (S.of_decimal false 45384617 (-7)); S.bits (S.of_decimal false 7692308 (-6))].
Proof. exact ex_adjust_dump. Qed.

(* ================================================================== *)
(* the accumulated rounding error of the cumulative lengths (IEEE)     *)
(* ================================================================== *)

(* seg_ok a b: the two end points are numerically equal (the computed length
   is then exactly 0) or at least 2^-10 apart; segs_ok: every segment;
   alpha n = 3.01 * 2^-24 + 2 n * 2^-53;  lens_ok n xs cs: element by element,
   x finite and x = c (1 + d), |d| <= alpha n *)
Theorem C16_accumulated_error_definitions :
  (forall a b, seg_ok a b <-> R2 a = R2 b \/ (Raux.bpow Zaux.radix2 (-10) <= edist (R2 a) (R2 b))%R) /\
  (forall a b t, segs_ok (a :: b :: t) <-> seg_ok a b /\ segs_ok (b :: t)) /\
  (forall n, alpha n = (3.01 * u32 + 2 * INR n * u64)%R) /\ u64 = (/ 9007199254740992)%R /\
  (forall n xs cs, lens_ok n xs cs <->
     Forall2 (fun x c => is_finite x = true /\ rel (B2R x) c (alpha n)) xs cs).
Proof. split; [|split; [|split; [|split]]]; intros; reflexivity. Qed.
Print Assumptions C16_accumulated_error_definitions.

(* one segment: the widened binary32 length is the exact length up to 3.01 * 2^-24 *)
Theorem C16_segment_length_ieee_bound :
  forall a b, coord_le a 20 -> coord_le b 20 -> seg_ok a b ->
  is_finite (f64_of_f32 (Curve.plen (psub b a))) = true /\
  rel (B2R (f64_of_f32 (Curve.plen (psub b a)))) (edist (R2 a) (R2 b)) (3.01 * u32)%R.
Proof. exact seg_rel. Qed.
Print Assumptions C16_segment_length_ieee_bound.

(* every cumulative length calculate_length computes (zero seed) against the
   exact cumulative polyline length of the same f32 vertices: relative error
   at most alpha n, n the number of vertices (at most 2^50), for coordinates
   |c| <= 2^20 and segments that are degenerate or at least 2^-10 long *)
Theorem C16_cumulative_lengths_ieee_bound :
  forall path : list Pos,
  Forall (fun p => coord_le p 20) path -> segs_ok path -> (length path <= 2 ^ 50)%nat ->
  (poly_len (map R2 path) <= Raux.bpow Zaux.radix2 1000)%R ->
  lens_ok (length path) (natural path D.zero) (cumlen (map R2 path)).
Proof. exact natural_lengths_error. Qed.
Print Assumptions C16_cumulative_lengths_ieee_bound.

(* the length corollary with the hypothesis A discharged: the exact polyline
   length of the adjusted path is within alpha n * c + Ex + Ey of L, c the
   exact polyline length of the kept vertices *)
Theorem C16_adjusted_length_ieee_bound_full :
  forall (path : list Pos) k L pp pe lp c,
  Forall (fun p => coord_le p 20) path -> segs_ok path -> (length path <= 2 ^ 50)%nat ->
  (poly_len (map R2 path) <= Raux.bpow Zaux.radix2 1000)%R ->
  (1 <= k < length path)%nat ->
  nth_error path (Nat.pred k) = Some pp -> nth_error path k = Some pe ->
  nth_error (natural path D.zero) (Nat.pred k) = Some lp ->
  nth_error (cumlen (map R2 path)) (Nat.pred k) = Some c ->
  is_finite L = true -> (0 <= B2R L - B2R lp <= Raux.bpow Zaux.radix2 20)%R ->
  (Raux.bpow Zaux.radix2 (-10) <= edist (R2 pp) (R2 pe))%R ->
  let Ex := E16 (Rabs (B2R (px pp))) (B2R L - B2R lp) in
  let Ey := E16 (Rabs (B2R (py pp))) (B2R L - B2R lp) in
  exists q, adjust_end path (natural path D.zero) k L = Some q /\
    (Rabs (c - B2R lp) <= alpha (length path) * c)%R /\
    (Rabs (poly_len (map R2 (firstn k path ++ [q])) - B2R L) <= alpha (length path) * c + Ex + Ey)%R.
Proof. exact adjusted_length_ieee_bound_full. Qed.
Print Assumptions C16_adjusted_length_ieee_bound_full.

(* the hypotheses hold for (0,0) (3,4) (8,16); there the exact polyline length
   of the path cut at L = 9 is within 5.7e-6 of 9 *)
Example C16_accumulated_error_example :
  (Forall (fun p => coord_le p 20) ex_path /\ segs_ok ex_path /\ (length ex_path <= 2 ^ 50)%nat /\
   (poly_len (map R2 ex_path) <= Raux.bpow Zaux.radix2 1000)%R) /\
  (exists q, adjust_end ex_path (natural ex_path D.zero) 2 (D.of_Z 9) = Some q /\
     (Rabs (poly_len (map R2 (firstn 2 ex_path ++ [q])) - 9) <= 5.7 / 1000000)%R).
Proof. split; [exact ex_path_hyps|exact ex_adjusted_length_full]. Qed.
Print Assumptions C16_accumulated_error_example.

(* on calculate_length itself (adjusting branch, zero seed): the new path is
   the first k vertices plus the end point q; the kept length lp = lengths[k-1]
   is finite, below L and within alpha n * c of the exact polyline length c of
   the kept vertices; and when the segment the cut falls in is at least 2^-10
   long and L - lp <= 2^20, q is finite, within E16 of the exact point, and the
   exact polyline length of the new path is within alpha n * c + Ex + Ey of L *)
Theorem C16_calculate_length_ieee_bound :
  forall (path : list Pos) (L : F64) path' lens,
  D.lt D.zero L = true ->
  keeps_natural (natural_len path D.zero) L = false ->
  (last_two_equal path && D.gt L (natural_len path D.zero))%bool = false ->
  (2 <= length path)%nat ->
  calculate_length path (Some L) D.zero = Done (path', lens) ->
  Forall (fun p => coord_le p 20) path -> segs_ok path -> (length path <= 2 ^ 50)%nat ->
  (poly_len (map R2 path) <= Raux.bpow Zaux.radix2 1000)%R -> is_finite L = true ->
  exists k pp pe lp c q,
    (1 <= k < length path)%nat /\
    nth_error path (Nat.pred k) = Some pp /\ nth_error path k = Some pe /\
    nth_error (natural path D.zero) (Nat.pred k) = Some lp /\
    nth_error (cumlen (map R2 path)) (Nat.pred k) = Some c /\
    path' = firstn k path ++ [q] /\ lens = firstn k (natural path D.zero) ++ [L] /\
    is_finite lp = true /\ (B2R lp < B2R L)%R /\ (Rabs (c - B2R lp) <= alpha (length path) * c)%R /\
    ((Raux.bpow Zaux.radix2 (-10) <= edist (R2 pp) (R2 pe))%R -> (B2R L - B2R lp <= Raux.bpow Zaux.radix2 20)%R ->
     let Ex := E16 (Rabs (B2R (px pp))) (B2R L - B2R lp) in
     let Ey := E16 (Rabs (B2R (py pp))) (B2R L - B2R lp) in
     is_finite (px q) = true /\ is_finite (py q) = true /\
     (Rabs (B2R (px q) - fst (adjust_R (R2 pp) (R2 pe) (B2R L) (B2R lp))) <= Ex)%R /\
     (Rabs (B2R (py q) - snd (adjust_R (R2 pp) (R2 pe) (B2R L) (B2R lp))) <= Ey)%R /\
     (Rabs (poly_len (map R2 path') - B2R L) <= alpha (length path) * c + Ex + Ey)%R).
Proof. exact calculate_length_ieee_bound. Qed.
Print Assumptions C16_calculate_length_ieee_bound.

Example C16_calculate_length_ieee_example :
  D.lt D.zero (D.of_Z 9) = true /\
  keeps_natural (natural_len ex_path D.zero) (D.of_Z 9) = false /\
  (last_two_equal ex_path && D.gt (D.of_Z 9) (natural_len ex_path D.zero))%bool = false /\
  (2 <= length ex_path)%nat /\
  (match calculate_length ex_path (Some (D.of_Z 9)) D.zero with Done (p, l) => (length p, map D.bits l) | _ => (O, []) end
   = (3%nat, map D.bits [D.of_Z 0; D.of_Z 5; D.of_Z 9])) /\
  is_finite (D.of_Z 9) = true.
Proof. exact ex_calculate_length_hyps. Qed.

(* the non-degeneracy hypothesis stated on the COMPUTED f32 length of the
   segment: (path[k] - path[k-1]).length() >= 2^-9 implies an exact length
   >= 2^-10, hence adjust_hyps (an exact length below 2^-10 gives a computed
   length below 2^-9, underflow of the squares to zero included) *)
Theorem C16_ieee_hypotheses_from_f32_length :
  forall (pp pe : Pos) (e lp : F64),
  coord_le pp 20 -> coord_le pe 20 -> is_finite e = true -> is_finite lp = true ->
  (0 <= B2R e - B2R lp <= Raux.bpow Zaux.radix2 20)%R ->
  (Raux.bpow Zaux.radix2 (-9) <= B2R (Curve.plen (psub pe pp)))%R ->
  adjust_hyps pp pe e lp.
Proof. exact adjust_hyps_of_f32_length. Qed.
Print Assumptions C16_ieee_hypotheses_from_f32_length.

Example C16_ieee_hypotheses_from_f32_length_example :
  (Raux.bpow Zaux.radix2 (-9) <= B2R (Curve.plen (psub ex_p2 ex_p1)))%R /\
  adjust_hyps ex_p1 ex_p2 (D.of_Z 9) (D.of_Z 5).
Proof. split; [exact ex_f32_length|exact ex_adjust_hyps_from_f32_length]. Qed.
Print Assumptions C16_ieee_hypotheses_from_f32_length_example.

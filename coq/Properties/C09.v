(* C09 -- I/O faults are surfaced, never swallowed or turned into partial
   results.  Statements only ([exact] of lemmas from Proofs/ReaderFacts.v),
   Print Assumptions, examples. *)
From RM Require Import Model.Text Model.Encoding Model.Reader.
From RM Require Import Proofs.EncodingFacts Proofs.ReaderFacts Proofs.TransparencyFacts Proofs.IoWitnesses.
From RM Require Import Gen.Generated.
Open Scope Z_scope.

Example pin_read_bom_min_len : read_bom_min_len = 3.
Proof. reflexivity. Qed.

(* ---------- T09a: read side ---------- *)

(* [reaches_fail n s = Some k]: handing out n bytes as the schedule s says,
   the hard failure k comes up before the source has reported EOF.  Then the
   decode returns exactly that error -- never a (partially filled) result:
   the driver keeps calling read_line until EOF and returns every Err. *)
Theorem C09_read_failure_is_returned : forall b s k,
  reaches_fail (length b) s = Some k -> read_all_lines (mk_reader b s) = IoErr k.
Proof. exact (read_all_lines_fail decode_utf8_lossy_spec). Qed.
Print Assumptions C09_read_failure_is_returned.

(* in the shape of the property text: after any failure-free delivery of
   o <= |b| bytes (any chunking, any interruptions), a failure of any kind *)
Theorem C09_failure_at_any_offset : forall b pre k post,
  faultless pre -> (delivered pre <= length b)%nat ->
  read_all_lines (mk_reader b (pre ++ Fail k :: post)) = IoErr k.
Proof. exact (fail_at_offset_is_returned decode_utf8_lossy_spec). Qed.
Print Assumptions C09_failure_at_any_offset.

(* neither panics, for every bytes and every schedule *)
Theorem C09_read_never_panics : forall r, io_ok (read_all_lines r).
Proof. exact (read_all_lines_ok decode_utf8_lossy_spec). Qed.
Print Assumptions C09_read_never_panics.

(* ---------- T09b: Interrupted is retried transparently ---------- *)

Theorem C09_interrupted_transparent : forall b s,
  read_all_lines (mk_reader b s) = read_all_lines (mk_reader b (strip_interrupted s)).
Proof. exact (interrupted_transparent decode_utf8_lossy_spec). Qed.
Print Assumptions C09_interrupted_transparent.

(* ---------- T09c: write side, for an arbitrary chunk sequence ws ---------- *)

(* Beatmap::encode hands its output to the writer as a sequence of chunks ws
   (write_all directly or through write!), `?` after each, then flush().  The
   concrete ws of a Beatmap belongs to the encoder model (C02-C04); the
   theorems hold for every ws.
   (i) The writer fails (error or Ok(0)) before everything is taken: with a
   failure-free prefix s1 whose accept counts sum to less than |concat ws|,
   the failing event e is reached, its error is returned (WriteZero for
   Ok(0)), the schedule behind e is untouched and there was one call per
   consumed event -- no call after the first failure --, and what was taken
   is a prefix of the output. *)
Theorem C09_write_failure_is_returned : forall ws s1 e s2 fl,
  nofail s1 -> wev_fails e = true -> (capacity s1 < length (concat ws))%nat ->
  exists w', encode_writes ws (mkWriter (s1 ++ e :: s2) fl [] 0) = (IoErr (wfault e), w') /\
    wsched w' = s2 /\ calls w' = S (length s1) /\ is_prefix_of (accepted w') (concat ws).
Proof. exact encode_writes_fail. Qed.
Print Assumptions C09_write_failure_is_returned.

(* (ii) short writes and Interrupted only: write_all retries, every byte
   arrives in order, and the result is the result of the final flush *)
Theorem C09_short_writes_retried : forall ws s fl, nofail s ->
  exists w', encode_writes ws (mkWriter s fl [] 0) =
    (match fl with None => IoDone tt | Some k => IoErr k end, w') /\ accepted w' = concat ws.
Proof. exact encode_writes_nofail. Qed.
Print Assumptions C09_short_writes_retried.

(* (iii) never a panic *)
Theorem C09_write_never_panics : forall ws w, io_ok (fst (encode_writes ws w)).
Proof. exact encode_writes_ok_or_err. Qed.
Print Assumptions C09_write_never_panics.

(* ---------- non-vacuity ---------- *)

Example C09_nonvacuous_read :
  reaches_fail (length d4_bytes) [Chunk 4; Interrupted; Chunk 7; Fail TimedOut; Chunk 100] = Some TimedOut /\
  show (read_all_lines (mk_reader d4_bytes [Chunk 4; Interrupted; Chunk 7; Fail TimedOut; Chunk 100])) = [1; 4] /\
  (* a failure scheduled after the source has reported EOF twice is not reached *)
  show (read_all_lines (mk_reader d4_bytes [Chunk 100; Chunk 1; Chunk 1; Fail Other]))
  = show (IoDone [lit "[Metadata]"; lit "Title:abc"]).
Proof. vm_compute. repeat split. Qed.

Example C09_nonvacuous_write :
  (* 5 bytes in two chunks; the writer takes 2, is interrupted, takes 1, then fails *)
  let '(res, w) := encode_writes [[1; 2; 3]; [4; 5]]
                     (mkWriter [WAccept 2; WInterrupted; WAccept 7; WFail PermissionDenied; WAccept 9] None [] 0) in
  dump_io (fun _ => []) res = [1; 3] /\ accepted w = [1; 2; 3] /\ calls w = 4%nat /\ wsched w = [WAccept 9].
Proof. vm_compute. repeat split. Qed.

Example C09_write_zero :
  let '(res, w) := encode_writes [[1; 2; 3]] (mkWriter [WAccept 1; WZero; WAccept 9] None [] 0) in
  dump_io (fun _ => []) res = [1; 6] /\ accepted w = [1] /\ wsched w = [WAccept 9].
Proof. vm_compute. repeat split. Qed.

(* C09 -- I/O faults are surfaced, never swallowed or turned into partial
   results.  Statements only ([exact] of lemmas from Proofs/ReaderFacts.v),
   Print Assumptions, examples. *)
From RM Require Import Model.Text Model.Encoding Model.Reader.
From RM Require Import Proofs.EncodingFacts Proofs.ReaderFacts Proofs.TransparencyFacts Proofs.IoWitnesses.
From RM Require Import Gen.Generated.
Open Scope Z_scope.

Example pin_read_bom_min_len : read_bom_min_len = 3.
Proof. reflexivity. Qed.
Example pin_read_bom_accumulates : read_bom_accumulates = true.
Proof. reflexivity. Qed.

(* ---------- T09a: read side ---------- *)

(* [reaches_fail n s = Some k]: handing out n bytes as the schedule s says,
   the hard failure k comes up before the source has reported EOF.  Then the
   decode returns exactly that error -- never a (partially filled) result:
   the driver keeps calling read_line until EOF and returns every Err. *)
Theorem C09_read_failure_is_returned : forall b s k,
  reaches_fail (length b) s = Some k -> read_all_lines (mk_reader b s) = IoErr k.
Proof. exact (read_all_lines_fail decode_utf8_lossy_spec). Qed.
Print Assumptions C09_read_failure_is_returned.

(* in the shape of the property text: after any failure-free delivery of
   o <= |b| bytes (any chunking, any interruptions), a failure of any kind *)
Theorem C09_failure_at_any_offset : forall b pre k post,
  faultless pre -> (delivered pre <= length b)%nat ->
  read_all_lines (mk_reader b (pre ++ Fail k :: post)) = IoErr k.
Proof. exact (fail_at_offset_is_returned decode_utf8_lossy_spec). Qed.
Print Assumptions C09_failure_at_any_offset.

(* conversely an Err is never made up: it is a failure event of the schedule
   (T01e; before the repair of D6 read_exact turned a clean EOF after a
   UTF-16LE line feed into UnexpectedEof) *)
Theorem C09_error_only_from_reader : forall r k,
  read_all_lines r = IoErr k -> In (Fail k) (sched r).
Proof. exact (read_all_lines_err_from_reader decode_utf8_lossy_spec). Qed.
Print Assumptions C09_error_only_from_reader.

Theorem C09_read_line_error_only_from_reader : forall fuel d k,
  read_line fuel d = IoErr k -> In (Fail k) (sched (second (inner d))).
Proof. exact (read_line_err_from_reader decode_utf8_lossy_spec). Qed.
Print Assumptions C09_read_line_error_only_from_reader.

(* a reader that reports no failure: read_line / the whole decode succeed *)
Theorem C09_faultless_read_line : forall fuel d,
  faultless (sched (second (inner d))) -> (cmsr (inner d) < fuel)%nat ->
  exists o d', read_line fuel d = IoDone (o, d').
Proof. exact (read_line_faultless_done decode_utf8_lossy_spec). Qed.
Print Assumptions C09_faultless_read_line.

Theorem C09_faultless_never_fails : forall r,
  faultless (sched r) -> exists ls, read_all_lines r = IoDone ls.
Proof. exact (read_all_lines_faultless_done decode_utf8_lossy_spec). Qed.
Print Assumptions C09_faultless_never_fails.

(* the extra-byte read of read_line after a UTF-16LE line feed (the loop that
   replaced read_exact), one source event at a time: a hard failure is
   returned; Interrupted is retried; end of stream keeps the line as read; a
   byte is taken.  Together with the theorems above (which cover this read
   like every other one): failures there are surfaced, never swallowed. *)
Theorem C09_extra_byte_failure_returned : forall f dn rs s buf k,
  read_extra (S f) (mkChain [] dn (mkReader [] rs (Fail k :: s))) buf = IoErr k.
Proof. exact read_extra_fail. Qed.
Print Assumptions C09_extra_byte_failure_returned.

Theorem C09_extra_byte_interrupted_retried : forall f dn rs s buf,
  read_extra (S f) (mkChain [] dn (mkReader [] rs (Interrupted :: s))) buf =
  read_extra f (mkChain [] true (mkReader [] rs s)) buf.
Proof. exact read_extra_interrupted. Qed.
Print Assumptions C09_extra_byte_interrupted_retried.

Theorem C09_extra_byte_eof_keeps_line : forall f dn buf,
  read_extra (S f) (mkChain [] dn (mkReader [] [] [])) buf = IoDone (buf, mkChain [] true (mkReader [] [] [])).
Proof. exact read_extra_eof. Qed.
Print Assumptions C09_extra_byte_eof_keeps_line.

Theorem C09_extra_byte_taken : forall f dn x bt rs s buf,
  read_extra (S f) (mkChain [] dn (mkReader (x :: bt) rs s)) buf =
  IoDone (buf ++ [x], mkChain [] true (mkReader bt rs s)).
Proof. exact read_extra_byte. Qed.
Print Assumptions C09_extra_byte_taken.

(* ... or it is one of the bytes read_bom took from the reader beyond the BOM *)
Theorem C09_extra_byte_from_head : forall f x t r buf,
  read_extra (S f) (mkChain (x :: t) false r) buf = IoDone (buf ++ [x], mkChain t false r).
Proof. exact read_extra_pending_byte. Qed.
Print Assumptions C09_extra_byte_from_head.

(* Interrupted anywhere in the loop, for any number of them and any reader *)
Theorem C09_extra_byte_interrupted_transparent : forall f1 f2 c1 c2 buf,
  csim c1 c2 -> (cmsr c1 < f1)%nat -> (cmsr c2 < f2)%nat ->
  io_rel cpair_sim (read_extra f1 c1 buf) (read_extra f2 c2 buf).
Proof. exact read_extra_sim. Qed.
Print Assumptions C09_extra_byte_interrupted_transparent.

(* the loop of read_line that assembles a UTF-16 line from several read_until
   calls (a byte 0x0A inside another code unit does not end the line): a
   scheduled failure is reached or the round ends with it still ahead, and any
   number of Interrupted anywhere in it is transparent *)
Theorem C09_line_loop_failure_reached : forall k n fuel e c buf,
  will_fail k (second c) -> (cmsr c < fuel)%nat -> (cmsr c < n)%nat ->
  read_line_loop n fuel e c buf = IoErr k \/
  exists buf' c', read_line_loop n fuel e c buf = IoDone (buf', c') /\ will_fail k (second c') /\ buf' <> [].
Proof. exact read_line_loop_will_fail. Qed.
Print Assumptions C09_line_loop_failure_reached.

Theorem C09_line_loop_interrupted_transparent : forall n1 n2 f1 f2 e c1 c2 buf,
  csim c1 c2 -> (cmsr c1 < f1)%nat -> (cmsr c2 < f2)%nat -> (cmsr c1 < n1)%nat -> (cmsr c2 < n2)%nat ->
  io_rel cpair_sim (read_line_loop n1 f1 e c1 buf) (read_line_loop n2 f2 e c2 buf).
Proof. exact read_line_loop_sim. Qed.
Print Assumptions C09_line_loop_interrupted_transparent.

(* BOM sniffing (read_bom collects up to three bytes over several chunks):
   while it still lacks bytes a hard failure is returned and Interrupted is
   retried, one source event at a time; for any number of Interrupted and any
   reader the outcome is that of the schedule without them.  (The general
   theorems above cover these reads like every other one.) *)
Theorem C09_bom_failure_returned : forall f rs s head k, (length head < 3)%nat ->
  read_bom (S f) (mkReader [] rs (Fail k :: s)) head = IoErr k.
Proof. exact read_bom_fail. Qed.
Print Assumptions C09_bom_failure_returned.

Theorem C09_bom_interrupted_retried : forall f rs s head, (length head < 3)%nat ->
  read_bom (S f) (mkReader [] rs (Interrupted :: s)) head = read_bom f (mkReader [] rs s) head.
Proof. exact read_bom_interrupted. Qed.
Print Assumptions C09_bom_interrupted_retried.

Theorem C09_bom_interrupted_transparent : forall f1 f2 r1 r2 head,
  sim r1 r2 -> (msr r1 < f1)%nat -> (msr r2 < f2)%nat ->
  io_rel bom_sim (read_bom f1 r1 head) (read_bom f2 r2 head).
Proof. exact read_bom_sim. Qed.
Print Assumptions C09_bom_interrupted_transparent.

Theorem C09_bom_failure_reached : forall k fuel r head,
  will_fail k r -> (msr r < fuel)%nat ->
  read_bom fuel r head = IoErr k \/
  exists e h r', read_bom fuel r head = IoDone (e, h, r') /\ will_fail k r'.
Proof. exact read_bom_will_fail. Qed.
Print Assumptions C09_bom_failure_reached.

(* neither panics, for every bytes and every schedule *)
Theorem C09_read_never_panics : forall r, io_ok (read_all_lines r).
Proof. exact (read_all_lines_ok decode_utf8_lossy_spec). Qed.
Print Assumptions C09_read_never_panics.

(* ---------- T09b: Interrupted is retried transparently ---------- *)

Theorem C09_interrupted_transparent : forall b s,
  read_all_lines (mk_reader b s) = read_all_lines (mk_reader b (strip_interrupted s)).
Proof. exact (interrupted_transparent decode_utf8_lossy_spec). Qed.
Print Assumptions C09_interrupted_transparent.

(* ---------- T09c: write side, for an arbitrary chunk sequence ws ---------- *)

(* Beatmap::encode hands its output to the writer as a sequence of chunks ws
   (write_all directly or through write!), `?` after each, then flush().  The
   concrete ws of a Beatmap belongs to the encoder model (C02-C04); the
   theorems hold for every ws.
   (i) The writer fails (error or Ok(0)) before everything is taken: with a
   failure-free prefix s1 whose accept counts sum to less than |concat ws|,
   the failing event e is reached, its error is returned (WriteZero for
   Ok(0)), the schedule behind e is untouched and there was one call per
   consumed event -- no call after the first failure --, and what was taken
   is a prefix of the output. *)
Theorem C09_write_failure_is_returned : forall ws s1 e s2 fl,
  nofail s1 -> wev_fails e = true -> (capacity s1 < length (concat ws))%nat ->
  exists w', encode_writes ws (mkWriter (s1 ++ e :: s2) fl [] 0) = (IoErr (wfault e), w') /\
    wsched w' = s2 /\ calls w' = S (length s1) /\ is_prefix_of (accepted w') (concat ws).
Proof. exact encode_writes_fail. Qed.
Print Assumptions C09_write_failure_is_returned.

(* (ii) short writes and Interrupted only: write_all retries, every byte
   arrives in order, and the result is the result of the final flush *)
Theorem C09_short_writes_retried : forall ws s fl, nofail s ->
  exists w', encode_writes ws (mkWriter s fl [] 0) =
    (match fl with None => IoDone tt | Some k => IoErr k end, w') /\ accepted w' = concat ws.
Proof. exact encode_writes_nofail. Qed.
Print Assumptions C09_short_writes_retried.

(* (iii) never a panic *)
Theorem C09_write_never_panics : forall ws w, io_ok (fst (encode_writes ws w)).
Proof. exact encode_writes_ok_or_err. Qed.
Print Assumptions C09_write_never_panics.

(* ---------- non-vacuity ---------- *)

Example C09_nonvacuous_read :
  reaches_fail (length small_file) [Chunk 4; Interrupted; Chunk 7; Fail TimedOut; Chunk 100] = Some TimedOut /\
  show (read_all_lines (mk_reader small_file [Chunk 4; Interrupted; Chunk 7; Fail TimedOut; Chunk 100])) = [1; 4] /\
  (* a failure scheduled after the source has reported EOF twice is not reached *)
  show (read_all_lines (mk_reader small_file [Chunk 100; Chunk 1; Chunk 1; Fail Other]))
  = show (IoDone [lit "[Metadata]"; lit "Title:abc"]).
Proof. vm_compute. repeat split. Qed.

(* UTF-16LE `a` LF `b` (FF FE 61 00 0A | 00 62 00): the source fails / is
   interrupted exactly when read_line asks for the byte after the 0x0A; and
   the stream cut there (the former D6 input) with a failure after it *)
Example C09_extra_byte_read_events :
  show (read_all_lines (mk_reader [255; 254; 97; 0; 10; 0; 98; 0] [Chunk 5; Fail TimedOut; Chunk 9])) = [1; 4] /\
  show (read_all_lines (mk_reader [255; 254; 97; 0; 10; 0; 98; 0] [Chunk 5; Interrupted; Chunk 9])) = show (IoDone [lit "a"; lit "b"]) /\
  show (read_all_lines (mk_reader [255; 254; 97; 0; 10; 0; 98; 0] [Chunk 5; Interrupted; Interrupted; Chunk 1; Chunk 9])) = show (IoDone [lit "a"; lit "b"]) /\
  show (read_all_lines (mk_reader [255; 254; 97; 0; 10] [Chunk 5; Interrupted; Fail Other])) = [1; 1] /\
  show (read_all_lines (mk_reader [255; 254; 97; 0; 10] [Chunk 5])) = show (IoDone [lit "a"]).
Proof. exact extra_byte_read_events. Qed.

(* the source fails / is interrupted while read_bom has one or two bytes *)
Example C09_bom_sniffing_events :
  show (read_all_lines (mk_reader small_file [Chunk 1; Fail TimedOut; Chunk 100])) = [1; 4] /\
  show (read_all_lines (mk_reader small_file [Chunk 2; Interrupted; Fail Other])) = [1; 1] /\
  show (read_all_lines (mk_reader small_file [Interrupted; Chunk 1; Interrupted; Chunk 1; Interrupted; Chunk 100])) = show small_lines /\
  show (read_all_lines (mk_reader (lit "ab") [Chunk 2; Fail WouldBlock])) = [1; 5].
Proof. exact bom_sniffing_events. Qed.

(* UTF-16BE `<U+4E0A>x` LF: the reader fails / is interrupted right after the
   byte 0x0A of U+4E0A, where read_line goes round its loop *)
Example C09_inside_a_unit_events :
  show (read_all_lines (mk_reader (bom_be ++ [78; 10; 0; 120; 0; 10]) [Chunk 4; Fail TimedOut; Chunk 9])) = [1; 4] /\
  show (read_all_lines (mk_reader (bom_be ++ [78; 10; 0; 120; 0; 10]) [Chunk 4; Interrupted; Interrupted; Chunk 9])) = show (IoDone [[19978; 120]]) /\
  show (read_all_lines (mk_reader (bom_le ++ [10; 78; 120; 0; 10; 0]) [Chunk 3; Interrupted; Chunk 1; Fail Other])) = [1; 1] /\
  show (read_all_lines (mk_reader (bom_le ++ [10; 78; 120; 0; 10; 0]) [Chunk 3; Interrupted; Chunk 1; Interrupted; Chunk 9])) = show (IoDone [[19978; 120]]).
Proof. vm_compute. repeat split. Qed.

Example C09_nonvacuous_write :
  (* 5 bytes in two chunks; the writer takes 2, is interrupted, takes 1, then fails *)
  let '(res, w) := encode_writes [[1; 2; 3]; [4; 5]]
                     (mkWriter [WAccept 2; WInterrupted; WAccept 7; WFail PermissionDenied; WAccept 9] None [] 0) in
  dump_io (fun _ => []) res = [1; 3] /\ accepted w = [1; 2; 3] /\ calls w = 4%nat /\ wsched w = [WAccept 9].
Proof. vm_compute. repeat split. Qed.

Example C09_write_zero :
  let '(res, w) := encode_writes [[1; 2; 3]] (mkWriter [WAccept 1; WZero; WAccept 9] None [] 0) in
  dump_io (fun _ => []) res = [1; 6] /\ accepted w = [1] /\ wsched w = [WAccept 9].
Proof. vm_compute. repeat split. Qed.

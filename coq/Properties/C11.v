(* C11 — Key/value, event and colour records decode per the format rules.

   "In the General, Editor, Metadata, Difficulty, Events and Colours sections
   every recognised record sets exactly its documented field using the
   documented conversion: the value is the trimmed text after the first colon;
   numbers must parse and lie within +-(2^31-1); a flag is true only for the
   value 1; slider multiplier is clamped to [0.4, 3.6] and tick rate to
   [0.5, 8]; approach rate follows overall difficulty until it is set itself;
   background, video-with-image-extension and first sprite fill the background
   by their precedence; a break never ends before it starts; colours are R,G,B
   with optional ignored alpha.  The last valid occurrence wins, and unknown
   keys or invalid values leave the field untouched."

   Model: Model/KeyValue.v, Model/Sections.v (parse_general ... parse_colors,
   mirroring the Rust functions).  Declarative reading: Model/SectionsSpec.v
   (tables key |-> conversion, field).  This file holds only statements, each
   closed by [exact] of a lemma from Proofs/, followed by Print Assumptions,
   plus pins of the constants the property names and concrete examples. *)
From RM Require Import Model.Sections Model.SectionsSpec.
From RM Require Import Proofs.FloatCmp Proofs.NumFacts Proofs.FloatGrammar Proofs.SectionsFacts Proofs.RangeReal.
From RM Require Import Proofs.DecimalRounding.
From RM Require Import Model.Decoders Proofs.BreakOrder Proofs.BookmarkLimits.
From RM Require Import Gen.Generated.
From Flocq Require Import BinarySingleNaN.
From Flocq Require Zaux Raux Generic_fmt FLT Round_NE.
From Coq Require Import Rdefinitions.
From Coq Require Rbasic_fun Rfunctions.
Open Scope Z_scope.

(* ====================================================================== *)
(* Pins: the tables and constants of the property text = those of /repo   *)
(* ====================================================================== *)

Example pin_max_parse_value : max_parse_value = 2 ^ 31 - 1.
Proof. reflexivity. Qed.
Example pin_general_keys : map r_key general_table = general_keys.
Proof. reflexivity. Qed.
Example pin_editor_keys : map r_key editor_table = editor_keys.
Proof. reflexivity. Qed.
Example pin_metadata_keys : map r_key metadata_table = metadata_keys.
Proof. reflexivity. Qed.
Example pin_difficulty_keys : map r_key difficulty_table = difficulty_keys.
Proof. reflexivity. Qed.
Example pin_key_counts :
  (length all_general_keys, length all_editor_keys, length all_metadata_keys, length all_difficulty_keys)
  = (length general_keys, length editor_keys, length metadata_keys, length difficulty_keys).
Proof. reflexivity. Qed.
Example pin_sample_bank_table : sample_bank_table = sample_bank_names.
Proof. reflexivity. Qed.
Example pin_game_mode_table : game_mode_table = game_mode_names.
Proof. reflexivity. Qed.
Example pin_countdown_table : countdown_table = countdown_names.
Proof. reflexivity. Qed.
Example pin_event_type_table : event_type_table = event_type_names.
Proof. reflexivity. Qed.
Example pin_event_type_variants : event_type_variants = map fst event_actions.
Proof. reflexivity. Qed.
Example pin_video_extensions : video_extensions = video_extension_names.
Proof. reflexivity. Qed.
Example pin_flag_value : flag_true_value = 1.
Proof. reflexivity. Qed.
Example pin_combo_prefix : colors_combo_prefix = "Combo"%string.
Proof. reflexivity. Qed.
Example pin_colour_alpha : color_default_alpha = 255.
Proof. reflexivity. Qed.
(* slider multiplier [0.4, 3.6], tick rate [0.5, 8]: the literals, and their
   binary64 values *)
Example pin_slider_mult_clamp : slider_mult_clamp = ((false, 4, -1), (false, 36, -1)).
Proof. reflexivity. Qed.
Example pin_tick_rate_clamp : tick_rate_clamp = ((false, 5, -1), (false, 80, -1)).
Proof. reflexivity. Qed.
Example pin_clamp_bounds_model_is_spec :
  (slider_mult_lo, slider_mult_hi, tick_rate_lo, tick_rate_hi) = (sm_lo, sm_hi, tr_lo, tr_hi).
Proof. reflexivity. Qed.
Example pin_clamp_bits :
  [D.bits sm_lo; D.bits sm_hi; D.bits tr_lo; D.bits tr_hi]
  = [4600877379321698714; 4615288898129284301; 4602678819172646912; 4620693217682128896].
  (* 0x3fd999999999999a = 0.4, 0x400ccccccccccccd = 3.6, 0x3fe0000000000000 = 0.5, 0x4020000000000000 = 8 *)
Proof. vm_compute. reflexivity. Qed.
Example pin_clamp_bounds_ordered : D.le sm_lo sm_hi = true /\ D.le tr_lo tr_hi = true.
Proof. exact (conj sm_bounds_ordered tr_bounds_ordered). Qed.
(* the number limits as floats: 2147483647.0 for f64, but 2^31 for f32 *)
Example pin_f64_limit : D.bits f64_limit = 4746794007244308480.
Proof. exact f64_limit_bits. Qed.
Example pin_f32_limit : S.bits f32_limit = 1325400064.
Proof. exact f32_limit_bits. Qed.
(* defaults of the six states (DecodeState::create) *)
Example pin_defaults :
  dump_general general_default = [0; 0; -1; 0; 100; 1060320051; 0; 0; 0; 0; 0; 0; 1; 0] /\
  dump_editor editor_default = [0; 4607182418800017408; 4; 0; 4607182418800017408] /\
  dump_metadata metadata_default = [0; 0; 0; 0; 0; 0; 0; 0; -1; 0] /\
  dump_difficulty difficulty_default
    = [0; 1084227584; 1084227584; 1084227584; 1084227584; 4608983858650965606; 4607182418800017408] /\
  dump_events events_default = [0; 0] /\ dump_colors colors_default = [0; 0].
Proof. vm_compute. repeat split. Qed.

(* ====================================================================== *)
(* T11a: every parser decodes per its table                               *)
(* ====================================================================== *)

(* Full statement, all states and all lines: each parser is the table of the
   property, with "the value is the trimmed text after the FIRST colon"
   (record_of).  (Before the repair of D1 in /repo -- KeyValue::parse cut at
   every colon -- these were refuted for lines with a second colon.) *)
Theorem C11_general_decodes_per_table :
  forall st line, parse_general st line = spec_general st line.
Proof. exact parse_general_spec. Qed.
Print Assumptions C11_general_decodes_per_table.
Theorem C11_editor_decodes_per_table :
  forall st line, parse_editor st line = spec_editor st line.
Proof. exact parse_editor_spec. Qed.
Print Assumptions C11_editor_decodes_per_table.
Theorem C11_metadata_decodes_per_table :
  forall st line, parse_metadata st line = spec_metadata st line.
Proof. exact parse_metadata_spec. Qed.
Print Assumptions C11_metadata_decodes_per_table.
Theorem C11_difficulty_decodes_per_table :
  forall st line, parse_difficulty st line = spec_difficulty st line.
Proof. exact parse_difficulty_spec. Qed.
Print Assumptions C11_difficulty_decodes_per_table.
Theorem C11_colors_decodes_per_table :
  forall st line, parse_colors st line = spec_colors st line.
Proof. exact parse_colors_spec. Qed.
Print Assumptions C11_colors_decodes_per_table.
Theorem C11_events_decodes_per_table :
  forall st line, parse_events st line = spec_events st line.
Proof. exact parse_events_spec. Qed.
Print Assumptions C11_events_decodes_per_table.

(* KeyValue::parse cuts a record exactly at the first colon *)
Theorem C11_record_is_cut_at_first_colon :
  forall s, kv_pieces s = record_of s.
Proof. exact kv_pieces_record_of. Qed.
Print Assumptions C11_record_is_cut_at_first_colon.

(* text after a second colon belongs to the value; where the value must be a
   number or a colour it makes the record invalid *)
Theorem C11_multi_colon_values_kept :
  dump_metadata (fst (parse_metadata metadata_default (lit "Title:Re:Zero")))
    = dump_metadata (set_m_title metadata_default (lit "Re:Zero")) /\
  dump_metadata (fst (parse_metadata metadata_default (lit "Tags:a:b:c")))
    = dump_metadata (set_m_tags metadata_default (lit "a:b:c")) /\
  snd (parse_colors colors_default (lit "Combo1:1,2,3:4")) = Rejected /\
  snd (parse_difficulty difficulty_default (lit "CircleSize:4:5")) = Rejected.
Proof. exact multi_colon_values_kept. Qed.

(* the key is the trimmed text before the first colon *)
Theorem C11_key_is_text_before_first_colon :
  forall s, fst (kv_pieces s) = fst (record_of s).
Proof. exact kv_pieces_key. Qed.
Print Assumptions C11_key_is_text_before_first_colon.

(* ====================================================================== *)
(* T11b: untouched on rejection / unknown key; last valid occurrence wins  *)
(* ====================================================================== *)

Theorem C11_rejected_leaves_state_untouched :
  (forall st l, snd (parse_general st l) = Rejected -> fst (parse_general st l) = st) /\
  (forall st l, snd (parse_editor st l) = Rejected -> fst (parse_editor st l) = st) /\
  (forall st l, snd (parse_metadata st l) = Rejected -> fst (parse_metadata st l) = st) /\
  (forall st l, snd (parse_difficulty st l) = Rejected -> fst (parse_difficulty st l) = st) /\
  (forall st l, snd (parse_events st l) = Rejected -> fst (parse_events st l) = st) /\
  (forall st l, snd (parse_colors st l) = Rejected -> fst (parse_colors st l) = st).
Proof.
  exact (conj parse_general_rejected (conj parse_editor_rejected (conj parse_metadata_rejected
        (conj parse_difficulty_rejected (conj parse_events_rejected parse_colors_rejected))))).
Qed.
Print Assumptions C11_rejected_leaves_state_untouched.

Theorem C11_unknown_key_is_ignored :
  (forall st l, general_line_key l = None -> parse_general st l = (st, Ok)) /\
  (forall st l, editor_line_key l = None -> parse_editor st l = (st, Ok)) /\
  (forall st l, metadata_line_key l = None -> parse_metadata st l = (st, Ok)) /\
  (forall st l, difficulty_line_key l = None -> parse_difficulty st l = (st, Ok)).
Proof.
  exact (conj parse_general_unknown (conj parse_editor_unknown
        (conj parse_metadata_unknown parse_difficulty_unknown))).
Qed.
Print Assumptions C11_unknown_key_is_ignored.

(* a record of another key, or a rejected record, does not touch the field of k *)
Theorem C11_general_other_fields_untouched :
  forall st l k, general_line_key l <> Some k \/ snd (parse_general st l) = Rejected ->
  general_obs k (fst (parse_general st l)) = general_obs k st.
Proof. exact general_frame. Qed.
Print Assumptions C11_general_other_fields_untouched.
Theorem C11_editor_other_fields_untouched :
  forall st l k, editor_line_key l <> Some k \/ snd (parse_editor st l) = Rejected ->
  editor_obs k (fst (parse_editor st l)) = editor_obs k st.
Proof. exact editor_frame. Qed.
Theorem C11_metadata_other_fields_untouched :
  forall st l k, metadata_line_key l <> Some k \/ snd (parse_metadata st l) = Rejected ->
  metadata_obs k (fst (parse_metadata st l)) = metadata_obs k st.
Proof. exact metadata_frame. Qed.
Theorem C11_difficulty_other_fields_untouched :
  forall st l k, difficulty_line_key l <> Some k \/ snd (parse_difficulty st l) = Rejected ->
  difficulty_obs k (fst (parse_difficulty st l)) = difficulty_obs k st.
Proof. exact difficulty_frame. Qed.
Print Assumptions C11_difficulty_other_fields_untouched.

(* In any sequence of lines, the field of key k ends up as written by the last
   accepted record of key k (whatever the state was), all later records of k
   being rejected ones. *)
Theorem C11_general_last_valid_wins :
  forall st st' pre l post k,
    general_line_key l = Some k -> snd (parse_general st' l) = Ok ->
    (forall l', In l' post -> general_line_key l' = Some k -> forall st'', snd (parse_general st'' l') = Rejected) ->
    general_obs k (run_lines parse_general st (pre ++ l :: post)) = general_obs k (fst (parse_general st' l)).
Proof.
  exact (last_valid_wins _ _ _ parse_general general_line_key general_obs general_key_dec
           general_frame general_overwrite general_res_indep).
Qed.
Print Assumptions C11_general_last_valid_wins.
Theorem C11_editor_last_valid_wins :
  forall st st' pre l post k,
    editor_line_key l = Some k -> snd (parse_editor st' l) = Ok ->
    (forall l', In l' post -> editor_line_key l' = Some k -> forall st'', snd (parse_editor st'' l') = Rejected) ->
    editor_obs k (run_lines parse_editor st (pre ++ l :: post)) = editor_obs k (fst (parse_editor st' l)).
Proof.
  exact (last_valid_wins _ _ _ parse_editor editor_line_key editor_obs editor_key_dec
           editor_frame editor_overwrite editor_res_indep).
Qed.
Print Assumptions C11_editor_last_valid_wins.
Theorem C11_metadata_last_valid_wins :
  forall st st' pre l post k,
    metadata_line_key l = Some k -> snd (parse_metadata st' l) = Ok ->
    (forall l', In l' post -> metadata_line_key l' = Some k -> forall st'', snd (parse_metadata st'' l') = Rejected) ->
    metadata_obs k (run_lines parse_metadata st (pre ++ l :: post)) = metadata_obs k (fst (parse_metadata st' l)).
Proof.
  exact (last_valid_wins _ _ _ parse_metadata metadata_line_key metadata_obs metadata_key_dec
           metadata_frame metadata_overwrite metadata_res_indep).
Qed.
Print Assumptions C11_metadata_last_valid_wins.
(* Difficulty: [difficulty_obs DApproachRate] is the "set itself" flag; the
   approach-rate value is shared with OverallDifficulty, see C11_ar_* below. *)
Theorem C11_difficulty_last_valid_wins :
  forall st st' pre l post k,
    difficulty_line_key l = Some k -> snd (parse_difficulty st' l) = Ok ->
    (forall l', In l' post -> difficulty_line_key l' = Some k -> forall st'', snd (parse_difficulty st'' l') = Rejected) ->
    difficulty_obs k (run_lines parse_difficulty st (pre ++ l :: post)) = difficulty_obs k (fst (parse_difficulty st' l)).
Proof.
  exact (last_valid_wins _ _ _ parse_difficulty difficulty_line_key difficulty_obs difficulty_key_dec
           difficulty_frame difficulty_overwrite difficulty_res_indep).
Qed.
Print Assumptions C11_difficulty_last_valid_wins.

(* without any accepted record of key k the field keeps its value *)
Theorem C11_general_untouched_without_valid_record :
  forall lines st k,
    (forall l, In l lines -> general_line_key l <> Some k \/ forall st', snd (parse_general st' l) = Rejected) ->
    general_obs k (run_lines parse_general st lines) = general_obs k st.
Proof. exact (untouched_by _ _ _ parse_general general_line_key general_obs general_frame). Qed.
Print Assumptions C11_general_untouched_without_valid_record.

(* ====================================================================== *)
(* T11c: what ParseNumber accepts                                          *)
(* ====================================================================== *)

(* i32: accepts <=> integer literal ([+-]? digit+, after trimming) /\ |n| <= 2^31-1 *)
Theorem C11_pn_i32_accepts_iff :
  forall s n, pn_i32 s = Some n <-> int_literal true (trim s) n /\ - max_parse_value <= n <= max_parse_value.
Proof. exact pn_i32_spec. Qed.
Print Assumptions C11_pn_i32_accepts_iff.

(* u8 / raw i32 (colour components; the plain integer grammar under ParseNumber): literal within the type's range *)
Theorem C11_parse_int_raw_accepts_iff :
  forall signed lo hi s n, parse_int_raw signed lo hi s = Some n <-> int_literal signed s n /\ lo <= n <= hi.
Proof. exact parse_int_raw_spec. Qed.
Print Assumptions C11_parse_int_raw_accepts_iff.

(* f64 / f32: accepts <=> the trimmed text is a decimal literal of the Rust
   float grammar
       sign? ( digits '.'? | digits '.' digits | '.' digits ) ( (e|E) sign? digits )?
   (decimal_literal: mantissa = all digits, exponent = written exponent, saturating
   as dec2flt does, minus the number of fraction digits), and its value x is not NaN
   and lies within +-limit.  [fnum_to_float] is the model's decimal -> binary
   conversion (one correct rounding built from Flocq's division and rounding
   primitives); that it is THE nearest-even rounding of m*10^e as a real number
   is proved below ("number conversion is correctly rounded"), and it is tied to
   Rust's str::parse bit for bit by the correspondence check (exact ties,
   subnormals, 768-digit expansions). *)
Theorem C11_pn_f64_accepts_iff :
  forall s x, pn_f64 s = Some x <->
    exists neg m e,
      decimal_literal (trim s) neg m e /\
      x = fnum_to_float 53 1024 Hp64 He64 neg (FDec m e) (length (trim s)) /\
      D.is_nan x = false /\ D.le (D.neg f64_limit) x = true /\ D.le x f64_limit = true.
Proof. exact pn_f64_accepts_iff. Qed.
Print Assumptions C11_pn_f64_accepts_iff.
Theorem C11_pn_f32_accepts_iff :
  forall s x, pn_f32 s = Some x <->
    exists neg m e,
      decimal_literal (trim s) neg m e /\
      x = fnum_to_float 24 128 Hp32 He32 neg (FDec m e) (length (trim s)) /\
      S.is_nan x = false /\ S.le (S.neg f32_limit) x = true /\ S.le x f32_limit = true.
Proof. exact pn_f32_accepts_iff. Qed.
Print Assumptions C11_pn_f32_accepts_iff.
(* the float grammar itself *)
Theorem C11_float_grammar :
  forall s neg m e, parse_fnum s = Some (neg, FDec m e) <-> decimal_literal s neg m e.
Proof. exact parse_fnum_decimal_iff. Qed.
Print Assumptions C11_float_grammar.
(* the limit clause alone, relative to the raw parser *)
Theorem C11_pn_f64_limit_clause :
  forall s x, pn_f64 s = Some x <->
    parse_f64_raw (trim s) = Some x /\ D.is_nan x = false /\
    D.le (D.neg f64_limit) x = true /\ D.le x f64_limit = true.
Proof. exact pn_f64_spec. Qed.
Theorem C11_pn_f32_limit_clause :
  forall s x, pn_f32 s = Some x <->
    parse_f32_raw (trim s) = Some x /\ S.is_nan x = false /\
    S.le (S.neg f32_limit) x = true /\ S.le x f32_limit = true.
Proof. exact pn_f32_spec. Qed.
(* inf / infinity / nan / 1e400 are never accepted *)
Theorem C11_pn_float_accepts_only_finite_decimals :
  (forall s x, pn_f64 s = Some x -> is_finite x = true /\ exists neg m e, parse_fnum (trim s) = Some (neg, FDec m e)) /\
  (forall s x, pn_f32 s = Some x -> is_finite x = true /\ exists neg m e, parse_fnum (trim s) = Some (neg, FDec m e)).
Proof.
  exact (conj (fun s x H => conj (pn_f64_finite s x H) (pn_f64_decimal s x H))
              (fun s x H => conj (pn_f32_finite s x H) (pn_f32_decimal s x H))).
Qed.
Print Assumptions C11_pn_float_accepts_only_finite_decimals.

(* "numbers ... lie within +-(2^31-1)" is FALSE for the f32 fields (finding
   D14): the limit MAX_PARSE_VALUE as f32 is 2^31 (pin_f32_limit), and the text
   2147483648 is accepted with a value above 2^31-1. *)
Theorem C11_f32_limit_refuted :
  exists s x, pn_f32 s = Some x /\ D.lt (D.of_Z max_parse_value) (f64_of_f32 x) = true.
Proof. exact pn_f32_above_limit_witness. Qed.
Print Assumptions C11_f32_limit_refuted.

(* Bookmarks are numbers of the format like any other (D10 repaired: the elements
   used to go through plain str::parse::<i32> -- no trimming, no limit).  A Bookmarks
   value yields one number per comma-separated element whose TRIMMED text is an integer
   literal within +-(2^31-1), in order; padded elements count; junk, empty elements and
   +-2^31 are skipped ... *)
Theorem C11_bookmarks_conversion :
  forall v, c_int_list v = Some (KeyValue.filter_map pn_i32 (split_on comma v)).
Proof. reflexivity. Qed.
Theorem C11_bookmarks_elements :
  forall v n, In n (parse_bookmarks v) <->
    exists piece, In piece (split_on comma v) /\ int_literal true (trim piece) n /\
                  - max_parse_value <= n <= max_parse_value.
Proof. exact parse_bookmarks_elements. Qed.
Print Assumptions C11_bookmarks_elements.
(* ... so every stored bookmark lies within +-(2^31-1): after every run of the
   [Editor] parser, in every decoded Editor value and in every decoded Beatmap (any
   file, no hypothesis on the lines; any curve-distance function) *)
Theorem C11_bookmarks_within_limits :
  forall lines,
    Forall (fun n => - max_parse_value <= n <= max_parse_value)
           (ed_bookmarks (run_lines parse_editor editor_default lines)).
Proof. exact (fun lines => editor_run_bookmarks lines editor_default (Forall_nil _)). Qed.
Print Assumptions C11_bookmarks_within_limits.
Theorem C11_decoded_editor_bookmarks :
  forall lines,
    Forall (fun n => - max_parse_value <= n <= max_parse_value) (ed_bookmarks (decode_editor lines)).
Proof. exact decoded_editor_bookmarks. Qed.
Print Assumptions C11_decoded_editor_bookmarks.
Theorem C11_decoded_beatmap_bookmarks :
  forall dist lines bv, decode_beatmap dist lines = Done bv ->
    Forall (fun n => - max_parse_value <= n <= max_parse_value) (ed_bookmarks (bmv_editor bv)).
Proof. exact decoded_beatmap_bookmarks. Qed.
Print Assumptions C11_decoded_beatmap_bookmarks.

(* ====================================================================== *)
(* T11d: number conversion is correctly rounded                            *)
(* ====================================================================== *)

(* The decimal -> binary conversion of the model ([of_decimal], reached through
   [fnum_to_float] by parse_f64_raw / parse_f32_raw and so by every number the
   decoder reads) returns the IEEE-754 round-to-nearest-even of the real number
   that was written, (-1)^s * m * 10^e; overflow gives the infinity of that sign;
   a zero keeps the written sign.  (Rust's str::parse::<f64/f32> documents the
   same contract; the correspondence check compares the two bit for bit.) *)

(* the definitions the statements use, spelled out *)
Example def_dec_value :
  forall s m e, dec_value s m e = ((if s then -1 else 1) * IZR m * Rfunctions.powerRZ 10 e)%R.
Proof. exact dec_value_powerRZ. Qed.
Example def_round64 :
  round64 = Generic_fmt.round Zaux.radix2 (FLT.FLT_exp (-1074) 53) Round_NE.ZnearestE /\
  round32 = Generic_fmt.round Zaux.radix2 (FLT.FLT_exp (-149) 24) Round_NE.ZnearestE.
Proof. split; reflexivity. Qed.
Example def_rounds_to_f64 :
  forall (z : F64) s x, rounds_to_f64 z s x =
    (((Rbasic_fun.Rabs (round64 x) < Raux.bpow Zaux.radix2 1024)%R ->
        B2R z = round64 x /\ is_finite z = true /\ Bsign z = s) /\
     ((Raux.bpow Zaux.radix2 1024 <= Rbasic_fun.Rabs (round64 x))%R -> z = B754_infinity s)).
Proof. reflexivity. Qed.
Example def_rounds_to_f32 :
  forall (z : F32) s x, rounds_to_f32 z s x =
    (((Rbasic_fun.Rabs (round32 x) < Raux.bpow Zaux.radix2 128)%R ->
        B2R z = round32 x /\ is_finite z = true /\ Bsign z = s) /\
     ((Raux.bpow Zaux.radix2 128 <= Rbasic_fun.Rabs (round32 x))%R -> z = B754_infinity s)).
Proof. reflexivity. Qed.
(* the specification determines the float completely *)
Theorem C11_rounding_spec_is_functional :
  forall prec emax (z1 z2 : binary_float prec emax) s x,
    correctly_rounded prec emax z1 s x -> correctly_rounded prec emax z2 s x -> z1 = z2.
Proof. exact correctly_rounded_unique. Qed.
Print Assumptions C11_rounding_spec_is_functional.

(* generic in the format: of_decimal is the nearest-even rounding *)
Theorem C11_of_decimal_correctly_rounded :
  forall prec emax Hp He s m e, 0 <= m ->
    correctly_rounded prec emax (Floats.of_decimal prec emax Hp He s m e) s (dec_value s m e).
Proof. exact of_decimal_correct. Qed.
Print Assumptions C11_of_decimal_correctly_rounded.
Theorem C11_of_decimal_f64_correctly_rounded :
  forall s m e, 0 <= m -> rounds_to_f64 (D.of_decimal s m e) s (dec_value s m e).
Proof. exact of_decimal_f64_correct. Qed.
Print Assumptions C11_of_decimal_f64_correctly_rounded.
Theorem C11_of_decimal_f32_correctly_rounded :
  forall s m e, 0 <= m -> rounds_to_f32 (S.of_decimal s m e) s (dec_value s m e).
Proof. exact of_decimal_f32_correct. Qed.
Print Assumptions C11_of_decimal_f32_correctly_rounded.

(* the validity test inside of_decimal never fails: its NaN branch is unreachable *)
Theorem C11_of_decimal_never_nan :
  forall prec emax Hp He s m e, 0 <= m -> Floats.of_decimal prec emax Hp He s m e <> B754_nan.
Proof. exact of_decimal_not_nan. Qed.
Print Assumptions C11_of_decimal_never_nan.

(* zero keeps the written sign: "-0", "-0.0e7" are negative zero *)
Theorem C11_zero_keeps_written_sign :
  (forall s e, D.of_decimal s 0 e = B754_zero s) /\
  (forall s e, S.of_decimal s 0 e = B754_zero s) /\
  (forall str neg e, parse_fnum str = Some (neg, FDec 0 e) -> parse_f64_raw str = Some (B754_zero neg)) /\
  (forall str neg e, parse_fnum str = Some (neg, FDec 0 e) -> parse_f32_raw str = Some (B754_zero neg)).
Proof.
  exact (conj of_decimal_f64_zero (conj of_decimal_f32_zero (conj parse_f64_raw_zero parse_f32_raw_zero))).
Qed.
Print Assumptions C11_zero_keeps_written_sign.

(* the parsers: whenever the text is a decimal literal (mantissa m, exponent e),
   the float returned is that rounding -- including the two shortcuts of
   fnum_to_float (more than 400 integer digits => infinity, below 10^-400 =>
   zero), which never change the result *)
Theorem C11_parse_f64_correctly_rounded :
  forall str neg m e, parse_fnum str = Some (neg, FDec m e) ->
    exists z, parse_f64_raw str = Some z /\ rounds_to_f64 z neg (dec_value neg m e) /\
              z = D.of_decimal neg m e.
Proof. exact parse_f64_raw_correct. Qed.
Print Assumptions C11_parse_f64_correctly_rounded.
Theorem C11_parse_f32_correctly_rounded :
  forall str neg m e, parse_fnum str = Some (neg, FDec m e) ->
    exists z, parse_f32_raw str = Some z /\ rounds_to_f32 z neg (dec_value neg m e) /\
              z = S.of_decimal neg m e.
Proof. exact parse_f32_raw_correct. Qed.
Print Assumptions C11_parse_f32_correctly_rounded.

(* the shortcuts, generically: for any format whose largest finite number is
   below 10^400 and whose half-smallest-subnormal is above 10^-401, and any
   mantissa with at most [len] digits *)
Theorem C11_shortcuts_agree_with_rounding :
  forall prec emax Hp He,
    (Raux.bpow Zaux.radix2 emax <= Raux.bpow radix10 400)%R ->
    (Raux.bpow radix10 (-401) <= Raux.bpow Zaux.radix2 (3 - emax - prec - 1))%R ->
    forall neg m e len, 0 <= m < 10 ^ Z.of_nat len ->
      fnum_to_float prec emax Hp He neg (FDec m e) len = Floats.of_decimal prec emax Hp He neg m e.
Proof. exact fnum_to_float_is_of_decimal. Qed.
Print Assumptions C11_shortcuts_agree_with_rounding.
(* the digit count driving the shortcuts is exact when the fuel suffices, and it does *)
Theorem C11_digit_count_exact :
  (forall fuel m acc, 0 < m < 10 ^ Z.of_nat fuel ->
     exists d, ndigits_aux fuel m acc = acc + d /\ 0 < d /\ 10 ^ (d - 1) <= m < 10 ^ d) /\
  (forall str neg m e, parse_fnum str = Some (neg, FDec m e) -> 0 <= m < 10 ^ Z.of_nat (length str)).
Proof. exact (conj ndigits_aux_spec parse_fnum_mantissa_bound). Qed.
Print Assumptions C11_digit_count_exact.

(* ParseNumber: every accepted f64 / f32 is exactly the nearest-even rounding
   of the decimal written (accepted numbers are finite, so no overflow case) *)
Theorem C11_pn_f64_correctly_rounded :
  forall s x, pn_f64 s = Some x ->
    exists neg m e, decimal_literal (trim s) neg m e /\
      B2R x = round64 (dec_value neg m e) /\ is_finite x = true /\ Bsign x = neg.
Proof. exact pn_f64_correctly_rounded. Qed.
Print Assumptions C11_pn_f64_correctly_rounded.
Theorem C11_pn_f32_correctly_rounded :
  forall s x, pn_f32 s = Some x ->
    exists neg m e, decimal_literal (trim s) neg m e /\
      B2R x = round32 (dec_value neg m e) /\ is_finite x = true /\ Bsign x = neg.
Proof. exact pn_f32_correctly_rounded. Qed.
Print Assumptions C11_pn_f32_correctly_rounded.

(* Bit patterns.  0.1 = 0x3fb999999999999a (f64), 0x3dcccccd (f32). *)
Example ex_tenth : D.bits (D.of_decimal false 1 (-1)) = 4591870180066957722 /\
                   S.bits (S.of_decimal false 1 (-1)) = 1036831949.
Proof. vm_compute. split; reflexivity. Qed.
(* exact ties go to the even neighbour.  Integers 2^53+1 -> 2^53, 2^53+3 -> 2^53+4
   (both arithmetic branches: e = 0 and e = -1, i.e. "9007199254740993.0");
   one digit beside the tie decides *)
Example ex_ties_to_even_integers :
  map (fun m => D.bits (D.of_decimal false m 0)) [2 ^ 53 + 1; 2 ^ 53 + 2; 2 ^ 53 + 3]
  = [4845873199050653696; 4845873199050653697; 4845873199050653698] /\
  map (fun m => D.bits (D.of_decimal false m (-1)))
      [10 * (2 ^ 53 + 1); 10 * (2 ^ 53 + 1) + 1; 10 * (2 ^ 53 + 3) - 1; 10 * (2 ^ 53 + 3)]
  = [4845873199050653696; 4845873199050653697; 4845873199050653697; 4845873199050653698] /\
  map (fun m => S.bits (S.of_decimal false m 0)) [2 ^ 24 + 1; 2 ^ 24 + 3] = [1266679808; 1266679810].
Proof. vm_compute. repeat split. Qed.
(* 1 + 2^-53 (54 digits, exactly half-way between 1 and its successor) -> 1;
   +-1 in the last digit; 1 + 3 * 2^-53 -> 1 + 2^-51 (even) *)
Example ex_tie_above_one :
  (forall a b, dec_value false (a * 10 ^ 53 + b * 5 ^ 53) (- 53) = (IZR a + IZR b * Raux.bpow Zaux.radix2 (- 53))%R) /\
  map (fun m => D.bits (D.of_decimal false m (-53)))
      [1 * 10 ^ 53 + 1 * 5 ^ 53; 1 * 10 ^ 53 + 1 * 5 ^ 53 + 1; 1 * 10 ^ 53 + 1 * 5 ^ 53 - 1; 1 * 10 ^ 53 + 3 * 5 ^ 53]
  = [4607182418800017408; 4607182418800017409; 4607182418800017408; 4607182418800017410].
Proof. split; [intros a b; apply dyadic_as_decimal; discriminate|vm_compute; reflexivity]. Qed.
(* the smallest subnormal boundary: 5^1075 * 10^-1075 is EXACTLY 2^-1075, half the
   smallest subnormal (2.4703282292062327208...e-324, 751 significant digits): the
   tie rounds to even = +0; one unit in the last place more gives 2^-1074 (bits 1);
   3 * 2^-1075 is the tie between 2^-1074 and 2^-1073 and goes to the even 2^-1073.
   The 17-digit texts 4.9e-324, 2.4703282292062327e-324 (below the tie) and
   2.4703282292062328e-324 (above). *)
Example ex_smallest_subnormal_boundary :
  (forall b, dec_value false (0 * 10 ^ 1075 + b * 5 ^ 1075) (- 1075) = (IZR 0 + IZR b * Raux.bpow Zaux.radix2 (- 1075))%R) /\
  map (fun m => D.bits (D.of_decimal false m (-1075)))
      [0 * 10 ^ 1075 + 1 * 5 ^ 1075; 5 ^ 1075 + 1; 5 ^ 1075 - 1; 0 * 10 ^ 1075 + 3 * 5 ^ 1075; 3 * 5 ^ 1075 - 1]
  = [0; 1; 0; 2; 1] /\
  map (fun s => omap D.bits (parse_f64_raw (lit s)))
      ["4.9e-324"; "2.4703282292062327e-324"; "2.4703282292062328e-324"]%string
  = [Some 1; Some 0; Some 1] /\
  map (fun m => S.bits (S.of_decimal false m (-150))) [5 ^ 150; 5 ^ 150 + 1; 3 * 5 ^ 150] = [0; 1; 2].
Proof.
  split; [intros b; apply dyadic_as_decimal; discriminate|]. vm_compute. repeat split.
Qed.
(* overflow boundary (2^1024 - 2^970 = 1.79769313486231580793...e308), signed
   zeros, and the two shortcuts *)
Example ex_overflow_zero_shortcuts :
  map (fun s => omap D.bits (parse_f64_raw (lit s)))
      ["1.7976931348623158e308"; "1.7976931348623159e308"; "-1.7976931348623159e308";
       "-0"; "-0.0e7"; "1e400"; "1e401"; "1e-400"; "-1e-500"; "1e309"; "1e-324"]%string
  = [Some 9218868437227405311; Some 9218868437227405312; Some 18442240474082181120;
     Some 9223372036854775808; Some 9223372036854775808; Some 9218868437227405312; Some 9218868437227405312;
     Some 0; Some 9223372036854775808; Some 9218868437227405312; Some 0].
Proof. vm_compute. reflexivity. Qed.

(* ====================================================================== *)
(* Clamps, approach rate, breaks, background                               *)
(* ====================================================================== *)

Theorem C11_slider_multiplier_clamped :
  forall st l,
    difficulty_line_key l = Some DSliderMultiplier -> snd (parse_difficulty st l) = Ok ->
    in_range sm_lo sm_hi (d_slider_multiplier (fst (parse_difficulty st l))) /\
    exists x, pn_f64 (snd (kv_pieces (trim_comment l))) = Some x /\
              d_slider_multiplier (fst (parse_difficulty st l)) = D.clamp x sm_lo sm_hi /\
              (in_range sm_lo sm_hi x -> d_slider_multiplier (fst (parse_difficulty st l)) = x).
Proof. exact slider_multiplier_line. Qed.
Print Assumptions C11_slider_multiplier_clamped.

Theorem C11_slider_tick_rate_clamped :
  forall st l,
    difficulty_line_key l = Some DSliderTickRate -> snd (parse_difficulty st l) = Ok ->
    in_range tr_lo tr_hi (d_slider_tick_rate (fst (parse_difficulty st l))) /\
    exists x, pn_f64 (snd (kv_pieces (trim_comment l))) = Some x /\
              d_slider_tick_rate (fst (parse_difficulty st l)) = D.clamp x tr_lo tr_hi /\
              (in_range tr_lo tr_hi x -> d_slider_tick_rate (fst (parse_difficulty st l)) = x).
Proof. exact slider_tick_rate_line. Qed.
Print Assumptions C11_slider_tick_rate_clamped.

(* whatever [Difficulty] lines are decoded, both stay inside their intervals *)
Theorem C11_difficulty_always_in_range :
  forall lines,
    let s := run_lines parse_difficulty difficulty_default lines in
    in_range sm_lo sm_hi (d_slider_multiplier s) /\ in_range tr_lo tr_hi (d_slider_tick_rate s).
Proof. intros lines. exact (difficulty_run_inv lines difficulty_default difficulty_default_inv). Qed.
Print Assumptions C11_difficulty_always_in_range.

(* the same in the reals: B2R sm_lo and B2R sm_hi are the binary64 numbers
   nearest to 0.4 and 3.6 (pin_clamp_bits), B2R tr_lo = 0.5, B2R tr_hi = 8 *)
Theorem C11_difficulty_always_in_range_real :
  forall lines,
    let s := run_lines parse_difficulty difficulty_default lines in
    (B2R sm_lo <= B2R (d_slider_multiplier s) <= B2R sm_hi)%R /\
    (B2R tr_lo <= B2R (d_slider_tick_rate s) <= B2R tr_hi)%R.
Proof. exact difficulty_always_in_range_real. Qed.
Print Assumptions C11_difficulty_always_in_range_real.

(* approach rate follows overall difficulty until it is set itself ... *)
Theorem C11_ar_follows_od :
  forall lines st,
    d_has_approach_rate st = false ->
    (forall l, In l lines -> ar_value l = None) ->
    d_has_approach_rate (run_lines parse_difficulty st lines) = false /\
    d_approach_rate (run_lines parse_difficulty st lines) =
      odflt (d_approach_rate st) (last_some od_value lines None).
Proof. exact ar_follows_od. Qed.
Print Assumptions C11_ar_follows_od.
(* ... a valid ApproachRate record sets it ... *)
Theorem C11_ar_set_itself :
  forall st l x, ar_value l = Some x ->
    d_has_approach_rate (fst (parse_difficulty st l)) = true /\ d_approach_rate (fst (parse_difficulty st l)) = x.
Proof. exact ar_sets. Qed.
(* ... and from then on only ApproachRate records change it (last valid wins) *)
Theorem C11_ar_own_after_set :
  forall lines st,
    d_has_approach_rate st = true ->
    d_has_approach_rate (run_lines parse_difficulty st lines) = true /\
    d_approach_rate (run_lines parse_difficulty st lines) =
      odflt (d_approach_rate st) (last_some ar_value lines None).
Proof. exact ar_own. Qed.
Print Assumptions C11_ar_own_after_set.

(* a break never ends before it starts: for every run of the [Events] parser ... *)
Theorem C11_breaks_never_end_before_start :
  forall lines, Forall break_ok (ev_breaks (run_lines parse_events events_default lines)).
Proof. intros lines. exact (events_run_breaks lines events_default (Forall_nil _)). Qed.
Print Assumptions C11_breaks_never_end_before_start.
(* ... in the form the code tests it: the end is never below the start ... *)
Theorem C11_breaks_end_not_before_start :
  forall lines,
    Forall (fun b => D.lt (bp_end b) (bp_start b) = false)
           (ev_breaks (run_lines parse_events events_default lines)).
Proof. exact events_run_breaks_ordered. Qed.
Print Assumptions C11_breaks_end_not_before_start.
(* ... and for every break of every decoded Events value, HitObjects value and
   Beatmap: any file (no hypothesis on the lines), any curve-distance function *)
Theorem C11_decoded_events_breaks :
  forall lines,
    Forall (fun b => D.le (bp_start b) (bp_end b) = true) (ev_breaks (decode_events lines)) /\
    Forall (fun b => D.lt (bp_end b) (bp_start b) = false) (ev_breaks (decode_events lines)).
Proof. exact (fun lines => conj (decoded_events_breaks lines) (decoded_events_breaks_ordered lines)). Qed.
Print Assumptions C11_decoded_events_breaks.
Theorem C11_decoded_hit_objects_breaks :
  forall dist lines hv, decode_hit_objects dist lines = Done hv ->
    Forall (fun b => D.le (bp_start b) (bp_end b) = true) (ev_breaks (hov_events hv)) /\
    Forall (fun b => D.lt (bp_end b) (bp_start b) = false) (ev_breaks (hov_events hv)).
Proof.
  exact (fun dist lines hv H => conj (decoded_hit_objects_breaks dist lines hv H)
                                     (decoded_hit_objects_breaks_ordered dist lines hv H)).
Qed.
Print Assumptions C11_decoded_hit_objects_breaks.
Theorem C11_decoded_beatmap_breaks :
  forall dist lines bv, decode_beatmap dist lines = Done bv ->
    Forall (fun b => D.le (bp_start b) (bp_end b) = true) (ev_breaks (hov_events (bmv_ho bv))) /\
    Forall (fun b => D.lt (bp_end b) (bp_start b) = false) (ev_breaks (hov_events (bmv_ho bv))).
Proof.
  exact (fun dist lines bv H => conj (decoded_beatmap_breaks dist lines bv H)
                                     (decoded_beatmap_breaks_ordered dist lines bv H)).
Qed.
Print Assumptions C11_decoded_beatmap_breaks.
(* one break record: the end time is the written end, or the start when the
   written end lies before it; it is one of the two written values *)
Theorem C11_break_record :
  forall st start params more s e,
    pn_f64 start = Some s -> pn_f64 params = Some e ->
    let e' := if D.lt e s then s else e in
    fst (act_break start params more st) = set_ev_breaks st (ev_breaks st ++ [mkBreak s e']) /\
    D.le s e' = true /\ D.le e e' = true /\ D.lt e' s = false /\ (e' = s \/ e' = e).
Proof. exact break_line. Qed.
Print Assumptions C11_break_record.
(* a record with end >= start keeps its end time: the stored value IS the parsed
   one (no arithmetic in between), so a zero keeps its sign -- `2,-0,0` and
   `2,0,-0` are stored as written (ex_break_zeros below) *)
Theorem C11_break_end_kept :
  forall st start params more s e,
    pn_f64 start = Some s -> pn_f64 params = Some e -> D.le s e = true ->
    fst (act_break start params more st) = set_ev_breaks st (ev_breaks st ++ [mkBreak s e]).
Proof. exact break_line_kept. Qed.
Print Assumptions C11_break_end_kept.
(* a record written backwards ends where it starts *)
Theorem C11_break_reversed :
  forall st start params more s e,
    pn_f64 start = Some s -> pn_f64 params = Some e -> D.lt e s = true ->
    fst (act_break start params more st) = set_ev_breaks st (ev_breaks st ++ [mkBreak s s]).
Proof. exact break_line_reversed. Qed.
Print Assumptions C11_break_reversed.

(* background / video-with-image-extension / first sprite *)
Theorem C11_background_precedence :
  forall st line, ev_background_file (fst (parse_events st line)) = bg_after st line.
Proof. exact background_precedence. Qed.
Print Assumptions C11_background_precedence.

(* ====================================================================== *)
(* Examples: the statements are not vacuous                                *)
(* ====================================================================== *)

Local Open Scope string_scope.
Local Open Scope list_scope.
Local Open Scope Z_scope.

Definition run_dump {S} (parse : S -> str -> S * res) (dump : S -> list Z) (st : S) (ls : list string) : list Z :=
  dump (run_lines parse st (map lit ls)).

(* AR follows OD, then is set itself, then ignores OD *)
Example ex_ar_follows_od :
  run_dump parse_difficulty dump_difficulty difficulty_default ["OverallDifficulty:8"]
  = [0; 1084227584; 1084227584; 1090519040; 1090519040; 4608983858650965606; 4607182418800017408] /\
  run_dump parse_difficulty dump_difficulty difficulty_default
           ["OverallDifficulty:8"; "ApproachRate:9"; "OverallDifficulty:7"]
  = [1; 1084227584; 1084227584; 1088421888; 1091567616; 4608983858650965606; 4607182418800017408].
Proof. vm_compute. split; reflexivity. Qed.
(* clamps: 3.7 -> 3.6, 0.1 -> 0.5 *)
Example ex_clamps :
  run_dump parse_difficulty dump_difficulty difficulty_default ["SliderMultiplier:3.7"; "SliderTickRate: 0.1 // x"]
  = [0; 1084227584; 1084227584; 1084227584; 1084227584; 4615288898129284301; 4602678819172646912].
Proof. vm_compute. reflexivity. Qed.
(* flags: true only for 1; invalid value and unknown key leave the field; last valid wins *)
Example ex_general :
  run_dump parse_general dump_general general_default
           ["EpilepsyWarning: 1"; "EpilepsyWarning: x"; "LetterboxInBreaks: 2"; "Mode: 3"; "Mode: 7";
            "Unknown: 5"; "PreviewTime: 2147483648"; "PreviewTime:  -2147483647 "; "AudioFilename: a\b.mp3"]
  = [7; 97; 47; 98; 46; 109; 112; 51; 0; -2147483647; 0; 100; 1060320051; 3; 0; 0; 0; 1; 0; 1; 0].
Proof. vm_compute. reflexivity. Qed.
(* bookmarks: padded elements are read, -2^31 is beyond the limit, junk and empty
   elements are skipped (formerly finding D10: ` 2 ` was dropped and -2147483648 stored) *)
Example ex_bookmarks :
  run_dump parse_editor dump_editor editor_default ["Bookmarks: 1, 2 ,-2147483648,2147483647,x,,3"]
  = run_dump parse_editor dump_editor (set_ed_bookmarks editor_default [1; 2; 2147483647; 3]) [] /\
  firstn 5 (run_dump parse_editor dump_editor editor_default ["Bookmarks: 1, 2 ,-2147483648,2147483647,x,,3"])
  = [4; 1; 2; 2147483647; 3].
Proof. vm_compute. split; reflexivity. Qed.
(* more than one colon: everything after the first one is the value *)
Example ex_title_re_zero :
  run_dump parse_metadata dump_metadata metadata_default ["Title:Re:Zero"]
  = [7; 82; 101; 58; 90; 101; 114; 111; 0; 0; 0; 0; 0; 0; 0; -1; 0].
Proof. vm_compute. reflexivity. Qed.
(* background precedence: sprite fills an empty background only; video with an
   image extension and background overwrite; video with a video extension does not *)
Example ex_background :
  run_dump parse_events dump_events events_default
           ["4,Background,Centre,""sb.png"",320,240"; "4,Background,Centre,""sb2.png"",320,240"]
  = [6; 115; 98; 46; 112; 110; 103; 0] /\
  run_dump parse_events dump_events events_default ["0,0,""bg.png"",0,0"; "1,0,""v.MP4"""]
  = [6; 98; 103; 46; 112; 110; 103; 0] /\
  run_dump parse_events dump_events events_default ["0,0,""bg.png"",0,0"; "1,0,""old.jpg"""]
  = [7; 111; 108; 100; 46; 106; 112; 103; 0].
Proof. vm_compute. repeat split. Qed.
(* a break written backwards ends where it starts *)
Example ex_break :
  run_dump parse_events dump_events events_default ["2,500,100"]
  = [0; 1; 4647503709213818880; 4647503709213818880].
Proof. vm_compute. reflexivity. Qed.
(* a break with end >= start keeps both times bit for bit -- also between the two
   zeros, in either sign order, and with equal start and end (-0.0 has the bit
   pattern 2^63; formerly finding D24: start.max(end) returned the start on a tie) *)
Example ex_break_zeros :
  run_dump parse_events dump_events events_default ["2,-0,0"; "2,0,-0"; "2,-0,-0"; "Break,0,0"; "2,100,100"; "2,100,900"]
  = [0; 6; 9223372036854775808; 0;  0; 9223372036854775808;  9223372036854775808; 9223372036854775808;
     0; 0;  4636737291354636288; 4636737291354636288;  4636737291354636288; 4651127699538968576].
Proof. vm_compute. reflexivity. Qed.
(* colours: alpha ignored (always 255), Combo* appended, names replaced *)
Example ex_colours :
  run_dump parse_colors dump_colors colors_default
           ["Combo1 : 1,2,3"; "SliderBorder: 4,5,6,7"; "Combo2: 1,2"; "SliderBorder: 8,9,10"; "Combo3: 256,0,0"]
  = [1; 1; 2; 3; 255; 1; 12; 83; 108; 105; 100; 101; 114; 66; 111; 114; 100; 101; 114; 8; 9; 10; 255].
Proof. vm_compute. reflexivity. Qed.
(* the grammar relation is inhabited: "-12.50e+3" = -(1250 * 10^(3-2)) *)
Example ex_decimal_literal : decimal_literal (lit "-12.50e+3") true 1250 1.
Proof.
  change (decimal_literal ([45] ++ lit "12" ++ (if true then [46] else []) ++ lit "50" ++ lit "e+3") true
            (digits_value (lit "12" ++ lit "50") 0) (3 - zlen (lit "50"))).
  apply DL; try reflexivity.
  - right; right; split; reflexivity.
  - discriminate.
  - apply (EP_plus 101 (lit "3")); [left; reflexivity|discriminate|reflexivity].
Qed.
(* numbers: -0, inf, 1e400, leading +, padding, .5, 5., 1e5, boundary *)
Example ex_numbers :
  map (fun s => omap D.bits (pn_f64 (lit s)))
      ["-0"; "inf"; "nan"; "1e400"; "+1.5"; "  5 "; ".5"; "5."; "1e5"; "2147483647"; "2147483648"; "0x10"; ""]
  = [Some 9223372036854775808; None; None; None; Some 4609434218613702656; Some 4617315517961601024;
     Some 4602678819172646912; Some 4617315517961601024; Some 4681608360884174848;
     Some 4746794007244308480; None; None; None] /\
  map (fun s => pn_i32 (lit s)) ["-0"; "+7"; " 12 "; "2147483647"; "2147483648"; "-2147483648"; "1e5"; "1.0"; ""]
  = [Some 0; Some 7; Some 12; Some 2147483647; None; None; None; None; None] /\
  map (fun s => omap S.bits (pn_f32 (lit s))) ["0.7"; "2147483648"; "2147483777"]
  = [Some 1060320051; Some 1325400064; None].
Proof. vm_compute. repeat split. Qed.

(* C15 — Map-level processing of hit objects: order, combos, velocity,
   sample defaults.  Statements only; proofs in Proofs/MapLevelFacts.v and
   Proofs/MapLevelConcrete.v.  Everything holds for ANY curve-distance
   function [dist_of] (the slider-curve model supplies the real one). *)
From RM Require Import Model.MapLevel Proofs.MapLevelFacts Proofs.MapLevelConcrete.
From RM Require Import Gen.Generated.
From Coq Require Import Sorting.Sorted Sorting.Permutation.
Open Scope Z_scope.

(* ---------- T15a: order ---------- *)

(* the processed list carries exactly the start times of the STABLE sort of
   the file-order list, is in non-decreasing order, and has the same length *)
Theorem C15_output_is_stable_sort_of_input :
  forall dist_of c breaks sm mode objs out,
  finish_hit_objects dist_of c breaks sm mode objs = Done out ->
  map h_start out = map h_start (ssort start_key objs) /\
  StronglySorted Z.le (map start_key out) /\
  length out = length objs.
Proof.
  intros d c b sm m objs out H.
  exact (conj (finish_times d c b sm m objs out H)
        (conj (finish_sorted d c b sm m objs out H) (finish_length d c b sm m objs out H))).
Qed.
Print Assumptions C15_output_is_stable_sort_of_input.

(* the sort itself: a permutation, ordered, and stable (objects with the same
   start time keep their file order) *)
Theorem C15_sort_is_stable :
  forall objs : list HitObject,
  Permutation (ssort start_key objs) objs /\
  StronglySorted (kle start_key) (ssort start_key objs) /\
  forall k, filter (has_key start_key k) (ssort start_key objs) = filter (has_key start_key k) objs.
Proof.
  intros objs.
  exact (conj (ssort_perm start_key objs)
        (conj (ssort_sorted start_key objs) (fun k => ssort_stable start_key k objs))).
Qed.
Print Assumptions C15_sort_is_stable.

(* ---------- T15b: breaks ---------- *)

(* break post-processing changes nothing but new-combo flags, object by object *)
Theorem C15_breaks_only_set_flags :
  forall breaks objs,
  post_process_breaks h_start force_new_combo breaks objs =
  map (fun hf => force_new_combo (fst hf) (snd hf))
      (combine objs (flags h_start breaks objs)).
Proof. exact (post_process_flags h_start force_new_combo). Qed.
Print Assumptions C15_breaks_only_set_flags.

Theorem C15_force_sets_flag_except_holds :
  forall h f, new_combo_of (force_new_combo h f) = if is_hold h then false else new_combo_of h || f.
Proof. exact force_flag. Qed.
Print Assumptions C15_force_sets_flag_except_holds.

(* the inner loop: exactly the breaks that ended before the object are consumed *)
Theorem C15_breaks_consumed :
  forall bs t f0,
  exists dropped,
    bs = dropped ++ fst (skip_breaks bs t f0) /\
    Forall (fun b => D.lt (bp_end b) t = true) dropped /\
    (match fst (skip_breaks bs t f0) with
     | b :: _ => D.lt (bp_end b) t = false | [] => True end) /\
    snd (skip_breaks bs t f0) = (f0 || negb (Nat.eqb (length dropped) 0)).
Proof. exact skip_breaks_spec. Qed.
Print Assumptions C15_breaks_consumed.

(* with breaks in chronological order of their ends, an object is forced iff
   some break ended before it (and was not already consumed by an earlier
   object): "the first object after each break starts a new combo" *)
Theorem C15_first_object_after_break :
  forall bs h r,
  breaks_chrono bs ->
  hd false (flags h_start bs (h :: r)) = existsb (fun b => ended_before b (h_start h)) bs.
Proof. exact (first_flag h_start). Qed.
Print Assumptions C15_first_object_after_break.

(* ---------- T15c: velocity, duration, sample defaults ---------- *)

Theorem C15_slider :
  forall dist_of c sm mode h s h',
  h_kind h = KSlider s ->
  process_object dist_of c sm mode h = Done h' ->
  exists dp d,
    difficulty_point_at c (h_start h) = Done dp /\
    dist_of (sl_mode s) (sl_control_points s) (sl_expected_dist s) = Done d /\
    let beat_len := match timing_point_at c (h_start h) with Some p => tp_beat_len p | None => default_beat_len end in
    let sv := match dp with Some p => dp_sv p | None => D.one end in
    let vel := slider_velocity_of sm sv beat_len mode in
    let spans := D.of_Z (sl_repeat_count s + 1) in
    let duration := D.div (D.mul spans d) vel in
    h' = mkHObj (h_start h)
           (KSlider (mkSlider (sl_pos s) (sl_new_combo s) (sl_combo_offset s) (sl_mode s)
                              (sl_control_points s) (sl_expected_dist s)
                              (apply_nodes c (h_start h) duration spans 0 (sl_node_samples s))
                              (sl_repeat_count s) vel))
           (map (sp_apply (sample_point_or_default c (D.add (D.add (h_start h) duration) f64_5)))
                (h_samples h)).
Proof. exact process_object_slider. Qed.
Print Assumptions C15_slider.

Theorem C15_non_slider :
  forall dist_of c sm mode h,
  (forall s, h_kind h <> KSlider s) ->
  exists e, process_object dist_of c sm mode h =
    Done (mkHObj (h_start h) (h_kind h)
                 (map (sp_apply (sample_point_or_default c (D.add e f64_5))) (h_samples h))) /\
    e = match h_kind h with
        | KSpinner s => D.add (h_start h) (sp_duration s)
        | KHold hd => D.add (h_start h) (hd_duration hd)
        | _ => h_start h
        end.
Proof. exact process_object_non_slider. Qed.
Print Assumptions C15_non_slider.

(* pins: the constants the property text names *)
Example pin_base_scoring_dist : base_scoring_dist_dec = (false, 1000, (-1)). Proof. reflexivity. Qed.
Example pin_leniency : control_point_leniency_dec = (false, 50, (-1)). Proof. reflexivity. Qed.
Example pin_bpm_clamp_std : bpm_clamp_std = ((false, 100, (-1)), (false, 100000, (-1)), (false, 1000, (-1))). Proof. reflexivity. Qed.
Example pin_bpm_clamp_tm : bpm_clamp_tm = ((false, 100, (-1)), (false, 10000, (-1)), (false, 1000, (-1))). Proof. reflexivity. Qed.

(* velocity = 100 * SM / (beat_len * (clamp(-(-100/sv), 10, hi) / 100)), literally *)
Example C15_velocity_formula :
  forall sm sv bl,
  slider_velocity_of sm sv bl 0 =
  D.div (D.mul (f64_of_f32 (dec32' base_scoring_dist_dec)) sm)
        (D.mul bl (if D.lt (D.div (D.neg f64_100) sv) D.zero
                   then D.div (D.clamp (D.neg (D.div (D.neg f64_100) sv))
                                       (dec64' (false, 100, (-1))) (dec64' (false, 100000, (-1))))
                              (dec64' (false, 1000, (-1)))
                   else D.one)).
Proof. reflexivity. Qed.

(* non-vacuity on dumps: three objects out of order with a tie, a break, and
   a sample point; the constant distance 100 stands in for the curve *)
Definition ex_dist (_ : Z) (_ : list PCP) (_ : option F64) : outcome F64 := Done (D.of_Z 100).
Definition circ (t : Z) : HitObject :=
  mkHObj (D.of_Z t) (KCircle (mkCircle (mkPos S.zero S.zero) false 0)) [].
Example C15_nonvacuous :
  match finish_hit_objects ex_dist cp_empty [mkBreak (D.of_Z 0) (D.of_Z 15)] D.one 0
                           [circ 20; circ 10; circ 20] with
  | Done out => map (fun h => D.bits (h_start h)) out = map D.bits [D.of_Z 10; D.of_Z 20; D.of_Z 20] /\
                map new_combo_of out = [false; true; false]
  | _ => False
  end.
Proof. vm_compute. split; reflexivity. Qed.

(* T15d (shift invariance) is REFUTED for non-integer times (finding D20):
   the sample-point lookup compares fl(parse t + 5) with parse (t + 5).  A
   circle at 0.06 sees a sample point at 5.06; after a shift by 7 ms the circle
   at 7.06 does NOT see the point at 12.06. *)
Definition dec2 (m : Z) : F64 := D.of_decimal false m (-2).     (* m / 100 *)
Example C15_shift_refuted_fractional :
  D.lt (D.add (dec2 6) f64_5) (dec2 506) = false /\      (* 0.06 + 5 >= 5.06: point active  *)
  D.lt (D.add (dec2 706) f64_5) (dec2 1206) = true.       (* 7.06 + 5 <  12.06: point missed *)
Proof. vm_compute. split; reflexivity. Qed.

(* For integer times T15d (shift invariance) is NOT proved here: see DESIGN.md C15 — the
   statement "shifting every time by k commutes with decoding" needs
   parse(t + k) = parse(t) + k and exactness of every float comparison against
   shifted times; the check's oracle tests it on integer times and shifts. *)

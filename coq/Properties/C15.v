(* C15 — Map-level processing of hit objects: order, combos, velocity,
   sample defaults, shift invariance.  Statements only; proofs in
   Proofs/MapLevelFacts.v and Proofs/MapLevelConcrete.v (T15a-c) and in
   Proofs/ShiftFloat.v, Proofs/ShiftControlPoints.v, Proofs/ShiftMapLevel.v,
   Proofs/ShiftExamples.v (T15d).  Everything holds for ANY curve-distance
   function [dist_of] (the slider-curve model supplies the real one). *)
From RM Require Import Model.MapLevel Proofs.MapLevelFacts Proofs.MapLevelConcrete.
From RM Require Import Model.Num Proofs.ControlPointsFacts Proofs.DecimalRounding Proofs.FloatGrammar.
From RM Require Import Proofs.ShiftFloat Proofs.ShiftControlPoints Proofs.ShiftMapLevel Proofs.ShiftExamples.
From RM Require Import Gen.Generated.
From Coq Require Import Sorting.Sorted Sorting.Permutation Reals Lra.
From Flocq Require Import Raux.
Open Scope Z_scope.

(* ---------- T15a: order ---------- *)

(* the processed list carries exactly the start times of the STABLE sort of
   the file-order list, is in non-decreasing order, and has the same length *)
Theorem C15_output_is_stable_sort_of_input :
  forall dist_of c breaks sm mode objs out,
  finish_hit_objects dist_of c breaks sm mode objs = Done out ->
  map h_start out = map h_start (ssort start_key objs) /\
  StronglySorted Z.le (map start_key out) /\
  length out = length objs.
Proof.
  intros d c b sm m objs out H.
  exact (conj (finish_times d c b sm m objs out H)
        (conj (finish_sorted d c b sm m objs out H) (finish_length d c b sm m objs out H))).
Qed.
Print Assumptions C15_output_is_stable_sort_of_input.

(* the sort itself: a permutation, ordered, and stable (objects with the same
   start time keep their file order) *)
Theorem C15_sort_is_stable :
  forall objs : list HitObject,
  Permutation (ssort start_key objs) objs /\
  StronglySorted (kle start_key) (ssort start_key objs) /\
  forall k, filter (has_key start_key k) (ssort start_key objs) = filter (has_key start_key k) objs.
Proof.
  intros objs.
  exact (conj (ssort_perm start_key objs)
        (conj (ssort_sorted start_key objs) (fun k => ssort_stable start_key k objs))).
Qed.
Print Assumptions C15_sort_is_stable.

(* ---------- T15b: breaks ---------- *)

(* break post-processing changes nothing but new-combo flags, object by object *)
Theorem C15_breaks_only_set_flags :
  forall breaks objs,
  post_process_breaks h_start force_new_combo breaks objs =
  map (fun hf => force_new_combo (fst hf) (snd hf))
      (combine objs (flags h_start breaks objs)).
Proof. exact (post_process_flags h_start force_new_combo). Qed.
Print Assumptions C15_breaks_only_set_flags.

Theorem C15_force_sets_flag_except_holds :
  forall h f, new_combo_of (force_new_combo h f) = if is_hold h then false else new_combo_of h || f.
Proof. exact force_flag. Qed.
Print Assumptions C15_force_sets_flag_except_holds.

(* the inner loop: exactly the breaks that ended before the object are consumed *)
Theorem C15_breaks_consumed :
  forall bs t f0,
  exists dropped,
    bs = dropped ++ fst (skip_breaks bs t f0) /\
    Forall (fun b => D.lt (bp_end b) t = true) dropped /\
    (match fst (skip_breaks bs t f0) with
     | b :: _ => D.lt (bp_end b) t = false | [] => True end) /\
    snd (skip_breaks bs t f0) = (f0 || negb (Nat.eqb (length dropped) 0)).
Proof. exact skip_breaks_spec. Qed.
Print Assumptions C15_breaks_consumed.

(* with breaks in chronological order of their ends, an object is forced iff
   some break ended before it (and was not already consumed by an earlier
   object): "the first object after each break starts a new combo" *)
Theorem C15_first_object_after_break :
  forall bs h r,
  breaks_chrono bs ->
  hd false (flags h_start bs (h :: r)) = existsb (fun b => ended_before b (h_start h)) bs.
Proof. exact (first_flag h_start). Qed.
Print Assumptions C15_first_object_after_break.

(* ---------- T15c: velocity, duration, sample defaults ---------- *)

Theorem C15_slider :
  forall dist_of c sm mode h s h',
  h_kind h = KSlider s ->
  process_object dist_of c sm mode h = Done h' ->
  exists dp d,
    difficulty_point_at c (h_start h) = Done dp /\
    dist_of (sl_mode s) (sl_control_points s) (sl_expected_dist s) = Done d /\
    let beat_len := match timing_point_at c (h_start h) with Some p => tp_beat_len p | None => default_beat_len end in
    let sv := match dp with Some p => dp_sv p | None => D.one end in
    let vel := slider_velocity_of sm sv beat_len mode in
    let spans := D.of_Z (sl_repeat_count s + 1) in
    let duration := D.div (D.mul spans d) vel in
    h' = mkHObj (h_start h)
           (KSlider (mkSlider (sl_pos s) (sl_new_combo s) (sl_combo_offset s) (sl_mode s)
                              (sl_control_points s) (sl_expected_dist s)
                              (apply_nodes c (h_start h) duration spans 0 (sl_node_samples s))
                              (sl_repeat_count s) vel))
           (map (sp_apply (sample_point_or_default c (D.add (D.add (h_start h) duration) f64_5)))
                (h_samples h)).
Proof. exact process_object_slider. Qed.
Print Assumptions C15_slider.

Theorem C15_non_slider :
  forall dist_of c sm mode h,
  (forall s, h_kind h <> KSlider s) ->
  exists e, process_object dist_of c sm mode h =
    Done (mkHObj (h_start h) (h_kind h)
                 (map (sp_apply (sample_point_or_default c (D.add e f64_5))) (h_samples h))) /\
    e = match h_kind h with
        | KSpinner s => D.add (h_start h) (sp_duration s)
        | KHold hd => D.add (h_start h) (hd_duration hd)
        | _ => h_start h
        end.
Proof. exact process_object_non_slider. Qed.
Print Assumptions C15_non_slider.

(* pins: the constants the property text names *)
Example pin_base_scoring_dist : base_scoring_dist_dec = (false, 1000, (-1)). Proof. reflexivity. Qed.
Example pin_leniency : control_point_leniency_dec = (false, 50, (-1)). Proof. reflexivity. Qed.
Example pin_bpm_clamp_std : bpm_clamp_std = ((false, 100, (-1)), (false, 100000, (-1)), (false, 1000, (-1))). Proof. reflexivity. Qed.
Example pin_bpm_clamp_tm : bpm_clamp_tm = ((false, 100, (-1)), (false, 10000, (-1)), (false, 1000, (-1))). Proof. reflexivity. Qed.

(* velocity = 100 * SM / (beat_len * (clamp(-(-100/sv), 10, hi) / 100)), literally *)
Example C15_velocity_formula :
  forall sm sv bl,
  slider_velocity_of sm sv bl 0 =
  D.div (D.mul (f64_of_f32 (dec32' base_scoring_dist_dec)) sm)
        (D.mul bl (if D.lt (D.div (D.neg f64_100) sv) D.zero
                   then D.div (D.clamp (D.neg (D.div (D.neg f64_100) sv))
                                       (dec64' (false, 100, (-1))) (dec64' (false, 100000, (-1))))
                              (dec64' (false, 1000, (-1)))
                   else D.one)).
Proof. reflexivity. Qed.

(* non-vacuity on dumps: three objects out of order with a tie, a break, and
   a sample point; the constant distance 100 stands in for the curve *)
Definition ex_dist (_ : Z) (_ : list PCP) (_ : option F64) : outcome F64 := Done (D.of_Z 100).
Definition circ (t : Z) : HitObject :=
  mkHObj (D.of_Z t) (KCircle (mkCircle (mkPos S.zero S.zero) false 0)) [].
Example C15_nonvacuous :
  match finish_hit_objects ex_dist cp_empty [mkBreak (D.of_Z 0) (D.of_Z 15)] D.one 0
                           [circ 20; circ 10; circ 20] with
  | Done out => map (fun h => D.bits (h_start h)) out = map D.bits [D.of_Z 10; D.of_Z 20; D.of_Z 20] /\
                map new_combo_of out = [false; true; false]
  | _ => False
  end.
Proof. vm_compute. split; reflexivity. Qed.

(* T15d (shift invariance) is REFUTED for non-integer times (finding D20):
   the sample-point lookup compares fl(parse t + 5) with parse (t + 5).  A
   circle at 0.06 sees a sample point at 5.06; after a shift by 7 ms the circle
   at 7.06 does NOT see the point at 12.06. *)
Definition dec2 (m : Z) : F64 := D.of_decimal false m (-2).     (* m / 100 *)
Example C15_shift_refuted_fractional :
  D.lt (D.add (dec2 6) f64_5) (dec2 506) = false /\      (* 0.06 + 5 >= 5.06: point active  *)
  D.lt (D.add (dec2 706) f64_5) (dec2 1206) = true.       (* 7.06 + 5 <  12.06: point missed *)
Proof. vm_compute. split; reflexivity. Qed.

(* ---------- T15d for WHOLE-MILLISECOND times ---------- *)

(* Everything below is about times that are whole numbers of milliseconds,
   [D.of_Z n], with |n| and |n + k| below 2^52 ([in_range k n]; [whole_time k t]
   says t is such a value).  The shift of a time is the float addition
   [tshift k t = t + k]; for whole times it is exact, and it is what decoding the
   shifted text yields (parse side, below). *)

(* -- float level -- *)

Theorem C15_whole_time_shifts_exactly :
  forall k n, in_range k n -> tshift k (D.of_Z n) = D.of_Z (n + k).
Proof. exact tshift_ofZ. Qed.
Print Assumptions C15_whole_time_shifts_exactly.

(* every comparison the decoder makes between two times: <, <=, ==, total_cmp *)
Theorem C15_comparisons_shift_invariant :
  forall k a b, in_range k a -> in_range k b ->
  D.lt (tshift k (D.of_Z a)) (tshift k (D.of_Z b)) = D.lt (D.of_Z a) (D.of_Z b) /\
  D.le (tshift k (D.of_Z a)) (tshift k (D.of_Z b)) = D.le (D.of_Z a) (D.of_Z b) /\
  D.eq (tshift k (D.of_Z a)) (tshift k (D.of_Z b)) = D.eq (D.of_Z a) (D.of_Z b) /\
  D.total_cmp (tshift k (D.of_Z a)) (tshift k (D.of_Z b)) = D.total_cmp (D.of_Z a) (D.of_Z b).
Proof.
  intros k a b Ha Hb.
  exact (conj (shift_lt k a b Ha Hb) (conj (shift_le k a b Ha Hb)
        (conj (shift_eq k a b Ha Hb) (shift_total_cmp k a b Ha Hb)))).
Qed.
Print Assumptions C15_comparisons_shift_invariant.

(* and they are the comparisons of the integers *)
Theorem C15_whole_times_compare_as_integers :
  forall a b, Z.abs a < 2 ^ 53 -> Z.abs b < 2 ^ 53 ->
  D.lt (D.of_Z a) (D.of_Z b) = (a <? b) /\ D.le (D.of_Z a) (D.of_Z b) = (a <=? b) /\
  D.eq (D.of_Z a) (D.of_Z b) = (a =? b) /\ D.total_cmp (D.of_Z a) (D.of_Z b) = (a ?= b).
Proof.
  intros a b Ha Hb.
  exact (conj (lt_ofZ a b Ha Hb) (conj (le_ofZ a b Ha Hb) (conj (eq_ofZ a b Ha Hb) (total_cmp_ofZ a b Ha Hb)))).
Qed.
Print Assumptions C15_whole_times_compare_as_integers.

(* the + 5 ms of the sample-point look-up commutes with the shift; the 5 is the pinned leniency *)
Theorem C15_leniency_commutes_with_shift :
  forall k n, in_range k n ->
  D.add (tshift k (D.of_Z n)) f64_5 = tshift k (D.add (D.of_Z n) f64_5).
Proof. exact shift_add5. Qed.
Print Assumptions C15_leniency_commutes_with_shift.

(* end - start (spinner and hold durations) does not see the shift *)
Theorem C15_durations_shift_invariant :
  forall k a b, in_range k a -> in_range k b ->
  D.sub (tshift k (D.of_Z a)) (tshift k (D.of_Z b)) = D.sub (D.of_Z a) (D.of_Z b).
Proof. exact shift_sub. Qed.
Print Assumptions C15_durations_shift_invariant.

(* -- parse side: a text ParseNumber accepts and that denotes the whole number n
      (any spelling: "1500", "+1500", "1500.0", "15e2"; not "-0") is read as
      exactly D.of_Z n; hence parse(t + k) = parse(t) + k -- *)
Theorem C15_whole_literal_parses_exactly :
  forall s x n, Z.abs n < 2 ^ 53 -> pn_f64 s = Some x -> denotes_whole s n -> x = D.of_Z n.
Proof. exact pn_f64_whole. Qed.
Print Assumptions C15_whole_literal_parses_exactly.

Theorem C15_parse_commutes_with_shift :
  forall k n s s' x x', in_range k n ->
  pn_f64 s = Some x -> denotes_whole s n ->
  pn_f64 s' = Some x' -> denotes_whole s' (n + k) ->
  x = D.of_Z n /\ x' = tshift k x.
Proof. exact pn_f64_shift. Qed.
Print Assumptions C15_parse_commutes_with_shift.

Example C15_denotes_whole_nonvacuous :
  denotes_whole (lit "1500") 1500 /\ denotes_whole (lit " -15e2") (-1500) /\ denotes_whole (lit "7.0") 7.
Proof.
  repeat split.
  - exists false, 1500, 0. split; [apply parse_fnum_decimal_iff; vm_compute; reflexivity|].
    split; [unfold dec_value; cbn; lra|lia].
  - exists true, 15, 2. split; [apply parse_fnum_decimal_iff; vm_compute; reflexivity|].
    split; [unfold dec_value; cbn; lra|lia].
  - exists false, 70, (-1). split; [apply parse_fnum_decimal_iff; vm_compute; reflexivity|].
    split; [unfold dec_value; cbn; lra|lia].
Qed.

(* -- control points: the four look-ups at a whole time, and ControlPoints::add -- *)

Theorem C15_lookups_commute_with_shift :
  forall k c b, cps_whole k c -> Z.abs b < 2 ^ 53 -> Z.abs (b + k) < 2 ^ 53 ->
  timing_point_at (shift_cps k c) (D.of_Z (b + k)) = omap (shift_tp k) (timing_point_at c (D.of_Z b)) /\
  difficulty_point_at (shift_cps k c) (D.of_Z (b + k)) =
    out_map (omap (shift_dp k)) (difficulty_point_at c (D.of_Z b)) /\
  effect_point_at (shift_cps k c) (D.of_Z (b + k)) =
    out_map (omap (shift_ep k)) (effect_point_at c (D.of_Z b)) /\
  sample_point_at (shift_cps k c) (D.of_Z (b + k)) = omap (shift_sp k) (sample_point_at c (D.of_Z b)).
Proof.
  intros k c b Hc H1 H2.
  exact (conj (timing_point_at_shift k c b Hc H1 H2) (conj (difficulty_point_at_shift k c b Hc H1 H2)
        (conj (effect_point_at_shift k c b Hc H1 H2) (sample_point_at_shift k c b Hc H1 H2)))).
Qed.
Print Assumptions C15_lookups_commute_with_shift.

(* decoding the shifted timing lines builds the shifted collection: any add
   history with whole times, from any whole collection *)
Theorem C15_add_commutes_with_shift :
  forall k ops c, cps_whole k c -> Forall (fun o => whole_time k (op_time o)) ops ->
  cp_run (shift_cps k c) (map (shift_op k) ops) = out_map (shift_cps k) (cp_run c ops).
Proof. exact cp_run_shift. Qed.
Print Assumptions C15_add_commutes_with_shift.

(* -- map level -- *)

(* [shift_obj k h] is h with its start time shifted and NOTHING else changed:
   same kind (position, new-combo flag, combo offset, path, repeat count,
   velocity, spinner / hold duration, node samples) and same samples (name,
   bank, volume, custom index, ...).  The theorems below say
       process(shifted input) = map shift_obj (process(input)),
   so order, combos, velocities, durations and every sample default are
   unchanged; only times move.  Spelled out: *)
Theorem C15_shift_changes_only_times :
  forall k out,
  Forall2 (fun h h' => h_start h' = tshift k (h_start h) /\ h_kind h' = h_kind h /\ h_samples h' = h_samples h)
          out (map (shift_obj k) out).
Proof. exact shift_objs_only_time. Qed.
Print Assumptions C15_shift_changes_only_times.

(* T15d for circles, spinners and holds: whole start times, whole durations
   (start + duration in range), whole break ends and control-point times.
   Full for this class: no further side condition, any curve function, any
   break order, any mode. *)
Theorem C15_shift_invariance_integer_times :
  forall dist_of k c breaks sm mode objs,
  cps_whole k c -> breaks_whole k breaks -> Forall (whole_obj k) objs ->
  finish_hit_objects dist_of (shift_cps k c) (map (shift_break k) breaks) sm mode (map (shift_obj k) objs) =
  out_map (map (shift_obj k)) (finish_hit_objects dist_of c breaks sm mode objs).
Proof. exact finish_shift_whole. Qed.
Print Assumptions C15_shift_invariance_integer_times.

(* T15d with sliders, CONDITIONAL.  A slider's duration spans * dist / velocity
   is in general not a whole number; its sample points are looked up at
   fl(fl(start + o) + 5), o the duration resp. the node offset i * duration /
   spans ([slider_lookups]).  [obj_ok] demands for every such o: o finite,
   |o| <= 2^1000, and for every sample-point time T the exact real number
   start + o + 5 is NOT in the window (T - 2^-g, T) ([clear_of]; also T, T + k
   small enough that T - 2^-g is a binary64 number: (|T| + 6) * 2^g < 2^53).  g is
   free (0 .. 1074); g = 20 covers |T| < 2^33 - 6 with a window of 2^-20 ms.
   Full statement (false, see C15_slider_shift_refuted): the same without the
   window condition. *)
Theorem C15_shift_invariance_sliders_partial :
  forall dist_of g, 0 <= g <= 1074 ->
  forall k c breaks sm mode objs,
  cps_whole k c -> breaks_whole k breaks -> Forall (obj_ok dist_of g k c sm mode) objs ->
  finish_hit_objects dist_of (shift_cps k c) (map (shift_break k) breaks) sm mode (map (shift_obj k) objs) =
  out_map (map (shift_obj k)) (finish_hit_objects dist_of c breaks sm mode objs).
Proof. exact finish_shift. Qed.
Print Assumptions C15_shift_invariance_sliders_partial.

(* the float fact behind it: against a whole time T, the look-up only asks
   whether T is after fl(fl(s + o) + 5), and outside the window the exact real
   number s + o + 5 answers that *)
Theorem C15_slider_lookup_decided_by_exact_sum :
  forall g, 0 <= g <= 1074 ->
  forall s o T, Z.abs s < 2 ^ 53 -> off_ok o -> fits g T -> clear_of g s o T ->
  is_gt (D.total_cmp (D.of_Z T) (look s o)) = negb (Rle_bool (IZR T) (IZR s + B2R o + 5)).
Proof. exact look_cmp. Qed.
Print Assumptions C15_slider_lookup_decided_by_exact_sum.

(* REFUTED without the window condition (finding D29), on whole times:
   SliderMultiplier 1.4, beat length 500, slider of length 336 with one repeat
   at 1000 (duration fl(672 / 0.28) = 2399.9999999999995), sample point
   (volume 30) at 3405.  Unshifted the look-up time is 3404.9999999999995 and
   the slider keeps volume 100; shifted by 1000 ms the look-up time is exactly
   4405 and the slider takes volume 30. *)
Theorem C15_slider_shift_refuted :
  exists dist_of k c sm mode h,
    cps_whole k c /\ whole_time k (h_start h) /\ (exists s, h_kind h = KSlider s) /\
    finish_hit_objects dist_of (shift_cps k c) (map (shift_break k) []) sm mode (map (shift_obj k) [h]) <>
    out_map (map (shift_obj k)) (finish_hit_objects dist_of c [] sm mode [h]).
Proof. exact slider_shift_witness. Qed.
Print Assumptions C15_slider_shift_refuted.

Example C15_slider_shift_refuted_volumes :
  volumes (finish_hit_objects w_dist w_cps [] w_sm 0 [w_slider]) = [100] /\
  volumes (finish_hit_objects w_dist (shift_cps 1000 w_cps) [] w_sm 0 [shift_obj 1000 w_slider]) = [30].
Proof. exact slider_shift_volumes. Qed.

Example C15_slider_shift_refuted_lookup_times :
  D.bits (look 1000 w_duration) = 4659706089258876927 /\         (* 3404.9999999999995 *)
  D.bits (D.of_Z 3405)          = 4659706089258876928 /\
  D.bits (look 2000 w_duration) = 4661565363421446144 /\         (* 4405 *)
  D.bits (D.of_Z 4405)          = 4661565363421446144.
Proof. exact slider_shift_lookups. Qed.

(* non-vacuity of the conditional theorem: the same slider with the sample
   point at 3500 satisfies [obj_ok] (g = 20, k = 1000) *)
Example C15_slider_condition_nonvacuous :
  obj_ok w_dist 20 1000 w_cps_clear w_sm 0 w_slider /\ cps_whole 1000 w_cps_clear /\
  volumes (finish_hit_objects w_dist w_cps_clear [] w_sm 0 [w_slider]) = [100].
Proof. exact (conj w_slider_ok (conj w_cps_clear_whole w_clear_volumes)). Qed.

(* non-vacuity of the unconditional theorem: spinner, circle and hold out of
   order with a tie, a break, two sample points; shift by -1000000 *)
Definition sv_sample : HitSampleInfo := hs_new (NDefault 0) None 0 0.
Definition sv_objs : list HitObject :=
  [ mkHObj (D.of_Z 20) (KSpinner (mkSpinner (mkPos S.zero S.zero) (D.of_Z 100) false)) [sv_sample];
    mkHObj (D.of_Z 10) (KCircle (mkCircle (mkPos S.zero S.zero) false 0)) [sv_sample];
    mkHObj (D.of_Z 20) (KHold (mkHold S.zero (D.of_Z 50))) [sv_sample] ].
Definition sv_cps : ControlPoints :=
  mkCP [mkTP (D.of_Z 0) (D.of_Z 500) false 4] [] []
       [mkSP (D.of_Z 0) 1 60 0; mkSP (D.of_Z 75) 2 45 0; mkSP (D.of_Z 125) 3 30 0].
Example C15_shift_invariance_nonvacuous :
  cps_whole (-1000000) sv_cps /\ breaks_whole (-1000000) [mkBreak (D.of_Z 0) (D.of_Z 15)] /\
  Forall (whole_obj (-1000000)) sv_objs /\
  volumes (finish_hit_objects ex_dist sv_cps [mkBreak (D.of_Z 0) (D.of_Z 15)] D.one 0 sv_objs) = [60; 30; 45].
Proof.
  split; [|split; [|split]].
  - unfold cps_whole, sv_cps. cbn [cp_timing cp_difficulty cp_effect cp_sample].
    repeat split; repeat constructor; eexists; (split; [reflexivity|unfold in_range; lia]).
  - repeat constructor. eexists; (split; [reflexivity|unfold in_range; lia]).
  - unfold sv_objs. repeat constructor.
    + exists 20. split; [reflexivity|]. split; [unfold in_range; lia|]. cbn [h_kind sp_duration].
      exists 100. split; [reflexivity|]. split; [lia|unfold in_range; lia].
    + exists 10. split; [reflexivity|]. split; [unfold in_range; lia|exact I].
    + exists 20. split; [reflexivity|]. split; [unfold in_range; lia|]. cbn [h_kind hd_duration].
      exists 50. split; [reflexivity|]. split; [lia|unfold in_range; lia].
  - vm_compute. reflexivity.
Qed.

(* -0.0 is NOT a whole time in the sense above (D.of_Z 0 is +0.0), and it does
   break T15d: total_cmp puts -0.0 before +0.0, the shift maps both to k.  An
   object at "0" followed by one at "-0" is reordered; after a shift by 7 both
   are at 7 and keep their file order (relative of finding D8). *)
Definition zcirc (t : F64) (tag : Z) : HitObject :=
  mkHObj t (KCircle (mkCircle (mkPos S.zero S.zero) false tag)) [].
Definition tags (r : outcome (list HitObject)) : list Z :=
  match r with
  | Done l => map (fun h => match h_kind h with KCircle c => ci_combo_offset c | _ => -1 end) l
  | _ => []
  end.
Example C15_shift_refuted_negative_zero :
  D.key (D.neg D.zero) < D.key (D.of_Z 0) /\
  D.bits (tshift 7 (D.neg D.zero)) = D.bits (tshift 7 (D.of_Z 0)) /\
  tags (finish_hit_objects ex_dist cp_empty [] D.one 0 [zcirc (D.of_Z 0) 1; zcirc (D.neg D.zero) 2]) = [2; 1] /\
  tags (finish_hit_objects ex_dist cp_empty [] D.one 0
          [shift_obj 7 (zcirc (D.of_Z 0) 1); shift_obj 7 (zcirc (D.neg D.zero) 2)]) = [1; 2].
Proof. vm_compute. repeat split; reflexivity. Qed.

(* Status of T15d.  PROVED for whole-millisecond times within +-2^52 (before
   and after the shift): exact shift, all comparisons, the parse side, the four
   look-ups, ControlPoints::add, and the whole map-level processing of circles,
   spinners and holds (C15_shift_invariance_integer_times); for sliders under
   the window condition (C15_shift_invariance_sliders_partial).  REFUTED: with
   fractional times (D20, C15_shift_refuted_fractional); for sliders whose exact
   end + 5 (or node time + 5) lies within rounding distance below a sample
   point (D29, C15_slider_shift_refuted); with a time written "-0" (relative of
   D8, C15_shift_refuted_negative_zero).  Not covered: non-finite slider
   durations (NaN distance, D11) and |times| >= 2^52 (ParseNumber only accepts
   |t| <= 2147483647). *)

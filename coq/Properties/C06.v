(* C06 — A rejected line has no effect on the result.

   "Whenever a section's line parser reports an error for a line, the final
   decoded result is exactly what it would have been had that line been
   absent from the file.  A bad line can never leak partial state into later
   lines or alter neighbouring objects."

   Statements only, each closed by [exact] of a lemma of
   Proofs/DecodersRejected.v (which rests on Proofs/SectionsFacts.v for the six
   key/value and record parsers, Proofs/DecodersTotal.v for timing points,
   Proofs/C14Clauses.v for hit objects and Proofs/FramingFacts.v for the
   induction over the file), followed by Print Assumptions; plus Examples on
   dumps.

   The nine decoders are those of Model/Decoders.v; a parser returns the state
   *as mutated up to the error* (Model/Sections.v, TimingPoints.v,
   HitObjectLine.v), so the theorems below are about what the code leaves
   behind, not about an idealised "parse, then commit".

   [≈]: equality, except that the two buffers of HitObjectsState the code
   itself treats as scratch space — [curve_points] (cleared before every
   slider's path is converted) and [vertices] (cleared before every path
   segment) — are not compared: [hod_eqv], [bmd_eqv], lifted to the
   panic-carrying states by [oeqv].  C06_equiv_meaning spells it out field by
   field.  A rejected multi-segment slider does leave points in those buffers
   (Example ex_scratch_residue); T06b shows that no parser and no finishing
   conversion ever reads them. *)
From RM Require Import Model.Decoders Model.Drv07 Proofs.FramingFacts Proofs.SectionsFacts
     Proofs.ControlPointsFacts Proofs.C14Clauses Proofs.DecodersFacts Proofs.DecodersTotal
     Proofs.DecodersRejected.
Open Scope Z_scope.

(* ------------------------------------------------------------------ *)
(* ≈                                                                   *)

Theorem C06_equiv_meaning :
  forall a b : HOD,
  hod_eqv a b <->
  hod_tp a = hod_tp b /\ hod_difficulty a = hod_difficulty b /\ hod_events a = hod_events b /\
  hod_last a = hod_last b /\ hod_objects a = hod_objects b.
Proof. exact hod_eqv_fields. Qed.
Print Assumptions C06_equiv_meaning.

Theorem C06_equiv_is_equivalence :
  (forall a, hod_eqv a a) /\ (forall a b, hod_eqv a b -> hod_eqv b a) /\
  (forall a b c, hod_eqv a b -> hod_eqv b c -> hod_eqv a c).
Proof. exact (conj hod_eqv_refl (conj hod_eqv_sym hod_eqv_trans)). Qed.
Print Assumptions C06_equiv_is_equivalence.

(* ------------------------------------------------------------------ *)
(* T06a: a parser that answers Rejected hands back (≈) the state it got *)

(* the six section parsers themselves (all parsing precedes all mutation) *)
Theorem C06_T06a_section_parsers :
  (forall st l, snd (parse_general st l) = Rejected -> fst (parse_general st l) = st) /\
  (forall st l, snd (parse_editor st l) = Rejected -> fst (parse_editor st l) = st) /\
  (forall st l, snd (parse_metadata st l) = Rejected -> fst (parse_metadata st l) = st) /\
  (forall st l, snd (parse_difficulty st l) = Rejected -> fst (parse_difficulty st l) = st) /\
  (forall st l, snd (parse_events st l) = Rejected -> fst (parse_events st l) = st) /\
  (forall st l, snd (parse_colors st l) = Rejected -> fst (parse_colors st l) = st).
Proof.
  exact (conj parse_general_rejected (conj parse_editor_rejected (conj parse_metadata_rejected
        (conj parse_difficulty_rejected (conj parse_events_rejected parse_colors_rejected))))).
Qed.
Print Assumptions C06_T06a_section_parsers.

Theorem C06_T06a_timing_point_line :
  forall st l st', parse_timing_points st l = Done (st', Rejected) -> st' = st.
Proof. exact parse_timing_points_rejected. Qed.
Print Assumptions C06_T06a_timing_point_line.

Theorem C06_T06a_hit_object_line :
  forall st l st', parse_hit_objects st l = Done (st', Rejected) -> same_but_scratch st st'.
Proof. exact rejected_state. Qed.
Print Assumptions C06_T06a_hit_object_line.

(* every entry of every decoder's parser record *)
Theorem C06_T06a_single_section_decoders :
  forall S (p : S -> str -> S * res),
  (forall st l, snd (p st l) = Rejected -> fst (p st l) = st) ->
  forall which sec st l,
  snd (parser_of (simple_parsers which p) sec st l) = Rejected ->
  fst (parser_of (simple_parsers which p) sec st l) = st.
Proof. exact simple_rejected_noop. Qed.
Print Assumptions C06_T06a_single_section_decoders.

Theorem C06_T06a_timing_points :
  forall sec st l,
  snd (parser_of tp_parsers sec st l) = Rejected -> fst (parser_of tp_parsers sec st l) = st.
Proof. exact tp_rejected_noop. Qed.
Print Assumptions C06_T06a_timing_points.

Theorem C06_T06a_hit_objects :
  forall sec st l,
  snd (parser_of ho_parsers sec st l) = Rejected ->
  oeqv hod_eqv (fst (parser_of ho_parsers sec st l)) st.
Proof. exact ho_rejected_noop. Qed.
Print Assumptions C06_T06a_hit_objects.

Theorem C06_T06a_beatmap :
  forall sec st l,
  snd (parser_of bm_parsers sec st l) = Rejected ->
  oeqv bmd_eqv (fst (parser_of bm_parsers sec st l)) st.
Proof. exact bm_rejected_noop. Qed.
Print Assumptions C06_T06a_beatmap.

(* ------------------------------------------------------------------ *)
(* T06b: ≈ is a congruence (for the decoders whose ≈ is equality this is
   Leibniz), and the finishing conversions do not see the difference     *)

Theorem C06_T06b_hit_object_line :
  forall st1 st2 line st1' r1 st2' r2,
  same_but_scratch st1 st2 ->
  parse_hit_objects st1 line = Done (st1', r1) ->
  parse_hit_objects st2 line = Done (st2', r2) ->
  r1 = r2 /\ same_but_scratch st1' st2'.
Proof. exact scratch_irrelevant. Qed.
Print Assumptions C06_T06b_hit_object_line.

Theorem C06_T06b_hit_objects :
  forall sec st st' l,
  oeqv hod_eqv st st' ->
  oeqv hod_eqv (fst (parser_of ho_parsers sec st l)) (fst (parser_of ho_parsers sec st' l)) /\
  snd (parser_of ho_parsers sec st l) = snd (parser_of ho_parsers sec st' l).
Proof. exact ho_congruence. Qed.
Print Assumptions C06_T06b_hit_objects.

Theorem C06_T06b_beatmap :
  forall sec st st' l,
  oeqv bmd_eqv st st' ->
  oeqv bmd_eqv (fst (parser_of bm_parsers sec st l)) (fst (parser_of bm_parsers sec st' l)) /\
  snd (parser_of bm_parsers sec st l) = snd (parser_of bm_parsers sec st' l).
Proof. exact bm_congruence. Qed.
Print Assumptions C06_T06b_beatmap.

Theorem C06_T06b_finish :
  forall dist_of,
  (forall st st', oeqv hod_eqv st st' ->
     obind st (hod_finish dist_of) = obind st' (hod_finish dist_of)) /\
  (forall st st', oeqv bmd_eqv st st' ->
     obind st (bmd_finish dist_of) = obind st' (bmd_finish dist_of)).
Proof. intros dist_of. exact (conj (ho_finish_eqv dist_of) (bm_finish_eqv dist_of)). Qed.
Print Assumptions C06_T06b_finish.

(* ------------------------------------------------------------------ *)
(* T06c: the rejected line can be deleted.
   [rejected_after create ps pre l sec]: after the lines [pre], the line [l]
   is routed to the parser of [sec] (most recent recognised header is [sec],
   [l] is neither skipped nor a header) and that parser answers Rejected.  *)

Theorem C06_rejected_after_meaning :
  forall S (create : Z -> S) (ps : parsers S) pre l sec,
  rejected_after create ps pre l sec <->
  (section_after (skip ps) pre = Some sec /\ skip ps l = false /\ section_of_line l = None /\
   snd (parser_of ps sec (state_after create ps pre) l) = Rejected).
Proof. intros. reflexivity. Qed.
Print Assumptions C06_rejected_after_meaning.

Theorem C06_general :
  forall pre l post sec,
  rejected_after (fun _ => general_default) (simple_parsers SecGeneral parse_general) pre l sec ->
  decode_general (pre ++ l :: post) = decode_general (pre ++ post).
Proof. exact general_rejected_absent. Qed.
Print Assumptions C06_general.

Theorem C06_editor :
  forall pre l post sec,
  rejected_after (fun _ => editor_default) (simple_parsers SecEditor parse_editor) pre l sec ->
  decode_editor (pre ++ l :: post) = decode_editor (pre ++ post).
Proof. exact editor_rejected_absent. Qed.
Print Assumptions C06_editor.

Theorem C06_metadata :
  forall pre l post sec,
  rejected_after (fun _ => metadata_default) (simple_parsers SecMetadata parse_metadata) pre l sec ->
  decode_metadata (pre ++ l :: post) = decode_metadata (pre ++ post).
Proof. exact metadata_rejected_absent. Qed.
Print Assumptions C06_metadata.

Theorem C06_difficulty :
  forall pre l post sec,
  rejected_after (fun _ => difficulty_default) (simple_parsers SecDifficulty parse_difficulty) pre l sec ->
  decode_difficulty (pre ++ l :: post) = decode_difficulty (pre ++ post).
Proof. exact difficulty_rejected_absent. Qed.
Print Assumptions C06_difficulty.

Theorem C06_events :
  forall pre l post sec,
  rejected_after (fun _ => events_default) (simple_parsers SecEvents parse_events) pre l sec ->
  decode_events (pre ++ l :: post) = decode_events (pre ++ post).
Proof. exact events_rejected_absent. Qed.
Print Assumptions C06_events.

Theorem C06_colours :
  forall pre l post sec,
  rejected_after (fun _ => colors_default) (simple_parsers SecColors parse_colors) pre l sec ->
  decode_colors (pre ++ l :: post) = decode_colors (pre ++ post).
Proof. exact colors_rejected_absent. Qed.
Print Assumptions C06_colours.

Theorem C06_timing_points :
  forall pre l post sec,
  rejected_after (fun _ => Done tpd_create) tp_parsers pre l sec ->
  decode_timing_points (pre ++ l :: post) = decode_timing_points (pre ++ post).
Proof. exact timing_points_rejected_absent. Qed.
Print Assumptions C06_timing_points.

Theorem C06_hit_objects :
  forall dist_of pre l post sec,
  rejected_after (fun _ => Done hod_create) ho_parsers pre l sec ->
  decode_hit_objects dist_of (pre ++ l :: post) = decode_hit_objects dist_of (pre ++ post).
Proof. exact hit_objects_rejected_absent. Qed.
Print Assumptions C06_hit_objects.

Theorem C06_beatmap :
  forall dist_of pre l post sec,
  rejected_after (fun v => Done (bmd_create v)) bm_parsers pre l sec ->
  decode_beatmap dist_of (pre ++ l :: post) = decode_beatmap dist_of (pre ++ post).
Proof. exact beatmap_rejected_absent. Qed.
Print Assumptions C06_beatmap.

(* "the section's line parser reports an error", for the Beatmap decoder, in
   terms of the section parsers themselves: the wrapper answers Rejected
   exactly when the parser it delegates to does (the state after any prefix
   is never a panic: C01) *)
Theorem C06_beatmap_rejects_iff :
  forall sec s l,
  snd (parser_of bm_parsers sec (Done s) l) = Rejected <-> bm_rejects sec s l.
Proof. exact bm_rejects_iff. Qed.
Print Assumptions C06_beatmap_rejects_iff.

Theorem C06_beatmap_state_never_panics :
  forall pre, exists s,
  state_after (fun v => Done (bmd_create v)) bm_parsers pre = Done s /\
  cp_sorted (tpd_cp (hod_tp (bmd_ho s))).
Proof. exact bm_state_ok. Qed.
Print Assumptions C06_beatmap_state_never_panics.

(* ------------------------------------------------------------------ *)
(* Examples (on dumps)                                                  *)

Definition ex_dist (_ : Z) (_ : list PCP) (e : option F64) : outcome F64 :=
  Done (match e with Some d => d | None => D.zero end).

(* the former D3 shape: a slider whose third path segment is malformed,
   followed by a valid slider that would observe residue *)
Definition ex_pre : list str := map lit ["osu file format v14"; "[HitObjects]"; "10,10,0,1,0"]%string.
Definition ex_bad : str := lit "1,1,50,2,0,B|100:100|L|200:0|P|x:0,1,300".
Definition ex_post : list str := map lit ["1,1,100,2,0,L|50:50,1,50"; "[Difficulty]"; "SliderMultiplier:1"]%string.

Example ex_bad_is_routed_and_rejected :
  rejected_after (fun v => Done (bmd_create v)) bm_parsers ex_pre ex_bad SecHitObjects.
Proof. vm_compute. repeat split; reflexivity. Qed.

(* the rejected slider does leave points in the scratch buffer ... *)
Example ex_scratch_residue :
  match fst (parser_of bm_parsers SecHitObjects
               (state_after (fun v => Done (bmd_create v)) bm_parsers ex_pre) ex_bad) with
  | Done s => length (hod_curve (bmd_ho s)) = 2%nat /\ length (hod_objects (bmd_ho s)) = 1%nat
  | _ => False
  end.
Proof. vm_compute. split; reflexivity. Qed.

(* ... and the decoded map is the same with and without the line (the
   instance of C06_beatmap, computed), with three objects resp. two *)
Example ex_deleting_the_line :
  dump_oc dump_bmv (decode_beatmap ex_dist (ex_pre ++ ex_bad :: ex_post))
  = dump_oc dump_bmv (decode_beatmap ex_dist (ex_pre ++ ex_post)) /\
  match decode_beatmap ex_dist (ex_pre ++ ex_post) with
  | Done bv => length (hov_hit_objects (bmv_ho bv)) = 2%nat
  | _ => False
  end.
Proof. vm_compute. split; reflexivity. Qed.

(* a rejected line in each of the other sections *)
Example ex_other_sections_reject :
  rejected_after (fun v => Done (bmd_create v)) bm_parsers (map lit ["[General]"]%string)
                 (lit "PreviewTime: x") SecGeneral /\
  rejected_after (fun v => Done (bmd_create v)) bm_parsers (map lit ["[Difficulty]"]%string)
                 (lit "ApproachRate:abc") SecDifficulty /\
  rejected_after (fun v => Done (bmd_create v)) bm_parsers (map lit ["[Events]"]%string)
                 (lit "2,x,5") SecEvents /\
  rejected_after (fun v => Done (bmd_create v)) bm_parsers (map lit ["[TimingPoints]"; "0,500"]%string)
                 (lit "20,NaN,4,1,0,100,1,0") SecTimingPoints /\
  rejected_after (fun v => Done (bmd_create v)) bm_parsers (map lit ["[Colours]"]%string)
                 (lit "Combo1: 1,2") SecColors /\
  rejected_after (fun v => Done (bmd_create v)) bm_parsers (map lit ["[Editor]"]%string)
                 (lit "GridSize: x") SecEditor.
Proof. vm_compute. repeat split; reflexivity. Qed.

(* an accepted line is *not* covered: deleting it changes the result *)
Example ex_accepted_line_matters :
  dump_oc dump_bmv (decode_beatmap ex_dist (ex_pre ++ lit "5,5,60,1,0" :: ex_post))
  <> dump_oc dump_bmv (decode_beatmap ex_dist (ex_pre ++ ex_post)).
Proof. vm_compute. discriminate. Qed.

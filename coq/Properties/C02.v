(* C02 -- decode -> encode -> decode returns the same map.
   (work in progress: statements are added below as they are proved) *)
From RM Require Import Model.Encode.
Open Scope Z_scope.

Example pin_version_prefix : Gen.Generated.version_prefix = "osu file format v"%string.
Proof. reflexivity. Qed.

(* C02 -- Decode -> encode -> decode returns the same map.

   "For every input whose timing-point and hit-object lines are in chronological
   order, decoding, encoding and decoding again yields the same map: identical
   general, editor, metadata (including positive ids), difficulty, background,
   break and colour fields, identical timing points, identical effective
   slider-velocity / kiai / scroll-speed timelines, and the same hit objects
   (...).  Only what the legacy text format cannot carry is excluded: default
   sample bank/volume, non-positive ids and countdown offset, special style
   outside mania, per-sample volume / custom-bank index / suffix / layering
   flag, tick suppression from NaN beat lengths, and consecutive explicit
   Catmull segments."

   The round trip is proved compositionally.  The framing theorem (C05,
   T05a) routes every body line of the encoder's output to the parser of its
   section (C04_shape, C04_headers_once_in_order, C04_body_lines_routed), which
   leaves one obligation per section.  This file discharges the six simple
   sections in full (T02a) and keeps the remaining obligations visible with
   their status.  Statements only, each closed by [exact].

   [read_back m] (Model/EncSpec.v) is DESIGN's [carry] on the simple sections:
   the record itself minus what the format cannot carry (SampleSet from the
   first sample point, default sample volume, non-positive ids and countdown
   offset, special style outside mania). *)
From RM Require Import Model.EncSpec Proofs.EncFmt Proofs.EncSimple Proofs.EncImage Proofs.EncEdit Proofs.EncRound.
From RM Require Import Model.EncPathSpec Model.HitObjectSpec Proofs.EncPathRT Proofs.EncPathImage Proofs.EncPathExamples.
From RM Require Import Model.EncObjCarry Proofs.EncObjTimes Proofs.EncObjectsRT Proofs.Enc3Times.
From RM Require Import Model.EncTimingSpec Proofs.ControlPointsFacts Proofs.EncTimingParse
  Proofs.EncCollect Proofs.EncGroups Proofs.EncTimingInv Proofs.EncTimingRT Proofs.EncTimingExample Proofs.EncTimingImage
  Proofs.TimingPointsValues.
From RM Require Import Proofs.Enc2Values Proofs.Enc2Samples Proofs.Enc2Float Proofs.Enc2Timing Proofs.Enc2Slider Proofs.Enc2Examples.
From RM Require Proofs.Enc2SvReal.
From RM Require Import Proofs.Enc2SvRT Proofs.Enc2Framing Proofs.Enc2SampleShape.
From RM Require Import Proofs.Enc3Framing Proofs.Enc3Timing Proofs.Enc3Nodes Proofs.Enc3Objects Proofs.Enc3Chrono Proofs.Enc3NodeInv Proofs.Enc3Map Proofs.Enc3Example.
From RM Require Import Proofs.MapLevelFacts.
From RM Require Import Proofs.Enc4Inv Proofs.Enc4Times Proofs.Enc4Map Proofs.Enc4Stored.
From Coq Require Sorting.Sorted.
From Coq Require Reals.
From RM Require Model.Curve.
From RM Require Import Model.DrvEnc Proofs.EncMapImage.
From RM Require Import Gen.Generated.
Open Scope Z_scope.

(* ---------- pins ---------- *)

Example pin_defaults : default_beatmap_id = -1 /\ default_sample_volume = 100 /\ default_countdown = 1.
Proof. repeat split; reflexivity. Qed.
Example pin_limits : max_parse_value = 2147483647 /\ max_coordinate_value = 131072.
Proof. split; reflexivity. Qed.
Example pin_scroll_modes : tp_scroll_modes = [1; 3].     (* taiko, mania: D12 *)
Proof. reflexivity. Qed.
Example pin_path_letters : path_letter_bspline = 66 /\ path_letter_linear = 76 /\ path_letter_perfect = 80.
Proof. repeat split; reflexivity. Qed.

(* ---------- T02a [F]: general, editor, metadata, difficulty, events, colours ---------- *)

(* For EVERY input (chronological or not, hostile or not): if the decoded map is outside
   D23, then each of the six encoded sections, parsed from the decoder's initial state,
   yields the section of [read_back m].  With C04's shape / routing theorems and C05's
   framing theorem this is "identical general, editor, metadata (including positive ids),
   difficulty, background, break and colour fields". *)
Theorem C02_simple_sections_round_trip :
  forall fmt_f64 fmt_f32 fmt_int, fmt_ok fmt_f64 fmt_f32 fmt_int ->
  forall dist lines m,
  Forall no_lf_line lines -> decode_beatmap dist lines = Done m -> d23_class m = false ->
  sections_read_back fmt_f64 fmt_f32 fmt_int m.
Proof.
  intros f64 f32 fi Hfmt dist lines m Hl H Hd.
  exact (decoded_sections_read_back f64 f32 fi Hfmt dist lines m Hl H Hd).
Qed.
Print Assumptions C02_simple_sections_round_trip.

(* T02a composed with the framing theorem (C05 T05a: decode = route lines to section parsers) and
   the projection theorems (C07): ONE statement about decoding the lines of an encoding.  For every
   decoded map m outside D23, every line list ls the encoder produces for it, every formatting
   function satisfying [fmt_ok] and whatever the curve function of the second decode: if the
   second decode succeeds, its format version, general, editor, metadata, difficulty, events
   (background, breaks) and colour sections are those of [read_back m].  (The lines are the
   decoder's line list `map render ls`; the byte / text layer is C08 / C10.) *)
Theorem C02_decode_of_encoding_simple_sections :
  forall fmt_f64 fmt_f32 fmt_int, fmt_ok fmt_f64 fmt_f32 fmt_int ->
  forall dist events lines m ls dist2 m2,
  Forall no_lf_line lines -> decode_beatmap dist lines = Done m -> d23_class m = false ->
  encode_lines dist events m = Done ls ->
  decode_beatmap dist2 (map (render fmt_f64 fmt_f32 fmt_int) ls) = Done m2 ->
  bmv_version m2 = bmv_version m /\
  hov_general (bmv_ho m2) = hov_general (bmv_ho (read_back m)) /\
  bmv_editor m2 = bmv_editor (read_back m) /\
  bmv_metadata m2 = bmv_metadata (read_back m) /\
  hov_difficulty (bmv_ho m2) = hov_difficulty (bmv_ho (read_back m)) /\
  hov_events (bmv_ho m2) = hov_events (bmv_ho (read_back m)) /\
  bmv_colors m2 = bmv_colors (read_back m).
Proof.
  intros f64 f32 fi Hfmt dist events lines m ls dist2 m2 Hl Hd H23 He Hd2.
  exact (decoded_encoding_simple_sections f64 f32 fi Hfmt dist events lines m ls dist2 m2 Hl Hd H23 He Hd2).
Qed.
Print Assumptions C02_decode_of_encoding_simple_sections.

(* how the framing specification routes the lines of an encoding: the version line gives the
   version, each body line goes to the parser of its section, nothing else is routed *)
Theorem C02_encoding_is_routed :
  forall fmt_f64 fmt_f32 fmt_int, fmt_ok fmt_f64 fmt_f32 fmt_int ->
  forall dist events m ls,
  encode_lines dist events m = Done ls -> i32_ok (bmv_version m) = true -> colors_ok (bmv_colors m) = true ->
  exists tp ho,
    let h := bmv_ho m in
    let rl := render fmt_f64 fmt_f32 fmt_int in
    version_of (map rl ls) = bmv_version m /\
    route should_skip_line None (body_of (map rl ls)) =
      tag SecGeneral (map rl (body (enc_general (hov_general h) (hov_control_points h)))) ++
      tag SecEditor (map rl (body (enc_editor (bmv_editor m)))) ++
      tag SecMetadata (map rl (body (enc_metadata (bmv_metadata m)))) ++
      tag SecDifficulty (map rl (body (enc_difficulty (hov_difficulty h)))) ++
      tag SecEvents (map rl (body (enc_events (hov_events h)))) ++
      tag SecTimingPoints (map rl tp) ++
      tag SecColors (map rl (body (enc_colors (bmv_colors m)))) ++
      tag SecHitObjects (map rl ho).
Proof. intros f64 f32 fi Hfmt dist events m ls H Hv Hc. exact (route_encoding f64 f32 fi Hfmt dist events m ls H Hv Hc). Qed.
Print Assumptions C02_encoding_is_routed.

(* what [read_back] keeps: positive ids and offsets, the special style in mania *)
Theorem C02_read_back_keeps_positive_ids :
  forall m, 0 < m_beatmap_id (bmv_metadata m) -> 0 < m_beatmap_set_id (bmv_metadata m) ->
  m_beatmap_id (bmv_metadata (read_back m)) = m_beatmap_id (bmv_metadata m) /\
  m_beatmap_set_id (bmv_metadata (read_back m)) = m_beatmap_set_id (bmv_metadata m).
Proof. exact read_back_ids. Qed.
Print Assumptions C02_read_back_keeps_positive_ids.

(* ---------- a complete model-level round trip, on a concrete file ---------- *)
(* All sections, a same-time inherited line, kiai, mania samples, a circle, a hold and a
   spinner: decode, encode, render, decode -- the second map is [read_back] of the first,
   control points and hit objects included (comparison of the canonical dumps). *)
Theorem C02_example_round_trip :
  match round_trip plain_text with
  | Done (m1, m2) => dump_bmv (read_back m1) = dump_bmv m2 /\ length (hov_hit_objects (bmv_ho m1)) = 3%nat
  | _ => False
  end.
Proof. exact plain_round_trip. Qed.
Print Assumptions C02_example_round_trip.

(* ---------- known classes: witnesses on the model ---------- *)
(* [round_trip]: decode, encode, render with the reference printer (exact on the
   integer-valued numbers these inputs contain), decode. *)

(* D12: taiko / mania, inherited multiplier below 0.1: scroll speed 0.01 comes back as 0.1 *)
Theorem C02_scroll_speed_refuted :
  match round_trip d12_text with
  | Done (m1, m2) => scroll_bits m1 = [D.bits (D.of_decimal false 1 (-2))] /\
                     scroll_bits m2 = [D.bits (D.of_decimal false 1 (-1))]
  | _ => False
  end.
Proof. exact d12_witness. Qed.
Print Assumptions C02_scroll_speed_refuted.

(* D13: a Catmull segment whose first two control points coincide loses a control point *)
Theorem C02_catmull_duplicate_refuted :
  match round_trip d13_text with Done (m1, m2) => cps_count m1 = [3] /\ cps_count m2 = [2] | _ => False end.
Proof. exact d13_witness. Qed.
Print Assumptions C02_catmull_duplicate_refuted.

(* D17: a one-point segment repeating the previous segment's type gains a control point *)
Theorem C02_repeated_type_segment_refuted :
  match round_trip d17_text with Done (m1, m2) => cps_count m1 = [9] /\ cps_count m2 = [10] | _ => False end.
Proof. exact d17_witness. Qed.
Print Assumptions C02_repeated_type_segment_refuted.

(* D22: the Mode record follows the timing points: the scroll speed only appears on re-read *)
Theorem C02_mode_after_timing_points_refuted :
  match round_trip d22_text with
  | Done (m1, m2) => scroll_bits m1 = [] /\ scroll_bits m2 = [D.bits (D.of_Z 2)]
  | _ => False
  end.
Proof. exact d22_witness. Qed.
Print Assumptions C02_mode_after_timing_points_refuted.

(* D23: see C04_file_name_misread_refuted (the exception of T02a). *)

(* ---------- T02c: slider path strings ---------- *)
(* Vocabulary (Model/EncPathSpec.v).  [path_image pos cps]: integer coordinates, within
   +-131072 after adding the slider position (so [pos.x + point.x] in f32 and the `as i32`
   casts are exact: Proofs/EncPathFloat.v), first point typed and at the origin, representable
   path types, the perfect-curve rule, the duplicate rule.  [d13_class] / [d17_class]: the
   recorded classes of the known findings D13 / D17; [consec_catmull]: the class the property
   text itself excludes.  Besides [fmt_ok], one more fact about `Display` is assumed:
   [fmt_f32_int] -- an integer-valued f32 prints like the integer (the coordinates are written
   as f32 and read back as f64). *)

(* For EVERY control-point list of the decoder's image outside the three classes, the path
   tokens of add_path_data, rendered, are the path field [s] followed by ','; [s] holds no
   comma and no character the line reader treats specially, and the decoder's
   convert_path_str converts it back to exactly the control points. *)
Theorem C02_path_round_trip :
  forall fmt_f64 fmt_f32 fmt_int, fmt_ok fmt_f64 fmt_f32 fmt_int -> fmt_f32_int fmt_f32 fmt_int ->
  forall pos cps,
  path_image pos cps = true ->
  d13_class cps = false -> d17_class cps = false -> consec_catmull cps = false ->
  exists s, render fmt_f64 fmt_f32 fmt_int (path_toks pos cps) = s ++ [comma] /\ memb comma s = false /\
            forallb safec s = true /\
            path_spec s pos = (cps, true) /\
            forall vs, exists vs', convert_path_str (mkPB [] vs) s pos = Done (mkPB cps vs', Ok).
Proof. intros f64 f32 fi Hfmt H32 pos cps H1 H2 H3 H4. exact (path_round_trip f64 f32 fi Hfmt H32 pos cps H1 H2 H3 H4). Qed.
Print Assumptions C02_path_round_trip.

(* the domain is the decoder's image: whatever the path string, the control points that
   convert_path_str produces for a slider at a decoded position satisfy [path_image] *)
Theorem C02_path_image_is_decoder_image :
  forall pos s vs cps vs',
  coord_ok (px pos) = true -> coord_ok (py pos) = true ->
  convert_path_str (mkPB [] vs) s pos = Done (mkPB cps vs', Ok) -> path_image pos cps = true.
Proof. exact convert_path_str_image. Qed.
Print Assumptions C02_path_image_is_decoder_image.

(* non-vacuity: decoded sliders with an implicit Bezier segment (duplicated point), an explicit
   perfect curve, a repeated last point, Catmull, B-spline degrees and a single-point path are in
   the image and outside the classes; their control points survive the model round trip *)
Theorem C02_paths_example :
  match round_trip paths_text with
  | Done (m1, m2) =>
      path_facts m1 = [(true, false, false, false); (true, false, false, false);
                       (true, false, false, false); (true, false, false, false)] /\
      map (fun l => hd 0 l) (cps_dump m1) = [7; 5; 1; 5] /\
      cps_dump m2 = cps_dump m1
  | _ => False
  end.
Proof. exact paths_example. Qed.

(* the recorded inputs of D13 / D17 and a pair of explicit Catmull segments lie in their classes
   (and in the image): the exclusions are not vacuous *)
Theorem C02_d13_input_in_class :
  match round_trip d13_text with Done (m1, _) => path_facts m1 = [(true, true, false, false)] | _ => False end.
Proof. exact d13_in_class. Qed.
Theorem C02_d17_input_in_class :
  match round_trip d17_text with Done (m1, _) => path_facts m1 = [(true, false, true, false)] | _ => False end.
Proof. exact d17_in_class. Qed.
Theorem C02_consecutive_catmull_refuted :
  match round_trip cc_text with
  | Done (m1, m2) => path_facts m1 = [(true, false, false, true)] /\
                     map (fun l => hd 0 l) (cps_dump m1) = [5] /\ map (fun l => hd 0 l) (cps_dump m2) = [6]
  | _ => False
  end.
Proof. exact cc_in_class. Qed.

(* ---------- T02b: hit-object lines of circles, spinners and holds ---------- *)

(* the object the decoder reads from the encoder's line, exactly, in every parser state *)
Theorem C02_object_line_reread :
  forall fmt_f64 fmt_f32 fmt_int, fmt_ok fmt_f64 fmt_f32 fmt_int ->
  forall dist mode h l, object_ok h = true -> object_line dist mode h = Done l ->
  forall st, parse_hit_objects st (render fmt_f64 fmt_f32 fmt_int l) = Done (push st (reread_object st mode h), Ok).
Proof. intros f64 f32 fi Hfmt dist mode h l H1 H2. exact (object_line_reread f64 f32 fi Hfmt dist mode h l H1 H2). Qed.
Print Assumptions C02_object_line_reread.

Theorem C02_circle_line_round_trip :
  forall fmt_f64 fmt_f32 fmt_int, fmt_ok fmt_f64 fmt_f32 fmt_int ->
  forall dist mode h c l,
  h_kind h = KCircle c -> object_ok h = true -> samples_image (h_samples h) = true ->
  object_line dist mode h = Done l ->
  forall st, exists st' o,
    parse_hit_objects st (render fmt_f64 fmt_f32 fmt_int l) = Done (st', Ok) /\ st' = push st o /\
    ho_objects st' = ho_objects st ++ [o] /\
    carry_object o =
      carry_object (mkHObj (h_start h)
                           (KCircle (mkCircle (ci_pos c) (forced_new_combo st (ci_new_combo c))
                                              (if ci_new_combo c then ci_combo_offset c else 0)))
                           (h_samples h)) /\
    (combo_kept st c = true -> carry_object o = carry_object h).
Proof. intros f64 f32 fi Hfmt dist mode h c l H1 H2 H3 H4. exact (circle_line_round_trip f64 f32 fi Hfmt dist mode h c l H1 H2 H3 H4). Qed.
Print Assumptions C02_circle_line_round_trip.

Theorem C02_spinner_line_round_trip :
  forall fmt_f64 fmt_f32 fmt_int, fmt_ok fmt_f64 fmt_f32 fmt_int ->
  forall dist mode h s l,
  h_kind h = KSpinner s -> object_ok h = true -> samples_image (h_samples h) = true ->
  spinner_time_ok (h_start h) (sp_duration s) ->
  object_line dist mode h = Done l ->
  forall st, exists st' o,
    parse_hit_objects st (render fmt_f64 fmt_f32 fmt_int l) = Done (st', Ok) /\ st' = push st o /\
    ho_objects st' = ho_objects st ++ [o] /\ carry_object o = carry_object h.
Proof. intros f64 f32 fi Hfmt dist mode h s l H1 H2 H3 H4 H5. exact (spinner_line_round_trip f64 f32 fi Hfmt dist mode h s l H1 H2 H3 H4 H5). Qed.
Print Assumptions C02_spinner_line_round_trip.

Theorem C02_hold_line_round_trip :
  forall fmt_f64 fmt_f32 fmt_int, fmt_ok fmt_f64 fmt_f32 fmt_int ->
  forall dist mode h hd l,
  h_kind h = KHold hd -> object_ok h = true -> samples_image (h_samples h) = true ->
  hold_time_ok (h_start h) (hd_duration hd) ->
  object_line dist mode h = Done l ->
  forall st, exists st' o,
    parse_hit_objects st (render fmt_f64 fmt_f32 fmt_int l) = Done (st', Ok) /\ st' = push st o /\
    ho_objects st' = ho_objects st ++ [o] /\ carry_object o = carry_object h.
Proof. intros f64 f32 fi Hfmt dist mode h hd l H1 H2 H3 H4 H5. exact (hold_line_round_trip f64 f32 fi Hfmt dist mode h hd l H1 H2 H3 H4 H5). Qed.
Print Assumptions C02_hold_line_round_trip.

(* sample names, banks and bank-given flags: the written list vs. the re-read list, also after the
   second decode has applied a sample point *)
Theorem C02_sample_names_banks_round_trip :
  forall mode p l, samples_image l = true ->
  carry_samples (reread_samples mode l) = carry_samples l /\
  carry_samples (map (sp_apply p) (reread_samples mode l)) = carry_samples l.
Proof. intros mode p l H. exact (conj (reread_carry mode l H) (reread_apply_carry mode p l H)). Qed.
Print Assumptions C02_sample_names_banks_round_trip.

(* the decoder's image *)
Theorem C02_decoder_sample_shape :
  forall b b' fields banks_only sound p,
  bank_info_ok b = true -> read_custom_sample_banks b fields banks_only = Some b' ->
  bank_info_ok b' = true /\ samples_shape (convert_sound_type b' sound) = true /\
  (bank13 (sp_bank p) = true -> samples_image (map (sp_apply p) (convert_sound_type b' sound)) = true).
Proof.
  intros b b' fields bo sound p Hb H. pose proof (read_banks_ok b fields bo b' Hb H) as Hb'.
  exact (conj Hb' (conj (convert_samples_shape b' sound Hb') (processed_samples_image b' sound p Hb'))).
Qed.
Print Assumptions C02_decoder_sample_shape.

Theorem C02_parse_line_image :
  forall st line st' r, Forall line_inv (ho_objects st) -> parse_hit_objects st line = Done (st', r) ->
  Forall line_inv (ho_objects st') /\ Forall (fun h => line_image h = true) (ho_objects st').
Proof. intros st line st' r H1 H2. exact (conj (parse_line_inv st line st' r H1 H2) (parse_line_image st line st' r H1 H2)). Qed.
Print Assumptions C02_parse_line_image.

Theorem C02_processed_object_image :
  forall dist c sm mode h h', line_inv h ->
  (forall p, In p (cp_sample c) -> bank13 (sp_bank p) = true) ->
  process_object dist c sm mode h = Done h' ->
  kind_image (h_kind h') = true /\ samples_image (h_samples h') = true.
Proof. exact processed_object_inv. Qed.
Print Assumptions C02_processed_object_image.

(* ---------- T02b on decoded maps: the hypotheses discharged ---------- *)

(* [kind_image] and [samples_image] hold of every hit object of every decoded map (every sample
   point of a decoded map carries a real bank: the decoder replaces None by Normal) *)
Theorem C02_decoded_objects_shape :
  forall dist_of lines m,
  Forall no_lf_line lines -> decode_beatmap dist_of lines = Done m ->
  Forall (fun h => kind_image (h_kind h) = true /\ samples_image (h_samples h) = true) (hov_hit_objects (bmv_ho m)).
Proof. exact decoded_objects_shape. Qed.
Print Assumptions C02_decoded_objects_shape.

(* [object_ok] holds of every circle, spinner and hold of every decoded map outside D30 (sample file
   name ending in white space) and D26 (end time beyond the parse limit) *)
Theorem C02_decoded_object_ok :
  forall dist_of lines m h,
  Forall no_lf_line lines -> decode_beatmap dist_of lines = Done m -> In h (hov_hit_objects (bmv_ho m)) ->
  (match h_kind h with KSlider _ => False | _ => True end) ->
  d30_class h = false -> d26_class h = false -> object_ok h = true.
Proof. exact decoded_object_ok. Qed.
Print Assumptions C02_decoded_object_ok.

(* T02b for the circles of decoded maps: NO hypothesis beyond the class D30 *)
Theorem C02_decoded_circle_round_trip :
  forall dist_of fmt_f64 fmt_f32 fmt_int, fmt_ok fmt_f64 fmt_f32 fmt_int ->
  forall lines m mode h c l,
  Forall no_lf_line lines -> decode_beatmap dist_of lines = Done m -> In h (hov_hit_objects (bmv_ho m)) ->
  h_kind h = KCircle c -> d30_class h = false -> object_line dist_of mode h = Done l ->
  forall st, exists st' o,
    parse_hit_objects st (render fmt_f64 fmt_f32 fmt_int l) = Done (st', Ok) /\ st' = push st o /\
    ho_objects st' = ho_objects st ++ [o] /\
    carry_object o =
      carry_object (mkHObj (h_start h)
                           (KCircle (mkCircle (ci_pos c) (forced_new_combo st (ci_new_combo c))
                                              (if ci_new_combo c then ci_combo_offset c else 0)))
                           (h_samples h)) /\
    (combo_kept st c = true -> carry_object o = carry_object h).
Proof.
  intros dist f64 f32 fi Hfmt lines m mode h c l H1 H2 H3 H4 H5 H6.
  exact (decoded_circle_round_trip dist f64 f32 fi Hfmt lines m mode h c l H1 H2 H3 H4 H5 H6).
Qed.
Print Assumptions C02_decoded_circle_round_trip.

(* ... for spinners and holds: outside D30 and D26, and with the float side condition on
   start + duration - start (proved for integer-valued times below) *)
Theorem C02_decoded_spinner_round_trip_partial :
  forall dist_of fmt_f64 fmt_f32 fmt_int, fmt_ok fmt_f64 fmt_f32 fmt_int ->
  forall lines m mode h s l,
  Forall no_lf_line lines -> decode_beatmap dist_of lines = Done m -> In h (hov_hit_objects (bmv_ho m)) ->
  h_kind h = KSpinner s -> d30_class h = false -> d26_class h = false ->
  spinner_time_ok (h_start h) (sp_duration s) -> object_line dist_of mode h = Done l ->
  forall st, exists st' o,
    parse_hit_objects st (render fmt_f64 fmt_f32 fmt_int l) = Done (st', Ok) /\ st' = push st o /\
    ho_objects st' = ho_objects st ++ [o] /\ carry_object o = carry_object h.
Proof.
  intros dist f64 f32 fi Hfmt lines m mode h s l H1 H2 H3 H4 H5 H6 H7 H8.
  exact (decoded_spinner_round_trip dist f64 f32 fi Hfmt lines m mode h s l H1 H2 H3 H4 H5 H6 H7 H8).
Qed.
Print Assumptions C02_decoded_spinner_round_trip_partial.

Theorem C02_decoded_hold_round_trip_partial :
  forall dist_of fmt_f64 fmt_f32 fmt_int, fmt_ok fmt_f64 fmt_f32 fmt_int ->
  forall lines m mode h hd l,
  Forall no_lf_line lines -> decode_beatmap dist_of lines = Done m -> In h (hov_hit_objects (bmv_ho m)) ->
  h_kind h = KHold hd -> d30_class h = false -> d26_class h = false ->
  hold_time_ok (h_start h) (hd_duration hd) -> object_line dist_of mode h = Done l ->
  forall st, exists st' o,
    parse_hit_objects st (render fmt_f64 fmt_f32 fmt_int l) = Done (st', Ok) /\ st' = push st o /\
    ho_objects st' = ho_objects st ++ [o] /\ carry_object o = carry_object h.
Proof.
  intros dist f64 f32 fi Hfmt lines m mode h hd l H1 H2 H3 H4 H5 H6 H7 H8.
  exact (decoded_hold_round_trip dist f64 f32 fi Hfmt lines m mode h hd l H1 H2 H3 H4 H5 H6 H7 H8).
Qed.
Print Assumptions C02_decoded_hold_round_trip_partial.

(* integer-valued times (PARTIAL: the general IEEE statement is FALSE -- C02_times_ok_refuted below,
   known finding D33; wider classes: C02_times_ok_exact_difference, C02_times_ok_grid) *)
Theorem C02_times_ok_partial :
  forall a b, Z.abs a < 2 ^ 53 -> 0 <= b < 2 ^ 53 -> Z.abs (a + b) < 2 ^ 53 ->
  spinner_time_ok (D.of_Z a) (D.of_Z b) /\ hold_time_ok (D.of_Z a) (D.of_Z b).
Proof. exact decoded_times_ok_partial. Qed.
Print Assumptions C02_times_ok_partial.

(* The FULL statement of the time condition -- for all start / end times the line reader accepts,
   with [spinner_dur s e] = (e - s).max(0.0) and [hold_dur s e] = max(s, e) - s the durations the
   decoder stores:

     forall s e, in_lim64 s = true -> in_lim64 e = true ->
       spinner_time_ok s (spinner_dur s e) /\ hold_time_ok s (hold_dur s e)

   is FALSE (known finding D33, confirmed on the crate: probes/D33_probe).  Start 2^-43, end
   1024 + 2^-42: the stored duration is 1024 (end - start is a half-ulp tie), the written end is
   1024, the duration read back is 1023.9999999999999, for the spinner and for the hold. *)
Theorem C02_times_ok_refuted :
  exists s e,
    in_lim64 s = true /\ in_lim64 e = true /\
    D.bits s = 4413527634823086080 /\ D.bits e = 4652218415073722369 /\
    D.bits (spinner_dur s e) = 4652218415073722368 /\ D.bits (hold_dur s e) = 4652218415073722368 /\
    D.bits (f64_max_lit (D.sub (D.add s (spinner_dur s e)) s) D.zero) = 4652218415073722367 /\
    D.bits (D.sub (D.max s (D.add s (hold_dur s e))) s) = 4652218415073722367 /\
    ~ spinner_time_ok s (spinner_dur s e) /\ ~ hold_time_ok s (hold_dur s e).
Proof. exact times_ok_refuted. Qed.
Print Assumptions C02_times_ok_refuted.

(* what IS true, for all binary64 times: the duration survives whenever the end the encoder writes
   is the end that was read ... *)
Theorem C02_times_ok_of_end :
  forall s e,
  (D.add s (spinner_dur s e) = e -> spinner_time_ok s (spinner_dur s e)) /\
  (D.add s (hold_dur s e) = e -> D.lt s e = true -> hold_time_ok s (hold_dur s e)).
Proof. exact times_ok_of_end. Qed.
Print Assumptions C02_times_ok_of_end.

(* ... and whenever end - start is a binary64 number (no rounding in the decoder's subtraction).
   Left open between this class and D33: pairs whose difference is rounded but whose duration
   still survives (the common case for fractional times; the oracle checks each one). *)
Theorem C02_times_ok_exact_difference :
  forall s e, in_lim64 s = true -> in_lim64 e = true ->
  Generic_fmt.generic_format Zaux.radix2 (SpecFloat.fexp 53 1024) (Rdefinitions.Rminus (B2R e) (B2R s)) ->
  spinner_time_ok s (spinner_dur s e) /\ hold_time_ok s (hold_dur s e).
Proof. exact times_ok_exact. Qed.
Print Assumptions C02_times_ok_exact_difference.

(* in particular: both times multiples of 2^-k, difference below 2^(53-k); k = 0: whole
   milliseconds within the parse limits; every pair of accepted times on the 2^-21 ms grid *)
Theorem C02_times_ok_grid :
  forall k a b s e,
  0 <= k <= 1074 -> in_lim64 s = true -> in_lim64 e = true ->
  B2R s = Rdefinitions.Rmult (Rdefinitions.IZR a) (Raux.bpow Zaux.radix2 (- k)) ->
  B2R e = Rdefinitions.Rmult (Rdefinitions.IZR b) (Raux.bpow Zaux.radix2 (- k)) ->
  Z.abs (b - a) < 2 ^ 53 ->
  spinner_time_ok s (spinner_dur s e) /\ hold_time_ok s (hold_dur s e).
Proof. exact times_ok_grid. Qed.
Print Assumptions C02_times_ok_grid.

Theorem C02_times_ok_whole_milliseconds :
  forall a b, Z.abs a <= max_parse_value -> Z.abs b <= max_parse_value ->
  spinner_time_ok (D.of_Z a) (spinner_dur (D.of_Z a) (D.of_Z b)) /\
  hold_time_ok (D.of_Z a) (hold_dur (D.of_Z a) (D.of_Z b)).
Proof. exact times_ok_whole. Qed.
Print Assumptions C02_times_ok_whole_milliseconds.

Theorem C02_times_ok_grid21 :
  forall a b s e, in_lim64 s = true -> in_lim64 e = true ->
  B2R s = Rdefinitions.Rmult (Rdefinitions.IZR a) (Raux.bpow Zaux.radix2 (- 21)) ->
  B2R e = Rdefinitions.Rmult (Rdefinitions.IZR b) (Raux.bpow Zaux.radix2 (- 21)) ->
  spinner_time_ok s (spinner_dur s e) /\ hold_time_ok s (hold_dur s e).
Proof. exact times_ok_grid21. Qed.
Print Assumptions C02_times_ok_grid21.

(* Sterbenz: an end within a factor two of the start -- the object does not last longer than the time
   at which it starts, i.e. every spinner / hold except at the very beginning of a map -- has an
   exact difference, whatever the fractional digits *)
Theorem C02_times_ok_sterbenz :
  forall s e, in_lim64 s = true -> in_lim64 e = true ->
  Rdefinitions.Rle (Rdefinitions.Rdiv (B2R s) (Rdefinitions.IZR 2)) (B2R e) /\
  Rdefinitions.Rle (B2R e) (Rdefinitions.Rmult (Rdefinitions.IZR 2) (B2R s)) ->
  spinner_time_ok s (spinner_dur s e) /\ hold_time_ok s (hold_dur s e).
Proof. exact times_ok_sterbenz. Qed.
Print Assumptions C02_times_ok_sterbenz.

Theorem C02_int_end_in_limit :
  forall a b, Z.abs a < 2 ^ 53 -> Z.abs b < 2 ^ 53 -> Z.abs (a + b) <= max_parse_value ->
  in_lim64 (D.add (D.of_Z a) (D.of_Z b)) = true.
Proof. exact int_end_in_limit. Qed.
Print Assumptions C02_int_end_in_limit.

(* NEW finding: the end time start + duration can exceed the parse limit by rounding; the line is
   then rejected in every state, for every formatter: the decoded object is lost *)
Theorem C02_end_beyond_limit_rejected :
  forall fmt_f64 fmt_f32 fmt_int, fmt_ok fmt_f64 fmt_f32 fmt_int ->
  forall dist mode h l, end_beyond_limit h = true -> object_line dist mode h = Done l ->
  forall st, parse_hit_objects st (render fmt_f64 fmt_f32 fmt_int l) = Done (st, Rejected).
Proof. intros f64 f32 fi Hfmt dist mode h l H1 H2. exact (end_beyond_limit_rejected f64 f32 fi Hfmt dist mode h l H1 H2). Qed.
Print Assumptions C02_end_beyond_limit_rejected.

Theorem C02_decoded_end_beyond_limit_refuted :
  exists text m, decode_beatmap stub_dist (lines_of_text text) = Done m /\
  hov_hit_objects (bmv_ho m) <> [] /\
  forall fmt_f64 fmt_f32 fmt_int, fmt_ok fmt_f64 fmt_f32 fmt_int ->
  forall h, In h (hov_hit_objects (bmv_ho m)) ->
  forall dist mode l, object_line dist mode h = Done l ->
  forall st, parse_hit_objects st (render fmt_f64 fmt_f32 fmt_int l) = Done (st, Rejected).
Proof. exact decoded_end_beyond_limit_refuted. Qed.
Print Assumptions C02_decoded_end_beyond_limit_refuted.

(* non-vacuity on decoded objects *)
Theorem C02_decoded_objects_round_trip_example :
  match decode_beatmap stub_dist (lines_of_text rt_text) with
  | Done m =>
      let objs := hov_hit_objects (bmv_ho m) in
      let mode := g_mode (hov_general (bmv_ho m)) in
      map (fun h => kind_tag (h_kind h)) objs = [0; 0; 0; 0; 2; 3] /\
      forallb object_ok objs = true /\
      forallb (fun h => samples_image (h_samples h)) objs = true /\
      forallb (fun h => kind_image (h_kind h)) objs = true /\
      forallb time_check objs = true /\
      map (fun h => Z.of_nat (length (h_samples h))) objs = [4; 3; 3; 2; 2; 2] /\
      map (reparse (st_mid mode) mode) (tl objs) = map (fun h => dump_object (carry_object h)) (tl objs) /\
      map (reparse (ho_create mode) mode) (firstn 1 objs) = map (fun h => dump_object (carry_object h)) (firstn 1 objs)
  | _ => False
  end.
Proof. exact decoded_objects_round_trip. Qed.
Print Assumptions C02_decoded_objects_round_trip_example.

(* ---------- T02d (a): collect_samples ---------- *)

Theorem C02_collect_samples_only_adds_sample_points :
  forall dist_of events_of mode version tick mult c0 objs c,
  collect_samples dist_of events_of mode version tick mult c0 objs = Done c ->
  cp_timing c = cp_timing c0 /\ cp_difficulty c = cp_difficulty c0 /\ cp_effect c = cp_effect c0.
Proof. exact collect_samples_frame. Qed.
Print Assumptions C02_collect_samples_only_adds_sample_points.

Theorem C02_collect_samples_sorted :
  forall dist_of events_of mode version tick mult c0 objs collected,
  cp_sorted c0 -> all_object_samples dist_of events_of mode version tick mult c0 objs = Done collected ->
  exists c, collect_samples dist_of events_of mode version tick mult c0 objs = Done c /\ cp_sorted c /\
            sample_from c0 collected c.
Proof. exact collect_samples_sorted. Qed.
Print Assumptions C02_collect_samples_sorted.

Theorem C02_collect_samples_plain :
  forall dist_of events_of mode version tick mult c0 objs collected,
  objects_plain objs = true -> all_object_samples dist_of events_of mode version tick mult c0 objs = Done collected ->
  forallb sp_plain collected = true /\
  collect_samples dist_of events_of mode version tick mult c0 objs =
    match ssort sp_key collected with
    | [] => Done c0
    | s :: _ => add_sample c0 s
    end.
Proof. exact collect_samples_plain. Qed.
Print Assumptions C02_collect_samples_plain.

Theorem C02_collect_samples_plain_unchanged :
  forall dist_of events_of mode version tick mult c0 objs collected,
  cp_sorted c0 -> objects_plain objs = true ->
  all_object_samples dist_of events_of mode version tick mult c0 objs = Done collected ->
  (forall s, hd_error (ssort sp_key collected) = Some s ->
             exists e, last_not_after sp_time (cp_sample c0) (sp_time s) = Some e /\ sp_plain e = true) ->
  collect_samples dist_of events_of mode version tick mult c0 objs = Done c0.
Proof. exact collect_samples_plain_unchanged. Qed.
Print Assumptions C02_collect_samples_plain_unchanged.

(* ---------- T02d (b): groups and written lines ---------- *)

Theorem C02_timing_groups :
  forall c, cp_sorted c ->
  groups_inv c (groups_of c) /\
  (forall t, In t (cp_times c) -> exists g, In g (groups_of c) /\ K gr_time g = D.key t) /\
  (forall g, In g (groups_of c) -> In (gr_time g) (cp_times c)).
Proof. exact groups_of_spec. Qed.
Print Assumptions C02_timing_groups.

Theorem C02_timing_lines_written :
  forall c, cp_sorted c -> forall gs last,
  group_lines c last gs = Done (flat_map block_lines (group_decisions c last gs)).
Proof. exact group_lines_decisions. Qed.
Print Assumptions C02_timing_lines_written.

Theorem C02_timing_section_records :
  forall dist_of events_of m c,
  enc_control_points dist_of events_of m = Done c -> cp_sorted c ->
  enc_timing_points dist_of events_of m = Done (header_tok SecTimingPoints :: map wrec_line (enc_records c)).
Proof. exact enc_timing_points_records. Qed.
Print Assumptions C02_timing_section_records.

(* ---------- T02d (c): reading the lines back ---------- *)

Theorem C02_timing_line_reads_back :
  forall fmt_f64 fmt_f32 fmt_int, fmt_ok fmt_f64 fmt_f32 fmt_int -> no_leading_zero fmt_int ->
  forall time beat p tc g, tp_line_ok time beat p tc = true ->
  parse_tp_line g (render fmt_f64 fmt_f32 fmt_int (tp_line time beat p tc)) = Some (parsed_line g time beat p tc).
Proof. exact tp_line_parsed. Qed.
Print Assumptions C02_timing_line_reads_back.

Theorem C02_decoded_control_points_sorted :
  forall dist_of lines m, decode_beatmap dist_of lines = Done m -> cp_sorted (hov_control_points (bmv_ho m)).
Proof. exact decoded_map_cp_sorted. Qed.
Print Assumptions C02_decoded_control_points_sorted.

Theorem C02_timing_round_trip_partial :
  forall dist_of events_of fmt_f64 fmt_f32 fmt_int,
  fmt_ok fmt_f64 fmt_f32 fmt_int -> no_leading_zero fmt_int ->
  forall lines m c g,
  decode_beatmap dist_of lines = Done m ->
  let c0 := hov_control_points (bmv_ho m) in
  cp_values_good (tpg_mode g) c0 ->
  enc_control_points dist_of events_of m = Done c -> rt_side (tpg_mode g) c = true ->
  exists ls c',
    enc_timing_points dist_of events_of m = Done (header_tok SecTimingPoints :: ls) /\
    tp_decode g (map (render fmt_f64 fmt_f32 fmt_int) ls) = Done (c', map (fun _ => Ok) ls) /\
    cp_timing c' = cp_timing c0 /\
    (forall t, sv_at c' t = sv_at c0 t) /\
    (forall t, kiai_at c' t = kiai_at c0 t) /\
    (forall t, scroll_at c' t = scroll_at c0 t).
Proof. exact decoded_timing_round_trip. Qed.
Print Assumptions C02_timing_round_trip_partial.

Theorem C02_timing_round_trip_checked :
  forall dist_of events_of fmt_f64 fmt_f32 fmt_int,
  fmt_ok fmt_f64 fmt_f32 fmt_int -> no_leading_zero fmt_int ->
  forall m g, t02d_checks dist_of events_of g m = true ->
  let c0 := hov_control_points (bmv_ho m) in
  exists ls c',
    enc_timing_points dist_of events_of m = Done (header_tok SecTimingPoints :: ls) /\
    tp_decode g (map (render fmt_f64 fmt_f32 fmt_int) ls) = Done (c', map (fun _ => Ok) ls) /\
    cp_timing c' = cp_timing c0 /\
    (forall t, sv_at c' t = sv_at c0 t) /\
    (forall t, kiai_at c' t = kiai_at c0 t) /\
    (forall t, scroll_at c' t = scroll_at c0 t).
Proof. exact enc_timing_round_trip_checked. Qed.
Print Assumptions C02_timing_round_trip_checked.

(* non-vacuity: the hypotheses hold of a concrete decoded map, so the conclusion does *)
Theorem C02_timing_round_trip_example :
  forall fmt_f64 fmt_f32 fmt_int, fmt_ok fmt_f64 fmt_f32 fmt_int -> no_leading_zero fmt_int ->
  t02d_conclusion fmt_f64 fmt_f32 fmt_int g_taiko t02d_text.
Proof. exact t02d_example_round_trip. Qed.
Print Assumptions C02_timing_round_trip_example.

(* ---------- T02d on decoded maps: the invariants discharged ---------- *)

(* every control point of every decoded map (any input): beat length / slider velocity / scroll
   speed within their clamps, sample volume within [0, 100], a real bank, custom index and time
   signature within the i32 limits, every time within the parse limits *)
Theorem C02_decoded_control_point_limits :
  forall dist_of lines m, decode_beatmap dist_of lines = Done m ->
  let c := hov_control_points (bmv_ho m) in
  Forall lim_tp (cp_timing c) /\ Forall lim_dp (cp_difficulty c) /\
  Forall lim_ep (cp_effect c) /\ Forall lim_sp (cp_sample c).
Proof. exact decoded_cp_lims. Qed.
Print Assumptions C02_decoded_control_point_limits.

(* the beat-length field of an inherited line, -100 / sv, is within the parse limits for every
   velocity within its clamp; so is every clamped beat length *)
Theorem C02_written_beat_fields_within_limits :
  (forall sv, in_range sv_lo sv_hi sv -> in_lim64 (D.div f64_m100 sv) = true) /\
  (forall bl, in_range bl_lo bl_hi bl -> in_lim64 bl = true).
Proof. exact (conj m100_div_in_lim beat_len_in_lim). Qed.
Print Assumptions C02_written_beat_fields_within_limits.

(* hence [cp_values_good] and "every written record is within the parse limits" ([wrec_ok]) hold of
   every decoded map outside D12 (scroll_follows_sv) and D26 / D32 (sample_times_ok: no sample
   point collected from a hit object lies beyond the parse limit) *)
Theorem C02_decoded_timing_invariants :
  forall dist_of events_of lines m c mode,
  Forall no_lf_line lines -> decode_beatmap dist_of lines = Done m ->
  enc_control_points dist_of events_of m = Done c ->
  scroll_follows_sv mode c = true -> sample_times_ok c = true ->
  cp_values_good mode (hov_control_points (bmv_ho m)) /\ forallb wrec_ok (enc_records c) = true.
Proof. exact decoded_rt_invariants. Qed.
Print Assumptions C02_decoded_timing_invariants.

(* the float fact [svs_round_trip], for the decoder's image.  Real-number core: for binary64
   numbers x > 0 and S = RN(100 / x) with 2^-4 <= S <= 2^4 (RN: to nearest, ties to even),
   RN(100 / RN(100 / S)) = S.  (Monotonicity of RN when RN(100/S) lies between x and 100/S;
   convexity of 1/t on one side; on the other side a failure would make the odd number 2Y + 1,
   Y >= 2^52 the significand of RN(100/S), a divisor of 25.  False for constants with a large odd
   part, and false for velocities outside the image: C02_sv_round_trips_refuted.) *)
Theorem C02_three_divisions :
  let F := Generic_fmt.generic_format Zaux.radix2 (SpecFloat.fexp 53 1024) in
  let RN := Generic_fmt.round Zaux.radix2 (SpecFloat.fexp 53 1024) (Generic_fmt.Znearest (fun n => negb (Z.even n))) in
  forall x S : Rdefinitions.R,
  F x -> Rdefinitions.Rlt (Rdefinitions.IZR 0) x ->
  RN (Rdefinitions.Rdiv (Rdefinitions.IZR 100) x) = S ->
  Rdefinitions.Rle (Raux.bpow Zaux.radix2 (-4)) S /\ Rdefinitions.Rle S (Raux.bpow Zaux.radix2 4) ->
  RN (Rdefinitions.Rdiv (Rdefinitions.IZR 100) (RN (Rdefinitions.Rdiv (Rdefinitions.IZR 100) S))) = S.
Proof. exact Enc2SvReal.three_divisions. Qed.
Print Assumptions C02_three_divisions.

(* every velocity the decoder can store -- clamp(speed_multiplier beat, 0.1, 10) for ANY beat-length
   field, NaN and infinities included -- survives -100/sv -> 100/-x, bit for bit *)
Theorem C02_image_sv_round_trips :
  forall beat, sv_round_trips (D.clamp (speed_multiplier beat) sv_lo sv_hi) = true.
Proof. exact image_sv_round_trips. Qed.
Print Assumptions C02_image_sv_round_trips.

Theorem C02_decoded_svs_round_trip :
  forall dist_of lines m, decode_beatmap dist_of lines = Done m ->
  svs_round_trip (hov_control_points (bmv_ho m)) = true.
Proof. exact decoded_svs_round_trip. Qed.
Print Assumptions C02_decoded_svs_round_trip.

(* T02d for decoded maps: NO hypothesis beyond the recorded classes.  [rt_classes]: times
   separated (D28 / D8), values separated (D27), scroll speed following slider velocity (D12),
   sample-point times within the limits (D26 / D32) -- each refuted by a decodable input.  For
   every such map, every formatting function satisfying [fmt_ok] / [no_leading_zero] and every
   General state [g] with the map's mode: the [TimingPoints] section the encoder writes is
   accepted line by line and decodes to the same timing points and the same slider-velocity /
   kiai / scroll-speed timelines. *)
Theorem C02_timing_round_trip_decoded :
  forall dist_of events_of fmt_f64 fmt_f32 fmt_int,
  fmt_ok fmt_f64 fmt_f32 fmt_int -> no_leading_zero fmt_int ->
  forall lines m c g,
  Forall no_lf_line lines -> decode_beatmap dist_of lines = Done m ->
  enc_control_points dist_of events_of m = Done c ->
  rt_classes (tpg_mode g) c = true ->
  let c0 := hov_control_points (bmv_ho m) in
  exists ls c',
    enc_timing_points dist_of events_of m = Done (header_tok SecTimingPoints :: ls) /\
    tp_decode g (map (render fmt_f64 fmt_f32 fmt_int) ls) = Done (c', map (fun _ => Ok) ls) /\
    cp_timing c' = cp_timing c0 /\
    (forall t, sv_at c' t = sv_at c0 t) /\
    (forall t, kiai_at c' t = kiai_at c0 t) /\
    (forall t, scroll_at c' t = scroll_at c0 t).
Proof. exact decoded_timing_round_trip_final. Qed.
Print Assumptions C02_timing_round_trip_decoded.

(* non-vacuity: a decoded taiko map with same-time groups, kiai and several velocities *)
Example C02_rt_classes_example :
  match decode_beatmap stub_dist (lines_of_text t02d_text) with
  | Done m =>
      match enc_control_points stub_dist stub_events m with
      | Done c => rt_classes (tpg_mode g_taiko) c = true /\ svs_round_trip c = true /\
                  length (cp_difficulty c) = 5%nat /\ length (enc_records c) = 7%nat
      | _ => False
      end
  | _ => False
  end.
Proof. exact rt_classes_example. Qed.

(* the side condition sv_round_trips is not a theorem about all velocities in [0.1, 10] *)
Theorem C02_sv_round_trips_refuted :
  exists sv, in_range sv_lo sv_hi sv /\ sv_round_trips sv = false /\
             D.bits sv = 4600528620883029618 /\ D.bits (sv_back sv) = 4600528620883029617.
Proof. exact sv_round_trips_refuted. Qed.
Print Assumptions C02_sv_round_trips_refuted.

Example C02_sv_round_trips_one : sv_round_trips D.one = true.
Proof. exact sv_round_trips_one. Qed.

(* candidate finding: slider velocity one ulp below 1.0 on a timing point comes back as 1.0 *)
Theorem C02_sv_near_one_refuted :
  match decode_beatmap stub_dist (lines_of_text near_one_text) with
  | Done m =>
      match enc_control_points stub_dist stub_events m with
      | Done c =>
          map (fun p => D.bits (dp_sv p)) (cp_difficulty c) = [D.bits (D.of_Z 2); 4607182418800017407] /\
          values_separated c = false /\
          times_separated c = true /\ svs_round_trip c = true /\ scroll_follows_sv 0 c = true /\
          forallb wrec_ok (enc_records c) = true /\
          map (fun r => match r with WT t _ => [1; D.bits (tp_time t)] | WI t _ => [0; D.bits t] end) (enc_records c) =
            [[1; D.bits (D.of_Z 0)]; [0; D.bits (D.of_Z 0)]; [1; D.bits (D.of_Z 100)]]
      | _ => False
      end
  | _ => False
  end.
Proof. exact near_one_witness. Qed.
Print Assumptions C02_sv_near_one_refuted.

Theorem C02_sv_near_one_redecoded :
  match decode_beatmap stub_dist (lines_of_text near_one_text) with
  | Done m =>
      match enc_control_points stub_dist stub_events m with
      | Done c =>
          match respec g_osu c with
          | Done c' => dp_dump c = [[D.bits (D.of_Z 0); D.bits (D.of_Z 2)]; [D.bits (D.of_Z 100); 4607182418800017407]] /\
                       dp_dump c' = [[D.bits (D.of_Z 0); D.bits (D.of_Z 2)]; [D.bits (D.of_Z 100); 4607182418800017408]]
          | _ => False
          end
      | _ => False
      end
  | _ => False
  end.
Proof. exact near_one_redecoded. Qed.
Print Assumptions C02_sv_near_one_redecoded.

(* candidate finding: a hit object within f64::EPSILON of a control-point time moves the difficulty point *)
Theorem C02_near_time_refuted :
  match decode_beatmap stub_dist (lines_of_text near_time_text) with
  | Done m =>
      match enc_control_points stub_dist stub_events m with
      | Done c =>
          match respec g_osu c with
          | Done c' =>
              times_separated c = false /\
              values_separated c = true /\ svs_round_trip c = true /\ forallb wrec_ok (enc_records c) = true /\
              length (enc_records c) = 3%nat /\
              dp_dump c = [[D.bits (D.of_Z 0); D.bits (D.of_Z 2)]] /\
              dp_dump c' = [[D.bits (D.of_decimal false 1 (-17)); D.bits (D.of_Z 2)]] /\
              D.bits (sv_lookup c D.zero) = D.bits (D.of_Z 2) /\
              D.bits (sv_lookup c' D.zero) = D.bits (D.of_Z 1)
          | _ => False
          end
      | _ => False
      end
  | _ => False
  end.
Proof. exact near_time_witness. Qed.
Print Assumptions C02_near_time_refuted.

(* [respec] is what every fmt_ok rendering decodes to *)
Theorem C02_respec_is_decode :
  forall fmt_f64 fmt_f32 fmt_int, fmt_ok fmt_f64 fmt_f32 fmt_int -> no_leading_zero fmt_int ->
  forall g c, forallb wrec_ok (enc_records c) = true ->
  legacy_spec g (map (render fmt_f64 fmt_f32 fmt_int) (map wrec_line (enc_records c))) = respec g c.
Proof. exact legacy_spec_respec. Qed.
Print Assumptions C02_respec_is_decode.

(* ---------- T02e: sliders end to end ---------- *)
(* Vocabulary (Proofs/Enc2Slider.v).  [slider_curve lm s]: the curve of the slider's path (pure
   curve model Model/Curve.v at the fuel of the correspondence check, control points converted as
   in Model/DrvEnc.v; [lm] = libm, arbitrary).  [written_of e c]: the length the encoder writes --
   the explicit length, or the distance of the computed curve.  [reread_len d]: what the decoder
   makes of the written length field (.max(0.0), "no length" below f64::EPSILON).
   [elen_img h]: an explicit length is at least EPSILON (an invariant of decoded maps). *)

(* the explicit lengths of every decoded map (any input) are read back as themselves *)
Theorem C02_decoded_explicit_lengths :
  forall dist_of lines m, decode_beatmap dist_of lines = Done m ->
  Forall elen_img (hov_hit_objects (bmv_ho m)).
Proof. exact decoded_elen_img. Qed.
Print Assumptions C02_decoded_explicit_lengths.

(* requesting what was written reproduces the curve: an explicit length is requested again; the
   distance of the natural curve is requested as an explicit length EQUAL to the natural length,
   which keeps the natural curve (the crate compares (calculated - requested).abs() > 0.0: C16),
   or is not requested at all when below EPSILON *)
Theorem C02_curve_reread :
  forall lm fuel mode pts e c,
  Curve.curve_L1 lm fuel mode pts e = Done c ->
  match e with Some L => D.ge L D.eps = true | None => D.is_nan (Curve.dist (Curve.c_lengths c)) = false end ->
  Curve.curve_L1 lm fuel mode pts (reread_len (written_of e c)) = Done c.
Proof. exact curve_reread. Qed.
Print Assumptions C02_curve_reread.

(* T02e per line.  [h] a slider of the decoder's image with curve [c], outside the recorded classes
   ([slider_ok]: D13 / D17 / consecutive Catmull, D21 for the written length; sample data
   representable, C04); [st] ANY parser state whose mode is the mode the slider was read under (on
   re-reading an encoding, [General] precedes [HitObjects]; the other order in the original input is
   class D22).  The line is accepted and adds ONE slider with the same start time, position,
   control points, repeat count, node count, the expected length [reread_len] of the written one,
   and THE SAME CURVE: same path, same cumulative lengths. *)
Theorem C02_slider_round_trip_partial :
  forall lm fmt_f64 fmt_f32 fmt_int, fmt_ok fmt_f64 fmt_f32 fmt_int -> fmt_f32_int fmt_f32 fmt_int ->
  forall mode h s c l,
  h_kind h = KSlider s -> elen_img h ->
  slider_curve lm s = Done c ->
  slider_ok h s (written_of (sl_expected_dist s) c) = true ->
  object_line (dist_real lm) mode h = Done l ->
  forall st, ho_mode st = sl_mode s ->
  exists st' o s',
    parse_hit_objects st (render fmt_f64 fmt_f32 fmt_int l) = Done (st', Ok) /\
    ho_objects st' = ho_objects st ++ [o] /\
    h_start o = h_start h /\ h_kind o = KSlider s' /\
    sl_pos s' = sl_pos s /\
    sl_control_points s' = sl_control_points s /\
    sl_repeat_count s' = sl_repeat_count s /\
    length (sl_node_samples s') = Z.to_nat (sl_repeat_count s + 2) /\
    sl_expected_dist s' = reread_len (written_of (sl_expected_dist s) c) /\
    slider_curve lm s' = Done c.
Proof. exact slider_round_trip. Qed.
Print Assumptions C02_slider_round_trip_partial.

(* the velocity: two decoded maps that agree on SliderMultiplier and mode (T02a), on the timing
   points and on the slider-velocity timeline (T02d) give sliders with the same start time the same
   velocity (it is the closed form slider_velocity_of over these: C15) *)
Theorem C02_slider_velocity_round_trip :
  forall dist_of lines1 lines2 m1 m2 h1 h2 s1 s2,
  decode_beatmap dist_of lines1 = Done m1 -> decode_beatmap dist_of lines2 = Done m2 ->
  let ho1 := bmv_ho m1 in let ho2 := bmv_ho m2 in
  d_slider_multiplier (hov_difficulty ho1) = d_slider_multiplier (hov_difficulty ho2) ->
  g_mode (hov_general ho1) = g_mode (hov_general ho2) ->
  cp_timing (hov_control_points ho1) = cp_timing (hov_control_points ho2) ->
  (forall t, sv_at (hov_control_points ho1) t = sv_at (hov_control_points ho2) t) ->
  In h1 (hov_hit_objects ho1) -> In h2 (hov_hit_objects ho2) ->
  h_kind h1 = KSlider s1 -> h_kind h2 = KSlider s2 -> h_start h1 = h_start h2 ->
  sl_velocity s1 = sl_velocity s2.
Proof. exact decoded_velocity_eq. Qed.
Print Assumptions C02_slider_velocity_round_trip.

(* non-vacuity: three decoded sliders -- explicit length equal to the natural length, no length
   field (the natural length 141.42... is written and read back as an explicit length), explicit
   length shorter than the curve -- satisfy [slider_ok] with the real curve model *)
Example C02_sliders_example :
  match decode_beatmap (dist_real lm0) (lines_of_text sliders_text) with
  | Done m =>
      map slider_facts (hov_hit_objects (bmv_ho m)) =
      [[1; D.bits (D.of_Z 100); D.bits (D.of_Z 100); D.bits (D.of_Z 100); 2; 0];
       [1; -1; 4639179838182129664; 4639179838182129664; 2; 0];
       [1; D.bits (D.of_Z 150); D.bits (D.of_Z 150); D.bits (D.of_Z 150); 2; 0]]
  | _ => False
  end.
Proof. exact sliders_example. Qed.

(* ---------- T02e, node samples (outside D31) ---------- *)
(* Vocabulary (Proofs/Enc3Nodes.v).  [node_info v c (Some l)]: the SampleBankInfo the decoder builds
   from the `normal:addition` piece the encoder writes for the sample list l (banks of the first
   normal / first addition sample, no file name, volume v, custom index c); [node_sound]: the sound
   bits written for it; [reread_nodes 0 0 n 0 nodes]: node i = convert_sound_type (node_info 0 0 (nth i
   nodes)) (node_sound (nth i nodes)), for i < n. *)

(* C02_slider_round_trip_partial with EVERY field of the re-read slider: besides start, position,
   control points, repeat count, node count, expected length and THE SAME CURVE -- the mode, the
   new-combo flag as the parser state forces it, the combo offset, the slider's own samples (its
   extras field is read banks-only) and its node samples, exactly *)
Theorem C02_slider_round_trip_full :
  forall lm fmt_f64 fmt_f32 fmt_int, fmt_ok fmt_f64 fmt_f32 fmt_int -> fmt_f32_int fmt_f32 fmt_int ->
  forall mode h s c l,
  h_kind h = KSlider s -> elen_img h ->
  slider_curve lm s = Done c ->
  slider_ok h s (written_of (sl_expected_dist s) c) = true ->
  object_line (dist_real lm) mode h = Done l ->
  forall st, ho_mode st = sl_mode s ->
  exists st' o s',
    parse_hit_objects st (render fmt_f64 fmt_f32 fmt_int l) = Done (st', Ok) /\
    ho_objects st' = ho_objects st ++ [o] /\
    h_start o = h_start h /\ h_kind o = KSlider s' /\
    sl_pos s' = sl_pos s /\
    sl_control_points s' = sl_control_points s /\
    sl_repeat_count s' = sl_repeat_count s /\
    length (sl_node_samples s') = Z.to_nat (sl_repeat_count s + 2) /\
    sl_expected_dist s' = reread_len (written_of (sl_expected_dist s) c) /\
    slider_curve lm s' = Done c /\
    sl_mode s' = sl_mode s /\
    sl_new_combo s' = forced_new_combo st (sl_new_combo s) /\
    sl_combo_offset s' = (if sl_new_combo s then sl_combo_offset s else 0) /\
    sl_node_samples s' = reread_nodes 0 0 (Z.to_nat (sl_repeat_count s + 2)) 0 (sl_node_samples s) /\
    h_samples o = convert_sound_type (node_info 0 0 (Some (h_samples h))) (node_sound (Some (h_samples h))).
Proof. exact slider_round_trip_full. Qed.
Print Assumptions C02_slider_round_trip_full.

(* names and banks of a node survive: a sample list of the decoder's image ([samples_image]) without
   a file name is re-read -- and, after the second decode has applied ANY sample point, still is --
   with the same names, banks and bank-given flags.  (The re-read list is what an object line of a
   non-mania map would give: node_reread_is_reread_samples.) *)
Theorem C02_slider_node_samples_round_trip :
  forall l, samples_image l = true -> first_file l = None ->
  carry_samples (convert_sound_type (node_info 0 0 (Some l)) (node_sound (Some l))) = carry_samples l /\
  forall p, carry_samples (map (sp_apply p) (convert_sound_type (node_info 0 0 (Some l)) (node_sound (Some l)))) = carry_samples l.
Proof. exact node_reread_carry. Qed.
Print Assumptions C02_slider_node_samples_round_trip.

(* D31 (known finding): a re-read node NEVER has a file name, whatever the written node was -- the
   edge-set field has no slot for it; a node with a file name comes back with the normal sample *)
Theorem C02_slider_node_file_name_lost :
  forall v c o s, first_file (convert_sound_type (node_info v c o) s) = None.
Proof. exact node_reread_no_file. Qed.
Print Assumptions C02_slider_node_file_name_lost.

(* ---------- the computed sections composed with the framing theorem ---------- *)

(* T02d composed (in the style of C02_decode_of_encoding_simple_sections): for every decoded map m
   outside D23 and the recorded classes of T02d ([rt_classes] at the map's own mode: D28 / D8, D27,
   D12, D26 / D32), every line list ls the encoder produces for it, every formatting satisfying
   [fmt_ok] / [no_leading_zero] and whatever the curve function of the second decode: if the second
   decode of `map render ls` succeeds with m2, then m2 has the timing points of m and the
   slider-velocity / kiai / scroll-speed timelines of m2 and m agree at every time.  (The [General]
   section of the encoding is parsed before [TimingPoints]: the mode in force while the timing lines
   are read is the map's mode.) *)
Theorem C02_decode_of_encoding_timing :
  forall fmt_f64 fmt_f32 fmt_int, fmt_ok fmt_f64 fmt_f32 fmt_int -> no_leading_zero fmt_int ->
  forall dist events lines m c ls dist2 m2,
  Forall no_lf_line lines -> decode_beatmap dist lines = Done m -> d23_class m = false ->
  enc_control_points dist events m = Done c ->
  rt_classes (g_mode (hov_general (bmv_ho m))) c = true ->
  encode_lines dist events m = Done ls ->
  decode_beatmap dist2 (map (render fmt_f64 fmt_f32 fmt_int) ls) = Done m2 ->
  let c0 := hov_control_points (bmv_ho m) in
  let c2 := hov_control_points (bmv_ho m2) in
  cp_timing c2 = cp_timing c0 /\
  (forall t, sv_at c2 t = sv_at c0 t) /\
  (forall t, kiai_at c2 t = kiai_at c0 t) /\
  (forall t, scroll_at c2 t = scroll_at c0 t).
Proof.
  intros f64 f32 fi Hfmt Hlead dist events lines m c ls dist2 m2 H1 H2 H3 H4 H5 H6 H7.
  exact (decoded_encoding_timing f64 f32 fi Hfmt Hlead dist events lines m c ls dist2 m2 H1 H2 H3 H4 H5 H6 H7).
Qed.
Print Assumptions C02_decode_of_encoding_timing.

(* how the second decode computes its control points and hit objects from the two computed
   sections of the encoding: [tp_run] / [tp_finish] on the [TimingPoints] body and [ho_run] on the
   [HitObjects] body, both in the General state of [read_back m]; then the map-level processing
   with the breaks, slider multiplier and mode of [read_back m] *)
Theorem C02_encoding_computed_sections :
  forall fmt_f64 fmt_f32 fmt_int, fmt_ok fmt_f64 fmt_f32 fmt_int ->
  forall dist events lines m ls dist2 m2,
  Forall no_lf_line lines -> decode_beatmap dist lines = Done m -> d23_class m = false ->
  encode_lines dist events m = Done ls ->
  decode_beatmap dist2 (map (render fmt_f64 fmt_f32 fmt_int) ls) = Done m2 ->
  exists tp ho,
    enc_timing_points dist events m = Done (header_tok SecTimingPoints :: tp) /\
    object_lines dist (g_mode (hov_general (bmv_ho m))) (hov_hit_objects (bmv_ho m)) = Done ho /\
    let r := bmv_ho (read_back m) in
    forall ts rs, tp_run (tp_init (tpg_of (hov_general r))) (map (render fmt_f64 fmt_f32 fmt_int) tp) = Done (ts, rs) ->
      tp_finish ts = Done (hov_control_points (bmv_ho m2)) /\
      exists hs hrs,
        ho_run (ho_create (g_mode (hov_general r))) (map (render fmt_f64 fmt_f32 fmt_int) ho) = Done (hs, hrs) /\
        finish_hit_objects dist2 (hov_control_points (bmv_ho m2)) (ev_breaks (hov_events r))
          (d_slider_multiplier (hov_difficulty r)) (g_mode (hov_general r)) (ho_objects hs) =
        Done (hov_hit_objects (bmv_ho m2)).
Proof.
  intros f64 f32 fi Hfmt dist events lines m ls dist2 m2 Hl Hd H23 He Hd2.
  exact (encoding_computed_sections_decoded f64 f32 fi Hfmt dist events m ls dist2 m2
           (decode_image_inv dist lines m Hl Hd H23) He Hd2).
Qed.
Print Assumptions C02_encoding_computed_sections.

(* T02b / T02e composed.  Vocabulary (Proofs/Enc3Objects.v, Proofs/Enc3Map.v):
   [final_rel lm h o]: what the second decode's object [o] is with respect to the written object [h]
     -- a circle / spinner / hold: carry_object o = carry_object h (start, kind, position, combo flag
     and offset, duration, sample names and banks); a slider: the conclusion of
     C02_slider_round_trip_partial (same start, position, control points, repeat count, node count,
     expected length re-read from the written one, THE SAME CURVE), the same mode and new-combo flag,
     the combo offset as far as it is carried (next to the new-combo bit), names and banks of the
     slider's own samples when they hold no file name (a decoded slider's never do: its extras are
     read banks-only) and names and banks of every node that is in the decoder's image and holds no
     file name (a file name on a node is class D31);
   [objects_classes lm m]: the recorded classes of the hit-object part -- every object outside its
     classes ([obj_classes]: D30; spinner / hold: D26 and the time condition, i.e. outside D33;
     slider: [slider_ok] = D13 / D17 / consecutive Catmull / D21 / D30, a computable curve, and read
     under the map's mode = outside D22), and [combo_chain]: the new-combo flags the decoder derives
     from the order of the lines (first object, after a spinner, first object after each break) are
     already set -- true when the hit-object lines of the input were in chronological order, which
     is the hypothesis of the property.
   The map-level processing of the second decode is shown to reproduce the stored values: the
   stable sort is the identity on the (sorted: C15) written list, the break post-processing and the
   parser re-derive flags that are set, SamplePoint::apply only touches what [carry_object] erases. *)
Theorem C02_decode_of_encoding_hit_objects :
  forall lm fmt_f64 fmt_f32 fmt_int,
  fmt_ok fmt_f64 fmt_f32 fmt_int -> no_leading_zero fmt_int -> fmt_f32_int fmt_f32 fmt_int ->
  forall events lines m c ls dist2 m2,
  Forall no_lf_line lines -> decode_beatmap (dist_real lm) lines = Done m -> d23_class m = false ->
  enc_control_points (dist_real lm) events m = Done c ->
  rt_classes (g_mode (hov_general (bmv_ho m))) c = true ->
  objects_classes lm m ->
  encode_lines (dist_real lm) events m = Done ls ->
  decode_beatmap dist2 (map (render fmt_f64 fmt_f32 fmt_int) ls) = Done m2 ->
  Forall2 (final_rel lm) (hov_hit_objects (bmv_ho m)) (hov_hit_objects (bmv_ho m2)).
Proof. exact decoded_encoding_objects. Qed.
Print Assumptions C02_decode_of_encoding_hit_objects.

(* the [HitObjects] body alone, line by line, in any parser state of the map's mode: every line
   returns, and the list of added objects is in the relation [raw_chain] with the written objects
   (circle / spinner / hold: EXACTLY [reread_f], a function of "the parser forces a new combo here"
   and the object; slider: T02e) *)
Theorem C02_hit_object_lines_reread :
  forall lm fmt_f64 fmt_f32 fmt_int, fmt_ok fmt_f64 fmt_f32 fmt_int -> fmt_f32_int fmt_f32 fmt_int ->
  forall mode objs ls,
  object_lines (dist_real lm) mode objs = Done ls -> Forall (line_hyps lm mode) objs ->
  forall st, ho_mode st = mode ->
  exists st' rs raws,
    ho_run st (map (render fmt_f64 fmt_f32 fmt_int) ls) = Done (st', rs) /\
    ho_objects st' = ho_objects st ++ raws /\
    raw_chain lm mode (fs st) objs raws.
Proof. exact object_lines_reread. Qed.
Print Assumptions C02_hit_object_lines_reread.

(* two more facts about EVERY decoded map (any input): every node of every slider has a sample list
   of the decoder's image, and a slider's own sample list holds no file name (its extras field is
   read banks-only) -- carried through the line parser, the stable sort, the break post-processing
   and the per-object loop.  They discharge the two image premises of the slider clause of
   [final_rel]: [final_rel_decoded] is [final_rel] without them; what remains as a premise is "the
   node holds no file name", i.e. outside class D31. *)
Theorem C02_decoded_slider_nodes_image :
  forall dist lines m,
  Forall no_lf_line lines -> decode_beatmap dist lines = Done m ->
  Forall nodes_image (hov_hit_objects (bmv_ho m)).
Proof. exact decoded_nodes_image. Qed.
Print Assumptions C02_decoded_slider_nodes_image.

Theorem C02_final_rel_of_decoded_objects :
  forall lm objs out,
  Forall nodes_image objs -> Forall2 (final_rel lm) objs out -> Forall2 (final_rel_decoded lm) objs out.
Proof. exact final_rel_strengthen_all. Qed.
Print Assumptions C02_final_rel_of_decoded_objects.

(* ---------- the top-level statement ---------- *)

(* ONE statement: for every decoded map m (decoded with the real curve model, any libm) outside the
   recorded classes -- D23 (simple sections), [rt_classes] (timing: D28 / D8, D27, D12, D26 / D32),
   [objects_classes] (hit objects: D30, D26, D33, D13 / D17 / consecutive Catmull, D21, D22, and the
   chronological-order hypothesis of the property) --, every line list the encoder produces for it,
   every formatting satisfying the Display hypotheses and whatever the curve function of the second
   decode: if the second decode succeeds with m2, then
     - version, general, editor, metadata, difficulty, events and colours of m2 are those of
       [read_back m]                                                                   (T02a),
     - m2 has the timing points of m, and the slider-velocity / kiai / scroll-speed timelines
       agree at every time                                                              (T02d),
     - the hit objects correspond one to one in [final_rel_decoded]              (T02b / T02e).
   Not in [final_rel]: the slider velocity (C02_round_trip_velocities below, same hypotheses), file
   names on nodes (class D31: C02_slider_node_file_name_lost). *)
Theorem C02_round_trip_decoded_map :
  forall lm fmt_f64 fmt_f32 fmt_int,
  fmt_ok fmt_f64 fmt_f32 fmt_int -> no_leading_zero fmt_int -> fmt_f32_int fmt_f32 fmt_int ->
  forall events lines m c ls dist2 m2,
  Forall no_lf_line lines -> decode_beatmap (dist_real lm) lines = Done m -> d23_class m = false ->
  enc_control_points (dist_real lm) events m = Done c ->
  rt_classes (g_mode (hov_general (bmv_ho m))) c = true ->
  objects_classes lm m ->
  encode_lines (dist_real lm) events m = Done ls ->
  decode_beatmap dist2 (map (render fmt_f64 fmt_f32 fmt_int) ls) = Done m2 ->
  let c0 := hov_control_points (bmv_ho m) in
  let c2 := hov_control_points (bmv_ho m2) in
  (bmv_version m2 = bmv_version m /\
   hov_general (bmv_ho m2) = hov_general (bmv_ho (read_back m)) /\
   bmv_editor m2 = bmv_editor (read_back m) /\
   bmv_metadata m2 = bmv_metadata (read_back m) /\
   hov_difficulty (bmv_ho m2) = hov_difficulty (bmv_ho (read_back m)) /\
   hov_events (bmv_ho m2) = hov_events (bmv_ho (read_back m)) /\
   bmv_colors m2 = bmv_colors (read_back m)) /\
  (cp_timing c2 = cp_timing c0 /\
   (forall t, sv_at c2 t = sv_at c0 t) /\
   (forall t, kiai_at c2 t = kiai_at c0 t) /\
   (forall t, scroll_at c2 t = scroll_at c0 t)) /\
  Forall2 (final_rel_decoded lm) (hov_hit_objects (bmv_ho m)) (hov_hit_objects (bmv_ho m2)).
Proof. exact round_trip_decoded_map. Qed.
Print Assumptions C02_round_trip_decoded_map.

(* [combo_chain] is a FACT about every decoded map whose accepted hit-object lines were in
   chronological order, the hypothesis of the property.  [raw_objects lines]: the object list the line
   parsers have built when the last line has been read (file order, before the stable sort). *)
Theorem C02_combo_chain_of_chronological_input :
  forall dist lines m,
  decode_beatmap dist lines = Done m ->
  Sorted.StronglySorted Z.le (map start_key (raw_objects lines)) ->
  combo_chain (ev_breaks (hov_events (bmv_ho m))) true (hov_hit_objects (bmv_ho m)) = true.
Proof. exact decoded_combo_chain. Qed.
Print Assumptions C02_combo_chain_of_chronological_input.

(* the top-level statement with the property's own hypothesis -- chronological hit-object lines --
   and otherwise the recorded classes only *)
Theorem C02_round_trip_chronological :
  forall lm fmt_f64 fmt_f32 fmt_int,
  fmt_ok fmt_f64 fmt_f32 fmt_int -> no_leading_zero fmt_int -> fmt_f32_int fmt_f32 fmt_int ->
  forall events lines m c ls dist2 m2,
  Forall no_lf_line lines -> decode_beatmap (dist_real lm) lines = Done m -> d23_class m = false ->
  Sorted.StronglySorted Z.le (map start_key (raw_objects lines)) ->
  enc_control_points (dist_real lm) events m = Done c ->
  rt_classes (g_mode (hov_general (bmv_ho m))) c = true ->
  Forall (obj_classes lm (g_mode (hov_general (bmv_ho m)))) (hov_hit_objects (bmv_ho m)) ->
  encode_lines (dist_real lm) events m = Done ls ->
  decode_beatmap dist2 (map (render fmt_f64 fmt_f32 fmt_int) ls) = Done m2 ->
  let c0 := hov_control_points (bmv_ho m) in
  let c2 := hov_control_points (bmv_ho m2) in
  (bmv_version m2 = bmv_version m /\
   hov_general (bmv_ho m2) = hov_general (bmv_ho (read_back m)) /\
   bmv_editor m2 = bmv_editor (read_back m) /\
   bmv_metadata m2 = bmv_metadata (read_back m) /\
   hov_difficulty (bmv_ho m2) = hov_difficulty (bmv_ho (read_back m)) /\
   hov_events (bmv_ho m2) = hov_events (bmv_ho (read_back m)) /\
   bmv_colors m2 = bmv_colors (read_back m)) /\
  (cp_timing c2 = cp_timing c0 /\
   (forall t, sv_at c2 t = sv_at c0 t) /\
   (forall t, kiai_at c2 t = kiai_at c0 t) /\
   (forall t, scroll_at c2 t = scroll_at c0 t)) /\
  Forall2 (final_rel_decoded lm) (hov_hit_objects (bmv_ho m)) (hov_hit_objects (bmv_ho m2)).
Proof. exact round_trip_chronological. Qed.
Print Assumptions C02_round_trip_chronological.

Example C02_example_is_chronological :
  sortedb (map start_key (raw_objects (lines_of_text all_kinds_text))) = true /\
  (forall l, sortedb l = true -> Sorted.StronglySorted Z.le l).
Proof. exact (conj all_kinds_chronological sortedb_sorted). Qed.

(* the velocities of corresponding sliders agree as well (under the same hypotheses): the velocity
   of a decoded slider is a closed form over SliderMultiplier, mode, timing points and the
   slider-velocity timeline at its start time -- all shown equal above -- whatever the two curve
   functions *)
Theorem C02_round_trip_velocities :
  forall lm fmt_f64 fmt_f32 fmt_int,
  fmt_ok fmt_f64 fmt_f32 fmt_int -> no_leading_zero fmt_int -> fmt_f32_int fmt_f32 fmt_int ->
  forall events lines m c ls dist2 m2,
  Forall no_lf_line lines -> decode_beatmap (dist_real lm) lines = Done m -> d23_class m = false ->
  enc_control_points (dist_real lm) events m = Done c ->
  rt_classes (g_mode (hov_general (bmv_ho m))) c = true ->
  objects_classes lm m ->
  encode_lines (dist_real lm) events m = Done ls ->
  decode_beatmap dist2 (map (render fmt_f64 fmt_f32 fmt_int) ls) = Done m2 ->
  Forall2 same_velocity (hov_hit_objects (bmv_ho m)) (hov_hit_objects (bmv_ho m2)).
Proof. exact round_trip_velocities. Qed.
Print Assumptions C02_round_trip_velocities.

(* non-vacuity: the hypotheses are satisfiable by a concrete decoded map with a circle, a slider,
   a spinner and a hold (plus a break and an inherited timing line), real curve and slider-event
   models: it is outside every class ... *)
Example C02_round_trip_hypotheses_example :
  match decode_beatmap (dist_real lm0) (lines_of_text all_kinds_text) with
  | Done m =>
      match enc_control_points (dist_real lm0) events_real m with
      | Done c =>
          forallb (fun l => negb (memb ch_lf l)) (lines_of_text all_kinds_text) = true /\
          d23_class m = false /\
          rt_classes (g_mode (hov_general (bmv_ho m))) c = true /\
          objects_classes_b lm0 m = true /\
          map (fun h => kind_tag (h_kind h)) (hov_hit_objects (bmv_ho m)) = [0; 1; 2; 3] /\
          match encode_lines (dist_real lm0) events_real m with Done ls => length ls = 48%nat | _ => False end
      | _ => False
      end
  | _ => False
  end.
Proof. exact all_kinds_facts. Qed.

(* ... and the node clause of [final_rel] is not vacuous: the example's slider has repeat_count + 2 = 2
   nodes, all in the decoder's image and without a file name, and so are its own samples *)
Example C02_round_trip_nodes_example :
  match decode_beatmap (dist_real lm0) (lines_of_text all_kinds_text) with
  | Done m => map nodes_facts (hov_hit_objects (bmv_ho m)) = [[]; [2; 2; 1; 1]; []; []]
  | _ => False
  end.
Proof. exact all_kinds_nodes. Qed.

Example C02_objects_classes_checker :
  forall lm m, objects_classes_b lm m = true -> objects_classes lm m.
Proof. exact objects_classes_b_ok. Qed.

(* ... so the conclusion holds of it, for every formatting and every second curve function *)
Example C02_round_trip_example :
  forall fmt_f64 fmt_f32 fmt_int, fmt_ok fmt_f64 fmt_f32 fmt_int -> no_leading_zero fmt_int -> fmt_f32_int fmt_f32 fmt_int ->
  exists m c ls,
    decode_beatmap (dist_real lm0) (lines_of_text all_kinds_text) = Done m /\
    enc_control_points (dist_real lm0) events_real m = Done c /\
    encode_lines (dist_real lm0) events_real m = Done ls /\
    d23_class m = false /\ rt_classes (g_mode (hov_general (bmv_ho m))) c = true /\ objects_classes lm0 m /\
    map (fun h => kind_tag (h_kind h)) (hov_hit_objects (bmv_ho m)) = [0; 1; 2; 3] /\
    forall dist2 m2, decode_beatmap dist2 (map (render fmt_f64 fmt_f32 fmt_int) ls) = Done m2 ->
      let c0 := hov_control_points (bmv_ho m) in
      let c2 := hov_control_points (bmv_ho m2) in
      (bmv_version m2 = bmv_version m /\
       hov_general (bmv_ho m2) = hov_general (bmv_ho (read_back m)) /\
       bmv_editor m2 = bmv_editor (read_back m) /\
       bmv_metadata m2 = bmv_metadata (read_back m) /\
       hov_difficulty (bmv_ho m2) = hov_difficulty (bmv_ho (read_back m)) /\
       hov_events (bmv_ho m2) = hov_events (bmv_ho (read_back m)) /\
       bmv_colors m2 = bmv_colors (read_back m)) /\
      (cp_timing c2 = cp_timing c0 /\
       (forall t, sv_at c2 t = sv_at c0 t) /\
       (forall t, kiai_at c2 t = kiai_at c0 t) /\
       (forall t, scroll_at c2 t = scroll_at c0 t)) /\
      Forall2 (final_rel_decoded lm0) (hov_hit_objects (bmv_ho m)) (hov_hit_objects (bmv_ho m2)).
Proof. exact all_kinds_round_trip. Qed.

(* ---------- the top-level statement with ONLY recorded classes as object hypotheses ---------- *)

(* Class D33 as a decidable predicate on a (decoded) object: a spinner / hold whose stored start s
   and duration d satisfy clip(fl(fl(s + d) - s)) <> d, clipped as the decoder clips it.  The time
   condition of [obj_classes] is a function of the stored (start, duration) only and EQUIVALENT to
   "not in the class". *)
Theorem C02_d33_class_is_the_time_condition :
  forall h, d33_object h = false <->
    match h_kind h with
    | KSpinner s => spinner_time_ok (h_start h) (sp_duration s)
    | KHold hd => hold_time_ok (h_start h) (hd_duration hd)
    | _ => True
    end.
Proof. exact d33_object_spec. Qed.
Print Assumptions C02_d33_class_is_the_time_condition.

(* the class is inhabited -- by the stored data of C02_times_ok_refuted ... *)
Theorem C02_d33_class_witness :
  exists s e,
    D.bits s = 4413527634823086080 /\ D.bits e = 4652218415073722369 /\
    in_lim64 s = true /\ in_lim64 e = true /\
    (forall smp nc, d33_object (mkHObj s (KSpinner (mkSpinner spinner_pos (spinner_dur s e) nc)) smp) = true) /\
    (forall smp x, d33_object (mkHObj s (KHold (mkHold x (hold_dur s e))) smp) = true).
Proof. exact d33_object_witness. Qed.
Print Assumptions C02_d33_class_witness.

(* ... and by a DECODED map: the spinner and the hold of the file
     256,192,0.00000000000011368683772161603,12,0,1024.0000000000002
     256,192,0.00000000000011368683772161603,128,0,1024.0000000000002:0:0:0:0:
   are stored with duration 1024 and are in the class (and in no other) *)
Example C02_d33_decoded_witness :
  match decode_beatmap (dist_real lm0) (lines_of_text d33_text) with
  | Done m =>
      let objs := hov_hit_objects (bmv_ho m) in
      map (fun h => kind_tag (h_kind h)) objs = [2; 3] /\
      map (fun h => D.bits (h_start h)) objs = [4413527634823086080; 4413527634823086080] /\
      map (fun h => match h_kind h with KSpinner s => D.bits (sp_duration s) | KHold hd => D.bits (hd_duration hd) | _ => 0 end) objs
        = [4652218415073722368; 4652218415073722368] /\
      map d33_object objs = [true; true] /\
      map d30_class objs = [false; false] /\ map d26_class objs = [false; false] /\
      objects_in_classes lm0 m = true
  | _ => False
  end.
Proof. exact d33_decoded_witness. Qed.

(* The link between the stored duration and the decoder's form, as an invariant of EVERY decoded map
   (any input, any curve function; through the line parser, the stable sort, the break
   post-processing and the per-object loop): every start time is within the parse limits, and the
   stored duration of a spinner / hold is max(0, fl(e - start)) resp. fl(max(start, e) - start) for
   an end e within the parse limits.  So the C02_times_ok_* theorems, stated on the decoder's form,
   speak about the objects of decoded maps. *)
Theorem C02_decoded_durations_have_decoder_form :
  forall dist lines m,
  decode_beatmap dist lines = Done m ->
  Forall (fun h =>
            in_lim64 (h_start h) = true /\
            match h_kind h with
            | KSpinner s => exists e, in_lim64 e = true /\ sp_duration s = spinner_dur (h_start h) e
            | KHold hd => exists e, in_lim64 e = true /\ hd_duration hd = hold_dur (h_start h) e
            | _ => True
            end) (hov_hit_objects (bmv_ho m)).
Proof. exact decoded_durations_form. Qed.
Print Assumptions C02_decoded_durations_have_decoder_form.

(* what a decoded object in class D33 looks like: its line had an end e whose difference to the
   start is NOT a binary64 number (C02_times_ok_exact_difference) and which the written end
   fl(start + d) does not reproduce (C02_times_ok_of_end) *)
Theorem C02_decoded_d33_inexact :
  forall dist lines m h,
  decode_beatmap dist lines = Done m -> In h (hov_hit_objects (bmv_ho m)) -> d33_object h = true ->
  in_lim64 (h_start h) = true /\
  exists e, in_lim64 e = true /\
    match h_kind h with
    | KSpinner s => sp_duration s = spinner_dur (h_start h) e /\ D.add (h_start h) (sp_duration s) <> e
    | KHold hd => hd_duration hd = hold_dur (h_start h) e /\ (D.lt (h_start h) e = true -> D.add (h_start h) (hd_duration hd) <> e)
    | _ => False
    end /\
    ~ Generic_fmt.generic_format Zaux.radix2 (SpecFloat.fexp 53 1024)
        (Rdefinitions.Rminus (B2R e) (B2R (h_start h))).
Proof. exact decoded_d33_inexact. Qed.
Print Assumptions C02_decoded_d33_inexact.

(* on the stored data alone: start and duration in whole milliseconds are never in the class *)
Theorem C02_whole_milliseconds_not_d33 :
  forall h a b,
  h_start h = D.of_Z a ->
  match h_kind h with
  | KSpinner s => sp_duration s = D.of_Z b
  | KHold hd => hd_duration hd = D.of_Z b
  | _ => True
  end ->
  Z.abs a < 2 ^ 53 -> 0 <= b < 2 ^ 53 -> Z.abs (a + b) < 2 ^ 53 ->
  d33_object h = false.
Proof. exact whole_ms_not_d33. Qed.
Print Assumptions C02_whole_milliseconds_not_d33.

(* more generally, for the objects of decoded maps: whenever the real sum start + duration of the
   STORED values is a binary64 number (the encoder's addition does not round) the object is not in
   the class -- in particular when both lie on a common binary grid 2^-k with
   |start + duration| < 2^(53-k) *)
Theorem C02_decoded_exact_sum_not_d33 :
  forall dist lines m h,
  decode_beatmap dist lines = Done m -> In h (hov_hit_objects (bmv_ho m)) ->
  match h_kind h with
  | KSpinner sp => Generic_fmt.generic_format Zaux.radix2 (SpecFloat.fexp 53 1024)
                     (Rdefinitions.Rplus (B2R (h_start h)) (B2R (sp_duration sp)))
  | KHold hd => Generic_fmt.generic_format Zaux.radix2 (SpecFloat.fexp 53 1024)
                     (Rdefinitions.Rplus (B2R (h_start h)) (B2R (hd_duration hd)))
  | _ => True
  end ->
  d33_object h = false.
Proof. exact decoded_sum_exact_not_d33. Qed.
Print Assumptions C02_decoded_exact_sum_not_d33.

Theorem C02_decoded_grid_not_d33 :
  forall dist lines m h (k a b : Z),
  decode_beatmap dist lines = Done m -> In h (hov_hit_objects (bmv_ho m)) ->
  0 <= k <= 1074 ->
  B2R (h_start h) = Rdefinitions.Rmult (Rdefinitions.IZR a) (Raux.bpow Zaux.radix2 (- k)) ->
  match h_kind h with
  | KSpinner sp => B2R (sp_duration sp) = Rdefinitions.Rmult (Rdefinitions.IZR b) (Raux.bpow Zaux.radix2 (- k))
  | KHold hd => B2R (hd_duration hd) = Rdefinitions.Rmult (Rdefinitions.IZR b) (Raux.bpow Zaux.radix2 (- k))
  | _ => True
  end ->
  Z.abs (a + b) < 2 ^ 53 -> d33_object h = false.
Proof. exact decoded_grid_not_d33. Qed.
Print Assumptions C02_decoded_grid_not_d33.

(* two slider facts about EVERY map decoded with the real curve model: a combo offset is only
   present next to the new-combo flag (the decoder stores `if new_combo { offset } else { 0 }` with
   new_combo the bit of the type field, and every later step only SETS the flag) -- so "a slider
   combo offset without the new-combo bit" is not in the decoder's image --, and the curve of
   every slider is computable (the per-object loop has computed it) *)
Theorem C02_decoded_slider_invariants :
  forall lm lines m,
  decode_beatmap (dist_real lm) lines = Done m ->
  Forall (fun h => match h_kind h with
                   | KSlider s => sl_new_combo s || (sl_combo_offset s =? 0) = true /\
                                  exists c, slider_curve lm s = Done c
                   | _ => True
                   end) (hov_hit_objects (bmv_ho m)).
Proof. exact decoded_slider_inv. Qed.
Print Assumptions C02_decoded_slider_invariants.

(* [obj_in_class lm mode h]: the disjunction of the recorded classes of one object, a boolean --
     circle:          D30
     spinner / hold:  D30 || D26 || D33
     slider:          D30 || D13 || D17 || consecutive Catmull || D21 || D22 (read under another mode)
   For an object of a decoded map, "in no class" gives [obj_classes], the hypothesis of
   C02_round_trip_decoded_map (for spinners and holds the two are equivalent). *)
Example C02_obj_in_class_unfolded :
  forall lm mode h,
  obj_in_class lm mode h =
  match h_kind h with
  | KCircle _ => d30_class h
  | KSpinner _ | KHold _ => d30_class h || d26_class h || d33_object h
  | KSlider s =>
      d30_class h || d13_class (sl_control_points s) || d17_class (sl_control_points s) ||
      consec_catmull (sl_control_points s) || d21_slider lm s || d22_slider mode s
  end.
Proof. reflexivity. Qed.

Theorem C02_decoded_object_outside_classes :
  forall lm lines m h,
  Forall no_lf_line lines -> decode_beatmap (dist_real lm) lines = Done m ->
  In h (hov_hit_objects (bmv_ho m)) ->
  forall mode, obj_in_class lm mode h = false -> obj_classes lm mode h.
Proof. exact decoded_obj_classes. Qed.
Print Assumptions C02_decoded_object_outside_classes.

Theorem C02_spinner_hold_classes_equivalent :
  forall lm mode h,
  (match h_kind h with KSpinner _ | KHold _ => True | _ => False end) ->
  (obj_classes lm mode h <-> obj_in_class lm mode h = false).
Proof. exact obj_classes_spinner_hold. Qed.
Print Assumptions C02_spinner_hold_classes_equivalent.

(* THE TOP-LEVEL STATEMENT, every object-level hypothesis a decidable class predicate on the decoded
   map: [d23_class] (D23), [rt_classes] (D8 / D28 / D34, D27, D12, D26 / D32), [objects_in_classes]
   (= existsb obj_in_class: D30, D26, D33, D13, D17, consecutive Catmull, D21, D22), each class
   refuted by a decodable input (C02_catmull_duplicate_refuted D13, C02_repeated_type_segment_refuted
   D17, C02_consecutive_catmull_refuted, C02_mode_after_timing_points_refuted D22,
   C02_decoded_end_beyond_limit_refuted D26, C02_times_ok_refuted / C02_d33_decoded_witness D33,
   C02_slider_node_file_name_lost D31, C02_scroll_speed_refuted D12, C02_sv_near_one_refuted D27,
   C02_near_time_refuted D28; D21 / D30 / D23: known_findings.json), plus the boolean
   [combo_chain] (below: replaced by the property's own hypothesis).  The conclusion is that of
   C02_round_trip_decoded_map, with the slider's combo offset preserved unconditionally
   ([final_rel_classes]: sl_combo_offset s' = sl_combo_offset s) and the velocities
   (C02_round_trip_velocities) included.  A node's file name (D31) is the premise
   "first_file l = None" inside the relation. *)
Theorem C02_round_trip_decoded_map_classes :
  forall lm fmt_f64 fmt_f32 fmt_int,
  fmt_ok fmt_f64 fmt_f32 fmt_int -> no_leading_zero fmt_int -> fmt_f32_int fmt_f32 fmt_int ->
  forall events lines m c ls dist2 m2,
  Forall no_lf_line lines -> decode_beatmap (dist_real lm) lines = Done m -> d23_class m = false ->
  enc_control_points (dist_real lm) events m = Done c ->
  rt_classes (g_mode (hov_general (bmv_ho m))) c = true ->
  objects_in_classes lm m = false ->
  combo_chain (ev_breaks (hov_events (bmv_ho m))) true (hov_hit_objects (bmv_ho m)) = true ->
  encode_lines (dist_real lm) events m = Done ls ->
  decode_beatmap dist2 (map (render fmt_f64 fmt_f32 fmt_int) ls) = Done m2 ->
  let c0 := hov_control_points (bmv_ho m) in
  let c2 := hov_control_points (bmv_ho m2) in
  (bmv_version m2 = bmv_version m /\
   hov_general (bmv_ho m2) = hov_general (bmv_ho (read_back m)) /\
   bmv_editor m2 = bmv_editor (read_back m) /\
   bmv_metadata m2 = bmv_metadata (read_back m) /\
   hov_difficulty (bmv_ho m2) = hov_difficulty (bmv_ho (read_back m)) /\
   hov_events (bmv_ho m2) = hov_events (bmv_ho (read_back m)) /\
   bmv_colors m2 = bmv_colors (read_back m)) /\
  (cp_timing c2 = cp_timing c0 /\
   (forall t, sv_at c2 t = sv_at c0 t) /\
   (forall t, kiai_at c2 t = kiai_at c0 t) /\
   (forall t, scroll_at c2 t = scroll_at c0 t)) /\
  Forall2 (final_rel_classes lm) (hov_hit_objects (bmv_ho m)) (hov_hit_objects (bmv_ho m2)) /\
  Forall2 same_velocity (hov_hit_objects (bmv_ho m)) (hov_hit_objects (bmv_ho m2)).
Proof. exact round_trip_decoded_map_classes. Qed.
Print Assumptions C02_round_trip_decoded_map_classes.

(* ... and with the property's own hypothesis, chronological hit-object lines: apart from it (and
   the Display hypotheses) ONLY recorded classes *)
Theorem C02_round_trip_chronological_classes :
  forall lm fmt_f64 fmt_f32 fmt_int,
  fmt_ok fmt_f64 fmt_f32 fmt_int -> no_leading_zero fmt_int -> fmt_f32_int fmt_f32 fmt_int ->
  forall events lines m c ls dist2 m2,
  Forall no_lf_line lines -> decode_beatmap (dist_real lm) lines = Done m -> d23_class m = false ->
  Sorted.StronglySorted Z.le (map start_key (raw_objects lines)) ->
  enc_control_points (dist_real lm) events m = Done c ->
  rt_classes (g_mode (hov_general (bmv_ho m))) c = true ->
  objects_in_classes lm m = false ->
  encode_lines (dist_real lm) events m = Done ls ->
  decode_beatmap dist2 (map (render fmt_f64 fmt_f32 fmt_int) ls) = Done m2 ->
  let c0 := hov_control_points (bmv_ho m) in
  let c2 := hov_control_points (bmv_ho m2) in
  (bmv_version m2 = bmv_version m /\
   hov_general (bmv_ho m2) = hov_general (bmv_ho (read_back m)) /\
   bmv_editor m2 = bmv_editor (read_back m) /\
   bmv_metadata m2 = bmv_metadata (read_back m) /\
   hov_difficulty (bmv_ho m2) = hov_difficulty (bmv_ho (read_back m)) /\
   hov_events (bmv_ho m2) = hov_events (bmv_ho (read_back m)) /\
   bmv_colors m2 = bmv_colors (read_back m)) /\
  (cp_timing c2 = cp_timing c0 /\
   (forall t, sv_at c2 t = sv_at c0 t) /\
   (forall t, kiai_at c2 t = kiai_at c0 t) /\
   (forall t, scroll_at c2 t = scroll_at c0 t)) /\
  Forall2 (final_rel_classes lm) (hov_hit_objects (bmv_ho m)) (hov_hit_objects (bmv_ho m2)) /\
  Forall2 same_velocity (hov_hit_objects (bmv_ho m)) (hov_hit_objects (bmv_ho m2)).
Proof. exact round_trip_chronological_classes. Qed.
Print Assumptions C02_round_trip_chronological_classes.

(* the concrete decoded map of C02_round_trip_example satisfies the new hypotheses: no object in any
   class (object by object, and D33 separately), combo chain consistent ... *)
Example C02_round_trip_classes_hypotheses_example :
  match decode_beatmap (dist_real lm0) (lines_of_text all_kinds_text) with
  | Done m =>
      match enc_control_points (dist_real lm0) events_real m with
      | Done c =>
          forallb (fun l => negb (memb ch_lf l)) (lines_of_text all_kinds_text) = true /\
          d23_class m = false /\
          rt_classes (g_mode (hov_general (bmv_ho m))) c = true /\
          objects_in_classes lm0 m = false /\
          map (obj_in_class lm0 (g_mode (hov_general (bmv_ho m)))) (hov_hit_objects (bmv_ho m)) = [false; false; false; false] /\
          map d33_object (hov_hit_objects (bmv_ho m)) = [false; false; false; false] /\
          combo_chain (ev_breaks (hov_events (bmv_ho m))) true (hov_hit_objects (bmv_ho m)) = true /\
          map (fun h => kind_tag (h_kind h)) (hov_hit_objects (bmv_ho m)) = [0; 1; 2; 3]
      | _ => False
      end
  | _ => False
  end.
Proof. exact all_kinds_classes_facts. Qed.

(* ... so the conclusion of C02_round_trip_chronological_classes holds of it, for every formatting
   and every second curve function *)
Example C02_round_trip_classes_example :
  forall fmt_f64 fmt_f32 fmt_int, fmt_ok fmt_f64 fmt_f32 fmt_int -> no_leading_zero fmt_int -> fmt_f32_int fmt_f32 fmt_int ->
  exists m c ls,
    decode_beatmap (dist_real lm0) (lines_of_text all_kinds_text) = Done m /\
    enc_control_points (dist_real lm0) events_real m = Done c /\
    encode_lines (dist_real lm0) events_real m = Done ls /\
    d23_class m = false /\ rt_classes (g_mode (hov_general (bmv_ho m))) c = true /\
    objects_in_classes lm0 m = false /\
    Sorted.StronglySorted Z.le (map start_key (raw_objects (lines_of_text all_kinds_text))) /\
    map (fun h => kind_tag (h_kind h)) (hov_hit_objects (bmv_ho m)) = [0; 1; 2; 3] /\
    forall dist2 m2, decode_beatmap dist2 (map (render fmt_f64 fmt_f32 fmt_int) ls) = Done m2 ->
      let c0 := hov_control_points (bmv_ho m) in
      let c2 := hov_control_points (bmv_ho m2) in
      (bmv_version m2 = bmv_version m /\
       hov_general (bmv_ho m2) = hov_general (bmv_ho (read_back m)) /\
       bmv_editor m2 = bmv_editor (read_back m) /\
       bmv_metadata m2 = bmv_metadata (read_back m) /\
       hov_difficulty (bmv_ho m2) = hov_difficulty (bmv_ho (read_back m)) /\
       hov_events (bmv_ho m2) = hov_events (bmv_ho (read_back m)) /\
       bmv_colors m2 = bmv_colors (read_back m)) /\
      (cp_timing c2 = cp_timing c0 /\
       (forall t, sv_at c2 t = sv_at c0 t) /\
       (forall t, kiai_at c2 t = kiai_at c0 t) /\
       (forall t, scroll_at c2 t = scroll_at c0 t)) /\
      Forall2 (final_rel_classes lm0) (hov_hit_objects (bmv_ho m)) (hov_hit_objects (bmv_ho m2)) /\
      Forall2 same_velocity (hov_hit_objects (bmv_ho m)) (hov_hit_objects (bmv_ho m2)).
Proof. exact all_kinds_round_trip_classes. Qed.

(* ---------- status of the obligations ----------

   TOP LEVEL  C02_round_trip_decoded_map (and C02_round_trip_chronological, with "the accepted
     hit-object lines are chronological" in place of [combo_chain]): ONE statement for a decoded map
     outside the recorded classes -- simple sections (T02a), timing points and the three timelines (T02d), hit objects one
     to one in [final_rel] (T02b / T02e) -- about decoding `map render (encode_lines m)`, i.e. the
     per-section results pushed through the framing theorem (C05) and the Beatmap decoder's
     delegation (C07): C02_decode_of_encoding_simple_sections, C02_decode_of_encoding_timing,
     C02_decode_of_encoding_hit_objects, C02_encoding_computed_sections, C02_encoding_is_routed.
     Hypotheses satisfiable: C02_round_trip_hypotheses_example / C02_round_trip_example (a decoded
     map with a circle, a slider, a spinner, a hold, a break and an inherited timing line; real curve
     and slider-event models).  The lines are the decoder's line list; the byte / text layer is
     C08 / C10.
     WITH ONLY RECORDED CLASSES AS OBJECT HYPOTHESES: C02_round_trip_decoded_map_classes /
     C02_round_trip_chronological_classes.  The per-object Prop [obj_classes] (curve computable,
     [slider_ok], [spinner_time_ok] / [hold_time_ok]) is replaced by the boolean
     [objects_in_classes lm m = false] -- no object in D30, D26, D33 (spinner / hold), D13, D17,
     consecutive Catmull, D21, D22 (slider) -- and is DERIVED from it for the objects of a decoded
     map (C02_decoded_object_outside_classes): the image parts of [slider_ok] are invariants
     (C04_decoded_objects_image, C04_decoded_samples_image), the curve of every decoded slider is
     computable (C02_decoded_slider_invariants), the time condition is the complement of the
     decidable class D33 (C02_d33_class_is_the_time_condition).  What these two theorems still
     assume besides the classes: the Display hypotheses, "no line holds a line feed" (true of every
     line list the line splitter produces), chronological hit-object lines (the property's own
     hypothesis; [combo_chain] in the first form), and that the encoder and the second decode return
     (`= Done`).  D31 (a file name on a slider node) is not a hypothesis but the premise
     "first_file l = None" of the node clause of the relation.  Satisfiable:
     C02_round_trip_classes_hypotheses_example / C02_round_trip_classes_example (the same map).

   T02b  circles / spinners / holds: MECHANISED per line, up to [carry_object] (per-sample volume /
     custom index / suffix / layering erased), for decoded maps with the hypotheses discharged
     (C02_decoded_circle_round_trip: no hypothesis beyond class D30; spinners and holds additionally
     exclude D26 and D33), and COMPOSED over the whole [HitObjects] section and the map-level
     processing of the second decode (C02_hit_object_lines_reread, C02_decode_of_encoding_hit_objects:
     the stable sort is the identity on the sorted written list, the parser and the break
     post-processing re-derive new-combo flags that are set -- [combo_chain], PROVED of every
     decoded map whose accepted hit-object lines were chronological, the property's hypothesis:
     C02_combo_chain_of_chronological_input, C02_round_trip_chronological --, SamplePoint::apply
     touches only what carry_object erases).
     The time condition fl(fl(start + d) - start) = d is FALSE in general: C02_times_ok_refuted,
     known finding D33 (confirmed on the crate).  PROVED for every pair of accepted times whose
     difference is a binary64 number (C02_times_ok_exact_difference; binary grids: C02_times_ok_grid,
     C02_times_ok_grid21; whole milliseconds: C02_times_ok_whole_milliseconds, C02_times_ok_partial;
     any fractional times with start / 2 <= end <= 2 * start: C02_times_ok_sterbenz)
     and whenever the written end is the end that was read (C02_times_ok_of_end).
     D33 AS A CLASS: [d33_object h] is the boolean "clip(fl(fl(start + d) - start)) <> d" on the STORED
     start and duration, the exact complement of the time condition
     (C02_d33_class_is_the_time_condition), inhabited by a decoded map (C02_d33_decoded_witness);
     the top-level theorems take "not in D33" and nothing else about the times.  The stored
     duration of EVERY decoded spinner / hold has the decoder's form max(0, fl(e - start)) resp.
     fl(max(start, e) - start) for an end e within the parse limits, and every start is within the
     limits (C02_decoded_durations_have_decoder_form: line parser, stable sort, break post-processing,
     per-object loop) -- so the C02_times_ok_* theorems apply to decoded objects: an object in D33 had
     an end whose difference to the start is not a binary64 number and that fl(start + d) does not
     reproduce (C02_decoded_d33_inexact); whole-millisecond stored times are never in D33
     (C02_whole_milliseconds_not_d33), nor is any decoded object whose stored start + duration is a
     binary64 number (C02_decoded_exact_sum_not_d33; binary grids C02_decoded_grid_not_d33).  OPEN: a closed arithmetic description of D33 (WHICH pairs
     with a rounded difference lose the duration; most fractional pairs do not) -- not needed by the
     theorems, which are stated with the decidable class itself; the oracle checks each instance.

   T02c  slider path strings: MECHANISED in full (C02_path_round_trip on the decoder's image
     C02_path_image_is_decoder_image, outside D13 / D17 / consecutive Catmull).

   T02d  timing points and the three timelines: MECHANISED for decoded maps
     (C02_timing_round_trip_decoded) and COMPOSED with the framing theorem
     (C02_decode_of_encoding_timing: the timing points and timelines of the map the second decode
     returns).  The value side conditions, "written numbers within the parse limits" and "every stored
     velocity survives -100/sv -> 100/-x" are FACTS about every decoded map; the only hypotheses are
     the recorded classes [rt_classes] (D28 / D8 / D34 -- control-point or object times within
     f64::EPSILON of each other without being bit-equal, the two zeros included --, D27, D12,
     D26 / D32), each refuted by a decodable input.

   T02e  sliders end to end: MECHANISED per line (C02_slider_round_trip_partial, and with every field
     of the re-read slider C02_slider_round_trip_full) and COMPOSED (the slider clause of
     [final_rel]): same start, position, control points, repeat count, node count, THE SAME CURVE,
     mode, new-combo flag, names and banks of its own samples and of every node that is in the
     decoder's image and holds no file name (C02_slider_node_samples_round_trip; a file name on a
     node is class D31: C02_slider_node_file_name_lost).  Hypotheses: [slider_ok] (outside D13 / D17 /
     consecutive Catmull / D21 / D30), a computable curve, and "read under the map's mode" (the other
     order on the original input is class D22).  The image premises of the node clause are FACTS
     about every decoded map (C02_decoded_slider_nodes_image), discharged in the top-level theorems
     ([final_rel_decoded]).  The velocities of corresponding sliders agree: C02_round_trip_velocities
     (a separate statement under the same hypotheses; part of the conclusion of the _classes forms).
     The combo offset of a slider: [final_rel] / [final_rel_decoded] say "offset if new combo, else
     0"; a slider of a decoded map carries an offset only next to the new-combo flag
     (C02_decoded_slider_invariants: the decoder stores `if new_combo { offset } else { 0 }` for the
     type field's own bit, the parser state and the break post-processing only SET the flag), so the
     _classes forms state sl_combo_offset s' = sl_combo_offset s unconditionally
     ([final_rel_classes]).  An offset without the bit is therefore not a finding: it is outside the
     decoder's image.

   Everything above is also covered by the bit-exact `enc` correspondence (decode + encode model
   against the crate, slider files included) and by the C02 oracle, which compares exactly the
   items the property lists on the real crate; the classes D12, D13, D17, D21, D22, D23, D26, D27,
   D28, D30, D31, D33, D34 are the only failures it reports on the pinned tree. *)

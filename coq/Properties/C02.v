(* C02 -- Decode -> encode -> decode returns the same map.

   "For every input whose timing-point and hit-object lines are in chronological
   order, decoding, encoding and decoding again yields the same map: identical
   general, editor, metadata (including positive ids), difficulty, background,
   break and colour fields, identical timing points, identical effective
   slider-velocity / kiai / scroll-speed timelines, and the same hit objects
   (...).  Only what the legacy text format cannot carry is excluded: default
   sample bank/volume, non-positive ids and countdown offset, special style
   outside mania, per-sample volume / custom-bank index / suffix / layering
   flag, tick suppression from NaN beat lengths, and consecutive explicit
   Catmull segments."

   The round trip is proved compositionally.  The framing theorem (C05,
   T05a) routes every body line of the encoder's output to the parser of its
   section (C04_shape, C04_headers_once_in_order, C04_body_lines_routed), which
   leaves one obligation per section.  This file discharges the six simple
   sections in full (T02a) and keeps the remaining obligations visible with
   their status.  Statements only, each closed by [exact].

   [read_back m] (Model/EncSpec.v) is DESIGN's [carry] on the simple sections:
   the record itself minus what the format cannot carry (SampleSet from the
   first sample point, default sample volume, non-positive ids and countdown
   offset, special style outside mania). *)
From RM Require Import Model.EncSpec Proofs.EncFmt Proofs.EncSimple Proofs.EncImage Proofs.EncEdit Proofs.EncRound.
From RM Require Import Gen.Generated.
Open Scope Z_scope.

(* ---------- pins ---------- *)

Example pin_defaults : default_beatmap_id = -1 /\ default_sample_volume = 100 /\ default_countdown = 1.
Proof. repeat split; reflexivity. Qed.
Example pin_limits : max_parse_value = 2147483647 /\ max_coordinate_value = 131072.
Proof. split; reflexivity. Qed.
Example pin_scroll_modes : tp_scroll_modes = [1; 3].     (* taiko, mania: D12 *)
Proof. reflexivity. Qed.

(* ---------- T02a [F]: general, editor, metadata, difficulty, events, colours ---------- *)

(* For EVERY input (chronological or not, hostile or not): if the decoded map is outside
   D23, then each of the six encoded sections, parsed from the decoder's initial state,
   yields the section of [read_back m].  With C04's shape / routing theorems and C05's
   framing theorem this is "identical general, editor, metadata (including positive ids),
   difficulty, background, break and colour fields". *)
Theorem C02_simple_sections_round_trip :
  forall fmt_f64 fmt_f32 fmt_int, fmt_ok fmt_f64 fmt_f32 fmt_int ->
  forall dist lines m,
  Forall no_lf_line lines -> decode_beatmap dist lines = Done m -> d23_class m = false ->
  sections_read_back fmt_f64 fmt_f32 fmt_int m.
Proof.
  intros f64 f32 fi Hfmt dist lines m Hl H Hd.
  exact (decoded_sections_read_back f64 f32 fi Hfmt dist lines m Hl H Hd).
Qed.
Print Assumptions C02_simple_sections_round_trip.

(* what [read_back] keeps: positive ids and offsets, the special style in mania *)
Theorem C02_read_back_keeps_positive_ids :
  forall m, 0 < m_beatmap_id (bmv_metadata m) -> 0 < m_beatmap_set_id (bmv_metadata m) ->
  m_beatmap_id (bmv_metadata (read_back m)) = m_beatmap_id (bmv_metadata m) /\
  m_beatmap_set_id (bmv_metadata (read_back m)) = m_beatmap_set_id (bmv_metadata m).
Proof. exact read_back_ids. Qed.
Print Assumptions C02_read_back_keeps_positive_ids.

(* ---------- a complete model-level round trip, on a concrete file ---------- *)
(* All sections, a same-time inherited line, kiai, mania samples, a circle, a hold and a
   spinner: decode, encode, render, decode -- the second map is [read_back] of the first,
   control points and hit objects included (comparison of the canonical dumps). *)
Theorem C02_example_round_trip :
  match round_trip plain_text with
  | Done (m1, m2) => dump_bmv (read_back m1) = dump_bmv m2 /\ length (hov_hit_objects (bmv_ho m1)) = 3%nat
  | _ => False
  end.
Proof. exact plain_round_trip. Qed.
Print Assumptions C02_example_round_trip.

(* ---------- known classes: witnesses on the model ---------- *)
(* [round_trip]: decode, encode, render with the reference printer (exact on the
   integer-valued numbers these inputs contain), decode. *)

(* D12: taiko / mania, inherited multiplier below 0.1: scroll speed 0.01 comes back as 0.1 *)
Theorem C02_scroll_speed_refuted :
  match round_trip d12_text with
  | Done (m1, m2) => scroll_bits m1 = [D.bits (D.of_decimal false 1 (-2))] /\
                     scroll_bits m2 = [D.bits (D.of_decimal false 1 (-1))]
  | _ => False
  end.
Proof. exact d12_witness. Qed.
Print Assumptions C02_scroll_speed_refuted.

(* D13: a Catmull segment whose first two control points coincide loses a control point *)
Theorem C02_catmull_duplicate_refuted :
  match round_trip d13_text with Done (m1, m2) => cps_count m1 = [3] /\ cps_count m2 = [2] | _ => False end.
Proof. exact d13_witness. Qed.
Print Assumptions C02_catmull_duplicate_refuted.

(* D17: a one-point segment repeating the previous segment's type gains a control point *)
Theorem C02_repeated_type_segment_refuted :
  match round_trip d17_text with Done (m1, m2) => cps_count m1 = [9] /\ cps_count m2 = [10] | _ => False end.
Proof. exact d17_witness. Qed.
Print Assumptions C02_repeated_type_segment_refuted.

(* D22: the Mode record follows the timing points: the scroll speed only appears on re-read *)
Theorem C02_mode_after_timing_points_refuted :
  match round_trip d22_text with
  | Done (m1, m2) => scroll_bits m1 = [] /\ scroll_bits m2 = [D.bits (D.of_Z 2)]
  | _ => False
  end.
Proof. exact d22_witness. Qed.
Print Assumptions C02_mode_after_timing_points_refuted.

(* D23: see C04_file_name_misread_refuted (the exception of T02a). *)

(* ---------- the remaining obligations (full statements, status) ----------

   T02b [P, not mechanised]  hit-object lines of circles, spinners and holds:
     forall st h, object_ok h ->
       parse_hit_objects st (render (object_line mode h)) = Done (push st (carry_object mode h), Ok)
     where carry_object erases per-sample volume / custom index / suffix / layering (and, outside
     mania, volume and custom index of the extras).  Float side conditions that the proof needs and
     the oracle exercises: fl(start + fl(end - start)) must again be within the parse limit and must
     reproduce the duration (exact for the integer / short-decimal times of real maps).

   T02c [P, not mechanised]  slider path strings:
     forall pos cps, path_image pos cps -> ~ d13 cps -> ~ d17 cps -> ~ consecutive_catmull cps ->
       convert_path_str (mkPB [] vs) (render (path_toks pos cps)) pos = Done (mkPB cps vs', Ok)
     The three excluded classes are witnessed above (D13, D17) and by the property text itself
     (consecutive explicit Catmull segments).

   T02d [P, not mechanised]  timing points and the three timelines:
     forall m, chronological m -> ~ d12 m ->
       tp_decode g (render (body (enc_timing_points m))) reproduces cp_timing and the functions
       t |-> slider velocity / kiai / scroll speed active at t.

   T02e [P]  sliders end to end: from T02c + C15 + C18 once T02d is done.

   All four are covered by the bit-exact `enc` correspondence (decode + encode model against the
   crate, slider files included) and by the C02 oracle, which compares exactly the items the
   property lists on the real crate; the classes D12, D13, D17, D21, D22, D23 are the only
   failures it reports on the pinned tree. *)

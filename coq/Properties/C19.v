(* C19 -- Position along a curve is a faithful arc-length parametrisation.
   Statements only ([exact] of lemmas from Proofs/PositionFacts, LengthFacts).

   Proved here (T19a; all inputs, IEEE arithmetic): clamping of the progress,
   progress_to_dist = clamp(progress) x dist, the end cases of
   interpolate_vertices (empty path, i = 0, i past the end, near-zero
   segment), absence of panics on every computed curve, and the shape of every
   position (a vertex, or a point on the segment ending at the vertex the
   search selected).

   Also proved: progress 1 and a vertex's own cumulative length in IEEE
   arithmetic (the weight is exactly 1: the result is p0 + (p1 - p0), the
   vertex up to ONE rounding), under finiteness hypotheses and "the last
   length is strictly above the others"; and T19b per segment in exact
   arithmetic, on the interpolation formula shared with the model: vertex
   hits at both ends, 1-Lipschitz / isometry in the distance, convexity.

   Proved at the end of this file (T19b for the WHOLE curve, exact arithmetic,
   on the functions shared with the model; lengths = the cumulative polyline
   lengths of the path, which start at 0 and are non-decreasing; the search
   enters through its contract, which the transcribed std binary search is
   proved to meet on every non-decreasing list, duplicates included):
     - position_at 0 = first vertex, position_at 1 = last vertex (a repeated
       last length included), position_at (lengths[j] / dist) = path[j]
       (vertices carrying the same cumulative length coincide);
     - the GLOBAL bound |position_at a - position_at b| <= |a - b| * dist
       across segments (with the near-zero-segment guard at a width eps > 0:
       + 2 eps).
   And the IEEE reading of progress 1 with a repeated last length.

   Proved in the last section of this file (T19-IEEE; IEEE arithmetic,
   per segment, under explicit magnitude hypotheses: the two vertices' four
   coordinates finite with |c| <= 2^20, d0, d1, d finite with
   0 <= d0 <= d <= d1, the near-zero-segment guard false -- which
   d1 - d0 >= 2^-51 guarantees):
     - the position interpolate_vertices computes differs per coordinate
       from the exact convex combination (the formula of T19b) by at most
       E19 = 2^-24 (max |c0| |c1| + 3.01 |c1 - c0|) + 2^-125;
     - hence it is within E19 of the segment, at a distance numerically equal
       to lengths[i] it is vertex i up to E19, and for two distances on the
       same segment the positions differ by at most the exact slope times
       |a - b| plus 2 E19 (per coordinate, and in Euclidean distance with
       2 (Ex + Ey)).

     - vertex hits through lengths[j] / dist: fl(fl(l_j / dist) * dist) is
       within Dfrac = 2.001 * 2^-53 * l_j + 2^-1075 (2 dist + 1) of l_j; the
       transcribed search meets its contract for the IEEE comparisons on
       finite non-decreasing lengths; and for an interior vertex separated
       from both neighbours by more than Dfrac the computed position is
       vertex j up to slope * Dfrac + E19
       (C19_vertex_fraction_position_partial).

     - ACROSS segments, for the lengths calculate_length itself computes
       (natural path 0: zero seed, no requested length), under the magnitude
       hypotheses of C16_cumulative_lengths_ieee_bound (|c| <= 2^20, every
       segment degenerate or >= 2^-10 long, <= 2^50 vertices, exact length
       <= 2^1000): chord <= arc for the IEEE lengths,
         |p_{k+1} - p_k| <= (1 + delta19) (l_{k+1} - l_k) + eta19 l_{k+1},
       delta19 = 3.02 * 2^-24, eta19 = 1.002 * 2^-53
       (C19_chord_le_length_increment_ieee), its chain over any run of
       vertices (C19_chain_vertices_ieee), and the GLOBAL Lipschitz bound:
       a on segment i, b on segment j >= i (segment indices and the
       per-segment hypotheses given) -- per coordinate and Euclidean
         |pos a - pos b| <= (1 + delta19) |b - a| + (j - i + 1) eta19 l_{j+1}
                            + E19(segment i) + E19(segment j)
       (C19_global_lipschitz_ieee, C19_global_lipschitz_ieee_adjacent).

     - the same WITHOUT per-segment hypotheses and THROUGH THE SEARCH, for
       exact length <= 2^40 (then the guard of the code fires only on
       degenerate segments: C19_guard_fires_only_on_degenerate_segments; the
       computed lengths are finite and non-decreasing:
       C19_natural_lengths_sorted_ieee; the transcribed search puts a
       distance in [0, dist] on a segment containing it:
       C19_search_locates_ieee): with n vertices of coordinate magnitude
       <= M and E19max M = 7.02 * 2^-24 M + 2^-125,
         * the position computed for a distance d against ANY vertex m:
           (1 + delta19) |d - l_m| + n eta19 dist + E19max M
           (C19_position_near_vertex_ieee);
         * VERTEX HITS: position_at (l_j / dist) is vertex j up to
           (1 + delta19) Dfrac + n eta19 dist + E19max M for every vertex
           with l_j > 0 -- clusters of nearly equal lengths, near-zero
           segments and the last vertex included
           (C19_vertex_fraction_position_ieee), and for every vertex, l_j = 0
           included, when dist > 0 (C19_vertex_fraction_position_full_ieee);
         * the GLOBAL Lipschitz bound for two distances in [0, dist] as the
           search locates them, and for position_at at two finite progresses
           in [0, 1]:  (1 + delta19) |b - a| + n eta19 dist + 2 E19max M per
           coordinate, + 4 E19max M Euclidean
           (C19_global_lipschitz_search_ieee,
            C19_global_lipschitz_ieee_position_at); and in the progress
           itself: (1 + delta19) |pb - pa| dist
           + (n eta19 + 2.001 * 2^-53) dist + 2.001 * 2^-1075 + 2 E19max M
           (C19_global_lipschitz_ieee_progress).

   NOT proved (the property stays PARTIAL): all across-segment IEEE results
   are for the NATURAL lengths of the path (calculate_length without a
   requested length, zero seed).  Not covered: a curve cut or extended to a
   requested length (its last length is the requested one, the last vertex
   the adjusted one: needs C16_adjusted_end_ieee_bound chained in), the osu!
   Catmull surplus seed (not stated; the one-step lemma
   InterpIEEEGlobal.add_increment holds for any non-negative accumulator), paths with a non-degenerate segment shorter
   than 2^-10 or an exact length above 2^40 (2^1000 for the theorems with
   given segment indices), a curve with dist = 0 (l_j / dist is NaN),
   progresses outside [0, 1] in the
   Lipschitz statements (they are clamped: C19_progress_below_zero_is_clamped,
   C19_progress_above_one_is_clamped; not chained in).  The
   search oracle of harness/src/c19.rs keeps monitoring with the rounding
   slack 1e-3 + 4e-6 * (magnitude + dist) (4e-6 = 67 * 2^-24), which is wider
   than the proved bounds (7.02 * 2^-24 * magnitude per coordinate and
   position, plus 3.02 * 2^-24 |b - a|, plus n * 1.002 * 2^-53 * dist). *)
From Coq Require Import Reals.
From Flocq Require Import IEEE754.BinarySingleNaN.
From RM Require Import Model.ControlPoints Model.Curve Proofs.PositionFacts Proofs.LengthFacts
  Proofs.FloatFacts Proofs.InterpExact.
Open Scope Z_scope.

(* ---------- progress -> distance: clamping ---------- *)

Theorem C19_progress_below_zero_is_clamped :
  forall path lengths p, D.lt p D.zero = true ->
  progress_to_dist lengths p = progress_to_dist lengths D.zero /\
  position_at path lengths p = position_at path lengths D.zero.
Proof. intros. split; [now apply progress_to_dist_below|now apply position_at_below]. Qed.
Print Assumptions C19_progress_below_zero_is_clamped.

Theorem C19_progress_above_one_is_clamped :
  forall path lengths p, D.gt p D.one = true ->
  progress_to_dist lengths p = progress_to_dist lengths D.one /\
  position_at path lengths p = position_at path lengths D.one.
Proof. intros. split; [now apply progress_to_dist_above|now apply position_at_above]. Qed.
Print Assumptions C19_progress_above_one_is_clamped.

(* inside [0, 1]: the distance is progress x total distance (one IEEE multiplication) *)
Theorem C19_distance_is_progress_times_total :
  forall lengths p, D.lt p D.zero = false -> D.gt p D.one = false ->
  progress_to_dist lengths p = D.mul p (dist lengths).
Proof. exact progress_to_dist_inside. Qed.
Print Assumptions C19_distance_is_progress_times_total.

(* the total distance is the last cumulative length *)
Theorem C19_dist_is_last_length :
  (forall pre x, dist (pre ++ [x]) = x) /\ dist [] = D.zero.
Proof. split; [exact dist_app|exact dist_nil]. Qed.
Print Assumptions C19_dist_is_last_length.

(* NaN is excluded by hypothesis above for a reason: f64::clamp keeps it *)
Theorem C19_nan_progress_is_not_clamped :
  forall lengths, progress_to_dist lengths D.nan = D.mul D.nan (dist lengths).
Proof. exact progress_to_dist_nan. Qed.
Print Assumptions C19_nan_progress_is_not_clamped.

(* ---------- interpolate_vertices: end cases ---------- *)

Theorem C19_empty_path_gives_origin :
  forall lengths i d, interpolate_vertices [] lengths i d = Done pos0.
Proof. exact interpolate_empty. Qed.
Print Assumptions C19_empty_path_gives_origin.

Theorem C19_index_zero_gives_first_vertex :
  forall p path lengths d, interpolate_vertices (p :: path) lengths 0 d = Done p.
Proof. exact interpolate_first. Qed.
Print Assumptions C19_index_zero_gives_first_vertex.

Theorem C19_index_past_end_gives_last_vertex :
  forall path lengths i d, path <> [] -> (length path <= i)%nat ->
  interpolate_vertices path lengths i d = Done (last path pos0).
Proof. exact interpolate_past_end. Qed.
Print Assumptions C19_index_past_end_gives_last_vertex.

(* between two vertices: the near-zero segment guard, else linear interpolation *)
Theorem C19_interpolation_between_vertices :
  forall path lengths i d p0 p1 d0 d1,
  nth_error path i = Some p0 -> nth_error path (S i) = Some p1 ->
  nth_error lengths i = Some d0 -> nth_error lengths (S i) = Some d1 ->
  interpolate_vertices path lengths (S i) d =
  Done (if D.le (D.abs (D.sub d0 d1)) D.eps then p0
        else padd p0 (pmul (psub p1 p0) (f32_of_f64 (D.div (D.sub d d0) (D.sub d1 d0))))).
Proof. exact interpolate_between. Qed.
Print Assumptions C19_interpolation_between_vertices.

(* the transcribed std binary search never leaves the slice, whatever the
   comparator answers (unsorted lengths, duplicates, NaN) *)
Theorem C19_search_index_in_bounds :
  forall lengths d, (idx_of_dist lengths d <= length lengths)%nat.
Proof. exact idx_of_dist_bound. Qed.
Print Assumptions C19_search_index_in_bounds.

(* ---------- on every computed curve ---------- *)

(* position_at and interpolate_vertices never panic (indexing lengths[i]) *)
Theorem C19_no_panic_on_computed_curves :
  forall lm fuel mode pts e c, curve_L1 lm fuel mode pts e = Done c ->
  (forall p, exists q, position_at (c_path c) (c_lengths c) p = Done q) /\
  (forall i d, exists q, interpolate_vertices (c_path c) (c_lengths c) i d = Done q).
Proof.
  intros lm fuel mode pts e c H. destruct (curve_L1_sizes lm fuel mode pts e c H) as [Hs _].
  split; intros; [now apply position_at_total|now apply interpolate_total].
Qed.
Print Assumptions C19_no_panic_on_computed_curves.

(* every position is the origin (empty path), a vertex of the path, or lies
   on the segment ending at the vertex selected by the search *)
Theorem C19_position_structure_partial :
  forall path lengths p q, (length path <= length lengths)%nat ->
  position_at path lengths p = Done q ->
  (path = [] /\ q = pos0) \/ In q path \/
  exists i p0 p1 d0 d1,
    S i = idx_of_dist lengths (progress_to_dist lengths p) /\
    nth_error path i = Some p0 /\ nth_error path (S i) = Some p1 /\
    nth_error lengths i = Some d0 /\ nth_error lengths (S i) = Some d1 /\
    q = padd p0 (pmul (psub p1 p0)
          (f32_of_f64 (D.div (D.sub (progress_to_dist lengths p) d0) (D.sub d1 d0)))).
Proof. exact position_at_shape. Qed.
Print Assumptions C19_position_structure_partial.

(* progress 0 -- hence, by clamping, every negative progress -- is EXACTLY the
   first vertex, in IEEE arithmetic, for every curve whose total distance is
   finite and whose cumulative lengths after the first are all positive
   (no leading zero-length segment; no hypothesis on order or on the path) *)
Theorem C19_progress_zero_is_first_vertex :
  forall first path t,
  finite64 (dist (D.zero :: t)) -> Forall positive64 t ->
  position_at (first :: path) (D.zero :: t) D.zero = Done first.
Proof. exact position_at_zero. Qed.
Print Assumptions C19_progress_zero_is_first_vertex.

(* ---------- progress 1 and vertex hits, IEEE arithmetic ---------- *)

(* progress 1: the distance is EXACTLY the last cumulative length, and the
   search selects the last index when that length is strictly above the others *)
Theorem C19_progress_one_distance_and_index :
  forall pre L, fin64 L -> Forall (fun x => D.lt x L = true) pre ->
  progress_to_dist (pre ++ [L]) D.one = L /\ idx_of_dist (pre ++ [L]) L = length pre.
Proof. exact progress_one_selects_last. Qed.
Print Assumptions C19_progress_one_distance_and_index.

(* at a vertex's own cumulative length the interpolation weight is exactly 1:
   the position is p0 + (p1 - p0) (or p0 under the near-zero-segment guard) *)
Theorem C19_position_at_vertex_length :
  forall path lengths i p0 p1 d0 d1,
  nth_error path i = Some p0 -> nth_error path (S i) = Some p1 ->
  nth_error lengths i = Some d0 -> nth_error lengths (S i) = Some d1 ->
  fin64 (D.sub d1 d0) -> B2R (D.sub d1 d0) <> 0%R ->
  fin32 (px (psub p1 p0)) -> fin32 (py (psub p1 p0)) ->
  interpolate_vertices path lengths (S i) d1 =
  Done (if D.le (D.abs (D.sub d0 d1)) D.eps then p0 else padd p0 (psub p1 p0)).
Proof. exact interpolate_at_own_length. Qed.
Print Assumptions C19_position_at_vertex_length.

(* progress 1: the last vertex q up to the single rounding of p0 + (q - p0) *)
Theorem C19_progress_one_is_last_vertex :
  forall ppre p0 q pre d0 L,
  length ppre = length pre ->
  fin64 L -> Forall (fun x => D.lt x L = true) (pre ++ [d0]) ->
  fin64 (D.sub L d0) -> B2R (D.sub L d0) <> 0%R ->
  fin32 (px (psub q p0)) -> fin32 (py (psub q p0)) ->
  position_at ((ppre ++ [p0]) ++ [q]) ((pre ++ [d0]) ++ [L]) D.one =
  Done (if D.le (D.abs (D.sub d0 L)) D.eps then p0 else padd p0 (psub q p0)).
Proof. exact position_at_one. Qed.
Print Assumptions C19_progress_one_is_last_vertex.

Theorem C19_progress_one_single_vertex :
  forall q L, fin64 L -> position_at [q] [L] D.one = Done q.
Proof. exact position_at_one_single. Qed.
Print Assumptions C19_progress_one_single_vertex.

(* ---------- T19b per segment, exact arithmetic ---------- *)

(* the model's interpolation expression is the IEEE instance of one formula ... *)
Theorem C19_model_interpolation_formula :
  forall p0 p1 d0 d1 d,
  padd p0 (pmul (psub p1 p0) (f32_of_f64 (D.div (D.sub d d0) (D.sub d1 d0)))) =
  mkPos (interp_coord_g D.sub D.div f32_of_f64 S.add S.sub S.mul (px p0) (px p1) d0 d1 d)
        (interp_coord_g D.sub D.div f32_of_f64 S.add S.sub S.mul (py p0) (py p1) d0 d1 d).
Proof. exact model_interp. Qed.
Print Assumptions C19_model_interpolation_formula.

(* ... whose real instance hits both vertices, *)
Theorem C19_exact_vertex_hits :
  forall c0 c1 d0 d1 : R, d1 <> d0 ->
  interp_R c0 c1 d0 d1 d0 = c0 /\ interp_R c0 c1 d0 d1 d1 = c1 /\ (c0 + (c1 - c0) = c1)%R.
Proof. intros. split; [now apply interp_R_at_d0|]. split; [now apply interp_R_at_d1|apply end_value_R]. Qed.
Print Assumptions C19_exact_vertex_hits.

(* never moves farther than the arc length between two distances (bookkeeping
   length >= geometric length), *)
Theorem C19_exact_segment_lipschitz :
  forall x0 y0 x1 y1 d0 d1 a b : R,
  (d0 < d1)%R -> ((x1 - x0) ^ 2 + (y1 - y0) ^ 2 <= (d1 - d0) ^ 2)%R ->
  ((interp_R x0 x1 d0 d1 a - interp_R x0 x1 d0 d1 b) ^ 2 +
   (interp_R y0 y1 d0 d1 a - interp_R y0 y1 d0 d1 b) ^ 2 <= (a - b) ^ 2)%R.
Proof. exact segment_lipschitz. Qed.
Print Assumptions C19_exact_segment_lipschitz.

(* and is an arc-length parametrisation when the lengths are the polyline's own *)
Theorem C19_exact_segment_isometry :
  forall x0 y0 x1 y1 d0 d1 a b : R,
  (d0 < d1)%R -> ((x1 - x0) ^ 2 + (y1 - y0) ^ 2 = (d1 - d0) ^ 2)%R ->
  ((interp_R x0 x1 d0 d1 a - interp_R x0 x1 d0 d1 b) ^ 2 +
   (interp_R y0 y1 d0 d1 a - interp_R y0 y1 d0 d1 b) ^ 2 = (a - b) ^ 2)%R.
Proof. exact segment_isometry. Qed.
Print Assumptions C19_exact_segment_isometry.

(* ---------- concrete readings (dumps) ---------- *)

Definition lm0 : Libm := mkLibm (fun x => x) (fun x => x) (fun y _ => y) (fun x => x).
Definition pt (x y : Z) (t : option SplineType) : PathControlPoint := mkPCP (mkPos (S.of_Z x) (S.of_Z y)) t.
Definition half : F64 := D.of_ZE 1 (-1) false.

(* non-vacuity: the 3-4-5 / 5-12-13 polyline (0,0) (3,4) (8,16): distance 18;
   progress 0 -> (0,0), 1/2 -> distance 9 -> 4/13 along the second segment,
   1 and 7 -> (8,16), -1 -> (0,0) *)
Example C19_nonvacuous :
  match curve_L1 lm0 bezier_fuel 1 [pt 0 0 (Some Linear); pt 3 4 None; pt 8 16 None] None with
  | Done c =>
      (D.bits (dist (c_lengths c)),
       dump_out dump_pos (position_at (c_path c) (c_lengths c) D.zero),
       dump_out dump_pos (position_at (c_path c) (c_lengths c) (D.neg D.one)),
       dump_out dump_pos (position_at (c_path c) (c_lengths c) D.one),
       dump_out dump_pos (position_at (c_path c) (c_lengths c) (D.of_Z 7)),
       D.bits (progress_to_dist (c_lengths c) half),
       idx_of_dist (c_lengths c) (progress_to_dist (c_lengths c) half))
  | _ => (0, [], [], [], [], 0, O)
  end
  = (D.bits (D.of_Z 18),
     0 :: dump_pos (mkPos (S.of_Z 0) (S.of_Z 0)), 0 :: dump_pos (mkPos (S.of_Z 0) (S.of_Z 0)),
     0 :: dump_pos (mkPos (S.of_Z 8) (S.of_Z 16)), 0 :: dump_pos (mkPos (S.of_Z 8) (S.of_Z 16)),
     D.bits (D.of_Z 9), 2%nat).
Proof. vm_compute. reflexivity. Qed.

(* reading recorded in the header: with several leading vertices at cumulative
   length 0 the position at progress 0 need not be the *first* vertex object --
   here it is vertex 1, which has the same coordinates only because the
   lengths are true polyline lengths *)
Example C19_leading_zero_lengths :
  let lengths := [D.zero; D.zero; D.zero; D.of_Z 5] in
  idx_of_dist lengths (progress_to_dist lengths D.zero) = 2%nat.
Proof. vm_compute. reflexivity. Qed.

(* ================================================================== *)
(* T19b for the whole curve -- exact arithmetic                        *)
(* ================================================================== *)
From RM Require Import Proofs.AdjustExact Proofs.PositionExact.

(* position_at & friends are written once over abstract operations; the model
   is the IEEE instance ... *)
Theorem C19_model_position_formula :
  forall path lengths p,
  position_at path lengths p =
  position_at_g D.zero D.one D.mul D.lt D.gt
    (fun d0 d1 => D.le (D.abs (D.sub d0 d1)) D.eps)
    (fun p0 p1 d0 d1 d => padd p0 (pmul (psub p1 p0) (f32_of_f64 (D.div (D.sub d d0) (D.sub d1 d0)))))
    pos0 (idx_of_dist_g D.lt D.gt) path lengths p.
Proof. exact model_position_at. Qed.
Print Assumptions C19_model_position_formula.

Theorem C19_model_search_formula : idx_of_dist = idx_of_dist_g D.lt D.gt.
Proof. exact model_idx_of_dist. Qed.
Print Assumptions C19_model_search_formula.

(* ... and this is the real instance the theorems below are about: guard
   |d0 - d1| <= eps, the interpolation formula interp_R per coordinate, the
   comparisons of R, cumulative lengths = running sums of Euclidean distances *)
Theorem C19_real_instance :
  (forall eps search, position_R eps search =
     position_at_g 0%R 1%R Rmult Rltb Rgtb (near_R eps) interp2 (0%R, 0%R) search) /\
  (forall eps d0 d1, near_R eps d0 d1 = true <-> (Rabs (d0 - d1) <= eps)%R) /\
  (forall p0 p1 d0 d1 d, interp2 p0 p1 d0 d1 d =
     (interp_R (fst p0) (fst p1) d0 d1 d, interp_R (snd p0) (snd p1) d0 d1 d)) /\
  (forall a b, Rltb a b = true <-> (a < b)%R) /\ (forall a b, Rgtb a b = Rltb b a) /\
  idx_of_dist_R = idx_of_dist_g Rltb Rgtb /\
  (forall path, cumlen path = 0%R :: fst (cum_g Rplus edist 0%R path)) /\
  (forall path, poly_len path = snd (cum_g Rplus edist 0%R path)).
Proof.
  split; [reflexivity|]. split; [intros eps d0 d1; unfold near_R; destruct (Rle_dec (Rabs (d0 - d1)) eps); split; intros; try assumption; try reflexivity; try discriminate; contradiction|].
  split; [reflexivity|]. split; [exact Rltb_true|]. repeat split.
Qed.
Print Assumptions C19_real_instance.

(* the contract of the search: i is an element equal to d, or every element
   before i is below d and every element from i on is above d *)
Theorem C19_search_contract_definition :
  forall search, search_contract search <->
  forall l d, (forall i j x y, (i <= j)%nat -> nth_error l i = Some x -> nth_error l j = Some y -> (x <= y)%R) ->
  (search l d <= length l)%nat /\
  ((exists x, nth_error l (search l d) = Some x /\ x = d) \/
   ((forall j x, (j < search l d)%nat -> nth_error l j = Some x -> (x < d)%R) /\
    (forall j x, (search l d <= j)%nat -> nth_error l j = Some x -> (d < x)%R))).
Proof. intros. reflexivity. Qed.
Print Assumptions C19_search_contract_definition.

(* the transcribed std binary search meets it on every non-decreasing list
   (duplicates included) ... *)
Theorem C19_std_search_meets_contract : search_contract idx_of_dist_R.
Proof. exact idx_of_dist_R_contract. Qed.
Print Assumptions C19_std_search_meets_contract.

(* ... as an instance of: for ANY comparator that is monotone along the list *)
Theorem C19_std_search_contract_generic :
  forall (Q : Type) (f : Q -> comparison) (l : list Q),
  (forall i j x y, (i <= j)%nat -> nth_error l i = Some x -> nth_error l j = Some y -> f x = Gt -> f y = Gt) ->
  (forall i j x y, (i <= j)%nat -> nth_error l i = Some x -> nth_error l j = Some y -> f y = Lt -> f x = Lt) ->
  match bsearch_by f l with
  | inl i => exists x, nth_error l i = Some x /\ f x = Eq
  | inr i => (i <= length l)%nat /\
             (forall j x, (j < i)%nat -> nth_error l j = Some x -> f x = Lt) /\
             (forall j x, (i <= j)%nat -> nth_error l j = Some x -> f x = Gt)
  end.
Proof. exact @bsearch_by_contract. Qed.
Print Assumptions C19_std_search_contract_generic.

(* cumulative polyline lengths: first 0, non-decreasing, the chord between two
   vertices is not longer than the arc; equal lengths => the same point *)
Theorem C19_cumulative_lengths_facts :
  forall path : list P2, path <> [] ->
  nth_error (cumlen path) 0 = Some 0%R /\ length (cumlen path) = length path /\
  (forall i j x y, (i <= j)%nat -> nth_error (cumlen path) i = Some x -> nth_error (cumlen path) j = Some y -> (x <= y)%R) /\
  (forall i j p q a b, (i <= j)%nat -> nth_error path i = Some p -> nth_error path j = Some q ->
     nth_error (cumlen path) i = Some a -> nth_error (cumlen path) j = Some b -> (edist p q <= b - a)%R) /\
  (forall i j p q a, nth_error path i = Some p -> nth_error path j = Some q ->
     nth_error (cumlen path) i = Some a -> nth_error (cumlen path) j = Some a -> p = q).
Proof.
  intros path H. split; [reflexivity|]. split; [exact (lens_length path H)|].
  split; [exact (lens_sorted path H)|]. split; [exact (chord_le_arc path H)|exact (same_length_same_vertex path H)].
Qed.
Print Assumptions C19_cumulative_lengths_facts.

(* for ANY contract-conforming search: *)

(* at the cumulative length of vertex j the position is vertex j *)
Theorem C19_exact_position_at_vertex_length :
  forall (path : list P2), path <> [] -> forall search, search_contract search ->
  forall j pj lj, nth_error path j = Some pj -> nth_error (cumlen path) j = Some lj ->
  interpolate_R 0 path (cumlen path) (search (cumlen path) lj) lj = Done pj.
Proof. exact interpolate_at_vertex_length. Qed.
Print Assumptions C19_exact_position_at_vertex_length.

(* progress 0 (and below): the first vertex *)
Theorem C19_exact_progress_zero :
  forall (path : list P2), path <> [] -> forall search, search_contract search ->
  forall first, nth_error path 0 = Some first ->
  forall p, (p <= 0)%R -> position_R 0 search path (cumlen path) p = Done first.
Proof. exact position_at_zero_R. Qed.
Print Assumptions C19_exact_progress_zero.

(* progress 1 (and above): the last vertex -- a repeated last length included *)
Theorem C19_exact_progress_one :
  forall (path : list P2), path <> [] -> forall search, search_contract search ->
  forall p, (1 <= p)%R -> position_R 0 search path (cumlen path) p = Done (last path (0%R, 0%R)).
Proof. exact position_at_one_R. Qed.
Print Assumptions C19_exact_progress_one.

(* progress lengths[j] / dist: vertex j *)
Theorem C19_exact_vertex_fraction :
  forall (path : list P2), path <> [] -> forall search, search_contract search ->
  forall j pj lj, (0 < poly_len path)%R ->
  nth_error path j = Some pj -> nth_error (cumlen path) j = Some lj ->
  position_R 0 search path (cumlen path) (lj / poly_len path) = Done pj.
Proof. exact position_at_vertex_fraction. Qed.
Print Assumptions C19_exact_vertex_fraction.

(* the global Lipschitz bound, across segments *)
Theorem C19_exact_lipschitz :
  forall (path : list P2), path <> [] -> forall search, search_contract search ->
  forall a b, exists qa qb,
    position_R 0 search path (cumlen path) a = Done qa /\
    position_R 0 search path (cumlen path) b = Done qb /\
    (edist qa qb <= Rabs (a - b) * poly_len path)%R.
Proof. exact position_at_lipschitz. Qed.
Print Assumptions C19_exact_lipschitz.

(* with the near-zero-segment guard at its real width eps (the code:
   f64::EPSILON): a point inside a segment not longer than eps is reported as
   the segment's start, which costs at most eps at either end *)
Theorem C19_exact_lipschitz_with_guard :
  forall (path : list P2), path <> [] -> forall search, search_contract search ->
  forall eps a b, (0 <= eps)%R -> exists qa qb,
    position_R eps search path (cumlen path) a = Done qa /\
    position_R eps search path (cumlen path) b = Done qb /\
    (edist qa qb <= Rabs (a - b) * poly_len path + 2 * eps)%R.
Proof. exact position_at_lipschitz_guard. Qed.
Print Assumptions C19_exact_lipschitz_with_guard.

(* the Section hypothesis discharged: the same for the transcribed search *)
Theorem C19_exact_whole_curve :
  forall (path : list P2), path <> [] ->
  (forall first p, nth_error path 0 = Some first -> (p <= 0)%R ->
     position_R 0 idx_of_dist_R path (cumlen path) p = Done first) /\
  (forall p, (1 <= p)%R -> position_R 0 idx_of_dist_R path (cumlen path) p = Done (last path (0%R, 0%R))) /\
  (forall j pj lj, (0 < poly_len path)%R -> nth_error path j = Some pj -> nth_error (cumlen path) j = Some lj ->
     position_R 0 idx_of_dist_R path (cumlen path) (lj / poly_len path) = Done pj) /\
  (forall a b, exists qa qb,
     position_R 0 idx_of_dist_R path (cumlen path) a = Done qa /\
     position_R 0 idx_of_dist_R path (cumlen path) b = Done qb /\
     (edist qa qb <= Rabs (a - b) * poly_len path)%R).
Proof.
  intros path H. split; [intros; now apply std_position_at_zero|]. split; [intros; now apply std_position_at_one|].
  split; [intros j pj lj HL Hp Hl; exact (std_position_at_vertex_fraction path j pj lj H HL Hp Hl)|intros; now apply std_position_at_lipschitz].
Qed.
Print Assumptions C19_exact_whole_curve.

(* non-vacuity: the polyline of C19_nonvacuous has cumulative lengths 0, 5, 18 *)
Theorem C19_exact_example :
  cumlen [(0, 0); (3, 4); (8, 16)]%R = [0; 5; 18]%R /\ poly_len [(0, 0); (3, 4); (8, 16)]%R = 18%R.
Proof. exact cumlen_example. Qed.
Print Assumptions C19_exact_example.

(* ================================================================== *)
(* progress 1 with a REPEATED last cumulative length -- IEEE arithmetic *)
(* ================================================================== *)
From RM Require Import Proofs.LengthMono Proofs.PositionEndIEEE.

(* on non-decreasing lengths without NaN / negative entries and a finite total
   L, the search at distance L returns an index whose length is numerically
   equal to L (whichever of the equal entries the binary search lands on) *)
Theorem C19_search_at_total_distance :
  forall pre L,
  nondec (pre ++ [L]) -> Forall pos64 (pre ++ [L]) -> is_finite L = true ->
  exists x, nth_error (pre ++ [L]) (idx_of_dist (pre ++ [L]) L) = Some x /\
            is_finite x = true /\ B2R x = B2R L.
Proof. exact search_at_total. Qed.
Print Assumptions C19_search_at_total_distance.

(* at a distance numerically equal to the selected vertex's cumulative length
   the interpolation weight is exactly 1 (the subtraction d1 - d0 cannot round
   to zero outside the near-zero-segment guard) *)
Theorem C19_weight_one_at_equal_length :
  forall path lengths i p0 p1 d0 d1 d,
  nth_error path i = Some p0 -> nth_error path (S i) = Some p1 ->
  nth_error lengths i = Some d0 -> nth_error lengths (S i) = Some d1 ->
  fin64 d0 -> fin64 d1 -> fin64 d -> (0 <= B2R d0 <= B2R d1)%R -> B2R d = B2R d1 ->
  fin32 (px (psub p1 p0)) -> fin32 (py (psub p1 p0)) ->
  interpolate_vertices path lengths (S i) d =
  Done (if D.le (D.abs (D.sub d0 d1)) D.eps then p0 else padd p0 (psub p1 p0)).
Proof. exact interpolate_at_equal_length. Qed.
Print Assumptions C19_weight_one_at_equal_length.

(* progress 1 on every lengths list of the class of C16_lengths_nondecreasing
   (every zero-seed outcome of calculate_length, the "last two points equal"
   outcome with its extra entry included): the distance is exactly the total
   L, and the position is the first vertex (index 0: L = 0), the last vertex
   (index past the path), or -- for a vertex p1 whose cumulative length equals
   L -- the vertex before it under the near-zero-segment guard, else
   p0 + (p1 - p0): that vertex up to ONE rounding *)
Theorem C19_progress_one_repeated_last_length :
  forall path lens,
  lengths_ok lens -> fin64 (Curve.dist lens) ->
  (forall i p0 p1, nth_error path i = Some p0 -> nth_error path (S i) = Some p1 ->
     fin32 (px (psub p1 p0)) /\ fin32 (py (psub p1 p0))) ->
  (length path <= length lens)%nat -> path <> [] ->
  let L := Curve.dist lens in
  progress_to_dist lens D.one = L /\
  exists q, position_at path lens D.one = Done q /\
    (q = hd pos0 path \/ q = last path pos0 \/
     exists i p0 p1 d0 d1,
       S i = idx_of_dist lens L /\
       nth_error path i = Some p0 /\ nth_error path (S i) = Some p1 /\
       nth_error lens i = Some d0 /\ nth_error lens (S i) = Some d1 /\
       B2R d1 = B2R L /\
       ((D.le (D.abs (D.sub d0 d1)) D.eps = true /\ q = p0) \/
        (D.le (D.abs (D.sub d0 d1)) D.eps = false /\ q = padd p0 (psub p1 p0)))).
Proof. exact position_at_one_lengths_ok. Qed.
Print Assumptions C19_progress_one_repeated_last_length.

(* concrete: (0,0) (3,4) (3,4) with L = 20 -- the last two points are equal
   and L is beyond the natural length 5: lengths 0, 5, 5, 5 for 3 vertices;
   the search lands on the extra entry and progress 1 is the last vertex *)
Example C19_repeated_last_length_example :
  match curve_L1 lm0 bezier_fuel 1 [pt 0 0 (Some Linear); pt 3 4 None; pt 3 4 None] (Some (D.of_Z 20)) with
  | Done c =>
      (length (c_path c), map D.bits (c_lengths c),
       idx_of_dist (c_lengths c) (progress_to_dist (c_lengths c) D.one),
       dump_out dump_pos (position_at (c_path c) (c_lengths c) D.one))
  | _ => (O, [], O, [])
  end
  = (3%nat, [D.bits D.zero; D.bits (D.of_Z 5); D.bits (D.of_Z 5); D.bits (D.of_Z 5)], 3%nat,
     0%Z :: dump_pos (mkPos (S.of_Z 3) (S.of_Z 4))).

Proof. vm_compute. reflexivity. Qed.

(* ================================================================== *)
(* T19-IEEE -- rounding error of the position on a segment             *)
(* ================================================================== *)
From RM Require Import Proofs.LengthBound Proofs.AdjustIEEEBase Proofs.AdjustIEEE Proofs.InterpIEEE Proofs.InterpIEEEFrac Proofs.AdjustIEEEEx.
Open Scope Z_scope.

(* the guard of the code is |fl(d0 - d1)| <= f64::EPSILON = 2^-52 (pinned);
   it is false as soon as d1 - d0 >= 2^-51, and outside it d0 < d1 *)
Example C19_pin_eps : D.bits D.eps = 4372995238176751616 /\ 4372995238176751616 = 0x3CB0000000000000.
Proof. vm_compute. split; reflexivity. Qed.
Theorem C19_eps_value : is_finite D.eps = true /\ B2R D.eps = Raux.bpow Zaux.radix2 (-52).
Proof. exact eps_R. Qed.
Print Assumptions C19_eps_value.

Theorem C19_guard_is_false_beyond_two_eps :
  forall d0 d1 : F64, is_finite d0 = true -> is_finite d1 = true -> (0 <= B2R d0)%R ->
  (Raux.bpow Zaux.radix2 (-51) <= B2R d1 - B2R d0)%R ->
  D.le (D.abs (D.sub d0 d1)) D.eps = false.
Proof. exact guard_false_of_gap. Qed.
Print Assumptions C19_guard_is_false_beyond_two_eps.

Theorem C19_outside_guard_lengths_differ :
  forall d0 d1 : F64, is_finite d0 = true -> is_finite d1 = true -> (0 <= B2R d0 <= B2R d1)%R ->
  D.le (D.abs (D.sub d0 d1)) D.eps = false -> (B2R d0 < B2R d1)%R.
Proof. exact guard_false_lt. Qed.
Print Assumptions C19_outside_guard_lengths_differ.

(* the hypotheses and the bound, spelled out: coordinates of the two vertices
   finite with |c| <= 2^20; d0, d1, d finite with 0 <= d0 <= d <= d1; the guard
   false.  No bound on the size of the lengths, no lower bound on d1 - d0
   beyond the guard.  E19 c0 c1 = 2^-24 (max |c0| |c1| + 3.01 |c1 - c0|) + 2^-125 *)
Theorem C19_ieee_hypotheses :
  (forall p0 p1 d0 d1 d, interp_hyps p0 p1 d0 d1 d <->
     bnd32 (px p0) 20 /\ bnd32 (py p0) 20 /\ bnd32 (px p1) 20 /\ bnd32 (py p1) 20 /\
     is_finite d0 = true /\ is_finite d1 = true /\ is_finite d = true /\
     (0 <= B2R d0)%R /\ (B2R d0 <= B2R d <= B2R d1)%R /\
     D.le (D.abs (D.sub d0 d1)) D.eps = false) /\
  (forall x k, bnd32 x k <-> is_finite x = true /\ (Rabs (B2R x) <= Raux.bpow Zaux.radix2 k)%R) /\
  (forall c0 c1, E19 c0 c1 =
     (/ 16777216 * (Rmax (Rabs c0) (Rabs c1) + 3.01 * Rabs (c1 - c0)) + Raux.bpow Zaux.radix2 (-125))%R) /\
  (forall p, R2 p = (B2R (px p), B2R (py p))).
Proof. split; [|split; [|split]]; intros; reflexivity. Qed.
Print Assumptions C19_ieee_hypotheses.

(* T19-IEEE.  Between two vertices, outside the guard: the position
   interpolate_vertices computes is finite and differs per coordinate from
   the exact convex combination p0 + (p1 - p0) (d - d0) / (d1 - d0) (interp_R:
   the same formula over the reals, about which T19b speaks) by at most E19 *)
Theorem C19_interpolation_ieee_bound :
  forall path lengths i d p0 p1 d0 d1,
  nth_error path i = Some p0 -> nth_error path (S i) = Some p1 ->
  nth_error lengths i = Some d0 -> nth_error lengths (S i) = Some d1 ->
  interp_hyps p0 p1 d0 d1 d ->
  exists q, interpolate_vertices path lengths (S i) d = Done q /\
    is_finite (px q) = true /\ is_finite (py q) = true /\
    (Rabs (B2R (px q) - interp_R (B2R (px p0)) (B2R (px p1)) (B2R d0) (B2R d1) (B2R d))
       <= E19 (B2R (px p0)) (B2R (px p1)))%R /\
    (Rabs (B2R (py q) - interp_R (B2R (py p0)) (B2R (py p1)) (B2R d0) (B2R d1) (B2R d))
       <= E19 (B2R (py p0)) (B2R (py p1)))%R.
Proof. exact interpolation_ieee_bound. Qed.
Print Assumptions C19_interpolation_ieee_bound.

(* the interpolation weight ((d - d0) / (d1 - d0)) as f32: the exact weight W
   in [0, 1] up to W * 1.001 * 2^-24 + 2^-149 *)
Theorem C19_weight_ieee_bound :
  forall d0 d1 d : F64,
  is_finite d0 = true -> is_finite d1 = true -> is_finite d = true ->
  (0 <= B2R d0)%R -> (B2R d0 <= B2R d <= B2R d1)%R -> (B2R d0 < B2R d1)%R ->
  let w := f32_of_f64 (D.div (D.sub d d0) (D.sub d1 d0)) in
  let W := ((B2R d - B2R d0) / (B2R d1 - B2R d0))%R in
  is_finite w = true /\ (Rabs (B2R w) <= Raux.bpow Zaux.radix2 1)%R /\ (0 <= W <= 1)%R /\
  rela (B2R w) W (1.001 * u32)%R (Raux.bpow Zaux.radix2 (-149)).
Proof. exact weight_rela. Qed.
Print Assumptions C19_weight_ieee_bound.

Theorem C19_rela_definition :
  forall c v e a, rela c v e a <-> exists d h, (c = v * (1 + d) + h /\ Rabs d <= e /\ Rabs h <= a)%R.
Proof. intros. reflexivity. Qed.
Print Assumptions C19_rela_definition.

(* (a) the computed position is within E19 (per coordinate) of a point of the
   segment [p0, p1] *)
Theorem C19_position_near_segment :
  forall path lengths i d p0 p1 d0 d1,
  nth_error path i = Some p0 -> nth_error path (S i) = Some p1 ->
  nth_error lengths i = Some d0 -> nth_error lengths (S i) = Some d1 ->
  interp_hyps p0 p1 d0 d1 d ->
  exists q w, interpolate_vertices path lengths (S i) d = Done q /\ (0 <= w <= 1)%R /\
    (Rabs (B2R (px q) - ((1 - w) * B2R (px p0) + w * B2R (px p1))) <= E19 (B2R (px p0)) (B2R (px p1)))%R /\
    (Rabs (B2R (py q) - ((1 - w) * B2R (py p0) + w * B2R (py p1))) <= E19 (B2R (py p0)) (B2R (py p1)))%R.
Proof. exact interpolation_near_segment. Qed.
Print Assumptions C19_position_near_segment.

(* (b) vertex hit: at a distance numerically equal to the cumulative length of
   vertex p1 the weight is exactly 1 (C19_weight_one_at_equal_length), the
   position is fl(p0 + fl(p1 - p0)), and that is the vertex p1 up to E19 *)
Theorem C19_vertex_hit_ieee_bound :
  forall path lengths i d p0 p1 d0 d1,
  nth_error path i = Some p0 -> nth_error path (S i) = Some p1 ->
  nth_error lengths i = Some d0 -> nth_error lengths (S i) = Some d1 ->
  interp_hyps p0 p1 d0 d1 d -> B2R d = B2R d1 ->
  interpolate_vertices path lengths (S i) d = Done (padd p0 (psub p1 p0)) /\
  (Rabs (B2R (px (padd p0 (psub p1 p0))) - B2R (px p1)) <= E19 (B2R (px p0)) (B2R (px p1)))%R /\
  (Rabs (B2R (py (padd p0 (psub p1 p0))) - B2R (py p1)) <= E19 (B2R (py p0)) (B2R (py p1)))%R.
Proof. exact interpolation_vertex_hit. Qed.
Print Assumptions C19_vertex_hit_ieee_bound.

(* (c) local Lipschitz bound: for two distances a, b on the same segment the
   computed positions differ by at most the exact slope times |a - b| plus
   twice the rounding bound -- per coordinate, and in Euclidean distance
   (with true cumulative lengths |p1 - p0| / (d1 - d0) = 1: the position moves
   at most |a - b| + 2 (Ex + Ey)) *)
Theorem C19_local_lipschitz_ieee_bound :
  forall path lengths i a b p0 p1 d0 d1,
  nth_error path i = Some p0 -> nth_error path (S i) = Some p1 ->
  nth_error lengths i = Some d0 -> nth_error lengths (S i) = Some d1 ->
  interp_hyps p0 p1 d0 d1 a -> interp_hyps p0 p1 d0 d1 b ->
  let Ex := E19 (B2R (px p0)) (B2R (px p1)) in
  let Ey := E19 (B2R (py p0)) (B2R (py p1)) in
  let k := (Rabs (B2R a - B2R b) / (B2R d1 - B2R d0))%R in
  exists qa qb,
    interpolate_vertices path lengths (S i) a = Done qa /\
    interpolate_vertices path lengths (S i) b = Done qb /\
    (Rabs (B2R (px qa) - B2R (px qb)) <= Rabs (B2R (px p1) - B2R (px p0)) * k + 2 * Ex)%R /\
    (Rabs (B2R (py qa) - B2R (py qb)) <= Rabs (B2R (py p1) - B2R (py p0)) * k + 2 * Ey)%R /\
    (edist (R2 qa) (R2 qb) <= edist (R2 p0) (R2 p1) * k + 2 * (Ex + Ey))%R.
Proof. exact interpolation_local_lipschitz. Qed.
Print Assumptions C19_local_lipschitz_ieee_bound.

(* the hypotheses are met by C19_nonvacuous's polyline (0,0) (3,4) (8,16),
   lengths 0, 5, 18, at distance 9 on the second segment ... *)
Example C19_ieee_hypotheses_example :
  map D.bits (natural ex_path D.zero) = map D.bits ex_lens /\
  interp_hyps ex_p1 ex_p2 (D.of_Z 5) (D.of_Z 18) (D.of_Z 9).
Proof. split; [exact ex_lens_are_natural|exact ex_interp_hyps]. Qed.
Print Assumptions C19_ieee_hypotheses_example.

(* ... where the theorem says: the computed position is within 1.4e-6 / 3.2e-6 px
   of the exact point (3 + 20/13, 4 + 48/13); its bit patterns: (4.5384617, 7.692308) *)
Example C19_ieee_bound_example :
  (exists q, interpolate_vertices ex_path ex_lens 2 (D.of_Z 9) = Done q /\
     (Rabs (B2R (px q) - (3 + 5 * (4 / 13))) <= 1.4 / 1000000)%R /\
     (Rabs (B2R (py q) - (4 + 12 * (4 / 13))) <= 3.2 / 1000000)%R) /\
  dump_out dump_pos (interpolate_vertices ex_path ex_lens 2 (D.of_Z 9))
  = [0; S.bits (S.of_decimal false 45384617 (-7)); S.bits (S.of_decimal false 7692308 (-6))].
Proof. split; [exact ex_interp_bound|exact ex_interp_dump]. Qed.
Print Assumptions C19_ieee_bound_example.

(* ================================================================== *)
(* vertex hits through lengths[j] / dist -- IEEE arithmetic            *)
(* ================================================================== *)

(* progress fl(l_j / dist) lies in [0, 1] (no clamping) and the distance
   fl(fl(l_j / dist) * dist) is within Dfrac = 2.001 * 2^-53 * l_j +
   2^-1075 (2 dist + 1) of l_j -- about one ulp of l_j -- for finite
   0 < l_j <= dist <= 2^1023 *)
Theorem C19_vertex_fraction_distance_ieee :
  forall (lens : list F64) (lj : F64),
  let L := Curve.dist lens in
  is_finite lj = true -> is_finite L = true -> (0 < B2R lj <= B2R L)%R -> (B2R L <= Raux.bpow Zaux.radix2 1023)%R ->
  let d := progress_to_dist lens (D.div lj L) in
  is_finite d = true /\ (0 <= B2R d <= B2R L)%R /\ (Rabs (B2R d - B2R lj) <= Dfrac (B2R lj) (B2R L))%R.
Proof. exact vertex_fraction_distance. Qed.
Print Assumptions C19_vertex_fraction_distance_ieee.

Theorem C19_vertex_fraction_definitions :
  (forall lj L, Dfrac lj L = (2.001 * u64 * lj + eta64 * (2 * L + 1))%R) /\
  u64 = (/ 9007199254740992)%R /\ eta64 = Raux.bpow Zaux.radix2 (-1075) /\
  (forall lens, sorted_fin lens <->
     Forall (fun v => is_finite v = true) lens /\
     forall a b x y, (a <= b)%nat -> nth_error lens a = Some x -> nth_error lens b = Some y -> (B2R x <= B2R y)%R) /\
  (forall c0 c1 c2 l0 l1 l2 L, Efrac c0 c1 c2 l0 l1 l2 L =
     Rmax (Rabs (c1 - c0) / (l1 - l0) * Dfrac l1 L + E19 c0 c1)
          (Rabs (c2 - c1) / (l2 - l1) * Dfrac l1 L + E19 c1 c2)%R) /\
  (forall p0 p1 p2 l0 l1 l2 L, frac_hyps p0 p1 p2 l0 l1 l2 L <->
     bnd32 (px p0) 20 /\ bnd32 (py p0) 20 /\ bnd32 (px p1) 20 /\ bnd32 (py p1) 20 /\
     bnd32 (px p2) 20 /\ bnd32 (py p2) 20 /\
     is_finite L = true /\ (B2R L <= Raux.bpow Zaux.radix2 1023)%R /\ (0 <= B2R l0)%R /\ (B2R l2 <= B2R L)%R /\
     (Raux.bpow Zaux.radix2 (-51) <= B2R l1 - B2R l0)%R /\ (Raux.bpow Zaux.radix2 (-51) <= B2R l2 - B2R l1)%R /\
     (Dfrac (B2R l1) (B2R L) < B2R l1 - B2R l0)%R /\ (Dfrac (B2R l1) (B2R L) < B2R l2 - B2R l1)%R).
Proof. split; [|split; [|split; [|split; [|split]]]]; intros; reflexivity. Qed.
Print Assumptions C19_vertex_fraction_definitions.

(* the transcribed std binary search on finite non-decreasing lengths, IEEE
   comparisons: an element numerically equal to d, or the insertion point *)
Theorem C19_search_contract_ieee :
  forall (lens : list F64) (d : F64), sorted_fin lens -> is_finite d = true ->
  let i := idx_of_dist lens d in
  (exists x, nth_error lens i = Some x /\ B2R x = B2R d) \/
  ((forall k x, (k < i)%nat -> nth_error lens k = Some x -> (B2R x < B2R d)%R) /\
   (forall k x, (i <= k)%nat -> nth_error lens k = Some x -> (B2R d < B2R x)%R)).
Proof. exact idx_of_dist_contract_ieee. Qed.
Print Assumptions C19_search_contract_ieee.

(* FULL STATEMENT (not proved): for every vertex j of a computed curve,
   position_at (lengths[j] / dist) is within an explicit rounding bound of
   path[j] (or of a vertex carrying the same cumulative length).
   PROVED PART: an interior vertex whose cumulative length is separated from
   both neighbours by more than Dfrac (and by at least 2^-51, the guard): the
   search returns j or j + 1 and the computed position is vertex j up to
   slope * Dfrac + E19 per coordinate, slope = |c_j - c_{j-1}| / (l_j - l_{j-1})
   resp. the next segment's.
   MISSING: (1) clusters of vertices whose cumulative lengths differ by less
   than Dfrac -- the search may land on another vertex of the cluster, and
   bounding its distance to vertex j needs "chord <= arc" for the IEEE lengths
   (now proved for the natural lengths: C19_chord_le_length_increment_ieee and
   C19_chain_vertices_ieee at the end of this file, and with them the FULL
   vertex-hit statement for natural lengths, clusters included:
   C19_vertex_fraction_position_ieee); (2) the first and the last vertex
   (covered separately by C19_progress_zero_is_first_vertex and
   C19_progress_one_repeated_last_length); (3) slope <= 1 + rounding for the
   lengths calculate_length computes: proved for the natural lengths as
   slope * (d1 - d0) <= (1 + delta19) (d1 - d0) + eta19 d1
   (C19_chord_le_length_increment_ieee), not for adjusted / surplus lengths *)
Theorem C19_vertex_fraction_position_partial :
  forall (path : list Pos) (lens : list F64) j p0 p1 p2 l0 l1 l2,
  let L := Curve.dist lens in
  nth_error path j = Some p0 -> nth_error path (S j) = Some p1 -> nth_error path (S (S j)) = Some p2 ->
  nth_error lens j = Some l0 -> nth_error lens (S j) = Some l1 -> nth_error lens (S (S j)) = Some l2 ->
  sorted_fin lens -> frac_hyps p0 p1 p2 l0 l1 l2 L ->
  exists q, position_at path lens (D.div l1 L) = Done q /\
    (Rabs (B2R (px q) - B2R (px p1))
       <= Efrac (B2R (px p0)) (B2R (px p1)) (B2R (px p2)) (B2R l0) (B2R l1) (B2R l2) (B2R L))%R /\
    (Rabs (B2R (py q) - B2R (py p1))
       <= Efrac (B2R (py p0)) (B2R (py p1)) (B2R (py p2)) (B2R l0) (B2R l1) (B2R l2) (B2R L))%R.
Proof. exact vertex_fraction_position_partial. Qed.
Print Assumptions C19_vertex_fraction_position_partial.

(* the hypotheses hold for the middle vertex (3,4) of (0,0) (3,4) (8,16),
   lengths 0, 5, 18: position_at (5 / 18) is (3, 4) up to 1.4e-6 / 3.2e-6 px *)
Example C19_vertex_fraction_example :
  sorted_fin ex_lens /\
  frac_hyps ex_p0 ex_p1 ex_p2 (D.of_Z 0) (D.of_Z 5) (D.of_Z 18) (Curve.dist ex_lens) /\
  exists q, position_at ex_path ex_lens (D.div (D.of_Z 5) (Curve.dist ex_lens)) = Done q /\
    (Rabs (B2R (px q) - 3) <= 1.4 / 1000000)%R /\ (Rabs (B2R (py q) - 4) <= 3.2 / 1000000)%R.
Proof. split; [exact ex_sorted|]. split; [exact ex_frac_hyps|exact ex_frac_bound]. Qed.
Print Assumptions C19_vertex_fraction_example.

(* ================================================================== *)
(* T19-IEEE across segments: chord <= arc for the computed lengths and *)
(* the GLOBAL Lipschitz bound                                          *)
(* ================================================================== *)
From RM Require Import Proofs.AdjustIEEESum Proofs.InterpIEEEGlobal.

(* the constants and the hypotheses on the path, spelled out *)
Theorem C19_global_definitions :
  delta19 = (3.02 * u32)%R /\ eta19 = (1.002 * u64)%R /\
  u32 = (/ 16777216)%R /\ u64 = (/ 9007199254740992)%R /\
  (forall a b, seg_ok a b <-> (R2 a = R2 b \/ (Raux.bpow Zaux.radix2 (-10) <= edist (R2 a) (R2 b))%R)) /\
  (forall a b t, segs_ok (a :: b :: t) <-> seg_ok a b /\ segs_ok (b :: t)) /\
  (forall p k, coord_le p k <-> bnd32 (px p) k /\ bnd32 (py p) k) /\
  (forall path, natural path D.zero = D.zero :: fst (cum_lengths D.zero path)).
Proof. split; [|split; [|split; [|split; [|split; [|split; [|split]]]]]]; intros; reflexivity. Qed.
Print Assumptions C19_global_definitions.

(* chord <= arc for the lengths calculate_length computes (zero seed, no
   requested length): coordinates finite with |c| <= 2^20, every segment
   degenerate or at least 2^-10 long, at most 2^50 vertices, exact length at
   most 2^1000.  Two consecutive computed cumulative lengths are finite,
   ordered, and the exact chord is at most (1 + delta19) times their
   difference plus eta19 * l_{k+1} (the rounding of the one binary64 addition
   is relative to the sum, not to the increment) *)
Theorem C19_chord_le_length_increment_ieee :
  forall (path : list Pos) k p0 p1 d0 d1,
  Forall (fun p => coord_le p 20) path -> segs_ok path -> (length path <= 2 ^ 50)%nat ->
  (poly_len (map R2 path) <= Raux.bpow Zaux.radix2 1000)%R ->
  nth_error path k = Some p0 -> nth_error path (S k) = Some p1 ->
  nth_error (natural path D.zero) k = Some d0 -> nth_error (natural path D.zero) (S k) = Some d1 ->
  is_finite d0 = true /\ is_finite d1 = true /\ (0 <= B2R d0 <= B2R d1)%R /\
  (edist (R2 p0) (R2 p1) <= (1 + delta19) * (B2R d1 - B2R d0) + eta19 * B2R d1)%R.
Proof. exact chord_le_length_increment_ieee. Qed.
Print Assumptions C19_chord_le_length_increment_ieee.

(* from vertex i to vertex i + n along the computed lengths *)
Theorem C19_chain_vertices_ieee :
  forall (path : list Pos),
  Forall (fun p => coord_le p 20) path -> segs_ok path -> (length path <= 2 ^ 50)%nat ->
  (poly_len (map R2 path) <= Raux.bpow Zaux.radix2 1000)%R ->
  forall n i pi pj li lj,
  nth_error path i = Some pi -> nth_error path (i + n) = Some pj ->
  nth_error (natural path D.zero) i = Some li -> nth_error (natural path D.zero) (i + n) = Some lj ->
  (B2R li <= B2R lj)%R /\
  (edist (R2 pi) (R2 pj) <= (1 + delta19) * (B2R lj - B2R li) + INR n * eta19 * B2R lj)%R.
Proof. exact chain_vertices. Qed.
Print Assumptions C19_chain_vertices_ieee.

(* the GLOBAL Lipschitz bound in IEEE arithmetic: a on segment i, b on segment
   j >= i (the segment indices and the per-segment hypotheses of
   C19_interpolation_ieee_bound are given): per coordinate and in Euclidean
   distance the computed positions are at most
     (1 + delta19) |b - a| + (j - i + 1) eta19 l_{j+1} + E19(segment i) + E19(segment j)
   apart *)
Theorem C19_global_lipschitz_ieee :
  forall (path : list Pos) i j a b p0 p1 d0 d1 q0 q1 e0 e1,
  Forall (fun p => coord_le p 20) path -> segs_ok path -> (length path <= 2 ^ 50)%nat ->
  (poly_len (map R2 path) <= Raux.bpow Zaux.radix2 1000)%R ->
  (i <= j)%nat ->
  nth_error path i = Some p0 -> nth_error path (S i) = Some p1 ->
  nth_error (natural path D.zero) i = Some d0 -> nth_error (natural path D.zero) (S i) = Some d1 ->
  nth_error path j = Some q0 -> nth_error path (S j) = Some q1 ->
  nth_error (natural path D.zero) j = Some e0 -> nth_error (natural path D.zero) (S j) = Some e1 ->
  interp_hyps p0 p1 d0 d1 a -> interp_hyps q0 q1 e0 e1 b ->
  let Eax := E19 (B2R (px p0)) (B2R (px p1)) in
  let Eay := E19 (B2R (py p0)) (B2R (py p1)) in
  let Ebx := E19 (B2R (px q0)) (B2R (px q1)) in
  let Eby := E19 (B2R (py q0)) (B2R (py q1)) in
  let G := ((1 + delta19) * Rabs (B2R b - B2R a) + INR (j - i + 1) * eta19 * B2R e1)%R in
  exists qa qb,
    interpolate_vertices path (natural path D.zero) (S i) a = Done qa /\
    interpolate_vertices path (natural path D.zero) (S j) b = Done qb /\
    (Rabs (B2R (px qa) - B2R (px qb)) <= G + Eax + Ebx)%R /\
    (Rabs (B2R (py qa) - B2R (py qb)) <= G + Eay + Eby)%R /\
    (edist (R2 qa) (R2 qb) <= G + (Eax + Eay) + (Ebx + Eby))%R.
Proof. exact global_lipschitz_ieee. Qed.
Print Assumptions C19_global_lipschitz_ieee.

(* two points in adjacent segments *)
Theorem C19_global_lipschitz_ieee_adjacent :
  forall (path : list Pos) i a b p0 p1 p2 d0 d1 d2,
  Forall (fun p => coord_le p 20) path -> segs_ok path -> (length path <= 2 ^ 50)%nat ->
  (poly_len (map R2 path) <= Raux.bpow Zaux.radix2 1000)%R ->
  nth_error path i = Some p0 -> nth_error path (S i) = Some p1 -> nth_error path (S (S i)) = Some p2 ->
  nth_error (natural path D.zero) i = Some d0 -> nth_error (natural path D.zero) (S i) = Some d1 ->
  nth_error (natural path D.zero) (S (S i)) = Some d2 ->
  interp_hyps p0 p1 d0 d1 a -> interp_hyps p1 p2 d1 d2 b ->
  let G := ((1 + delta19) * (B2R b - B2R a) + 2 * eta19 * B2R d2)%R in
  exists qa qb,
    interpolate_vertices path (natural path D.zero) (S i) a = Done qa /\
    interpolate_vertices path (natural path D.zero) (S (S i)) b = Done qb /\
    (Rabs (B2R (px qa) - B2R (px qb)) <= G + E19 (B2R (px p0)) (B2R (px p1)) + E19 (B2R (px p1)) (B2R (px p2)))%R /\
    (Rabs (B2R (py qa) - B2R (py qb)) <= G + E19 (B2R (py p0)) (B2R (py p1)) + E19 (B2R (py p1)) (B2R (py p2)))%R /\
    (edist (R2 qa) (R2 qb) <= G + (E19 (B2R (px p0)) (B2R (px p1)) + E19 (B2R (py p0)) (B2R (py p1)))
                                + (E19 (B2R (px p1)) (B2R (px p2)) + E19 (B2R (py p1)) (B2R (py p2))))%R.
Proof. exact global_lipschitz_ieee_adjacent. Qed.
Print Assumptions C19_global_lipschitz_ieee_adjacent.

(* on the polyline (0,0) (3,4) (8,16) with the lengths calculate_length
   computes: distance 2 lies on the first segment, distance 9 on the second
   (that is where the search puts them), the hypotheses hold, and the two
   computed positions -- (1.2, 1.6) and (4.5384617, 7.692308) -- are at most
   |9 - 2| + 1e-5 apart *)
Example C19_global_lipschitz_example :
  (exists qa qb,
     interpolate_vertices ex_path (natural ex_path D.zero) 1 (D.of_Z 2) = Done qa /\
     interpolate_vertices ex_path (natural ex_path D.zero) 2 (D.of_Z 9) = Done qb /\
     (edist (R2 qa) (R2 qb) <= 7 + 1 / 100000)%R) /\
  (idx_of_dist (natural ex_path D.zero) (D.of_Z 2), idx_of_dist (natural ex_path D.zero) (D.of_Z 9)) = (1%nat, 2%nat) /\
  dump_out dump_pos (interpolate_vertices ex_path (natural ex_path D.zero) 1 (D.of_Z 2))
  = [0%Z; S.bits (S.of_decimal false 12 (-1)); S.bits (S.of_decimal false 16 (-1))] /\
  dump_out dump_pos (interpolate_vertices ex_path (natural ex_path D.zero) 2 (D.of_Z 9))
  = [0%Z; S.bits (S.of_decimal false 45384617 (-7)); S.bits (S.of_decimal false 7692308 (-6))].
Proof.
  split; [exact ex_global_lipschitz|]. split; [vm_compute; reflexivity|]. split; vm_compute; reflexivity.
Qed.
Print Assumptions C19_global_lipschitz_example.

(* ------------------------------------------------------------------ *)
(* the same WITHOUT per-segment hypotheses and THROUGH THE SEARCH:      *)
(* exact length <= 2^40 (then the near-zero guard of the code fires     *)
(* only on degenerate segments)                                         *)
(* ------------------------------------------------------------------ *)

Theorem C19_global_definitions_2 :
  (forall M, E19max M = (u32 * 7.02 * M + Raux.bpow Zaux.radix2 (-125))%R) /\
  (forall M path, coords_le M path <->
     Forall (fun p => (Rabs (B2R (px p)) <= M)%R /\ (Rabs (B2R (py p)) <= M)%R) path) /\
  (forall c0 c1 M, (Rabs c0 <= M)%R -> (Rabs c1 <= M)%R -> (E19 c0 c1 <= E19max M)%R).
Proof. split; [|split]; [intros; reflexivity|intros; reflexivity|exact E19_le_max]. Qed.
Print Assumptions C19_global_definitions_2.

(* the computed natural lengths are finite, non-decreasing, within [0, 2^41] *)
Theorem C19_natural_lengths_sorted_ieee :
  forall (path : list Pos),
  Forall (fun p => coord_le p 20) path -> segs_ok path -> (length path <= 2 ^ 50)%nat ->
  (poly_len (map R2 path) <= Raux.bpow Zaux.radix2 40)%R ->
  sorted_fin (natural path D.zero) /\
  (forall k l, nth_error (natural path D.zero) k = Some l ->
     is_finite l = true /\ (0 <= B2R l <= Raux.bpow Zaux.radix2 41)%R /\
     (B2R l <= B2R (Curve.dist (natural path D.zero)))%R).
Proof.
  intros path Hc Hs Hn Ht. split; [exact (natural_sorted_fin path Hc Hs Hn Ht)|].
  intros k l H. destruct (natural_nth_bound path Hc Hs Hn Ht k l H) as (F & B).
  split; [exact F|]. split; [exact B|exact (natural_le_dist path Hc Hs Hn Ht k l H)].
Qed.
Print Assumptions C19_natural_lengths_sorted_ieee.

(* a segment on which the guard fires has two numerically equal end points *)
Theorem C19_guard_fires_only_on_degenerate_segments :
  forall (path : list Pos),
  Forall (fun p => coord_le p 20) path -> segs_ok path -> (length path <= 2 ^ 50)%nat ->
  (poly_len (map R2 path) <= Raux.bpow Zaux.radix2 40)%R ->
  forall k p0 p1 l0 l1,
  nth_error path k = Some p0 -> nth_error path (S k) = Some p1 ->
  nth_error (natural path D.zero) k = Some l0 -> nth_error (natural path D.zero) (S k) = Some l1 ->
  D.le (D.abs (D.sub l0 l1)) D.eps = true -> R2 p0 = R2 p1.
Proof. exact guard_true_degenerate. Qed.
Print Assumptions C19_guard_fires_only_on_degenerate_segments.

(* global bound, segment indices given, nothing assumed about the guard *)
Theorem C19_global_lipschitz_segments_ieee :
  forall (path : list Pos),
  Forall (fun p => coord_le p 20) path -> segs_ok path -> (length path <= 2 ^ 50)%nat ->
  (poly_len (map R2 path) <= Raux.bpow Zaux.radix2 40)%R ->
  forall i j a b p0 p1 d0 d1 q0 q1 e0 e1,
  (i <= j)%nat ->
  nth_error path i = Some p0 -> nth_error path (S i) = Some p1 ->
  nth_error (natural path D.zero) i = Some d0 -> nth_error (natural path D.zero) (S i) = Some d1 ->
  nth_error path j = Some q0 -> nth_error path (S j) = Some q1 ->
  nth_error (natural path D.zero) j = Some e0 -> nth_error (natural path D.zero) (S j) = Some e1 ->
  is_finite a = true -> is_finite b = true ->
  (B2R d0 <= B2R a <= B2R d1)%R -> (B2R e0 <= B2R b <= B2R e1)%R ->
  let Eax := E19 (B2R (px p0)) (B2R (px p1)) in
  let Eay := E19 (B2R (py p0)) (B2R (py p1)) in
  let Ebx := E19 (B2R (px q0)) (B2R (px q1)) in
  let Eby := E19 (B2R (py q0)) (B2R (py q1)) in
  let G := ((1 + delta19) * Rabs (B2R b - B2R a) + INR (j - i + 1) * eta19 * B2R e1)%R in
  exists qa qb,
    interpolate_vertices path (natural path D.zero) (S i) a = Done qa /\
    interpolate_vertices path (natural path D.zero) (S j) b = Done qb /\
    (Rabs (B2R (px qa) - B2R (px qb)) <= G + Eax + Ebx)%R /\
    (Rabs (B2R (py qa) - B2R (py qb)) <= G + Eay + Eby)%R /\
    (edist (R2 qa) (R2 qb) <= G + (Eax + Eay) + (Ebx + Eby))%R.
Proof. exact global_lipschitz_segments_ieee. Qed.
Print Assumptions C19_global_lipschitz_segments_ieee.

(* where the transcribed search puts a finite distance in [0, dist] *)
Theorem C19_search_locates_ieee :
  forall (path : list Pos),
  Forall (fun p => coord_le p 20) path -> segs_ok path -> (length path <= 2 ^ 50)%nat ->
  (poly_len (map R2 path) <= Raux.bpow Zaux.radix2 40)%R ->
  forall d : F64, is_finite d = true -> (0 <= B2R d <= B2R (Curve.dist (natural path D.zero)))%R ->
  (idx_of_dist (natural path D.zero) d = 0%nat /\ B2R d = 0%R) \/
  exists i p0 p1 l0 l1, idx_of_dist (natural path D.zero) d = S i /\
    nth_error path i = Some p0 /\ nth_error path (S i) = Some p1 /\
    nth_error (natural path D.zero) i = Some l0 /\ nth_error (natural path D.zero) (S i) = Some l1 /\
    (B2R l0 <= B2R d <= B2R l1)%R.
Proof. exact search_locates. Qed.
Print Assumptions C19_search_locates_ieee.

(* the position computed for a distance (search, then interpolation) against
   ANY vertex m of the curve; n = number of vertices, M = coordinate magnitude *)
Theorem C19_position_near_vertex_ieee :
  forall (path : list Pos),
  Forall (fun p => coord_le p 20) path -> segs_ok path -> (length path <= 2 ^ 50)%nat ->
  (poly_len (map R2 path) <= Raux.bpow Zaux.radix2 40)%R ->
  forall M : R, coords_le M path -> (0 <= M)%R ->
  forall (d : F64) m pm lm,
  is_finite d = true -> (0 <= B2R d <= B2R (Curve.dist (natural path D.zero)))%R ->
  nth_error path m = Some pm -> nth_error (natural path D.zero) m = Some lm ->
  let B := ((1 + delta19) * Rabs (B2R d - B2R lm)
            + INR (length path) * eta19 * B2R (Curve.dist (natural path D.zero)) + E19max M)%R in
  exists q, interpolate_vertices path (natural path D.zero) (idx_of_dist (natural path D.zero) d) d = Done q /\
    (Rabs (B2R (px q) - B2R (px pm)) <= B)%R /\ (Rabs (B2R (py q) - B2R (py pm)) <= B)%R.
Proof. exact position_near_vertex_ieee. Qed.
Print Assumptions C19_position_near_vertex_ieee.

(* VERTEX HITS, FULL for the natural lengths (any vertex with a positive
   cumulative length, clusters of nearly equal lengths, near-zero segments
   and the last vertex included): position_at (lengths[j] / dist) is vertex j
   up to (1 + delta19) Dfrac + n eta19 dist + E19max M per coordinate *)
Theorem C19_vertex_fraction_position_ieee :
  forall (path : list Pos),
  Forall (fun p => coord_le p 20) path -> segs_ok path -> (length path <= 2 ^ 50)%nat ->
  (poly_len (map R2 path) <= Raux.bpow Zaux.radix2 40)%R ->
  forall M : R, coords_le M path -> (0 <= M)%R ->
  forall j pj lj,
  nth_error path j = Some pj -> nth_error (natural path D.zero) j = Some lj -> (0 < B2R lj)%R ->
  let L := Curve.dist (natural path D.zero) in
  let B := ((1 + delta19) * Dfrac (B2R lj) (B2R L) + INR (length path) * eta19 * B2R L + E19max M)%R in
  exists q, position_at path (natural path D.zero) (D.div lj L) = Done q /\
    (Rabs (B2R (px q) - B2R (px pj)) <= B)%R /\ (Rabs (B2R (py q) - B2R (py pj)) <= B)%R.
Proof. exact vertex_fraction_position_ieee. Qed.
Print Assumptions C19_vertex_fraction_position_ieee.

(* GLOBAL Lipschitz bound through the search: two finite distances in [0, dist] *)
Theorem C19_global_lipschitz_search_ieee :
  forall (path : list Pos),
  Forall (fun p => coord_le p 20) path -> segs_ok path -> (length path <= 2 ^ 50)%nat ->
  (poly_len (map R2 path) <= Raux.bpow Zaux.radix2 40)%R ->
  forall M : R, coords_le M path -> (0 <= M)%R ->
  forall a b : F64,
  is_finite a = true -> is_finite b = true ->
  (0 <= B2R a <= B2R (Curve.dist (natural path D.zero)))%R ->
  (0 <= B2R b <= B2R (Curve.dist (natural path D.zero)))%R ->
  let G := ((1 + delta19) * Rabs (B2R b - B2R a)
            + INR (length path) * eta19 * B2R (Curve.dist (natural path D.zero)))%R in
  exists qa qb,
    interpolate_vertices path (natural path D.zero) (idx_of_dist (natural path D.zero) a) a = Done qa /\
    interpolate_vertices path (natural path D.zero) (idx_of_dist (natural path D.zero) b) b = Done qb /\
    (Rabs (B2R (px qa) - B2R (px qb)) <= G + 2 * E19max M)%R /\
    (Rabs (B2R (py qa) - B2R (py qb)) <= G + 2 * E19max M)%R /\
    (edist (R2 qa) (R2 qb) <= G + 4 * E19max M)%R.
Proof. exact global_lipschitz_search_ieee. Qed.
Print Assumptions C19_global_lipschitz_search_ieee.

(* ... and on position_at: finite progresses in [0, 1] *)
Theorem C19_global_lipschitz_ieee_position_at :
  forall (path : list Pos) (M : R) (pa pb : F64),
  Forall (fun p => coord_le p 20) path -> segs_ok path -> (length path <= 2 ^ 50)%nat ->
  (poly_len (map R2 path) <= Raux.bpow Zaux.radix2 40)%R -> coords_le M path -> (0 <= M)%R ->
  is_finite pa = true -> is_finite pb = true -> (0 <= B2R pa <= 1)%R -> (0 <= B2R pb <= 1)%R ->
  let lens := natural path D.zero in
  let L := Curve.dist lens in
  let a := progress_to_dist lens pa in
  let b := progress_to_dist lens pb in
  let G := ((1 + delta19) * Rabs (B2R b - B2R a) + INR (length path) * eta19 * B2R L)%R in
  exists qa qb,
    position_at path lens pa = Done qa /\ position_at path lens pb = Done qb /\
    (Rabs (B2R (px qa) - B2R (px qb)) <= G + 2 * E19max M)%R /\
    (Rabs (B2R (py qa) - B2R (py qb)) <= G + 2 * E19max M)%R /\
    (edist (R2 qa) (R2 qb) <= G + 4 * E19max M)%R.
Proof. exact global_lipschitz_position_at_ieee. Qed.
Print Assumptions C19_global_lipschitz_ieee_position_at.

(* the hypotheses of the theorems through the search hold on the polyline
   (0,0) (3,4) (8,16) (exact length 18 <= 2^40, coordinates <= 16): on the
   lengths calculate_length computes, position_at (lengths[1] / dist) is the
   vertex (3, 4) up to 6.8e-6 per coordinate (exactly (3, 4) when run), and
   position_at 0 / position_at 1 -- (0, 0) and (8, 16) when run -- are at most
   18.0001 apart *)
Example C19_search_theorems_example :
  ((poly_len (map R2 ex_path) <= Raux.bpow Zaux.radix2 40)%R /\ coords_le 16 ex_path) /\
  (forall lj, nth_error (natural ex_path D.zero) 1 = Some lj ->
     exists q, position_at ex_path (natural ex_path D.zero) (D.div lj (Curve.dist (natural ex_path D.zero))) = Done q /\
       (Rabs (B2R (px q) - 3) <= 6.8 / 1000000)%R /\ (Rabs (B2R (py q) - 4) <= 6.8 / 1000000)%R) /\
  (exists qa qb, position_at ex_path (natural ex_path D.zero) (D.of_Z 0) = Done qa /\
     position_at ex_path (natural ex_path D.zero) (D.of_Z 1) = Done qb /\
     (edist (R2 qa) (R2 qb) <= 18 + 1 / 10000)%R) /\
  (match nth_error (natural ex_path D.zero) 1 with
   | Some lj => dump_out dump_pos (position_at ex_path (natural ex_path D.zero) (D.div lj (Curve.dist (natural ex_path D.zero))))
   | None => [] end) = [0%Z; S.bits (S.of_Z 3); S.bits (S.of_Z 4)] /\
  dump_out dump_pos (position_at ex_path (natural ex_path D.zero) (D.of_Z 0)) = [0%Z; S.bits (S.of_Z 0); S.bits (S.of_Z 0)] /\
  dump_out dump_pos (position_at ex_path (natural ex_path D.zero) (D.of_Z 1)) = [0%Z; S.bits (S.of_Z 8); S.bits (S.of_Z 16)].
Proof.
  split; [exact ex_path_hyps40|]. split; [exact (proj1 ex_search_theorems)|]. split; [exact (proj2 ex_search_theorems)|].
  split; [vm_compute; reflexivity|]. split; vm_compute; reflexivity.
Qed.
Print Assumptions C19_search_theorems_example.

(* FAITHFUL ARC-LENGTH PARAMETRISATION in IEEE arithmetic, natural lengths, in
   the PROGRESS: two finite progresses in [0, 1]; n vertices, coordinates of
   magnitude <= M, dist = the last computed length.  Compare the exact
   statement C19_exact_whole_curve: |pos a - pos b| <= |a - b| * total *)
Theorem C19_global_lipschitz_ieee_progress :
  forall (path : list Pos) (M : R) (pa pb : F64),
  Forall (fun p => coord_le p 20) path -> segs_ok path -> (length path <= 2 ^ 50)%nat ->
  (poly_len (map R2 path) <= Raux.bpow Zaux.radix2 40)%R -> coords_le M path -> (0 <= M)%R ->
  is_finite pa = true -> is_finite pb = true -> (0 <= B2R pa <= 1)%R -> (0 <= B2R pb <= 1)%R ->
  let lens := natural path D.zero in
  let L := Curve.dist lens in
  let G := ((1 + delta19) * Rabs (B2R pb - B2R pa) * B2R L
            + (INR (length path) * eta19 + 2.001 * u64) * B2R L + 2.001 * eta64)%R in
  exists qa qb,
    position_at path lens pa = Done qa /\ position_at path lens pb = Done qb /\
    (Rabs (B2R (px qa) - B2R (px qb)) <= G + 2 * E19max M)%R /\
    (Rabs (B2R (py qa) - B2R (py qb)) <= G + 2 * E19max M)%R /\
    (edist (R2 qa) (R2 qb) <= G + 4 * E19max M)%R.
Proof. exact global_lipschitz_progress_ieee. Qed.
Print Assumptions C19_global_lipschitz_ieee_progress.

(* VERTEX HITS for EVERY vertex of a curve with its natural lengths and a
   positive dist (l_j = 0 included: the progress and the distance are then
   zeros and the search may land anywhere in the cluster of zero lengths) *)
Theorem C19_vertex_fraction_position_full_ieee :
  forall (path : list Pos) (M : R) j pj lj,
  Forall (fun p => coord_le p 20) path -> segs_ok path -> (length path <= 2 ^ 50)%nat ->
  (poly_len (map R2 path) <= Raux.bpow Zaux.radix2 40)%R -> coords_le M path -> (0 <= M)%R ->
  let lens := natural path D.zero in
  let L := Curve.dist lens in
  nth_error path j = Some pj -> nth_error lens j = Some lj -> (0 < B2R L)%R ->
  let B := ((1 + delta19) * Dfrac (B2R lj) (B2R L) + INR (length path) * eta19 * B2R L + E19max M)%R in
  exists q, position_at path lens (D.div lj L) = Done q /\
    (Rabs (B2R (px q) - B2R (px pj)) <= B)%R /\ (Rabs (B2R (py q) - B2R (py pj)) <= B)%R.
Proof. exact vertex_fraction_position_full_ieee. Qed.
Print Assumptions C19_vertex_fraction_position_full_ieee.

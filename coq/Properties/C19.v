(* C19 -- Position along a curve is a faithful arc-length parametrisation.
   Statements only ([exact] of lemmas from Proofs/PositionFacts, LengthFacts).

   Proved here (T19a; all inputs, IEEE arithmetic): clamping of the progress,
   progress_to_dist = clamp(progress) x dist, the end cases of
   interpolate_vertices (empty path, i = 0, i past the end, near-zero
   segment), absence of panics on every computed curve, and the shape of every
   position (a vertex, or a point on the segment ending at the vertex the
   search selected).

   Also proved: progress 1 and a vertex's own cumulative length in IEEE
   arithmetic (the weight is exactly 1: the result is p0 + (p1 - p0), the
   vertex up to ONE rounding), under finiteness hypotheses and "the last
   length is strictly above the others"; and T19b per segment in exact
   arithmetic, on the interpolation formula shared with the model: vertex
   hits at both ends, 1-Lipschitz / isometry in the distance, convexity.

   NOT proved (the property stays PARTIAL):
     - the Lipschitz bound ACROSS segments (triangle inequality along the
       polyline) and its IEEE version with rounding slack;
     - vertex hits at progress lengths[i] / dist (the division and the
       multiplication by dist round; only d = lengths[i] itself is covered);
     - progress 1 when the last cumulative length is repeated (duplicate end:
       the search may select any of the equal entries).
   They are monitored by the search oracle of harness/src/c19.rs with an
   explicit rounding slack. *)
From Coq Require Import Reals.
From Flocq Require Import IEEE754.BinarySingleNaN.
From RM Require Import Model.ControlPoints Model.Curve Proofs.PositionFacts Proofs.LengthFacts
  Proofs.FloatFacts Proofs.InterpExact.
Open Scope Z_scope.

(* ---------- progress -> distance: clamping ---------- *)

Theorem C19_progress_below_zero_is_clamped :
  forall path lengths p, D.lt p D.zero = true ->
  progress_to_dist lengths p = progress_to_dist lengths D.zero /\
  position_at path lengths p = position_at path lengths D.zero.
Proof. intros. split; [now apply progress_to_dist_below|now apply position_at_below]. Qed.
Print Assumptions C19_progress_below_zero_is_clamped.

Theorem C19_progress_above_one_is_clamped :
  forall path lengths p, D.gt p D.one = true ->
  progress_to_dist lengths p = progress_to_dist lengths D.one /\
  position_at path lengths p = position_at path lengths D.one.
Proof. intros. split; [now apply progress_to_dist_above|now apply position_at_above]. Qed.
Print Assumptions C19_progress_above_one_is_clamped.

(* inside [0, 1]: the distance is progress x total distance (one IEEE multiplication) *)
Theorem C19_distance_is_progress_times_total :
  forall lengths p, D.lt p D.zero = false -> D.gt p D.one = false ->
  progress_to_dist lengths p = D.mul p (dist lengths).
Proof. exact progress_to_dist_inside. Qed.
Print Assumptions C19_distance_is_progress_times_total.

(* the total distance is the last cumulative length *)
Theorem C19_dist_is_last_length :
  (forall pre x, dist (pre ++ [x]) = x) /\ dist [] = D.zero.
Proof. split; [exact dist_app|exact dist_nil]. Qed.
Print Assumptions C19_dist_is_last_length.

(* NaN is excluded by hypothesis above for a reason: f64::clamp keeps it *)
Theorem C19_nan_progress_is_not_clamped :
  forall lengths, progress_to_dist lengths D.nan = D.mul D.nan (dist lengths).
Proof. exact progress_to_dist_nan. Qed.
Print Assumptions C19_nan_progress_is_not_clamped.

(* ---------- interpolate_vertices: end cases ---------- *)

Theorem C19_empty_path_gives_origin :
  forall lengths i d, interpolate_vertices [] lengths i d = Done pos0.
Proof. exact interpolate_empty. Qed.
Print Assumptions C19_empty_path_gives_origin.

Theorem C19_index_zero_gives_first_vertex :
  forall p path lengths d, interpolate_vertices (p :: path) lengths 0 d = Done p.
Proof. exact interpolate_first. Qed.
Print Assumptions C19_index_zero_gives_first_vertex.

Theorem C19_index_past_end_gives_last_vertex :
  forall path lengths i d, path <> [] -> (length path <= i)%nat ->
  interpolate_vertices path lengths i d = Done (last path pos0).
Proof. exact interpolate_past_end. Qed.
Print Assumptions C19_index_past_end_gives_last_vertex.

(* between two vertices: the near-zero segment guard, else linear interpolation *)
Theorem C19_interpolation_between_vertices :
  forall path lengths i d p0 p1 d0 d1,
  nth_error path i = Some p0 -> nth_error path (S i) = Some p1 ->
  nth_error lengths i = Some d0 -> nth_error lengths (S i) = Some d1 ->
  interpolate_vertices path lengths (S i) d =
  Done (if D.le (D.abs (D.sub d0 d1)) D.eps then p0
        else padd p0 (pmul (psub p1 p0) (f32_of_f64 (D.div (D.sub d d0) (D.sub d1 d0))))).
Proof. exact interpolate_between. Qed.
Print Assumptions C19_interpolation_between_vertices.

(* the transcribed std binary search never leaves the slice, whatever the
   comparator answers (unsorted lengths, duplicates, NaN) *)
Theorem C19_search_index_in_bounds :
  forall lengths d, (idx_of_dist lengths d <= length lengths)%nat.
Proof. exact idx_of_dist_bound. Qed.
Print Assumptions C19_search_index_in_bounds.

(* ---------- on every computed curve ---------- *)

(* position_at and interpolate_vertices never panic (indexing lengths[i]) *)
Theorem C19_no_panic_on_computed_curves :
  forall lm fuel mode pts e c, curve_L1 lm fuel mode pts e = Done c ->
  (forall p, exists q, position_at (c_path c) (c_lengths c) p = Done q) /\
  (forall i d, exists q, interpolate_vertices (c_path c) (c_lengths c) i d = Done q).
Proof.
  intros lm fuel mode pts e c H. destruct (curve_L1_sizes lm fuel mode pts e c H) as [Hs _].
  split; intros; [now apply position_at_total|now apply interpolate_total].
Qed.
Print Assumptions C19_no_panic_on_computed_curves.

(* every position is the origin (empty path), a vertex of the path, or lies
   on the segment ending at the vertex selected by the search *)
Theorem C19_position_structure_partial :
  forall path lengths p q, (length path <= length lengths)%nat ->
  position_at path lengths p = Done q ->
  (path = [] /\ q = pos0) \/ In q path \/
  exists i p0 p1 d0 d1,
    S i = idx_of_dist lengths (progress_to_dist lengths p) /\
    nth_error path i = Some p0 /\ nth_error path (S i) = Some p1 /\
    nth_error lengths i = Some d0 /\ nth_error lengths (S i) = Some d1 /\
    q = padd p0 (pmul (psub p1 p0)
          (f32_of_f64 (D.div (D.sub (progress_to_dist lengths p) d0) (D.sub d1 d0)))).
Proof. exact position_at_shape. Qed.
Print Assumptions C19_position_structure_partial.

(* progress 0 -- hence, by clamping, every negative progress -- is EXACTLY the
   first vertex, in IEEE arithmetic, for every curve whose total distance is
   finite and whose cumulative lengths after the first are all positive
   (no leading zero-length segment; no hypothesis on order or on the path) *)
Theorem C19_progress_zero_is_first_vertex :
  forall first path t,
  finite64 (dist (D.zero :: t)) -> Forall positive64 t ->
  position_at (first :: path) (D.zero :: t) D.zero = Done first.
Proof. exact position_at_zero. Qed.
Print Assumptions C19_progress_zero_is_first_vertex.

(* ---------- progress 1 and vertex hits, IEEE arithmetic ---------- *)

(* progress 1: the distance is EXACTLY the last cumulative length, and the
   search selects the last index when that length is strictly above the others *)
Theorem C19_progress_one_distance_and_index :
  forall pre L, fin64 L -> Forall (fun x => D.lt x L = true) pre ->
  progress_to_dist (pre ++ [L]) D.one = L /\ idx_of_dist (pre ++ [L]) L = length pre.
Proof. exact progress_one_selects_last. Qed.
Print Assumptions C19_progress_one_distance_and_index.

(* at a vertex's own cumulative length the interpolation weight is exactly 1:
   the position is p0 + (p1 - p0) (or p0 under the near-zero-segment guard) *)
Theorem C19_position_at_vertex_length :
  forall path lengths i p0 p1 d0 d1,
  nth_error path i = Some p0 -> nth_error path (S i) = Some p1 ->
  nth_error lengths i = Some d0 -> nth_error lengths (S i) = Some d1 ->
  fin64 (D.sub d1 d0) -> B2R (D.sub d1 d0) <> 0%R ->
  fin32 (px (psub p1 p0)) -> fin32 (py (psub p1 p0)) ->
  interpolate_vertices path lengths (S i) d1 =
  Done (if D.le (D.abs (D.sub d0 d1)) D.eps then p0 else padd p0 (psub p1 p0)).
Proof. exact interpolate_at_own_length. Qed.
Print Assumptions C19_position_at_vertex_length.

(* progress 1: the last vertex q up to the single rounding of p0 + (q - p0) *)
Theorem C19_progress_one_is_last_vertex :
  forall ppre p0 q pre d0 L,
  length ppre = length pre ->
  fin64 L -> Forall (fun x => D.lt x L = true) (pre ++ [d0]) ->
  fin64 (D.sub L d0) -> B2R (D.sub L d0) <> 0%R ->
  fin32 (px (psub q p0)) -> fin32 (py (psub q p0)) ->
  position_at ((ppre ++ [p0]) ++ [q]) ((pre ++ [d0]) ++ [L]) D.one =
  Done (if D.le (D.abs (D.sub d0 L)) D.eps then p0 else padd p0 (psub q p0)).
Proof. exact position_at_one. Qed.
Print Assumptions C19_progress_one_is_last_vertex.

Theorem C19_progress_one_single_vertex :
  forall q L, fin64 L -> position_at [q] [L] D.one = Done q.
Proof. exact position_at_one_single. Qed.
Print Assumptions C19_progress_one_single_vertex.

(* ---------- T19b per segment, exact arithmetic ---------- *)

(* the model's interpolation expression is the IEEE instance of one formula ... *)
Theorem C19_model_interpolation_formula :
  forall p0 p1 d0 d1 d,
  padd p0 (pmul (psub p1 p0) (f32_of_f64 (D.div (D.sub d d0) (D.sub d1 d0)))) =
  mkPos (interp_coord_g D.sub D.div f32_of_f64 S.add S.sub S.mul (px p0) (px p1) d0 d1 d)
        (interp_coord_g D.sub D.div f32_of_f64 S.add S.sub S.mul (py p0) (py p1) d0 d1 d).
Proof. exact model_interp. Qed.
Print Assumptions C19_model_interpolation_formula.

(* ... whose real instance hits both vertices, *)
Theorem C19_exact_vertex_hits :
  forall c0 c1 d0 d1 : R, d1 <> d0 ->
  interp_R c0 c1 d0 d1 d0 = c0 /\ interp_R c0 c1 d0 d1 d1 = c1 /\ (c0 + (c1 - c0) = c1)%R.
Proof. intros. split; [now apply interp_R_at_d0|]. split; [now apply interp_R_at_d1|apply end_value_R]. Qed.
Print Assumptions C19_exact_vertex_hits.

(* never moves farther than the arc length between two distances (bookkeeping
   length >= geometric length), *)
Theorem C19_exact_segment_lipschitz :
  forall x0 y0 x1 y1 d0 d1 a b : R,
  (d0 < d1)%R -> ((x1 - x0) ^ 2 + (y1 - y0) ^ 2 <= (d1 - d0) ^ 2)%R ->
  ((interp_R x0 x1 d0 d1 a - interp_R x0 x1 d0 d1 b) ^ 2 +
   (interp_R y0 y1 d0 d1 a - interp_R y0 y1 d0 d1 b) ^ 2 <= (a - b) ^ 2)%R.
Proof. exact segment_lipschitz. Qed.
Print Assumptions C19_exact_segment_lipschitz.

(* and is an arc-length parametrisation when the lengths are the polyline's own *)
Theorem C19_exact_segment_isometry :
  forall x0 y0 x1 y1 d0 d1 a b : R,
  (d0 < d1)%R -> ((x1 - x0) ^ 2 + (y1 - y0) ^ 2 = (d1 - d0) ^ 2)%R ->
  ((interp_R x0 x1 d0 d1 a - interp_R x0 x1 d0 d1 b) ^ 2 +
   (interp_R y0 y1 d0 d1 a - interp_R y0 y1 d0 d1 b) ^ 2 = (a - b) ^ 2)%R.
Proof. exact segment_isometry. Qed.
Print Assumptions C19_exact_segment_isometry.

(* ---------- concrete readings (dumps) ---------- *)

Definition lm0 : Libm := mkLibm (fun x => x) (fun x => x) (fun y _ => y) (fun x => x).
Definition pt (x y : Z) (t : option SplineType) : PathControlPoint := mkPCP (mkPos (S.of_Z x) (S.of_Z y)) t.
Definition half : F64 := D.of_ZE 1 (-1) false.

(* non-vacuity: the 3-4-5 / 5-12-13 polyline (0,0) (3,4) (8,16): distance 18;
   progress 0 -> (0,0), 1/2 -> distance 9 -> 4/13 along the second segment,
   1 and 7 -> (8,16), -1 -> (0,0) *)
Example C19_nonvacuous :
  match curve_L1 lm0 bezier_fuel 1 [pt 0 0 (Some Linear); pt 3 4 None; pt 8 16 None] None with
  | Done c =>
      (D.bits (dist (c_lengths c)),
       dump_out dump_pos (position_at (c_path c) (c_lengths c) D.zero),
       dump_out dump_pos (position_at (c_path c) (c_lengths c) (D.neg D.one)),
       dump_out dump_pos (position_at (c_path c) (c_lengths c) D.one),
       dump_out dump_pos (position_at (c_path c) (c_lengths c) (D.of_Z 7)),
       D.bits (progress_to_dist (c_lengths c) half),
       idx_of_dist (c_lengths c) (progress_to_dist (c_lengths c) half))
  | _ => (0, [], [], [], [], 0, O)
  end
  = (D.bits (D.of_Z 18),
     0 :: dump_pos (mkPos (S.of_Z 0) (S.of_Z 0)), 0 :: dump_pos (mkPos (S.of_Z 0) (S.of_Z 0)),
     0 :: dump_pos (mkPos (S.of_Z 8) (S.of_Z 16)), 0 :: dump_pos (mkPos (S.of_Z 8) (S.of_Z 16)),
     D.bits (D.of_Z 9), 2%nat).
Proof. vm_compute. reflexivity. Qed.

(* reading recorded in the header: with several leading vertices at cumulative
   length 0 the position at progress 0 need not be the *first* vertex object --
   here it is vertex 1, which has the same coordinates only because the
   lengths are true polyline lengths *)
Example C19_leading_zero_lengths :
  let lengths := [D.zero; D.zero; D.zero; D.of_Z 5] in
  idx_of_dist lengths (progress_to_dist lengths D.zero) = 2%nat.
Proof. vm_compute. reflexivity. Qed.

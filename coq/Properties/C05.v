(* C05 — File framing: which lines reach which section parser.

   "Decoding a file is equivalent to: detect the BOM, split on LF (tolerating
   CRLF), trim trailing whitespace, take the format version from the first
   non-blank line if it carries the version prefix (otherwise assume the
   latest version and let that line itself open a section), skip everything
   before the first recognised section header, and then hand every non-blank
   line that is not a // comment to the parser of the most recent recognised
   header, ignoring parser errors.  Blank lines and comment lines never
   change the outcome, an unrecognised bracketed line neither opens nor
   closes a section, and sections may repeat or appear in any order."

   Statements only, each closed by [exact] of a lemma of
   Proofs/FramingFacts.v and followed by Print Assumptions; plus pins of the
   constants the text names and Examples (non-vacuity, boundary cases).

   [driver] (Model/Framing.v) mirrors decode.rs: parse_version,
   parse_first_section with the UseCurrentLine flag, the section loop.
   [frame_spec] is the one-pass reading of the property text.  The byte layer
   (BOM, encodings, reader schedule) is C10 / C01; the one function of it the
   text mentions here — line splitting — is [lines_of_text]. *)
From RM Require Import Model.Framing Proofs.FramingFacts Gen.Generated.
Open Scope Z_scope.

(* ------------------------------------------------------------------ *)
(* Pins                                                                *)

Example pin_latest_format_version : latest_format_version = 14.
Proof. reflexivity. Qed.

Example pin_version_prefix : lit version_prefix = lit "osu file format v".
Proof. reflexivity. Qed.

(* the model's [section] is the Rust enum, in declaration order *)
Example pin_section_variants :
  map section_variant_name all_sections = section_variants.
Proof. reflexivity. Qed.

(* the eleven header lines, as [Section::try_from_line] spells them *)
Example pin_header_lines :
  map header_line all_sections =
  map (fun s => Some (lit s))
      ["[General]"; "[Editor]"; "[Metadata]"; "[Difficulty]"; "[Events]";
       "[TimingPoints]"; "[Colours]"; "[HitObjects]"; "[Variables]";
       "[CatchTheBeat]"; "[Mania]"]%string.
Proof. reflexivity. Qed.

(* each of them is recognised as its own section, and nothing else is in the
   table *)
Example pin_headers_recognised :
  map (fun s => obnd (header_line s) section_of_line) all_sections
  = map Some all_sections
  /\ length section_table = 11%nat.
Proof. split; reflexivity. Qed.

(* ------------------------------------------------------------------ *)
(* T05a: the real control flow (two flags, three loops) refines the
   one-pass specification, for any decoder                              *)

Theorem C05_driver_is_frame_spec :
  forall S V (create : Z -> S) (ps : parsers S) (finish : S -> V) (lines : list str),
  driver create ps finish lines =
  let '(v, routed) := frame_spec (skip ps) lines in
  finish (fold_left (fun st '(sec, l) => fst (parser_of ps sec st l)) routed (create v)).
Proof. exact driver_is_frame_spec. Qed.
Print Assumptions C05_driver_is_frame_spec.

(* [section_loop] in [driver] is the fusion of the source's two nested loops
   ([parse_section] inside the [loop] of [decode]); kept apart, with fuel for
   the outer one, they compute the same and never run out of fuel *)
Theorem C05_nested_loops_fused :
  forall S (ps : parsers S) fuel sec st lines,
  (length lines < fuel)%nat ->
  decode_loop fuel ps sec st lines = Done (section_loop ps sec st lines).
Proof. exact decode_loop_fused. Qed.
Print Assumptions C05_nested_loops_fused.

(* ------------------------------------------------------------------ *)
(* T05b                                                                *)

(* Blank lines never change the outcome (anywhere, including before the
   version line).  For any decoder that skips the empty line ... *)
Theorem C05_blank_irrelevant :
  forall S V (create : Z -> S) (ps : parsers S) (finish : S -> V) l1 l2 b,
  is_blank b = true -> skip ps [] = true ->
  driver create ps finish (l1 ++ b :: l2) = driver create ps finish (l1 ++ l2).
Proof. exact @blank_irrelevant. Qed.
Print Assumptions C05_blank_irrelevant.

(* ... in particular for every decoder with the default should_skip_line;
   and a raw line of White_Space only (space, tab, CR, U+00A0, U+3000, ...)
   is such a blank line once the reader has trimmed it. *)
Theorem C05_blank_irrelevant_default :
  forall S V (create : Z -> S) (ps : parsers S) (finish : S -> V),
  (forall l, skip ps l = should_skip_line l) ->
  forall l1 l2,
  driver create ps finish (l1 ++ [] :: l2) = driver create ps finish (l1 ++ l2).
Proof. exact @blank_irrelevant_default. Qed.
Print Assumptions C05_blank_irrelevant_default.

Theorem C05_whitespace_line_is_blank :
  forall w, Forall (fun c => is_ws c = true) w -> is_blank (trim_end w) = true.
Proof. exact ws_line_is_blank. Qed.
Print Assumptions C05_whitespace_line_is_blank.

(* Comment lines (indented or not) never change the outcome, anywhere after
   the first non-blank line.  Recorded interpretation (DESIGN C05): a //
   line that is itself the first non-blank line is "not a version line", so
   by the first sentence of the property the version falls back to the
   latest and the line is examined as a header; see
   [C05_comment_first_line_boundary] below. *)
Theorem C05_comment_irrelevant :
  forall S V (create : Z -> S) (ps : parsers S) (finish : S -> V) l1 l2 c,
  is_comment c = true -> skip ps c = true -> has_nonblank l1 ->
  driver create ps finish (l1 ++ c :: l2) = driver create ps finish (l1 ++ l2).
Proof. exact @comment_irrelevant. Qed.
Print Assumptions C05_comment_irrelevant.

Theorem C05_comment_irrelevant_default :
  forall S V (create : Z -> S) (ps : parsers S) (finish : S -> V),
  (forall l, skip ps l = should_skip_line l) ->
  forall l1 l2 c, is_comment c = true -> has_nonblank l1 ->
  driver create ps finish (l1 ++ c :: l2) = driver create ps finish (l1 ++ l2).
Proof. exact @comment_irrelevant_default. Qed.
Print Assumptions C05_comment_irrelevant_default.

(* the boundary: a comment as first non-blank line hides the version line
   that follows it (version 14 instead of 9); after the version line it is
   invisible *)
Example C05_comment_first_line_boundary :
  let f := map lit ["osu file format v9"; "[General]"; "a"]%string in
  let c := lit "// c" in
  rec_decode (c :: f) = 14 :: tl (rec_decode f)
  /\ rec_decode f = [9; 1; 0; 1; 97]
  /\ rec_decode (hd [] f :: c :: tl f) = rec_decode f.
Proof. vm_compute. repeat split. Qed.

(* An unrecognised line — bracketed or not — that is not skipped neither
   opens nor closes a section: the current section after it is the one
   before it, it is handed to that section's parser (to nobody before the
   first header), and every later line goes where it goes without it. *)
Theorem C05_unrecognised_is_data :
  forall S V (create : Z -> S) (ps : parsers S) (finish : S -> V) pre u post,
  has_nonblank pre -> section_of_line u = None -> skip ps u = false ->
  let st0 := create (version_of pre) in
  let before := route (skip ps) None (body_of pre) in
  let cur := section_after (skip ps) pre in
  let after := route (skip ps) cur post in
  section_after (skip ps) (pre ++ [u]) = cur
  /\ driver create ps finish (pre ++ post)
     = finish (feed ps st0 (before ++ after))
  /\ driver create ps finish (pre ++ u :: post)
     = finish (feed ps st0
                 (before ++ match cur with Some sec => [(sec, u)] | None => [] end
                         ++ after)).
Proof. exact @unrecognised_is_data. Qed.
Print Assumptions C05_unrecognised_is_data.

(* the bracketed lines that are not headers: unknown name, wrong case,
   indentation, text after the bracket, empty name, half brackets *)
Example C05_not_headers :
  map section_of_line
      (map lit ["[Unknown]"; "[general]"; " [General]"; "[General]x"; "[General] x";
                "[]"; "["; "]"; "[General"; "General]"; "[[General]]"; "[Colors]"]%string)
  = repeat None 12.
Proof. reflexivity. Qed.

(* "[General] " with trailing White_Space is a header, because the reader
   trims the end of every line; leading White_Space is not trimmed *)
Example C05_trailing_space_header :
  map section_of_line (lines_of_text (lit "[General] ")) = [Some SecGeneral]
  /\ map section_of_line (lines_of_text (lit " [General]")) = [None].
Proof. split; reflexivity. Qed.

(* Sections may repeat or appear in any order: a recognised header makes its
   section current whatever came before ... *)
Theorem C05_header_resets :
  forall skip h s, section_of_line h = Some s -> skip h = false ->
  forall cur pre, section_after_from skip cur (pre ++ [h]) = Some s.
Proof. exact header_resets. Qed.
Print Assumptions C05_header_resets.

Theorem C05_route_after_header :
  forall skip h s, section_of_line h = Some s -> skip h = false ->
  forall cur post, route skip cur (h :: post) = route skip (Some s) post.
Proof. exact route_after_header. Qed.
Print Assumptions C05_route_after_header.

(* ... the default should_skip_line never hides a header ... *)
Theorem C05_default_skip_keeps_headers :
  forall l s, section_of_line l = Some s -> should_skip_line l = false.
Proof. exact default_skip_keeps_headers. Qed.
Print Assumptions C05_default_skip_keeps_headers.

(* ... so "the most recent recognised header" is literally the last header
   line before the line in question, and each line contributes on its own:
   nothing before the first header, nothing if blank / comment / header,
   otherwise itself, addressed to that header's parser. *)
Theorem C05_most_recent_header :
  forall skip, keeps_headers skip ->
  forall lines, section_after skip lines = last_header (body_of lines).
Proof. exact section_after_is_last_header. Qed.
Print Assumptions C05_most_recent_header.

Theorem C05_route_contribution :
  forall skip, keeps_headers skip ->
  forall pre l post,
  route skip None (pre ++ l :: post)
  = route skip None pre
    ++ match last_header pre with
       | None => []
       | Some sec => if skip l then []
                     else match section_of_line l with
                          | Some _ => []
                          | None => [(sec, l)]
                          end
       end
    ++ route skip (last_header (pre ++ [l])) post.
Proof. exact route_contribution. Qed.
Print Assumptions C05_route_contribution.

(* a prefix with a non-blank line fixes the version and its own routing; the
   rest of the file is routed from the section current at the cut *)
Theorem C05_frame_spec_app :
  forall skip pre post, has_nonblank pre ->
  frame_spec skip (pre ++ post)
  = (fst (frame_spec skip pre),
     snd (frame_spec skip pre) ++ route skip (section_after skip pre) post).
Proof. exact frame_spec_app. Qed.
Print Assumptions C05_frame_spec_app.

Example C05_sections_repeat_any_order :
  rec_decode (map lit ["[HitObjects]"; "h1"; "[General]"; "g1"; "[HitObjects]"; "h2";
                       "[Mania]"; "m"; "[General]"; "g2"]%string)
  = [14; 5;  7; 2; 104; 49;  0; 2; 103; 49;  7; 2; 104; 50;  10; 1; 109;  0; 2; 103; 50].
Proof. reflexivity. Qed.

(* Parser errors are ignored: what a parser answers never influences which
   lines reach which parser (only what it does to the state matters). *)
Theorem C05_results_irrelevant :
  forall S V (create : Z -> S) (ps ps' : parsers S) (finish : S -> V),
  (forall l, skip ps l = skip ps' l) ->
  (forall sec st l, fst (parser_of ps sec st l) = fst (parser_of ps' sec st l)) ->
  forall lines, driver create ps finish lines = driver create ps' finish lines.
Proof. exact results_irrelevant. Qed.
Print Assumptions C05_results_irrelevant.

(* the recording decoder does answer Err on marked lines, and routing goes on *)
Example C05_recorder_rejects_and_continues :
  snd (rec_parse 0 (14, []) (lit "a!")) = Rejected
  /\ rec_decode (map lit ["[General]"; "a!"; "b"]%string) = [14; 2; 0; 2; 97; 33; 0; 1; 98].
Proof. split; reflexivity. Qed.

(* version line shapes: plain, padded, signed, suffixed (not a number: the
   version is the latest and the line is looked at as a header, which it is
   not), wrong prefix *)
Example C05_version_lines :
  map version_of_line
      (map lit ["osu file format v14"; "osu file format v9"; "osu file format v 12";
                "osu file format v+7"; "osu file format v14 // c"; "osu file format vX";
                "osu file format v"; "file format v14"; " osu file format v14"]%string)
  = [Some 14; Some 9; Some 12; Some 7; None; None; None; None; None].
Proof. reflexivity. Qed.

Example C05_bad_version_line_falls_back :
  rec_decode (map lit ["osu file format vX"; "[General]"; "a"]%string) = [14; 1; 0; 1; 97]
  /\ rec_decode (map lit [""; ""; "[General]"; "a"]%string) = [14; 1; 0; 1; 97]
  /\ rec_decode (map lit ["a"; "osu file format v9"; "[General]"; "b"]%string) = [14; 1; 0; 1; 98]
  /\ rec_decode [] = [14; 0].
Proof. repeat split; reflexivity. Qed.

(* ------------------------------------------------------------------ *)
(* T05c: the lines the driver receives                                 *)

(* a file written line by line with LF, CRLF, or any White_Space before the
   LF, delivers the trimmed lines *)
Theorem C05_lines_of_join :
  forall w ls, Forall (fun c => is_ws c = true) w -> no_lf w -> Forall no_lf ls ->
  lines_of_text (join_eol (w ++ [ch_lf]) ls) = map trim_end ls.
Proof. exact lines_of_join. Qed.
Print Assumptions C05_lines_of_join.

Theorem C05_lines_lf_crlf :
  forall ls, Forall no_lf ls ->
  lines_of_text (join_eol [ch_cr; ch_lf] ls) = lines_of_text (join_eol [ch_lf] ls).
Proof. exact lines_lf_crlf. Qed.
Print Assumptions C05_lines_lf_crlf.

(* for every text, not only those written line by line *)
Theorem C05_lines_of_text_crlf :
  forall text, lines_of_text (to_crlf text) = lines_of_text text.
Proof. exact lines_of_text_crlf. Qed.
Print Assumptions C05_lines_of_text_crlf.

Theorem C05_decode_text_crlf :
  forall S V (create : Z -> S) ps (finish : S -> V) text,
  decode_text create ps finish (to_crlf text) = decode_text create ps finish text.
Proof. exact decode_text_crlf. Qed.
Print Assumptions C05_decode_text_crlf.

(* the final newline is optional *)
Theorem C05_final_newline_optional :
  forall ls last, Forall no_lf ls -> no_lf last -> last <> [] ->
  lines_of_text (join_eol [ch_lf] ls ++ last)
  = lines_of_text (join_eol [ch_lf] (ls ++ [last])).
Proof. exact lines_final_newline_optional. Qed.
Print Assumptions C05_final_newline_optional.

(* trailing White_Space of any line is irrelevant *)
Theorem C05_trailing_whitespace :
  forall ls ws, Forall no_lf ls -> length ws = length ls ->
  Forall (fun w => Forall (fun c => is_ws c = true) w /\ no_lf w) ws ->
  lines_of_text (join_eol [ch_lf] (map (fun p => fst p ++ snd p) (combine ls ws)))
  = lines_of_text (join_eol [ch_lf] ls).
Proof. exact lines_trailing_ws. Qed.
Print Assumptions C05_trailing_whitespace.

Theorem C05_lines_are_trimmed :
  forall text, Forall (fun l => trim_end l = l) (lines_of_text text).
Proof. exact lines_of_text_trimmed. Qed.
Print Assumptions C05_lines_are_trimmed.

Example C05_lines_examples :
  lines_of_text [] = []
  /\ lines_of_text (lit "a") = [lit "a"]
  /\ lines_of_text (lit "a" ++ [ch_lf]) = [lit "a"]
  /\ lines_of_text (lit "a" ++ [ch_lf; ch_lf]) = [lit "a"; []]
  /\ lines_of_text (lit "a " ++ [ch_cr; ch_lf; 160; 12288; 9; ch_cr; ch_lf] ++ lit "b")
     = [lit "a"; []; lit "b"]
  /\ is_ws ch_cr = true /\ is_ws 160 = true /\ is_ws 12288 = true /\ is_ws 9 = true.
Proof. repeat split; reflexivity. Qed.

(* ------------------------------------------------------------------ *)
(* Hooks for C06 / C07 (stated here so that they are re-checked with C05;
   the properties themselves are not claimed here)                      *)

Theorem C05_rejected_line_absent :
  forall S V (create : Z -> S) (ps : parsers S) (finish : S -> V) pre l post sec,
  section_after (skip ps) pre = Some sec ->
  skip ps l = false -> section_of_line l = None ->
  (forall st, snd (parser_of ps sec st l) = Rejected -> fst (parser_of ps sec st l) = st) ->
  snd (parser_of ps sec (state_after create ps pre) l) = Rejected ->
  driver create ps finish (pre ++ l :: post) = driver create ps finish (pre ++ post).
Proof. exact rejected_line_absent. Qed.
Print Assumptions C05_rejected_line_absent.

Theorem C05_driver_simulation :
  forall S1 S2 V1 V2 (R : S1 -> S2 -> Prop) (Q : V1 -> V2 -> Prop)
         (create1 : Z -> S1) (create2 : Z -> S2)
         (ps1 : parsers S1) (ps2 : parsers S2)
         (finish1 : S1 -> V1) (finish2 : S2 -> V2),
  (forall v, R (create1 v) (create2 v)) ->
  (forall l, skip ps1 l = skip ps2 l) ->
  (forall sec st1 st2 l, R st1 st2 ->
     R (fst (parser_of ps1 sec st1 l)) (fst (parser_of ps2 sec st2 l))) ->
  (forall st1 st2, R st1 st2 -> Q (finish1 st1) (finish2 st2)) ->
  forall lines,
  Q (driver create1 ps1 finish1 lines) (driver create2 ps2 finish2 lines).
Proof. exact driver_simulation. Qed.
Print Assumptions C05_driver_simulation.

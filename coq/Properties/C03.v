(* C03 -- edits to a decoded map survive encode -> decode.
   (work in progress: statements are added below as they are proved) *)
From RM Require Import Model.Edit.
Open Scope Z_scope.

Example pin_version_prefix : Gen.Generated.version_prefix = "osu file format v"%string.
Proof. reflexivity. Qed.

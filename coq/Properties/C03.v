(* C03 -- Edits to a decoded map survive encode -> decode.

   "For every decoded map and every edit that sets a field to a value the
   format can represent (any metadata text without line breaks or surrounding
   whitespace, including text containing colons; file names; numbers within
   the parse limits; flags, mode and countdown; bookmarks; colours; breaks),
   encoding and decoding again shows exactly the edited value.  Every other
   preserved field is unchanged by the edit."

   [edit] / [apply_edit] (Model/Edit.v): setting one field of the six simple
   sections.  [representable e m] (Model/EncSpec.v): the boolean
   "Representable" -- per field, the values the format can represent.
   [read_back m]: the map as it is read back from its own encoding (the
   [carry] of DESIGN C02 on the simple sections).  [sections_read_back]: each
   of the six encoded sections, parsed line by line from the decoder's initial
   state, yields the corresponding section of [read_back m].

   Statements only, each closed by [exact]; number formatting is the oracle
   [fmt_ok] (Proofs/EncFmt.v).  Domain: [simple_ok m], which every decoded map
   satisfies (C04_decode_image_inv) outside the known class D23. *)
From RM Require Import Model.EncSpec Proofs.EncFmt Proofs.EncSimple Proofs.EncImage Proofs.EncEdit.
From RM Require Import Gen.Generated.
Open Scope Z_scope.

(* ---------- pins ---------- *)

Example pin_limits : max_parse_value = 2147483647.
Proof. reflexivity. Qed.
Example pin_clamps :
  slider_mult_clamp = ((false, 4, -1), (false, 36, -1)) /\ tick_rate_clamp = ((false, 5, -1), (false, 80, -1)).
Proof. split; reflexivity. Qed.
Example pin_combo_prefix : colors_combo_prefix = "Combo"%string.
Proof. reflexivity. Qed.

(* ---------- T03a ---------- *)

(* a representable edit keeps the map within what the format represents ... *)
Theorem C03_edited_map_representable :
  forall e m, simple_ok m = true -> representable e m = true -> simple_ok (apply_edit e m) = true.
Proof. exact representable_ok. Qed.
Print Assumptions C03_edited_map_representable.

(* ... so every section of its encoding is read back as [read_back] says, and reading
   the edited map back is the same as editing the map that was read back: the edited
   field shows exactly the edited value and every other field is what it was without
   the edit.  (A mode edit decides whether the special style is carried at all -- the
   format has it in mania only -- so that one field is left out for mode edits.) *)
Theorem C03_edit_survives :
  forall fmt_f64 fmt_f32 fmt_int, fmt_ok fmt_f64 fmt_f32 fmt_int ->
  forall e m, simple_ok m = true -> representable e m = true ->
  sections_read_back fmt_f64 fmt_f32 fmt_int (apply_edit e m) /\
  match e with
  | EdMode _ => without_special (read_back (apply_edit e m)) = without_special (apply_edit e (read_back m))
  | _ => read_back (apply_edit e m) = apply_edit e (read_back m)
  end.
Proof. intros f64 f32 fi Hfmt e m Hm He. exact (edit_survives f64 f32 fi Hfmt e m Hm He). Qed.
Print Assumptions C03_edit_survives.

Theorem C03_read_back_commutes_with_edit :
  forall e m, representable e m = true ->
  match e with
  | EdMode _ => without_special (read_back (apply_edit e m)) = without_special (apply_edit e (read_back m))
  | _ => read_back (apply_edit e m) = apply_edit e (read_back m)
  end.
Proof. exact read_back_edit. Qed.
Print Assumptions C03_read_back_commutes_with_edit.

(* multi-field edits: by induction over the edit list *)
Theorem C03_edit_lists_survive :
  forall fmt_f64 fmt_f32 fmt_int, fmt_ok fmt_f64 fmt_f32 fmt_int ->
  forall es m, simple_ok m = true -> all_representable es m = true ->
  simple_ok (fold_left (fun x e => apply_edit e x) es m) = true /\
  sections_read_back fmt_f64 fmt_f32 fmt_int (fold_left (fun x e => apply_edit e x) es m).
Proof. intros f64 f32 fi Hfmt es m Hm He. exact (edits_survive f64 f32 fi Hfmt es m Hm He). Qed.
Print Assumptions C03_edit_lists_survive.

(* the unedited map (the base case C02 needs): every section reads back *)
Theorem C03_sections_read_back :
  forall fmt_f64 fmt_f32 fmt_int, fmt_ok fmt_f64 fmt_f32 fmt_int ->
  forall m, simple_ok m = true -> sections_read_back fmt_f64 fmt_f32 fmt_int m.
Proof. intros f64 f32 fi Hfmt m Hm. exact (simple_sections_read_back f64 f32 fi Hfmt m Hm). Qed.
Print Assumptions C03_sections_read_back.

(* ---------- Representable: an example per kind of field ---------- *)

Definition m0 : BeatmapV :=
  mkBMV 14 editor_default metadata_default colors_default
        (mkHOV general_default difficulty_default events_default cp_empty []).

Example m0_ok : simple_ok m0 = true. Proof. vm_compute. reflexivity. Qed.

(* metadata text: colons, "//", commas, quotes, brackets, header-like, version-like, non-ASCII *)
Example rep_title_colon : representable (EdTitle (lit "Re:Zero")) m0 = true. Proof. reflexivity. Qed.
Example rep_title_slashes : representable (EdTitle (lit "a//b, ""q"" [General]")) m0 = true. Proof. reflexivity. Qed.
Example rep_title_version_like : representable (EdArtist (lit "osu file format v9")) m0 = true. Proof. reflexivity. Qed.
Example rep_title_non_ascii : representable (EdCreator [26085; 26412; 35486]) m0 = true. Proof. reflexivity. Qed.
Example rep_title_empty : representable (EdTags []) m0 = true. Proof. reflexivity. Qed.
Example not_rep_title_padded : representable (EdTitle (lit " x")) m0 = false. Proof. reflexivity. Qed.
Example not_rep_title_line_break : representable (EdTitle [97; 10; 98]) m0 = false. Proof. reflexivity. Qed.
(* file names: comment-stripped records; `\` is the decoder's path separator *)
Example rep_audio : representable (EdAudioFile (lit "dir/my song: 1.mp3")) m0 = true. Proof. reflexivity. Qed.
Example not_rep_audio_slashes : representable (EdAudioFile (lit "a//b.mp3")) m0 = false. Proof. reflexivity. Qed.
Example not_rep_audio_backslash : representable (EdAudioFile [97; 92; 98]) m0 = false. Proof. reflexivity. Qed.
Example rep_background : representable (EdBackground (lit "my bg (1).png")) m0 = true. Proof. reflexivity. Qed.
Example not_rep_background_comma : representable (EdBackground (lit "a,b.png")) m0 = false. Proof. reflexivity. Qed.
Example not_rep_background_quote : representable (EdBackground (lit """a.png")) m0 = false. Proof. reflexivity. Qed.
(* numbers *)
Example rep_int_limit : representable (EdPreviewTime 2147483647) m0 = true /\
                        representable (EdPreviewTime (-2147483647)) m0 = true /\
                        representable (EdPreviewTime (-2147483648)) m0 = false.
Proof. repeat split; reflexivity. Qed.
(* bookmarks: any list of numbers within +-(2^31-1), like every other number of the format
   (D10 repaired: the decoder used to read the elements with plain str::parse::<i32>, which
   accepted -2147483648) *)
Example rep_bookmarks :
  representable (EdBookmarks [0; -5; 2147483647; -2147483647]) m0 = true /\
  representable (EdBookmarks []) m0 = true /\
  representable (EdBookmarks [-2147483648]) m0 = false /\
  representable (EdBookmarks [1; 2147483648]) m0 = false.
Proof. repeat split; reflexivity. Qed.
Example pin_bookmark_condition : forall l, representable (EdBookmarks l) m0 = forallb i32_ok l.
Proof. reflexivity. Qed.
(* the edit survives, through the encoder, for every number formatting: the bookmarks
   lead the dump of the editor section (count, then the values) *)
Example bookmark_edit_survives :
  forall fmt_f64 fmt_f32 fmt_int, fmt_ok fmt_f64 fmt_f32 fmt_int ->
  firstn 5 (dump_editor (run_lines parse_editor editor_default
                 (map (render fmt_f64 fmt_f32 fmt_int)
                      (body (enc_editor (bmv_editor (apply_edit (EdBookmarks [0; -5; 2147483647; -2147483647]) m0)))))))
  = [4; 0; -5; 2147483647; -2147483647].
Proof.
  intros f64 f32 fi Hfmt.
  destruct (edit_survives f64 f32 fi Hfmt (EdBookmarks [0; -5; 2147483647; -2147483647]) m0 m0_ok eq_refl)
    as [(_ & He & _) _].
  rewrite He. vm_compute. reflexivity.
Qed.
Example rep_f64_limit : representable (EdDistanceSpacing (D.of_Z 2147483647)) m0 = true /\
                        representable (EdDistanceSpacing (D.of_Z 2147483648)) m0 = false /\
                        representable (EdTimelineZoom D.nan) m0 = false.
Proof. repeat split; vm_compute; reflexivity. Qed.
Example rep_lead_in : representable (EdAudioLeadIn (D.of_Z 1500)) m0 = true /\
                      representable (EdAudioLeadIn (D.of_decimal false 15 (-1))) m0 = false /\
                      representable (EdAudioLeadIn (D.neg D.zero)) m0 = false.
Proof. repeat split; vm_compute; reflexivity. Qed.
Example rep_slider_multiplier :
  representable (EdSliderMultiplier (D.of_decimal false 4 (-1))) m0 = true /\
  representable (EdSliderMultiplier (D.of_decimal false 36 (-1))) m0 = true /\
  representable (EdSliderMultiplier (D.of_decimal false 37 (-1))) m0 = false.
Proof. repeat split; vm_compute; reflexivity. Qed.
Example rep_f32 : representable (EdCs (S.of_decimal false 42 (-1))) m0 = true /\
                  representable (EdCs (S.inf false)) m0 = false.
Proof. repeat split; vm_compute; reflexivity. Qed.
(* flags, mode, countdown, ids, offset *)
Example rep_enums : representable (EdMode 3) m0 = true /\ representable (EdMode 4) m0 = false /\
                    representable (EdCountdown 0) m0 = true.
Proof. repeat split; reflexivity. Qed.
Example rep_special_style : representable (EdSpecialStyle true) m0 = false /\
                            representable (EdSpecialStyle true) (apply_edit (EdMode 3) m0) = true.
Proof. split; reflexivity. Qed.
Example rep_ids : representable (EdBeatmapId 662518) m0 = true /\ representable (EdBeatmapId 0) m0 = false /\
                  representable (EdCountdownOffset 0) m0 = true /\ representable (EdCountdownOffset (-2)) m0 = false.
Proof. repeat split; reflexivity. Qed.
(* breaks: the plain order condition -- the end does not lie before the start *)
Example rep_breaks :
  representable (EdBreaks [mkBreak (D.of_Z 100) (D.of_Z 900)]) m0 = true /\
  representable (EdBreaks [mkBreak (D.of_Z 100) (D.of_Z 100)]) m0 = true /\
  representable (EdBreaks [mkBreak (D.of_Z 900) (D.of_Z 100)]) m0 = false.
Proof. repeat split; vm_compute; reflexivity. Qed.
Example pin_break_condition :
  forall b, break_ok b = in_lim64 (bp_start b) && in_lim64 (bp_end b) && negb (D.lt (bp_end b) (bp_start b)).
Proof. reflexivity. Qed.
(* D24 (repaired): a break between the two zeros, in either sign order, is representable
   and survives.  The decoder used to compute the end as start.max(end), which returns the
   start when the two compare equal, so `2,-0,0` came back with end -0.0 and `2,0,-0` with
   end +0.0; it now keeps the written end unless it lies before the start.
   -0.0 has the bit pattern 2^63 = 9223372036854775808. *)
Definition zero_breaks : list BreakPeriod :=
  [mkBreak (D.neg D.zero) D.zero; mkBreak D.zero (D.neg D.zero); mkBreak (D.neg D.zero) (D.neg D.zero)].
Example rep_break_zero_signs : representable (EdBreaks zero_breaks) m0 = true.
Proof. vm_compute. reflexivity. Qed.
(* the decoder reads the two lines back bit for bit ... *)
Example break_zero_lines_read_back :
  dump_events (run_lines parse_events events_default (map lit ["2,-0,0"; "2,0,-0"]%string))
  = [0; 2; 9223372036854775808; 0; 0; 9223372036854775808].
Proof. vm_compute. reflexivity. Qed.
(* ... and so does the edit, through the encoder, for every number formatting *)
Example break_zero_edit_survives :
  forall fmt_f64 fmt_f32 fmt_int, fmt_ok fmt_f64 fmt_f32 fmt_int ->
  dump_events (run_lines parse_events events_default
                 (map (render fmt_f64 fmt_f32 fmt_int)
                      (body (enc_events (hov_events (bmv_ho (apply_edit (EdBreaks zero_breaks) m0)))))))
  = [0; 3; 9223372036854775808; 0; 0; 9223372036854775808; 9223372036854775808; 9223372036854775808].
Proof.
  intros f64 f32 fi Hfmt.
  destruct (edit_survives f64 f32 fi Hfmt (EdBreaks zero_breaks) m0 m0_ok rep_break_zero_signs)
    as [(_ & _ & _ & _ & He & _) _].
  rewrite He. vm_compute. reflexivity.
Qed.
(* colours: no alpha channel; a custom colour's name is a key that is not a Combo key *)
Example rep_colours :
  representable (EdComboColors [mkColor 255 0 128 255]) m0 = true /\
  representable (EdComboColors [mkColor 255 0 128 7]) m0 = false /\
  representable (EdCustomColors [mkCustomColor (lit "SliderBorder") (mkColor 1 2 3 255)]) m0 = true /\
  representable (EdCustomColors [mkCustomColor (lit "Combo9") (mkColor 1 2 3 255)]) m0 = false /\
  representable (EdCustomColors [mkCustomColor (lit "a:b") (mkColor 1 2 3 255)]) m0 = false.
Proof. repeat split; reflexivity. Qed.

(* ---------- the exclusions of [representable] describe the format, not the encoder ----------
   For the six simple sections the decoder itself never produces a value outside
   [simple_pre] (C04_decode_image_inv: no line break, no surrounding White_Space, no `\`,
   no `,` / surrounding quotes in the background name, numbers within the limits, clamped
   values in range, breaks whose end is not before the start, alpha 255, distinct non-Combo colour
   keys without `:`).  The one exclusion that the decoder CAN produce is "//" inside a
   file name (D23, C04_file_name_misread_refuted). *)

(* C18 -- Curve computation is pure: buffers, caches and API choice do not
   matter.  Only statements, each closed by [exact] of a lemma from Proofs/,
   followed by Print Assumptions; then witnesses and non-vacuity examples.

   Model: Model/Curve.v (L0 = the code with its CurveBuffers, in-place
   bezier_subdivide, extend_exact, mem::take; L1 = the pure curve) and
   Model/SliderPathCache.v.  [lm] is libm (sin, cos, atan2, acosf): arbitrary
   functions, nothing is assumed about them.  [fuel] bounds the Bezier
   subdivision loop; L0 and L1 consume it identically, so every statement
   holds for every fuel, including the OutOfFuel outcome. *)
From RM Require Import Model.ControlPoints Model.Curve Model.SliderPathCache
  Proofs.BezierRefine Proofs.CurveRefine Proofs.SliderPathFacts.
Open Scope Z_scope.

(* ---------- T18a: L0 refines L1 for any prior buffer contents ---------- *)

(* [cb_wf]: the four Bezier scratch vectors have the same length -- an
   invariant of the private fields (Default + extend_exact), preserved by
   every operation; path, lengths and vertices buffers are arbitrary.
   All statements hold for EVERY control-point list, the empty one included
   (since the repair of D7: path.clear() precedes the early return). *)

(* the Bezier routine with scratch buffers, explicit stack and buffer reuse
   against the pure de Casteljau recursion: same emitted vertices *)
Theorem C18_bezier_scratch_buffers_irrelevant :
  forall fuel path points b, bb_wf b ->
  match approximate_bezier_L1 fuel path points tt with
  | Done (path', _) => exists b', approximate_bezier_L0 fuel path points b = Done (path', b') /\ bb_wf b'
  | Panic w => approximate_bezier_L0 fuel path points b = Panic w
  | OutOfFuel => approximate_bezier_L0 fuel path points b = OutOfFuel
  end.
Proof. exact approximate_bezier_refines. Qed.
Print Assumptions C18_bezier_scratch_buffers_irrelevant.

(* Curve::new: result = pure curve; the buffers stay well-formed and their
   path/lengths are taken (empty afterwards) *)
Theorem C18_owned_is_pure :
  forall lm fuel mode pts e bufs, cb_wf bufs ->
  match curve_L1 lm fuel mode pts e with
  | Done c => exists bufs', curve_new_L0 lm fuel mode pts e bufs = Done (c, bufs') /\ cb_wf bufs'
                            /\ cb_path bufs' = [] /\ cb_lengths bufs' = []
  | Panic w => curve_new_L0 lm fuel mode pts e bufs = Panic w
  | OutOfFuel => curve_new_L0 lm fuel mode pts e bufs = OutOfFuel
  end.
Proof. exact curve_new_refines. Qed.
Print Assumptions C18_owned_is_pure.

(* BorrowedCurve::new: the view of the buffers is the pure curve *)
Theorem C18_borrowed_is_pure :
  forall lm fuel mode pts e bufs, cb_wf bufs ->
  match curve_L1 lm fuel mode pts e with
  | Done c => exists bufs', borrowed_new_L0 lm fuel mode pts e bufs = Done (c, bufs') /\ cb_wf bufs'
                            /\ cb_path bufs' = c_path c /\ cb_lengths bufs' = c_lengths c
  | Panic w => borrowed_new_L0 lm fuel mode pts e bufs = Panic w
  | OutOfFuel => borrowed_new_L0 lm fuel mode pts e bufs = OutOfFuel
  end.
Proof. exact borrowed_new_refines. Qed.
Print Assumptions C18_borrowed_is_pure.

(* T18a in the form of DESIGN: all lists, all prior buffer contents *)
Theorem C18_T18a_owned :
  forall lm fuel mode pts e bufs, cb_wf bufs ->
  ores (curve_new_L0 lm fuel mode pts e bufs) = curve_L1 lm fuel mode pts e.
Proof. exact curve_new_result. Qed.
Print Assumptions C18_T18a_owned.

Theorem C18_T18a_borrowed :
  forall lm fuel mode pts e bufs, cb_wf bufs ->
  ores (borrowed_new_L0 lm fuel mode pts e bufs) = curve_L1 lm fuel mode pts e.
Proof. exact borrowed_new_result. Qed.
Print Assumptions C18_T18a_borrowed.

(* owned and borrowed constructors agree, on any two buffer sets *)
Theorem C18_owned_borrowed_agree :
  forall lm fuel mode pts e bufs1 bufs2, cb_wf bufs1 -> cb_wf bufs2 ->
  ores (curve_new_L0 lm fuel mode pts e bufs1) = ores (borrowed_new_L0 lm fuel mode pts e bufs2).
Proof. exact owned_borrowed_agree. Qed.
Print Assumptions C18_owned_borrowed_agree.

(* the empty list: no vertex and the single cumulative length 0.0, through
   either constructor, whatever the buffers held before *)
Theorem C18_empty_list_any_buffers :
  forall lm fuel mode e bufs, cb_wf bufs ->
  curve_L1 lm fuel mode [] e = Done (mkCurve [] [D.zero]) /\
  ores (curve_new_L0 lm fuel mode [] e bufs) = Done (mkCurve [] [D.zero]) /\
  ores (borrowed_new_L0 lm fuel mode [] e bufs) = Done (mkCurve [] [D.zero]).
Proof. exact empty_list_curve. Qed.
Print Assumptions C18_empty_list_any_buffers.

(* ---------- T18b: the SliderPath cache ---------- *)

(* every mutable accessor empties the cache, whatever it held, and leaves the
   shared buffers alone *)
Theorem C18_mutation_invalidates :
  forall lm fuel sp bufs o, is_mutation o = true ->
  sp_step lm fuel sp bufs o
  = Done (mkSP (sp_mode sp) (cps_after sp o) (dist_after sp o) None, bufs, None).
Proof. exact mutation_invalidates. Qed.
Print Assumptions C18_mutation_invalidates.

(* for EVERY history over {curve, curve_with_bufs, borrowed_curve,
   control_points_mut (+write), expected_dist_mut (+write), clear_curve} and
   owned/borrowed computations of other curves on the same buffers: what the
   caller reads is what the cache-free, buffer-free specification computes
   from the current fields; the invariant "cache empty or curve of the
   current fields" and buffer well-formedness hold at the end *)
Theorem C18_slider_path_histories :
  forall lm fuel ops sp bufs,
  cache_ok lm fuel sp -> cb_wf bufs ->
  results (sp_run lm fuel sp bufs ops) = spec_run lm fuel (sp_clear sp) ops /\
  match sp_run lm fuel sp bufs ops with
  | Done (sp', bufs', _) => cache_ok lm fuel sp' /\ cb_wf bufs'
  | _ => True
  end.
Proof. intros lm fuel ops. exact (sp_run_spec lm fuel ops). Qed.
Print Assumptions C18_slider_path_histories.

(* in particular from SliderPath::new and CurveBuffers::default() *)
Theorem C18_histories_from_fresh_state :
  forall lm fuel ops mode cps e,
  results (sp_run lm fuel (sp_new mode cps e) bufs_default ops) = spec_run lm fuel (sp_new mode cps e) ops.
Proof. exact sp_run_spec_fresh. Qed.
Print Assumptions C18_histories_from_fresh_state.

(* ---------- witnesses on concrete runs (dumps: floats carry proof terms) ---------- *)

(* libm is not reached by these inputs (no three-point perfect curve) *)
Definition lm0 : Libm := mkLibm (fun x => x) (fun x => x) (fun y _ => y) (fun x => x).
Definition pt (x y : Z) (t : option SplineType) : PathControlPoint := mkPCP (mkPos (S.of_Z x) (S.of_Z y)) t.
Definition line2 : list PathControlPoint := [pt 0 0 (Some Linear); pt 3 4 None].
Definition bez3 : list PathControlPoint := [pt 0 0 (Some BSpline); pt 2 2 None; pt 4 0 None].

Definition dump_reads (o : outcome (SliderPath * CurveBuffers * list (option Curve))) : list Z :=
  match o with
  | Done (_, _, rs) => flat_map (fun r => match r with Some c => 0 :: dump_curve c | None => [] end) rs
  | Panic _ => [1]
  | OutOfFuel => [2]
  end.

(* the former D7 scenario: a borrowed computation of a 2-point line, then the
   empty list through the same buffers by all three read APIs -- now the
   empty curve (no vertex, lengths [0.0]) each time *)
Example C18_empty_list_after_borrowed_run :
  dump_reads (sp_run lm0 bezier_fuel (sp_new 0 [] None) bufs_default
                [OpBorrowedOther 0 line2 None; OpBorrowed; OpCurveWithBufs; OpCurve; OpBorrowedOther 0 [] (Some (D.of_Z 3))])
  = [0; 2; 0; 0; S.bits (S.of_Z 3); S.bits (S.of_Z 4); 2; 0; D.bits (D.of_Z 5);
     0; 0; 1; 0;  0; 0; 1; 0;  0; 0; 1; 0;  0; 0; 1; 0].
Proof. vm_compute. reflexivity. Qed.

(* non-vacuity: a history with mutation and all three read APIs over a Bezier
   segment (scratch buffers dirty from an earlier, different computation):
   the reads agree with each other and reflect the mutation *)
Example C18_nonvacuous :
  let run := sp_run lm0 bezier_fuel (sp_new 1 line2 None) bufs_default
               [OpBorrowedOther 1 bez3 (Some (D.of_Z 2)); OpCurveWithBufs; OpSetPoints bez3; OpBorrowed;
                OpCurveWithBufs; OpCurve; OpSetDist (Some (D.of_Z 2)); OpBorrowed] in
  let spec := spec_run lm0 bezier_fuel (sp_new 1 line2 None)
               [OpBorrowedOther 1 bez3 (Some (D.of_Z 2)); OpCurveWithBufs; OpSetPoints bez3; OpBorrowed;
                OpCurveWithBufs; OpCurve; OpSetDist (Some (D.of_Z 2)); OpBorrowed] in
  dump_reads run
  = match spec with
    | Done rs => flat_map (fun r => match r with Some c => 0 :: dump_curve c | None => [] end) rs
    | Panic _ => [1] | OutOfFuel => [2] end
  /\ (length (dump_reads run) > 40)%nat.
Proof. vm_compute. split; [reflexivity|lia]. Qed.

(* C20 — Slider event stream has the legacy structure and timing.

   Model: Model/SliderEvents.v (SliderEventsIter::new, Iterator::next,
   generate_ticks, new_repeat_point, one shared tick buffer), written against
   a record of float operations and read with binary64 ([ops64], tied
   bit-exactly to the crate by the correspondence check) and with real numbers
   ([opsR]).  [events_spec] is the eager list written from the property text.
   This file holds only statements closed by [exact] of a lemma from Proofs/,
   pins of the constants, and concrete examples.
   Sections: T20a (lazy machine = eager list, any arithmetic), no-panic
   characterisation, structure and float closed forms, T20b (exact
   arithmetic), T20c (binary64: loop guards, weak chronological order),
   concrete streams, and "T20c, continued" (binary64 error analysis,
   Proofs/SliderEventsRound*.v: rounding of the running sum and of the
   progress, tick times forward and mirrored, repeat after the ticks, span
   start / repeat / tail / last tick against their exact closed forms, ticks
   identically placed on every span) with its own non-vacuity examples. *)
From RM Require Import Model.SliderEvents Model.Drv20 Gen.Generated.
From RM Require Import Proofs.SliderEventsFacts Proofs.SliderEventsIEEE Proofs.SliderEventsExact.
From RM Require Import Proofs.SliderEventsNeg Proofs.SliderEventsMono.
From RM Require Import Proofs.SliderEventsRound Proofs.SliderEventsRoundTime Proofs.SliderEventsRoundSpans
     Proofs.SliderEventsRoundGuard Proofs.SliderEventsRoundStream Proofs.SliderEventsRoundEx.
From Flocq Require Import BinarySingleNaN.
From Coq Require Import Reals Sorting.Sorted.
Open Scope Z_scope.

(* ---------- pinned constants (the property text: 36 ms, 10 ms) ---------- *)

Example pin_max_len_dec : slider_max_len_dec = (false, 1000000, -1).
Proof. reflexivity. Qed.
Example pin_tail_leniency_dec : tail_leniency_dec = (true, 360, -1).
Proof. reflexivity. Qed.
Example pin_min_dist_from_end_factor_dec : min_dist_from_end_factor_dec = (false, 100, -1).
Proof. reflexivity. Qed.
(* as binary64 values: 100000.0, -36.0, 10.0 *)
Example pin_max_len : D.bits (c_max_len ops64) = 0x40F86A0000000000.
Proof. vm_compute. reflexivity. Qed.
Example pin_tail_leniency : D.bits (c_tail_leniency ops64) = 0xC042000000000000.
Proof. vm_compute. reflexivity. Qed.
Example pin_min_dist_from_end_factor : D.bits (c_mdfe_factor ops64) = 0x4024000000000000.
Proof. vm_compute. reflexivity. Qed.
(* as real numbers *)
Example pin_max_len_R : c_max_len opsR = 100000%R.
Proof. exact max_len_R. Qed.
Example pin_tail_leniency_R : c_tail_leniency opsR = (-36)%R.
Proof. exact tail_leniency_R. Qed.
Example pin_min_dist_from_end_factor_R : c_mdfe_factor opsR = 10%R.
Proof. exact mdfe_factor_R. Qed.

(* ---------- T20a: the lazy machine equals the eager list ---------- *)

(* For every parameter tuple with a span count in 0 .. i32::MAX, every previous
   content [buf] of the shared tick buffer (junk, or the left-over of an
   iterator abandoned half-way), debug or release integer semantics [chk], and
   every tick fuel [tf]:  SliderEventsIter::new(.., &mut buf).collect()  is
   the eager list  head; per span ticks in chronological order then (except
   after the last span) the repeat; legacy last tick; tail.
   Both sides agree on every outcome: the list, the panic of new(), and
   running out of tick fuel; [fuel] (the model's bound on the number of
   events and on the inner loop of next()) only has to exceed the number of
   events.  Binary64 reading: *)
Theorem C20_lazy_equals_eager :
  forall (chk : bool) (fuel tf : nat) (p : params F64) (buf : list (event F64)),
  0 <= p_n p <= i32_max ->
  (forall evs, events_spec ops64 tf p = Done evs -> (length evs < fuel)%nat) ->
  run ops64 chk fuel tf p buf = events_spec ops64 tf p.
Proof. intros chk fuel tf p buf. exact (run_eq_spec ops64 chk tf fuel p buf). Qed.
Print Assumptions C20_lazy_equals_eager.

(* ... and the same for every instance of the float operations (the proof
   does not depend on arithmetic at all) *)
Theorem C20_lazy_equals_eager_any_arithmetic :
  forall (F : Type) (OP : fops F) (chk : bool) (fuel tf : nat) (p : params F) (buf : list (event F)),
  0 <= p_n p <= i32_max ->
  (forall evs, events_spec OP tf p = Done evs -> (length evs < fuel)%nat) ->
  run OP chk fuel tf p buf = events_spec OP tf p.
Proof. intros F OP chk fuel tf p buf. exact (run_eq_spec OP chk tf fuel p buf). Qed.
Print Assumptions C20_lazy_equals_eager_any_arithmetic.

(* without any premise on the fuel: whatever list comes out is the eager list *)
Theorem C20_collected_list_is_eager_list :
  forall (chk : bool) (fuel tf : nat) (p : params F64) (buf : list (event F64)) evs,
  0 <= p_n p <= i32_max ->
  run ops64 chk fuel tf p buf = Done evs -> events_spec ops64 tf p = Done evs.
Proof. intros chk fuel tf p buf evs. exact (run_sound ops64 chk tf fuel p buf evs). Qed.
Print Assumptions C20_collected_list_is_eager_list.

(* The stream does not depend on what the reusable tick buffer held before:
   unconditionally (any span count, any fuel, any outcome). *)
Theorem C20_buffer_independent :
  forall (chk : bool) (fuel tf : nat) (p : params F64) (buf1 buf2 : list (event F64)),
  run ops64 chk fuel tf p buf1 = run ops64 chk fuel tf p buf2.
Proof. intros chk fuel tf p buf1 buf2. exact (run_buffer_independent ops64 chk tf fuel p buf1 buf2). Qed.
Print Assumptions C20_buffer_independent.

(* ---------- no-panic characterisation (used by C01 / C02) ---------- *)

(* new() panics -- f64::clamp(0.0, len) with len < 0 -- exactly when
   total_dist < 0 numerically (negative finite or -inf; -0.0, NaN, +inf do
   not panic: MAX_LEN.min(NaN) = MAX_LEN).  Otherwise it yields the Head state
   with an EMPTY tick buffer, whatever the buffer held. *)
Theorem C20_new_panics_iff :
  forall (p : params F64) (buf : list (event F64)),
  if D.lt (p_total p) D.zero
  then iter_new ops64 p buf = Panic 1
  else exists td, iter_new ops64 p buf =
         Done (mkIt (p_start p) (p_dur p) (sp_mdfe ops64 p) td (sp_len ops64 p) (p_n p) [] SHead).
Proof. exact iter_new_panics_iff. Qed.
Print Assumptions C20_new_panics_iff.

(* after new() nothing panics (span count in 0 .. i32::MAX) *)
Theorem C20_no_panic_after_new :
  forall (chk : bool) (fuel tf : nat) (p : params F64) (buf : list (event F64)) w,
  0 <= p_n p <= i32_max ->
  run ops64 chk fuel tf p buf = Panic w -> iter_new ops64 p buf = Panic w.
Proof. intros chk fuel tf p buf w. exact (run_no_panic ops64 chk tf fuel p buf w). Qed.
Print Assumptions C20_no_panic_after_new.

(* Known finding D18: the panic is reachable with span count >= 1
   and finite parameters (length -1). *)
Example C20_negative_length_panics :
  dump_out dump_evs (run ops64 true 50 50 (mkP (D.of_Z 0) (D.of_Z 1000) (D.of_Z 1) (D.of_Z 300) (D.of_Z (-1)) 2) [])
  = [1; 1].
Proof. vm_compute. reflexivity. Qed.

(* Outside the domain (the property requires span count >= 1), modelled
   anyway: span count 0 is covered by the theorems above (head, last tick of
   span -1, tail); with a NEGATIVE span count and overflow checks on, the
   stream never completes: next() keeps generating spans until `*span += 1`
   overflows (panic) -- in a release build the counter wraps instead. *)
Theorem C20_negative_span_count_never_completes :
  forall (fuel tf : nat) (p : params F64) (buf : list (event F64)) evs,
  p_n p < 0 -> run ops64 true fuel tf p buf <> Done evs.
Proof. intros fuel tf p buf evs. exact (run_negative_never_done ops64 tf fuel p buf evs). Qed.
Print Assumptions C20_negative_span_count_never_completes.

(* ---------- structure and closed forms of the eager list ---------- *)

(* The list is  head :: (span 0) ++ ... ++ (span n-1) ++ [last tick; tail]
   where the tick distances [ds] (one list, used for EVERY span) are exactly
   the running sums td, td+td, (td+td)+td, ... of the clamped tick distance
   that are <= len and not >= len - 10*velocity, up to the first that fails
   ([dists_ok]); none at all when td is not > 0. *)
Theorem C20_shape :
  forall (tf : nat) (p : params F64) evs,
  events_spec ops64 tf p = Done evs ->
  exists td ds,
    D.clamp_chk (p_td p) (c_zero ops64) (sp_len ops64 p) = Done td /\
    evs = sp_head ops64 (p_start p)
          :: flat_map (sp_span ops64 (p_start p) (p_dur p) (sp_len ops64 p) (p_n p) ds) (spans (p_n p))
          ++ [sp_last_tick ops64 (p_start p) (p_dur p) (p_n p); sp_tail ops64 (p_start p) (p_dur p) (p_n p)] /\
    (0 < p_n p -> dists_ok ops64 (sp_len ops64 p) (sp_mdfe ops64 p) td ds) /\
    (p_n p <= 0 -> ds = []).
Proof. intros tf p evs. exact (events_spec_shape ops64 tf p evs). Qed.
Print Assumptions C20_shape.

(* One span: its ticks, then the repeat unless it is the last span.  Every
   tick has kind Tick, the span's index and start time, progress d/len and
   time  span_start + progress * dur  (even span) or  span_start +
   (1 - progress) * dur  (odd span: mirrored in time); the list of progress
   values is the same on every span -- in travel order on even spans and
   reversed, i.e. again chronological, on odd spans. *)
Theorem C20_span_reading :
  forall (start dur len : F64) (n : Z) (ds : list F64) (s : Z),
  exists tk,
    sp_span ops64 start dur len n ds s = tk ++ (if s <? n - 1 then [sp_repeat ops64 start dur s] else []) /\
    map ev_prog tk = (if Z.odd s then rev (map (fun d => D.div d len) ds) else map (fun d => D.div d len) ds) /\
    Forall (fun e => ev_kind e = KTick /\ ev_span e = s /\ ev_sst e = sp_sst ops64 start dur s /\
                     ev_time e = D.add (sp_sst ops64 start dur s)
                                   (D.mul (if Z.odd s then D.sub (D.of_Z 1) (ev_prog e) else ev_prog e) dur)) tk.
Proof. intros start dur len n ds s. exact (sp_span_reading ops64 start dur len n ds s). Qed.
Print Assumptions C20_span_reading.

(* closed forms of head, repeat, legacy last tick and tail (the float
   expression trees of the source, operation for operation) *)
Example C20_head_closed_form : forall start : F64,
  sp_head ops64 start = mkEv KHead 0 start start (D.of_Z 0).
Proof. reflexivity. Qed.
Example C20_span_start_closed_form : forall (start dur : F64) s,
  sp_sst ops64 start dur s = D.add start (D.mul (D.of_Z s) dur).
Proof. reflexivity. Qed.
Example C20_repeat_closed_form : forall (start dur : F64) s,
  sp_repeat ops64 start dur s =
  mkEv KRepeat s (sp_sst ops64 start dur s) (D.add (sp_sst ops64 start dur s) dur) (D.of_Z ((s + 1) mod 2)).
Proof. reflexivity. Qed.
(* last tick = max(start + total/2, (final_span_start + dur) + (-36)) *)
Example C20_last_tick_closed_form : forall (start dur : F64) n,
  sp_last_tick ops64 start dur n =
  let fsst := sp_sst ops64 start dur (n - 1) in
  let t := D.max (D.add start (D.div (D.mul (D.of_Z n) dur) (D.of_Z 2)))
                 (D.add (D.add fsst dur) (c_tail_leniency ops64)) in
  let pr := D.div (D.sub t fsst) dur in
  mkEv KLastTick (n - 1) fsst t (if Z.even n then D.sub (D.of_Z 1) pr else pr).
Proof. reflexivity. Qed.
Example C20_tail_closed_form : forall (start dur : F64) n,
  sp_tail ops64 start dur n =
  mkEv KTail (n - 1) (sp_sst ops64 start dur (n - 1)) (D.add start (D.mul (D.of_Z n) dur)) (D.of_Z (n mod 2)).
Proof. reflexivity. Qed.

(* A zero tick distance (+0.0 or -0.0) yields no ticks but still every repeat:
   head, the repeats of spans 0 .. n-2, last tick, tail -- for any tick fuel. *)
Theorem C20_zero_tick_distance :
  forall (chk : bool) (fuel tf : nat) (p : params F64) (buf : list (event F64)) (s : bool),
  0 <= p_n p <= i32_max -> D.lt (p_total p) D.zero = false -> p_td p = B754_zero s ->
  (Z.to_nat (p_n p) + 3 < fuel)%nat ->
  run ops64 chk fuel tf p buf =
  Done (sp_head ops64 (p_start p) :: map (sp_repeat ops64 (p_start p) (p_dur p)) (spans (p_n p - 1))
          ++ [sp_last_tick ops64 (p_start p) (p_dur p) (p_n p); sp_tail ops64 (p_start p) (p_dur p) (p_n p)]).
Proof. exact zero_tick_dist_stream. Qed.
Print Assumptions C20_zero_tick_distance.

(* ---------- T20b: exact arithmetic ---------- *)

(* Same model text over R.  With a positive tick distance the k ticks of a
   span lie at 1*td, 2*td, ..., k*td; each is <= len and strictly before
   len - mdfe (mdfe = velocity * 10); and k is maximal. *)
Theorem C20_exact_ticks_at_multiples :
  forall (len mdfe td : R) (ds : list R),
  (0 < td)%R -> dists_ok opsR len mdfe td ds ->
  ds = map (fun j => (INR (S j) * td)%R) (seq 0 (length ds)) /\
  Forall (fun d => (d <= len /\ d < len - mdfe)%R) ds /\
  ~ (INR (S (length ds)) * td <= len /\ INR (S (length ds)) * td < len - mdfe)%R.
Proof. exact dists_exact. Qed.
Print Assumptions C20_exact_ticks_at_multiples.

(* within a span: tick times strictly increasing, the repeat strictly after *)
Theorem C20_exact_chronological :
  forall (start dur len : R) (n : Z) (mdfe td : R) (ds : list R) (s : Z),
  (0 < td)%R -> (0 < dur)%R -> (0 < len)%R -> (0 <= mdfe)%R -> dists_ok opsR len mdfe td ds ->
  StronglySorted Rlt (map ev_time (sp_span opsR start dur len n ds s)).
Proof. exact span_chronological. Qed.
Print Assumptions C20_exact_chronological.

(* tick fuel: any tf >= 1 with tf * td > len (about len/td + 1) suffices *)
Theorem C20_exact_tick_fuel :
  forall (len mdfe td : R) (tf : nat),
  (0 < td)%R -> (1 <= tf)%nat -> (INR tf * td > len)%R -> span_dists opsR tf len mdfe td <> OutOfFuel.
Proof. exact span_dists_fuel. Qed.
Print Assumptions C20_exact_tick_fuel.

(* ---------- T20c: binary64 ---------- *)

(* Full statement wanted for binary64:
     "tick j of a span lies at (j+1) * tick_dist up to the rounding of the
      running sum, never within 10 ms of travel of the span end, and the tick
      times are non-decreasing within a span, the repeat not before them".
   Proved in this section: (1) the tick distances are the j-fold running sums
   d += tick_dist and every one satisfies  d <= len  and  not (d >= len -
   mdfe), the literal loop guards of the source -- so "never within 10 ms of
   travel of the span end" holds in binary64 exactly as the code tests it;
   (2) weak chronological order of the ticks of a span (rounding can merge
   neighbouring ticks, so "strictly" is false in binary64), provided no tick
   time overflows.
   Proved in the section "T20c, continued" at the end of this file: the
   rounding bound  |d_j - (j+1)*td| <= j * ulp(len)/2  of the running sum and
   of the progress value, the tick times against their exact closed forms
   (forward and mirrored), the guards as real inequalities, the order of the
   repeat relative to the ticks of its span, span start / repeat / tail /
   legacy last tick against  start + k*dur  and  max(start + n*dur/2, start +
   n*dur - 36), and "identically placed on every span" read off the stream.
   What remains outside: every bound on a TIME assumes that the span's end
   time does not overflow and that the span duration is finite and >= 0
   (with an infinite or negative duration the stream is still the one of
   C20_shape, but no order or error bound is claimed). *)
Theorem C20_ieee_ticks_partial :
  forall (len mdfe td : F64) (ds : list F64),
  dists_ok ops64 len mdfe td ds ->
  ds = map (rsum ops64 td td) (seq 0 (length ds)) /\
  Forall (fun d => D.le d len = true /\ D.le (D.sub len mdfe) d = false) ds.
Proof. intros len mdfe td ds (H1 & H2 & _). exact (conj H1 H2). Qed.
Print Assumptions C20_ieee_ticks_partial.

(* [Fle a b] is  B2R a <= B2R b ; for finite values it is the float <= *)
Theorem C20_ieee_ticks_weakly_chronological :
  forall (start dur len td : F64) (ds : list F64) (s : Z),
  is_finite dur = true -> (0 <= B2R dur)%R -> is_finite len = true -> (0 < B2R len)%R ->
  is_finite td = true -> (0 < B2R td)%R ->
  ds = map (rsum ops64 td td) (seq 0 (length ds)) ->
  Forall (fun e => is_finite (ev_time e) = true) (map (sp_tick ops64 start dur len s) ds) ->
  StronglySorted Fle
    (map ev_time (if Z.odd s then rev (map (sp_tick ops64 start dur len s) ds)
                  else map (sp_tick ops64 start dur len s) ds)).
Proof. exact ticks_weakly_chronological. Qed.
Print Assumptions C20_ieee_ticks_weakly_chronological.

Theorem C20_Fle_is_float_le :
  forall a b : F64, is_finite a = true -> is_finite b = true -> Fle a b -> D.le a b = true.
Proof. exact Fle_le. Qed.
Print Assumptions C20_Fle_is_float_le.

(* ---------- non-vacuity: concrete streams (bit patterns) ---------- *)

Definition f (n : Z) : F64 := D.of_Z n.
Definition junk3 : list (event F64) := map junk_ev (seq 0 3).

(* the crate's unit test non_even_ticks: 2 spans of 1000 ms / 1000 px, tick
   distance 300, through a junk-filled buffer: head, ticks at 300 600 900,
   repeat at 1000, ticks at 1100 1400 1700 (progress 0.9 0.6 0.3), last tick
   at 1964 (= 2000 - 36), tail at 2000 *)
Example C20_nonvacuous :
  dump_out dump_evs (run ops64 true 50 50 (mkP (f 0) (f 1000) (f 1) (f 300) (f 1000) 2) junk3)
  = [0; 10;
     0; 0; 0; 0; 0;
     1; 0; 0; 0x4072c00000000000; 0x3fd3333333333333;
     1; 0; 0; 0x4082c00000000000; 0x3fe3333333333333;
     1; 0; 0; 0x408c200000000000; 0x3feccccccccccccd;
     2; 0; 0; 0x408f400000000000; 0x3ff0000000000000;
     1; 1; 0x408f400000000000; 0x4091300000000000; 0x3feccccccccccccd;
     1; 1; 0x408f400000000000; 0x4095e00000000000; 0x3fe3333333333333;
     1; 1; 0x408f400000000000; 0x409a900000000000; 0x3fd3333333333333;
     3; 1; 0x408f400000000000; 0x409eb00000000000; 0x3fa26e978d4fdf40;
     4; 1; 0x408f400000000000; 0x409f400000000000; 0].
Proof. vm_compute. reflexivity. Qed.

(* the eager list gives the same dump *)
Example C20_nonvacuous_spec :
  dump_out dump_evs (events_spec ops64 50 (mkP (f 0) (f 1000) (f 1) (f 300) (f 1000) 2))
  = dump_out dump_evs (run ops64 true 50 50 (mkP (f 0) (f 1000) (f 1) (f 300) (f 1000) 2) junk3).
Proof. vm_compute. reflexivity. Qed.

(* zero tick distance, 3 spans: head, two repeats, last tick, tail *)
Example C20_zero_tick_distance_example :
  dump_out dump_evs (run ops64 true 50 50 (mkP (f 0) (f 1000) (f 1) (f 0) (f 1000) 3) junk3)
  = [0; 5;
     0; 0; 0; 0; 0;
     2; 0; 0; 0x408f400000000000; 0x3ff0000000000000;
     2; 1; 0x408f400000000000; 0x409f400000000000; 0;
     3; 2; 0x409f400000000000; 0x40a7280000000000; 0x3feed916872b020c;
     4; 2; 0x409f400000000000; 0x40a7700000000000; 0x3ff0000000000000].
Proof. vm_compute. reflexivity. Qed.

(* too little tick fuel is reported, never silently truncated *)
Example C20_out_of_fuel_is_visible :
  dump_out dump_evs (run ops64 true 50 3 (mkP (f 0) (f 1000) (f 1) (f 300) (f 1000) 2) junk3) = [2].
Proof. vm_compute. reflexivity. Qed.

(* ---------- T20c, continued: binary64 error analysis ---------- *)

(* Vocabulary.  [ulp64 x] is the unit in the last place of the real x in
   binary64 (Flocq's ulp: 2^(e-53) for 2^(e-1) <= |x| < 2^e, and 2^-1074 in the
   subnormal range), [pow2 k] is 2^k. *)
Example C20_ulp64_is_flocq_ulp : forall x : R, ulp64 x = Ulp.ulp Zaux.radix2 (SpecFloat.fexp 53 1024) x.
Proof. reflexivity. Qed.
Example C20_pow2_is_bpow : forall k : Z, pow2 k = Raux.bpow Zaux.radix2 k.
Proof. reflexivity. Qed.
Example C20_ulp64_of_1 : ulp64 1 = pow2 (-52).
Proof. exact ulp64_1. Qed.
Example C20_ulp64_of_1000 : ulp64 1000 = pow2 (-43).
Proof. exact ulp64_1000. Qed.
Theorem C20_ulp64_binade :
  forall (x : R) (e : Z), -1021 <= e -> (pow2 (e - 1) <= Rabs x < pow2 e)%R -> ulp64 x = pow2 (e - 53).
Proof. exact ulp64_binade. Qed.
Print Assumptions C20_ulp64_binade.
(* for a normal number an ulp is at most 2^-52 of the magnitude *)
Theorem C20_ulp64_relative :
  forall x : R, (pow2 (-1022) <= Rabs x)%R -> (ulp64 x <= pow2 (-52) * Rabs x)%R.
Proof. exact ulp64_rel. Qed.
Print Assumptions C20_ulp64_relative.

(* The effective length min(MAX_LEN, total_dist) is finite, in [0, 100000],
   whenever new() does not panic: the hypothesis [is_finite len = true] of the
   theorems below always holds for the length of an iterator. *)
Theorem C20_ieee_length_finite :
  forall p : params F64, D.lt (p_total p) D.zero = false ->
  is_finite (sp_len ops64 p) = true /\ (0 <= B2R (sp_len ops64 p) <= 100000)%R.
Proof. exact sp_len_finite. Qed.
Print Assumptions C20_ieee_length_finite.

(* (1) Rounding of the running sum.  [ds] are the tick distances of a span
   (C20_shape: [dists_ok]); tick j -- counted from 0 -- is the running sum of
   j additions.  It exists only if 0.0 < td and td <= len, so td is finite and
   positive; it is finite, lies in (0, len], and differs from the exact
   multiple (j+1)*td by at most j half-ulps of len: each of the j additions is
   correctly rounded and its result passed the guard d <= len. *)
Theorem C20_ieee_tick_distance_error :
  forall (len mdfe td : F64) (ds : list F64),
  is_finite len = true -> dists_ok ops64 len mdfe td ds ->
  forall j : nat, (j < length ds)%nat ->
  let d := nth j ds D.zero in
  is_finite td = true /\ (0 < B2R td)%R /\
  d = rsum ops64 td td j /\ is_finite d = true /\ (0 < B2R d <= B2R len)%R /\
  (Rabs (B2R d - INR (S j) * B2R td) <= INR j * (/ 2 * ulp64 (B2R len)))%R.
Proof. exact tick_distance_error. Qed.
Print Assumptions C20_ieee_tick_distance_error.

(* the same, relative to a normal length:  j * 2^-53 * len *)
Theorem C20_ieee_tick_distance_error_relative :
  forall (len mdfe td : F64) (ds : list F64),
  is_finite len = true -> (pow2 (-1022) <= B2R len)%R -> dists_ok ops64 len mdfe td ds ->
  forall j : nat, (j < length ds)%nat ->
  (Rabs (B2R (nth j ds D.zero) - INR (S j) * B2R td) <= INR j * (pow2 (-53) * B2R len))%R.
Proof. exact tick_distance_error_rel. Qed.
Print Assumptions C20_ieee_tick_distance_error_relative.

(* progress value of tick j:  d / len  with one more rounding of a quotient in
   (0, 1].   prog_err len j = j * ulp(len) / (2 * len) + 2^-53 *)
Example C20_prog_err_def :
  forall (len : R) (j : nat), prog_err len j = (INR j * (/ 2 * ulp64 len) / len + pow2 (-53))%R.
Proof. reflexivity. Qed.
Theorem C20_ieee_tick_progress_error :
  forall (len mdfe td : F64) (ds : list F64),
  is_finite len = true -> dists_ok ops64 len mdfe td ds ->
  forall j : nat, (j < length ds)%nat ->
  let p := D.div (nth j ds D.zero) len in
  is_finite p = true /\ (0 <= B2R p <= 1)%R /\
  (Rabs (B2R p - INR (S j) * B2R td / B2R len) <= prog_err (B2R len) j)%R.
Proof. exact tick_progress_error. Qed.
Print Assumptions C20_ieee_tick_progress_error.

(* "never within 10 ms of travel of the span end", as real inequalities: with
   a finite  len - mdfe  (always so when len and mdfe are finite and >= 0)
   every tick distance is <= len and strictly below the rounded difference
   len - mdfe, and the exact multiple is below it up to the rounding of the
   running sum *)
Theorem C20_ieee_length_minus_mdfe_finite :
  forall len mdfe : F64,
  is_finite len = true -> is_finite mdfe = true -> (0 <= B2R len)%R -> (0 <= B2R mdfe)%R ->
  is_finite (D.sub len mdfe) = true /\
  B2R (D.sub len mdfe) =
    Generic_fmt.round Zaux.radix2 (SpecFloat.fexp 53 1024) (round_mode mode_NE) (B2R len - B2R mdfe).
Proof. exact sub_nonneg_fin. Qed.
Print Assumptions C20_ieee_length_minus_mdfe_finite.
Theorem C20_ieee_tick_before_end :
  forall (len mdfe td : F64) (ds : list F64),
  is_finite len = true -> is_finite (D.sub len mdfe) = true -> dists_ok ops64 len mdfe td ds ->
  forall j : nat, (j < length ds)%nat ->
  let d := nth j ds D.zero in
  (B2R d <= B2R len)%R /\ (B2R d < B2R (D.sub len mdfe))%R /\
  (INR (S j) * B2R td < B2R (D.sub len mdfe) + INR j * (/ 2 * ulp64 (B2R len)))%R /\
  (INR (S j) * B2R td <= B2R len + INR j * (/ 2 * ulp64 (B2R len)))%R.
Proof. exact tick_before_end. Qed.
Print Assumptions C20_ieee_tick_before_end.

(* ... and no tick is missing: the running sum number k = (number of ticks)
   fails the guard; when it is finite it lies within k half-ulps (of the larger
   of len and itself) of (k+1)*td and is NOT both <= len and < len - mdfe *)
Theorem C20_ieee_first_rejected_sum :
  forall (len mdfe td : F64) (ds : list F64),
  is_finite len = true -> is_finite td = true -> (0 < B2R td)%R -> dists_ok ops64 len mdfe td ds ->
  let k := length ds in
  let d := rsum ops64 td td k in
  guard ops64 len mdfe d = false /\
  (is_finite d = true ->
   (Rabs (B2R d - INR (S k) * B2R td) <= INR k * (/ 2 * ulp64 (Rmax (B2R len) (B2R d))))%R /\
   (is_finite (D.sub len mdfe) = true -> ~ (B2R d <= B2R len /\ B2R d < B2R (D.sub len mdfe))%R)).
Proof. exact first_rejected_sum. Qed.
Print Assumptions C20_ieee_first_rejected_sum.
(* sharper bound for that sum: only its LAST addition can leave (0, len] *)
Theorem C20_ieee_first_rejected_sum_step :
  forall (len mdfe td : F64) (ds : list F64),
  is_finite len = true -> is_finite td = true -> (0 < B2R td)%R -> dists_ok ops64 len mdfe td ds ->
  let k := length ds in
  let d := rsum ops64 td td k in
  is_finite d = true ->
  (Rabs (B2R d - INR (S k) * B2R td)
     <= INR (Nat.pred k) * (/ 2 * ulp64 (B2R len))
        + (match k with O => 0 | S _ => / 2 * ulp64 (B2R d) end))%R.
Proof. exact first_rejected_sum_step. Qed.
Print Assumptions C20_ieee_first_rejected_sum_step.

(* (2) Tick times.  Source:  time = span_start + time_progress * dur  with
   time_progress = progress (forward span) or 1.0 - progress (reversed span).
   One no-overflow hypothesis: the span's END time span_start + dur (the time
   of its repeat) is finite; the span duration is finite and >= 0.  Then the
   time of tick j is finite, lies between the span start and the span end, and
   is within [time_err] of the exact closed form  span_start + TP * dur ,
   TP = (j+1)*td/len  on a forward span,  1 - (j+1)*td/len  on a reversed one
   (same bound, plus 2^-53 * dur for the extra subtraction):
     time_err len dur mag rv j
       = (prog_err len j + [rv] 2^-53) * dur + ulp(dur)/2 + ulp(mag)/2 ,
     mag = max(|span_start|, |span_end|). *)
Example C20_time_err_def :
  forall (len dur mag : R) (rv : bool) (j : nat),
  time_err len dur mag rv j =
  ((prog_err len j + (if rv then pow2 (-53) else 0)) * dur + / 2 * ulp64 dur + / 2 * ulp64 mag)%R.
Proof. reflexivity. Qed.
Example C20_span_mag_def : forall a b : R, span_mag a b = Rmax (Rabs a) (Rabs b).
Proof. reflexivity. Qed.
Theorem C20_ieee_tick_time_error :
  forall (start dur len mdfe td : F64) (ds : list F64) (s : Z),
  is_finite len = true -> dists_ok ops64 len mdfe td ds ->
  is_finite dur = true -> (0 <= B2R dur)%R ->
  let sst := sp_sst ops64 start dur s in
  is_finite (D.add sst dur) = true ->
  forall j : nat, (j < length ds)%nat ->
  let e := sp_tick ops64 start dur len s (nth j ds D.zero) in
  let P := (INR (S j) * B2R td / B2R len)%R in
  is_finite (ev_time e) = true /\
  (B2R sst <= B2R (ev_time e) <= B2R (D.add sst dur))%R /\
  (Rabs (B2R (ev_time e) - (B2R sst + (if Z.odd s then 1 - P else P) * B2R dur))
     <= time_err (B2R len) (B2R dur) (span_mag (B2R sst) (B2R (D.add sst dur))) (Z.odd s) j)%R.
Proof. exact tick_time_error. Qed.
Print Assumptions C20_ieee_tick_time_error.

(* (3) Order of the repeat relative to the ticks of its span: under the same
   hypotheses every event of the span (ticks, and the repeat unless it is the
   last span) has a finite time between the span start and the repeat's time
   span_start + dur, and the whole span is in weak chronological order. *)
Theorem C20_ieee_span_weakly_chronological :
  forall (start dur len mdfe td : F64) (ds : list F64) (n s : Z),
  is_finite len = true -> dists_ok ops64 len mdfe td ds ->
  is_finite dur = true -> (0 <= B2R dur)%R ->
  is_finite (D.add (sp_sst ops64 start dur s) dur) = true ->
  Forall (fun e => is_finite (ev_time e) = true) (sp_span ops64 start dur len n ds s) /\
  Forall (fun e => Fle (sp_sst ops64 start dur s) (ev_time e) /\
                   Fle (ev_time e) (ev_time (sp_repeat ops64 start dur s)))
         (sp_span ops64 start dur len n ds s) /\
  StronglySorted Fle (map ev_time (sp_span ops64 start dur len n ds s)).
Proof. exact span_weakly_chronological. Qed.
Print Assumptions C20_ieee_span_weakly_chronological.

(* span start, repeat and tail against  start + k * dur  (k an i32, in fact
   any |k| < 2^53): one rounding of the product, one per addition *)
Theorem C20_ieee_span_start_error :
  forall (start dur : F64) (s : Z), Z.abs s < 2 ^ 53 ->
  let sst := sp_sst ops64 start dur s in
  is_finite sst = true ->
  (Rabs (B2R sst - (B2R start + IZR s * B2R dur))
     <= / 2 * ulp64 (B2R (D.mul (D.of_Z s) dur)) + / 2 * ulp64 (B2R sst))%R.
Proof. exact span_start_error. Qed.
Print Assumptions C20_ieee_span_start_error.
Theorem C20_ieee_repeat_time_error :
  forall (start dur : F64) (s : Z), Z.abs s < 2 ^ 53 ->
  let sst := sp_sst ops64 start dur s in
  let t := ev_time (sp_repeat ops64 start dur s) in
  is_finite t = true ->
  (Rabs (B2R t - (B2R start + IZR (s + 1) * B2R dur))
     <= / 2 * ulp64 (B2R (D.mul (D.of_Z s) dur)) + / 2 * ulp64 (B2R sst) + / 2 * ulp64 (B2R t))%R.
Proof. exact repeat_time_error. Qed.
Print Assumptions C20_ieee_repeat_time_error.
Theorem C20_ieee_tail_time_error :
  forall (start dur : F64) (n : Z), Z.abs n < 2 ^ 53 ->
  let t := ev_time (sp_tail ops64 start dur n) in
  is_finite t = true ->
  (Rabs (B2R t - (B2R start + IZR n * B2R dur))
     <= / 2 * ulp64 (B2R (D.mul (D.of_Z n) dur)) + / 2 * ulp64 (B2R t))%R.
Proof. exact tail_time_error. Qed.
Print Assumptions C20_ieee_tail_time_error.

(* legacy last tick: its time is the real maximum of the two float branches
   a = start + (n*dur)/2  and  b = ((start + (n-1)*dur) + dur) + (-36.0), each
   within a few half-ulps of its exact value; hence the time is within
   max(ea, eb) of  max(start + n*dur/2, start + n*dur - 36) *)
Theorem C20_ieee_last_tick_time_error :
  forall (start dur : F64) (n : Z),
  Z.abs n < 2 ^ 53 -> Z.abs (n - 1) < 2 ^ 53 ->
  let total := D.mul (D.of_Z n) dur in
  let half := D.div total (D.of_Z 2) in
  let a := D.add start half in
  let fsst := sp_sst ops64 start dur (n - 1) in
  let send := D.add fsst dur in
  let b := D.add send (c_tail_leniency ops64) in
  let ea := (/ 2 * ulp64 (B2R total) + / 2 * ulp64 (B2R half) + / 2 * ulp64 (B2R a))%R in
  let eb := (/ 2 * ulp64 (B2R (D.mul (D.of_Z (n - 1)) dur)) + / 2 * ulp64 (B2R fsst)
             + / 2 * ulp64 (B2R send) + / 2 * ulp64 (B2R b))%R in
  is_finite a = true -> is_finite b = true ->
  let t := ev_time (sp_last_tick ops64 start dur n) in
  is_finite t = true /\ B2R t = Rmax (B2R a) (B2R b) /\
  (Rabs (B2R a - (B2R start + IZR n * B2R dur / 2)) <= ea)%R /\
  (Rabs (B2R b - (B2R start + IZR n * B2R dur - 36)) <= eb)%R /\
  (Rabs (B2R t - Rmax (B2R start + IZR n * B2R dur / 2) (B2R start + IZR n * B2R dur - 36))
     <= Rmax ea eb)%R.
Proof. exact last_tick_time_error. Qed.
Print Assumptions C20_ieee_last_tick_time_error.

(* ... and its progress  (time - final_span_start) / dur , mirrored (1 - ..)
   when the span count is even, against X = (T - FS) / dur *)
Theorem C20_ieee_last_tick_progress_error :
  forall (start dur : F64) (n : Z),
  Z.abs n < 2 ^ 53 -> Z.abs (n - 1) < 2 ^ 53 -> (0 < B2R dur)%R ->
  let total := D.mul (D.of_Z n) dur in
  let half := D.div total (D.of_Z 2) in
  let a := D.add start half in
  let fsst := sp_sst ops64 start dur (n - 1) in
  let send := D.add fsst dur in
  let b := D.add send (c_tail_leniency ops64) in
  let ea := (/ 2 * ulp64 (B2R total) + / 2 * ulp64 (B2R half) + / 2 * ulp64 (B2R a))%R in
  let eb := (/ 2 * ulp64 (B2R (D.mul (D.of_Z (n - 1)) dur)) + / 2 * ulp64 (B2R fsst)
             + / 2 * ulp64 (B2R send) + / 2 * ulp64 (B2R b))%R in
  let efs := (/ 2 * ulp64 (B2R (D.mul (D.of_Z (n - 1)) dur)) + / 2 * ulp64 (B2R fsst))%R in
  is_finite a = true -> is_finite b = true ->
  let e := sp_last_tick ops64 start dur n in
  let diff := D.sub (ev_time e) fsst in
  let q := D.div diff dur in
  is_finite (ev_prog e) = true ->
  let T := Rmax (B2R start + IZR n * B2R dur / 2) (B2R start + IZR n * B2R dur - 36) in
  let FS := (B2R start + IZR (n - 1) * B2R dur)%R in
  let X := ((T - FS) / B2R dur)%R in
  (Rabs (B2R (ev_prog e) - (if Z.even n then 1 - X else X))
     <= (Rmax ea eb + efs + / 2 * ulp64 (B2R diff)) / B2R dur + / 2 * ulp64 (B2R q)
        + (if Z.even n then / 2 * ulp64 (B2R (ev_prog e)) else 0))%R.
Proof. exact last_tick_progress_error. Qed.
Print Assumptions C20_ieee_last_tick_progress_error.

(* (4) "Identically placed on every span", read off the stream itself.
   [ticks_of s evs] are the events of kind Tick with span index s, in stream
   order.  In any completed stream the ticks of span s carry the progress
   values of the ticks of span 0 bit for bit -- same order on even spans,
   reversed (mirrored in time) on odd spans --, there are equally many, and
   each tick's time is  span_start(s) + time_progress * dur  as a float
   expression.  (Any arithmetic; stated for binary64.) *)
Example C20_ticks_of_def :
  forall (s : Z) (evs : list (event F64)),
  ticks_of s evs = filter (fun e => match ev_kind e with KTick => ev_span e =? s | _ => false end) evs.
Proof. reflexivity. Qed.
Theorem C20_ieee_same_ticks_every_span :
  forall (tf : nat) (p : params F64) (evs : list (event F64)),
  events_spec ops64 tf p = Done evs ->
  forall s : Z, 0 <= s < p_n p ->
  map ev_prog (ticks_of s evs) =
    (if Z.odd s then rev (map ev_prog (ticks_of 0 evs)) else map ev_prog (ticks_of 0 evs)) /\
  length (ticks_of s evs) = length (ticks_of 0 evs) /\
  Forall (fun e => ev_sst e = sp_sst ops64 (p_start p) (p_dur p) s /\
                   ev_time e = D.add (ev_sst e)
                                 (D.mul (if Z.odd s then D.sub (D.of_Z 1) (ev_prog e) else ev_prog e) (p_dur p)))
         (ticks_of s evs).
Proof. exact (same_ticks_every_span ops64). Qed.
Print Assumptions C20_ieee_same_ticks_every_span.

(* The bounds, read off a completed stream: the ticks of span s in travel
   order are the events  sp_tick s d_j  of ONE list of distances satisfying
   [dists_ok] for the finite effective length ... *)
Theorem C20_ieee_stream_ticks :
  forall (tf : nat) (p : params F64) (evs : list (event F64)),
  events_spec ops64 tf p = Done evs ->
  exists td ds,
    D.clamp_chk (p_td p) (c_zero ops64) (sp_len ops64 p) = Done td /\
    is_finite (sp_len ops64 p) = true /\ (0 <= B2R (sp_len ops64 p) <= 100000)%R /\
    (0 < p_n p -> dists_ok ops64 (sp_len ops64 p) (sp_mdfe ops64 p) td ds) /\
    forall s : Z, 0 <= s < p_n p ->
      (if Z.odd s then rev (ticks_of s evs) else ticks_of s evs)
      = map (sp_tick ops64 (p_start p) (p_dur p) (sp_len ops64 p) s) ds.
Proof. exact stream_ticks. Qed.
Print Assumptions C20_ieee_stream_ticks.

(* ... so tick j (travel order) of every span has progress within prog_err of
   (j+1)*td/len, unconditionally (no overflow is possible: len <= 100000) ... *)
Theorem C20_ieee_stream_tick_progress :
  forall (tf : nat) (p : params F64) (evs : list (event F64)),
  events_spec ops64 tf p = Done evs ->
  exists td,
    D.clamp_chk (p_td p) (c_zero ops64) (sp_len ops64 p) = Done td /\
    forall s : Z, 0 <= s < p_n p -> forall (j : nat) (e : event F64),
      nth_error (if Z.odd s then rev (ticks_of s evs) else ticks_of s evs) j = Some e ->
      is_finite (ev_prog e) = true /\ (0 <= B2R (ev_prog e) <= 1)%R /\
      (Rabs (B2R (ev_prog e) - INR (S j) * B2R td / B2R (sp_len ops64 p))
         <= prog_err (B2R (sp_len ops64 p)) j)%R.
Proof. exact stream_tick_progress. Qed.
Print Assumptions C20_ieee_stream_tick_progress.

(* ... and a time within time_err of the closed form whenever the span's end
   time is finite (span duration finite and >= 0) *)
Theorem C20_ieee_stream_tick_time :
  forall (tf : nat) (p : params F64) (evs : list (event F64)),
  events_spec ops64 tf p = Done evs ->
  is_finite (p_dur p) = true -> (0 <= B2R (p_dur p))%R ->
  exists td,
    D.clamp_chk (p_td p) (c_zero ops64) (sp_len ops64 p) = Done td /\
    forall s : Z, 0 <= s < p_n p ->
      let sst := sp_sst ops64 (p_start p) (p_dur p) s in
      let send := D.add sst (p_dur p) in
      is_finite send = true ->
      forall (j : nat) (e : event F64),
      nth_error (if Z.odd s then rev (ticks_of s evs) else ticks_of s evs) j = Some e ->
      let P := (INR (S j) * B2R td / B2R (sp_len ops64 p))%R in
      is_finite (ev_time e) = true /\ (B2R sst <= B2R (ev_time e) <= B2R send)%R /\
      (Rabs (B2R (ev_time e) - (B2R sst + (if Z.odd s then 1 - P else P) * B2R (p_dur p)))
         <= time_err (B2R (sp_len ops64 p)) (B2R (p_dur p)) (span_mag (B2R sst) (B2R send)) (Z.odd s) j)%R.
Proof. exact stream_tick_time. Qed.
Print Assumptions C20_ieee_stream_tick_time.

(* ---------- non-vacuity of the T20c theorems ---------- *)

(* The slider of C20_nonvacuous (the crate's unit test non_even_ticks): start
   0, span duration 1000, velocity 1, tick distance 300, length 1000, 2 spans.
   Facts computed on SpecFloat values, booleans and dumps only. *)
Example C20_round_example_params :
  exP = mkP (f 0) (f 1000) (f 1) (f 300) (f 1000) 2 /\
  exLen = sp_len ops64 exP /\ exMdfe = sp_mdfe ops64 exP.
Proof. split; [reflexivity|]. split; reflexivity. Qed.
Example C20_round_example_length :
  B2SF exLen = SpecFloat.S754_finite false 8796093022208000 (-43) /\
  B2R exLen = 1000%R /\ is_finite exLen = true.
Proof. exact (conj ex_len_sf ex_len_R). Qed.
Example C20_round_example_ticks :
  dump_out (fun l => [Z.of_nat (length (ticks_of 0 l)); Z.of_nat (length (ticks_of 1 l))])
           (events_spec ops64 50 exP) = [0; 3; 3].
Proof. vm_compute. reflexivity. Qed.
(* no overflow: both span ends, len - mdfe, the tail, both branches of the last tick *)
Example C20_round_example_no_overflow :
  [is_finite (D.add (sp_sst ops64 (p_start exP) (p_dur exP) 0) (p_dur exP));
   is_finite (D.add (sp_sst ops64 (p_start exP) (p_dur exP) 1) (p_dur exP));
   is_finite (D.sub exLen exMdfe);
   is_finite (ev_time (sp_tail ops64 (p_start exP) (p_dur exP) 2));
   is_finite (D.add (p_start exP) (D.div (D.mul (D.of_Z 2) (p_dur exP)) (D.of_Z 2)));
   is_finite (D.add (D.add (sp_sst ops64 (p_start exP) (p_dur exP) (2 - 1)) (p_dur exP)) (c_tail_leniency ops64));
   is_finite (ev_prog (sp_last_tick ops64 (p_start exP) (p_dur exP) 2))]
  = [true; true; true; true; true; true; true].
Proof. vm_compute. reflexivity. Qed.

(* hypotheses of C20_ieee_length_finite and C20_ieee_length_minus_mdfe_finite
   (length 1000, minimum distance from the end 1 * 10.0 = 10) *)
Example C20_round_example_mdfe :
  B2SF exMdfe = SpecFloat.S754_finite false 5629499534213120 (-49) /\ B2R exMdfe = 10%R.
Proof. exact (conj ex_mdfe_sf (proj1 ex_mdfe_R)). Qed.
Example C20_ieee_length_theorems_nonvacuous :
  D.lt (p_total exP) D.zero = false /\
  is_finite exLen = true /\ is_finite exMdfe = true /\ (0 <= B2R exLen)%R /\ (0 <= B2R exMdfe)%R.
Proof. exact ex_len_hyps. Qed.

(* hypotheses of C20_ieee_tick_distance_error(_relative), _tick_progress_error,
   _tick_before_end, _first_rejected_sum, _tick_time_error and
   _span_weakly_chronological (forward span 0 and reversed span 1), together,
   with three ticks per span *)
Example C20_ieee_tick_theorems_nonvacuous :
  exists (td : F64) (ds : list F64),
  is_finite exLen = true /\ (pow2 (-1022) <= B2R exLen)%R /\
  dists_ok ops64 exLen exMdfe td ds /\ (2 < length ds)%nat /\
  is_finite (p_dur exP) = true /\ (0 <= B2R (p_dur exP))%R /\
  is_finite (D.add (sp_sst ops64 (p_start exP) (p_dur exP) 0) (p_dur exP)) = true /\
  is_finite (D.add (sp_sst ops64 (p_start exP) (p_dur exP) 1) (p_dur exP)) = true /\
  is_finite (D.sub exLen exMdfe) = true /\ is_finite td = true /\ (0 < B2R td)%R.
Proof. exact ex_hyps. Qed.

(* ... and what C20_ieee_tick_distance_error then says about the third tick:
   within 2 * ulp(1000)/2 = 2^-43 of 3 * td *)
Example C20_ieee_tick_distance_error_instance :
  exists (td : F64) (ds : list F64),
  dists_ok ops64 exLen exMdfe td ds /\ (2 < length ds)%nat /\
  (Rabs (B2R (nth 2 ds D.zero) - INR 3 * B2R td) <= INR 2 * (/ 2 * pow2 (-43)))%R.
Proof.
  destruct ex_hyps as (td & ds & Fl & _ & Hok & Hl & _). exists td, ds.
  split; [exact Hok|]. split; [exact Hl|].
  rewrite <- ulp64_1000, <- (proj1 ex_len_R).
  exact (proj2 (proj2 (proj2 (proj2 (proj2 (C20_ieee_tick_distance_error exLen exMdfe td ds Fl Hok 2%nat Hl)))))).
Qed.

(* hypotheses of C20_ieee_same_ticks_every_span and of the C20_ieee_stream_*
   theorems: the stream completes, has 2 spans, span duration 1000 *)
Example C20_ieee_stream_theorems_nonvacuous :
  exists (td : F64) (ds : list F64) (evs : list (event F64)),
  events_spec ops64 50 exP = Done evs /\ p_n exP = 2 /\
  dists_ok ops64 exLen exMdfe td ds /\ length ds = 3%nat /\
  is_finite (p_dur exP) = true /\ B2R (p_dur exP) = 1000%R.
Proof.
  destruct ex_stream as (td & ds & evs & He & Hok & Hl). exists td, ds, evs.
  split; [exact He|]. split; [reflexivity|]. split; [exact Hok|]. split; [exact Hl|].
  split; [exact (proj2 ex_dur_R) | exact (proj1 ex_dur_R)].
Qed.

(* hypotheses of C20_ieee_span_start_error, _repeat_time_error, _tail_time_error,
   _last_tick_time_error and _last_tick_progress_error: C20_round_example_no_overflow
   (entries 1, 2, 4, 5, 6, 7) with |2| < 2^53, |2 - 1| < 2^53 and dur = 1000 > 0 *)
Example C20_ieee_closed_form_theorems_nonvacuous :
  Z.abs 2 < 2 ^ 53 /\ Z.abs (2 - 1) < 2 ^ 53 /\ (0 < B2R (p_dur exP))%R /\
  is_finite (ev_time (sp_tail ops64 (p_start exP) (p_dur exP) 2)) = true /\
  is_finite (D.add (p_start exP) (D.div (D.mul (D.of_Z 2) (p_dur exP)) (D.of_Z 2))) = true /\
  is_finite (D.add (D.add (sp_sst ops64 (p_start exP) (p_dur exP) (2 - 1)) (p_dur exP)) (c_tail_leniency ops64)) = true.
Proof.
  split; [reflexivity|]. split; [reflexivity|].
  split; [rewrite (proj1 ex_dur_R); exact (IZR_lt 0 1000 eq_refl)|].
  split; [exact ex_tail_fin | exact ex_last_tick_fin].
Qed.

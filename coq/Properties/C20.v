(* C20 — slider event stream (work in progress: pins only) *)
From RM Require Import Model.SliderEvents Gen.Generated.
Open Scope Z_scope.

Example pin_max_len : D.bits (se_dec64 slider_max_len_dec) = 0x40F86A0000000000.
Proof. vm_compute. reflexivity. Qed.

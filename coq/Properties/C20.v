(* C20 — Slider event stream has the legacy structure and timing.

   Model: Model/SliderEvents.v (SliderEventsIter::new, Iterator::next,
   generate_ticks, new_repeat_point, one shared tick buffer), written against
   a record of float operations and read with binary64 ([ops64], tied
   bit-exactly to the crate by the correspondence check) and with real numbers
   ([opsR]).  [events_spec] is the eager list written from the property text.
   This file holds only statements closed by [exact] of a lemma from Proofs/,
   pins of the constants, and concrete examples. *)
From RM Require Import Model.SliderEvents Model.Drv20 Gen.Generated.
From RM Require Import Proofs.SliderEventsFacts Proofs.SliderEventsIEEE Proofs.SliderEventsExact.
From RM Require Import Proofs.SliderEventsNeg Proofs.SliderEventsMono.
From Flocq Require Import BinarySingleNaN.
From Coq Require Import Reals Sorting.Sorted.
Open Scope Z_scope.

(* ---------- pinned constants (the property text: 36 ms, 10 ms) ---------- *)

Example pin_max_len_dec : slider_max_len_dec = (false, 1000000, -1).
Proof. reflexivity. Qed.
Example pin_tail_leniency_dec : tail_leniency_dec = (true, 360, -1).
Proof. reflexivity. Qed.
Example pin_min_dist_from_end_factor_dec : min_dist_from_end_factor_dec = (false, 100, -1).
Proof. reflexivity. Qed.
(* as binary64 values: 100000.0, -36.0, 10.0 *)
Example pin_max_len : D.bits (c_max_len ops64) = 0x40F86A0000000000.
Proof. vm_compute. reflexivity. Qed.
Example pin_tail_leniency : D.bits (c_tail_leniency ops64) = 0xC042000000000000.
Proof. vm_compute. reflexivity. Qed.
Example pin_min_dist_from_end_factor : D.bits (c_mdfe_factor ops64) = 0x4024000000000000.
Proof. vm_compute. reflexivity. Qed.
(* as real numbers *)
Example pin_max_len_R : c_max_len opsR = 100000%R.
Proof. exact max_len_R. Qed.
Example pin_tail_leniency_R : c_tail_leniency opsR = (-36)%R.
Proof. exact tail_leniency_R. Qed.
Example pin_min_dist_from_end_factor_R : c_mdfe_factor opsR = 10%R.
Proof. exact mdfe_factor_R. Qed.

(* ---------- T20a: the lazy machine equals the eager list ---------- *)

(* For every parameter tuple with a span count in 0 .. i32::MAX, every previous
   content [buf] of the shared tick buffer (junk, or the left-over of an
   iterator abandoned half-way), debug or release integer semantics [chk], and
   every tick fuel [tf]:  SliderEventsIter::new(.., &mut buf).collect()  is
   the eager list  head; per span ticks in chronological order then (except
   after the last span) the repeat; legacy last tick; tail.
   Both sides agree on every outcome: the list, the panic of new(), and
   running out of tick fuel; [fuel] (the model's bound on the number of
   events and on the inner loop of next()) only has to exceed the number of
   events.  Binary64 reading: *)
Theorem C20_lazy_equals_eager :
  forall (chk : bool) (fuel tf : nat) (p : params F64) (buf : list (event F64)),
  0 <= p_n p <= i32_max ->
  (forall evs, events_spec ops64 tf p = Done evs -> (length evs < fuel)%nat) ->
  run ops64 chk fuel tf p buf = events_spec ops64 tf p.
Proof. intros chk fuel tf p buf. exact (run_eq_spec ops64 chk tf fuel p buf). Qed.
Print Assumptions C20_lazy_equals_eager.

(* ... and the same for every instance of the float operations (the proof
   does not depend on arithmetic at all) *)
Theorem C20_lazy_equals_eager_any_arithmetic :
  forall (F : Type) (OP : fops F) (chk : bool) (fuel tf : nat) (p : params F) (buf : list (event F)),
  0 <= p_n p <= i32_max ->
  (forall evs, events_spec OP tf p = Done evs -> (length evs < fuel)%nat) ->
  run OP chk fuel tf p buf = events_spec OP tf p.
Proof. intros F OP chk fuel tf p buf. exact (run_eq_spec OP chk tf fuel p buf). Qed.
Print Assumptions C20_lazy_equals_eager_any_arithmetic.

(* without any premise on the fuel: whatever list comes out is the eager list *)
Theorem C20_collected_list_is_eager_list :
  forall (chk : bool) (fuel tf : nat) (p : params F64) (buf : list (event F64)) evs,
  0 <= p_n p <= i32_max ->
  run ops64 chk fuel tf p buf = Done evs -> events_spec ops64 tf p = Done evs.
Proof. intros chk fuel tf p buf evs. exact (run_sound ops64 chk tf fuel p buf evs). Qed.
Print Assumptions C20_collected_list_is_eager_list.

(* The stream does not depend on what the reusable tick buffer held before:
   unconditionally (any span count, any fuel, any outcome). *)
Theorem C20_buffer_independent :
  forall (chk : bool) (fuel tf : nat) (p : params F64) (buf1 buf2 : list (event F64)),
  run ops64 chk fuel tf p buf1 = run ops64 chk fuel tf p buf2.
Proof. intros chk fuel tf p buf1 buf2. exact (run_buffer_independent ops64 chk tf fuel p buf1 buf2). Qed.
Print Assumptions C20_buffer_independent.

(* ---------- no-panic characterisation (used by C01 / C02) ---------- *)

(* new() panics -- f64::clamp(0.0, len) with len < 0 -- exactly when
   total_dist < 0 numerically (negative finite or -inf; -0.0, NaN, +inf do
   not panic: MAX_LEN.min(NaN) = MAX_LEN).  Otherwise it yields the Head state
   with an EMPTY tick buffer, whatever the buffer held. *)
Theorem C20_new_panics_iff :
  forall (p : params F64) (buf : list (event F64)),
  if D.lt (p_total p) D.zero
  then iter_new ops64 p buf = Panic 1
  else exists td, iter_new ops64 p buf =
         Done (mkIt (p_start p) (p_dur p) (sp_mdfe ops64 p) td (sp_len ops64 p) (p_n p) [] SHead).
Proof. exact iter_new_panics_iff. Qed.
Print Assumptions C20_new_panics_iff.

(* after new() nothing panics (span count in 0 .. i32::MAX) *)
Theorem C20_no_panic_after_new :
  forall (chk : bool) (fuel tf : nat) (p : params F64) (buf : list (event F64)) w,
  0 <= p_n p <= i32_max ->
  run ops64 chk fuel tf p buf = Panic w -> iter_new ops64 p buf = Panic w.
Proof. intros chk fuel tf p buf w. exact (run_no_panic ops64 chk tf fuel p buf w). Qed.
Print Assumptions C20_no_panic_after_new.

(* Known finding D18: the panic is reachable with span count >= 1
   and finite parameters (length -1). *)
Example C20_negative_length_panics :
  dump_out dump_evs (run ops64 true 50 50 (mkP (D.of_Z 0) (D.of_Z 1000) (D.of_Z 1) (D.of_Z 300) (D.of_Z (-1)) 2) [])
  = [1; 1].
Proof. vm_compute. reflexivity. Qed.

(* Outside the domain (the property requires span count >= 1), modelled
   anyway: span count 0 is covered by the theorems above (head, last tick of
   span -1, tail); with a NEGATIVE span count and overflow checks on, the
   stream never completes: next() keeps generating spans until `*span += 1`
   overflows (panic) -- in a release build the counter wraps instead. *)
Theorem C20_negative_span_count_never_completes :
  forall (fuel tf : nat) (p : params F64) (buf : list (event F64)) evs,
  p_n p < 0 -> run ops64 true fuel tf p buf <> Done evs.
Proof. intros fuel tf p buf evs. exact (run_negative_never_done ops64 tf fuel p buf evs). Qed.
Print Assumptions C20_negative_span_count_never_completes.

(* ---------- structure and closed forms of the eager list ---------- *)

(* The list is  head :: (span 0) ++ ... ++ (span n-1) ++ [last tick; tail]
   where the tick distances [ds] (one list, used for EVERY span) are exactly
   the running sums td, td+td, (td+td)+td, ... of the clamped tick distance
   that are <= len and not >= len - 10*velocity, up to the first that fails
   ([dists_ok]); none at all when td is not > 0. *)
Theorem C20_shape :
  forall (tf : nat) (p : params F64) evs,
  events_spec ops64 tf p = Done evs ->
  exists td ds,
    D.clamp_chk (p_td p) (c_zero ops64) (sp_len ops64 p) = Done td /\
    evs = sp_head ops64 (p_start p)
          :: flat_map (sp_span ops64 (p_start p) (p_dur p) (sp_len ops64 p) (p_n p) ds) (spans (p_n p))
          ++ [sp_last_tick ops64 (p_start p) (p_dur p) (p_n p); sp_tail ops64 (p_start p) (p_dur p) (p_n p)] /\
    (0 < p_n p -> dists_ok ops64 (sp_len ops64 p) (sp_mdfe ops64 p) td ds) /\
    (p_n p <= 0 -> ds = []).
Proof. intros tf p evs. exact (events_spec_shape ops64 tf p evs). Qed.
Print Assumptions C20_shape.

(* One span: its ticks, then the repeat unless it is the last span.  Every
   tick has kind Tick, the span's index and start time, progress d/len and
   time  span_start + progress * dur  (even span) or  span_start +
   (1 - progress) * dur  (odd span: mirrored in time); the list of progress
   values is the same on every span -- in travel order on even spans and
   reversed, i.e. again chronological, on odd spans. *)
Theorem C20_span_reading :
  forall (start dur len : F64) (n : Z) (ds : list F64) (s : Z),
  exists tk,
    sp_span ops64 start dur len n ds s = tk ++ (if s <? n - 1 then [sp_repeat ops64 start dur s] else []) /\
    map ev_prog tk = (if Z.odd s then rev (map (fun d => D.div d len) ds) else map (fun d => D.div d len) ds) /\
    Forall (fun e => ev_kind e = KTick /\ ev_span e = s /\ ev_sst e = sp_sst ops64 start dur s /\
                     ev_time e = D.add (sp_sst ops64 start dur s)
                                   (D.mul (if Z.odd s then D.sub (D.of_Z 1) (ev_prog e) else ev_prog e) dur)) tk.
Proof. intros start dur len n ds s. exact (sp_span_reading ops64 start dur len n ds s). Qed.
Print Assumptions C20_span_reading.

(* closed forms of head, repeat, legacy last tick and tail (the float
   expression trees of the source, operation for operation) *)
Example C20_head_closed_form : forall start : F64,
  sp_head ops64 start = mkEv KHead 0 start start (D.of_Z 0).
Proof. reflexivity. Qed.
Example C20_span_start_closed_form : forall (start dur : F64) s,
  sp_sst ops64 start dur s = D.add start (D.mul (D.of_Z s) dur).
Proof. reflexivity. Qed.
Example C20_repeat_closed_form : forall (start dur : F64) s,
  sp_repeat ops64 start dur s =
  mkEv KRepeat s (sp_sst ops64 start dur s) (D.add (sp_sst ops64 start dur s) dur) (D.of_Z ((s + 1) mod 2)).
Proof. reflexivity. Qed.
(* last tick = max(start + total/2, (final_span_start + dur) + (-36)) *)
Example C20_last_tick_closed_form : forall (start dur : F64) n,
  sp_last_tick ops64 start dur n =
  let fsst := sp_sst ops64 start dur (n - 1) in
  let t := D.max (D.add start (D.div (D.mul (D.of_Z n) dur) (D.of_Z 2)))
                 (D.add (D.add fsst dur) (c_tail_leniency ops64)) in
  let pr := D.div (D.sub t fsst) dur in
  mkEv KLastTick (n - 1) fsst t (if Z.even n then D.sub (D.of_Z 1) pr else pr).
Proof. reflexivity. Qed.
Example C20_tail_closed_form : forall (start dur : F64) n,
  sp_tail ops64 start dur n =
  mkEv KTail (n - 1) (sp_sst ops64 start dur (n - 1)) (D.add start (D.mul (D.of_Z n) dur)) (D.of_Z (n mod 2)).
Proof. reflexivity. Qed.

(* A zero tick distance (+0.0 or -0.0) yields no ticks but still every repeat:
   head, the repeats of spans 0 .. n-2, last tick, tail -- for any tick fuel. *)
Theorem C20_zero_tick_distance :
  forall (chk : bool) (fuel tf : nat) (p : params F64) (buf : list (event F64)) (s : bool),
  0 <= p_n p <= i32_max -> D.lt (p_total p) D.zero = false -> p_td p = B754_zero s ->
  (Z.to_nat (p_n p) + 3 < fuel)%nat ->
  run ops64 chk fuel tf p buf =
  Done (sp_head ops64 (p_start p) :: map (sp_repeat ops64 (p_start p) (p_dur p)) (spans (p_n p - 1))
          ++ [sp_last_tick ops64 (p_start p) (p_dur p) (p_n p); sp_tail ops64 (p_start p) (p_dur p) (p_n p)]).
Proof. exact zero_tick_dist_stream. Qed.
Print Assumptions C20_zero_tick_distance.

(* ---------- T20b: exact arithmetic ---------- *)

(* Same model text over R.  With a positive tick distance the k ticks of a
   span lie at 1*td, 2*td, ..., k*td; each is <= len and strictly before
   len - mdfe (mdfe = velocity * 10); and k is maximal. *)
Theorem C20_exact_ticks_at_multiples :
  forall (len mdfe td : R) (ds : list R),
  (0 < td)%R -> dists_ok opsR len mdfe td ds ->
  ds = map (fun j => (INR (S j) * td)%R) (seq 0 (length ds)) /\
  Forall (fun d => (d <= len /\ d < len - mdfe)%R) ds /\
  ~ (INR (S (length ds)) * td <= len /\ INR (S (length ds)) * td < len - mdfe)%R.
Proof. exact dists_exact. Qed.
Print Assumptions C20_exact_ticks_at_multiples.

(* within a span: tick times strictly increasing, the repeat strictly after *)
Theorem C20_exact_chronological :
  forall (start dur len : R) (n : Z) (mdfe td : R) (ds : list R) (s : Z),
  (0 < td)%R -> (0 < dur)%R -> (0 < len)%R -> (0 <= mdfe)%R -> dists_ok opsR len mdfe td ds ->
  StronglySorted Rlt (map ev_time (sp_span opsR start dur len n ds s)).
Proof. exact span_chronological. Qed.
Print Assumptions C20_exact_chronological.

(* tick fuel: any tf >= 1 with tf * td > len (about len/td + 1) suffices *)
Theorem C20_exact_tick_fuel :
  forall (len mdfe td : R) (tf : nat),
  (0 < td)%R -> (1 <= tf)%nat -> (INR tf * td > len)%R -> span_dists opsR tf len mdfe td <> OutOfFuel.
Proof. exact span_dists_fuel. Qed.
Print Assumptions C20_exact_tick_fuel.

(* ---------- T20c: binary64 ---------- *)

(* PARTIAL.  Full statement wanted for binary64:
     "tick j of a span lies at j * tick_dist up to the rounding of the running
      sum, never within 10 ms of travel of the span end, and the tick times
      are non-decreasing within a span".
   Proved below: (1) the tick distances are the j-fold running sums
   d += tick_dist and every one satisfies  d <= len  and  not (d >= len -
   mdfe), the literal loop guards of the source -- so "never within 10 ms of
   travel of the span end" holds in binary64 exactly as the code tests it;
   (2) weak chronological order of the ticks of a span (rounding can merge
   neighbouring ticks, so "strictly" is false in binary64), provided no tick
   time overflows.
   Missing: the rounding bound  |rsum td td j - (j+1)*td| <= j * ulp(len)/2
   of the running sum (an error analysis of j additions), and the order of
   the repeat relative to the last tick of its span in binary64. *)
Theorem C20_ieee_ticks_partial :
  forall (len mdfe td : F64) (ds : list F64),
  dists_ok ops64 len mdfe td ds ->
  ds = map (rsum ops64 td td) (seq 0 (length ds)) /\
  Forall (fun d => D.le d len = true /\ D.le (D.sub len mdfe) d = false) ds.
Proof. intros len mdfe td ds (H1 & H2 & _). exact (conj H1 H2). Qed.
Print Assumptions C20_ieee_ticks_partial.

(* [Fle a b] is  B2R a <= B2R b ; for finite values it is the float <= *)
Theorem C20_ieee_ticks_weakly_chronological :
  forall (start dur len td : F64) (ds : list F64) (s : Z),
  is_finite dur = true -> (0 <= B2R dur)%R -> is_finite len = true -> (0 < B2R len)%R ->
  is_finite td = true -> (0 < B2R td)%R ->
  ds = map (rsum ops64 td td) (seq 0 (length ds)) ->
  Forall (fun e => is_finite (ev_time e) = true) (map (sp_tick ops64 start dur len s) ds) ->
  StronglySorted Fle
    (map ev_time (if Z.odd s then rev (map (sp_tick ops64 start dur len s) ds)
                  else map (sp_tick ops64 start dur len s) ds)).
Proof. exact ticks_weakly_chronological. Qed.
Print Assumptions C20_ieee_ticks_weakly_chronological.

Theorem C20_Fle_is_float_le :
  forall a b : F64, is_finite a = true -> is_finite b = true -> Fle a b -> D.le a b = true.
Proof. exact Fle_le. Qed.
Print Assumptions C20_Fle_is_float_le.

(* ---------- non-vacuity: concrete streams (bit patterns) ---------- *)

Definition f (n : Z) : F64 := D.of_Z n.
Definition junk3 : list (event F64) := map junk_ev (seq 0 3).

(* the crate's unit test non_even_ticks: 2 spans of 1000 ms / 1000 px, tick
   distance 300, through a junk-filled buffer: head, ticks at 300 600 900,
   repeat at 1000, ticks at 1100 1400 1700 (progress 0.9 0.6 0.3), last tick
   at 1964 (= 2000 - 36), tail at 2000 *)
Example C20_nonvacuous :
  dump_out dump_evs (run ops64 true 50 50 (mkP (f 0) (f 1000) (f 1) (f 300) (f 1000) 2) junk3)
  = [0; 10;
     0; 0; 0; 0; 0;
     1; 0; 0; 0x4072c00000000000; 0x3fd3333333333333;
     1; 0; 0; 0x4082c00000000000; 0x3fe3333333333333;
     1; 0; 0; 0x408c200000000000; 0x3feccccccccccccd;
     2; 0; 0; 0x408f400000000000; 0x3ff0000000000000;
     1; 1; 0x408f400000000000; 0x4091300000000000; 0x3feccccccccccccd;
     1; 1; 0x408f400000000000; 0x4095e00000000000; 0x3fe3333333333333;
     1; 1; 0x408f400000000000; 0x409a900000000000; 0x3fd3333333333333;
     3; 1; 0x408f400000000000; 0x409eb00000000000; 0x3fa26e978d4fdf40;
     4; 1; 0x408f400000000000; 0x409f400000000000; 0].
Proof. vm_compute. reflexivity. Qed.

(* the eager list gives the same dump *)
Example C20_nonvacuous_spec :
  dump_out dump_evs (events_spec ops64 50 (mkP (f 0) (f 1000) (f 1) (f 300) (f 1000) 2))
  = dump_out dump_evs (run ops64 true 50 50 (mkP (f 0) (f 1000) (f 1) (f 300) (f 1000) 2) junk3).
Proof. vm_compute. reflexivity. Qed.

(* zero tick distance, 3 spans: head, two repeats, last tick, tail *)
Example C20_zero_tick_distance_example :
  dump_out dump_evs (run ops64 true 50 50 (mkP (f 0) (f 1000) (f 1) (f 0) (f 1000) 3) junk3)
  = [0; 5;
     0; 0; 0; 0; 0;
     2; 0; 0; 0x408f400000000000; 0x3ff0000000000000;
     2; 1; 0x408f400000000000; 0x409f400000000000; 0;
     3; 2; 0x409f400000000000; 0x40a7280000000000; 0x3feed916872b020c;
     4; 2; 0x409f400000000000; 0x40a7700000000000; 0x3ff0000000000000].
Proof. vm_compute. reflexivity. Qed.

(* too little tick fuel is reported, never silently truncated *)
Example C20_out_of_fuel_is_visible :
  dump_out dump_evs (run ops64 true 50 3 (mkP (f 0) (f 1000) (f 1) (f 300) (f 1000) 2) junk3) = [2].
Proof. vm_compute. reflexivity. Qed.

(* C08 -- The result depends on the bytes only, not on how they are
   delivered.  Statements only ([exact] of lemmas from Proofs/ReaderFacts.v and
   Proofs/IoWitnesses.v), Print Assumptions, pins, examples -- among them the
   deliveries that failed before the repair of finding D4 (read_bom dropped
   every chunk shorter than three bytes). *)
From RM Require Import Model.Text Model.Encoding Model.Reader.
From RM Require Import Proofs.EncodingFacts Proofs.ReaderFacts Proofs.TransparencyFacts Proofs.IoWitnesses.
From RM Require Import Gen.Generated.
Open Scope Z_scope.

(* ---------- pins ---------- *)

(* read_bom collects up to this many bytes, over as many chunks as it takes,
   and hands what lies behind the BOM on to the line reader *)
Example pin_read_bom_min_len : read_bom_min_len = 3.
Proof. reflexivity. Qed.
Example pin_read_bom_accumulates : read_bom_accumulates = true.
Proof. reflexivity. Qed.
Example pin_bom_table :
  bom_table = [([239; 187; 191], 0, 3); ([255; 254], 2, 2); ([254; 255], 1, 2); ([], 0, 0)].
Proof. reflexivity. Qed.

(* ---------- T08b: the delivery paths are schedules ---------- *)

(* from_bytes / from_str: Cursor::fill_buf returns everything that is left =
   the empty schedule; BufReader::with_capacity(c, _): every source call
   yields at most c bytes = all-[Chunk c]; from_path: BufReader over a File =
   some schedule over the file's bytes (OS trusted).  For the empty schedule
   the decode is the schedule-free reference [decode_stream]. *)
Theorem C08_from_bytes_is_reference : forall b,
  read_all_lines (mk_reader b []) = decode_stream b.
Proof. exact one_chunk_stream. Qed.
Print Assumptions C08_from_bytes_is_reference.

(* ---------- T08 ---------- *)

(* The full statement: for ANY two faultless schedules of the same bytes --
   every chunking down to single bytes, first chunks of one or two bytes, a
   BOM split over several chunks, Interrupted anywhere ([faultless] only
   excludes hard failures) -- the decode gives the same result.  (Refuted
   before the repair of D4 by b = "[Metadata]\nTitle:abc\n", s1 = [],
   s2 = [Chunk 2]; see C08_former_d4_deliveries.) *)
Theorem C08_schedule_independent : forall b s1 s2,
  faultless s1 -> faultless s2 ->
  read_all_lines (mk_reader b s1) = read_all_lines (mk_reader b s2).
Proof. exact (schedule_independent decode_utf8_lossy_spec). Qed.
Print Assumptions C08_schedule_independent.

(* ... and the common value is what the bytes alone determine *)
Theorem C08_function_of_bytes : forall b s,
  faultless s -> read_all_lines (mk_reader b s) = decode_stream b.
Proof. exact (read_all_lines_faultless decode_utf8_lossy_spec). Qed.
Print Assumptions C08_function_of_bytes.

(* the same for every reader state (bytes already buffered included) *)
Theorem C08_function_of_bytes_any_state : forall r,
  faultless (sched r) -> read_all_lines r = decode_stream (bytes_of r).
Proof. exact (read_all_lines_faultless_gen decode_utf8_lossy_spec). Qed.
Print Assumptions C08_function_of_bytes_any_state.

(* BufReader::with_capacity(c, _) for EVERY capacity c >= 1 (n source calls
   scheduled, any n) *)
Theorem C08_bufreader_any_capacity : forall b c n,
  read_all_lines (mk_reader b (repeat (Chunk c) n)) = decode_stream b.
Proof. exact bufreader_any_capacity. Qed.
Print Assumptions C08_bufreader_any_capacity.

(* the BOM sniffing itself: on a faultless schedule read_bom ends up with the
   first three bytes of the stream (all of it if shorter), however they are
   chunked, and leaves the reader exactly behind them *)
Theorem C08_read_bom_sees_first_three_bytes : forall fuel r head,
  faultless (sched r) -> (msr r < fuel)%nat -> (length head <= 3)%nat ->
  exists r', read_bom fuel r head = bom_finish (head ++ firstn (3 - length head) (bytes_of r)) r' /\
             bytes_of r' = skipn (3 - length head) (bytes_of r) /\ faultless (sched r').
Proof. exact read_bom_faultless. Qed.
Print Assumptions C08_read_bom_sees_first_three_bytes.

(* Interrupted results never matter, for any schedule (also with hard
   failures), during BOM sniffing as everywhere else *)
Theorem C08_interrupted_transparent : forall b s,
  read_all_lines (mk_reader b s) = read_all_lines (mk_reader b (strip_interrupted s)).
Proof. exact (interrupted_transparent decode_utf8_lossy_spec). Qed.
Print Assumptions C08_interrupted_transparent.

Theorem C08_interrupted_irrelevant : forall b s1 s2,
  strip_interrupted s1 = strip_interrupted s2 ->
  read_all_lines (mk_reader b s1) = read_all_lines (mk_reader b s2).
Proof. exact (interrupted_irrelevant decode_utf8_lossy_spec). Qed.
Print Assumptions C08_interrupted_irrelevant.

(* no panic and enough fuel, for every reader state *)
Theorem C08_total : forall r, io_ok (read_all_lines r).
Proof. exact (read_all_lines_ok decode_utf8_lossy_spec). Qed.
Print Assumptions C08_total.

(* a faultless delivery never yields an Err: for EVERY chunking, every placement of Interrupted, every byte string and encoding
   the result is a list of lines.  (Before the repair of D6 a UTF-16LE stream
   ending right after the low byte of a line feed gave Err(UnexpectedEof).) *)
Theorem C08_faultless_never_fails : forall b s,
  faultless s -> exists ls, read_all_lines (mk_reader b s) = IoDone ls.
Proof. exact clean_stream_never_fails. Qed.
Print Assumptions C08_faultless_never_fails.

(* the reference itself is total *)
Theorem C08_reference_total : forall b, exists ls, decode_stream b = IoDone ls.
Proof. exact decode_stream_done. Qed.
Print Assumptions C08_reference_total.

(* an Err is always a failure event of the schedule *)
Theorem C08_error_only_from_schedule : forall r k,
  read_all_lines r = IoErr k -> In (Fail k) (sched r).
Proof. exact (read_all_lines_err_from_reader decode_utf8_lossy_spec). Qed.
Print Assumptions C08_error_only_from_schedule.

(* ---------- non-vacuity; the deliveries of the repaired finding D4 ---------- *)

Example C08_nonvacuous :
  faultlessb [Interrupted; Chunk 3; Chunk 1; Interrupted; Chunk 1; Chunk 200] = true /\
  show (read_all_lines (mk_reader small_file [Interrupted; Chunk 3; Chunk 1; Interrupted; Chunk 1; Chunk 200]))
  = show (IoDone [lit "[Metadata]"; lit "Title:abc"]).
Proof. vm_compute. repeat split. Qed.

(* a first chunk of one or two bytes (before: those bytes were lost,
   [Chunk 2; Chunk 100] gave "etadata]"), BufReader::with_capacity(2, _) and
   (1, _) (before: an empty map), single bytes with Interrupted in between *)
Example C08_former_d4_deliveries :
  show (read_all_lines (mk_reader small_file [])) = show small_lines /\
  show (read_all_lines (mk_reader small_file [Chunk 2])) = show small_lines /\
  show (read_all_lines (mk_reader small_file [Chunk 2; Chunk 100])) = show small_lines /\
  show (read_all_lines (mk_reader small_file [Chunk 1; Chunk 100])) = show small_lines /\
  show (read_all_lines (mk_reader small_file (repeat (Chunk 2) 12))) = show small_lines /\
  show (read_all_lines (mk_reader small_file (repeat (Chunk 1) 30))) = show small_lines /\
  show (read_all_lines (mk_reader small_file (repeat (Chunk 3) 8))) = show small_lines /\
  show (read_all_lines (mk_reader small_file [Chunk 1; Interrupted; Chunk 1; Interrupted; Interrupted; Chunk 1; Chunk 1])) = show small_lines.
Proof. exact short_first_chunks_decode. Qed.

(* a byte order mark split over several chunks, at every position *)
Example C08_split_bom :
  let text := lit "a" ++ [10] ++ lit "b" in
  let L := show (IoDone [lit "a"; lit "b"]) in
  show (read_all_lines (mk_reader (bom_utf8 ++ utf8_enc text) [Chunk 1; Chunk 1; Chunk 1; Chunk 100])) = L /\
  show (read_all_lines (mk_reader (bom_utf8 ++ utf8_enc text) [Chunk 1; Chunk 2; Chunk 100])) = L /\
  show (read_all_lines (mk_reader (bom_utf8 ++ utf8_enc text) [Chunk 2; Interrupted; Chunk 1; Chunk 100])) = L /\
  show (read_all_lines (mk_reader (bom_utf8 ++ utf8_enc text) [Chunk 2; Chunk 2; Chunk 2; Chunk 2])) = L /\
  show (read_all_lines (mk_reader (bom_le ++ utf16le_enc text) [Chunk 1; Interrupted; Chunk 1; Chunk 100])) = L /\
  show (read_all_lines (mk_reader (bom_le ++ utf16le_enc text) (repeat (Chunk 1) 12))) = L /\
  show (read_all_lines (mk_reader (bom_le ++ utf16le_enc text) (repeat (Chunk 2) 6))) = L /\
  show (read_all_lines (mk_reader (bom_be ++ utf16be_enc text) [Chunk 1; Chunk 1; Chunk 100])) = L /\
  show (read_all_lines (mk_reader (bom_be ++ utf16be_enc text) (repeat (Chunk 1) 12))) = L.
Proof. exact split_bom_decodes. Qed.

(* streams of zero to three bytes (before: one or two bytes were dropped even
   by from_bytes) *)
Example C08_short_streams :
  show (read_all_lines (mk_reader [] [])) = show (IoDone []) /\
  show (read_all_lines (mk_reader (lit "a") [])) = show (IoDone [lit "a"]) /\
  show (read_all_lines (mk_reader (lit "ab") [])) = show (IoDone [lit "ab"]) /\
  show (read_all_lines (mk_reader (lit "ab") [Chunk 1; Chunk 1])) = show (IoDone [lit "ab"]) /\
  show (read_all_lines (mk_reader (lit "abc") [])) = show (IoDone [lit "abc"]) /\
  show (read_all_lines (mk_reader (lit "abc") [Chunk 1; Chunk 1; Chunk 1])) = show (IoDone [lit "abc"]) /\
  show (read_all_lines (mk_reader [255; 254] [])) = show (IoDone []) /\
  show (read_all_lines (mk_reader [255; 254] [Chunk 1])) = show (IoDone []) /\
  show (read_all_lines (mk_reader [239; 187; 191] [Chunk 1; Chunk 1])) = show (IoDone []) /\
  show (read_all_lines (mk_reader [239; 187] [])) = show (IoDone [[65533]]) /\
  show (read_all_lines (mk_reader [10] [])) = show (IoDone [[]]).
Proof. exact short_streams_decode. Qed.

(* malformed UTF-16 streams (a byte 0x0A at an odd offset or with a non-zero
   partner byte, odd total length) and texts whose code units contain a byte
   0x0A are functions of their bytes like every other stream: byte by byte,
   in uneven chunks, with Interrupted *)
Example C08_utf16_any_delivery :
  let L1 := show (IoDone [[97; 2560; 25088; 2659]]) in
  let L2 := show (IoDone (lines_of_text d5_text2)) in
  show (read_all_lines (mk_reader (bom_be ++ [0; 97; 10; 0; 98; 0; 10; 99]) [])) = L1 /\
  show (read_all_lines (mk_reader (bom_be ++ [0; 97; 10; 0; 98; 0; 10; 99]) (repeat (Chunk 1) 12))) = L1 /\
  show (read_all_lines (mk_reader (bom_be ++ [0; 97; 10; 0; 98; 0; 10; 99]) [Chunk 5; Interrupted; Chunk 2; Chunk 3])) = L1 /\
  show (read_all_lines (mk_reader (bom_le ++ utf16le_enc d5_text2) [])) = L2 /\
  show (read_all_lines (mk_reader (bom_le ++ utf16le_enc d5_text2) (repeat (Chunk 1) 40))) = L2 /\
  show (read_all_lines (mk_reader (bom_le ++ utf16le_enc d5_text2) (repeat (Chunk 3) 14))) = L2 /\
  show (read_all_lines (mk_reader (bom_be ++ utf16be_enc d5_text2) [Chunk 3; Interrupted; Chunk 2; Chunk 1; Chunk 5])) = L2.
Proof. vm_compute. repeat split. Qed.

(* the former D6 input (UTF-16LE `a` LF cut after the low byte of the line
   feed): the same line at every chunking, with Interrupted at the extra-byte
   read of read_line *)
Example C08_former_d6_input :
  show (read_all_lines (mk_reader [255; 254; 97; 0; 10] [])) = show (IoDone [lit "a"]) /\
  show (read_all_lines (mk_reader [255; 254; 97; 0; 10] [Chunk 3; Chunk 1; Chunk 1])) = show (IoDone [lit "a"]) /\
  show (read_all_lines (mk_reader [255; 254; 97; 0; 10] [Chunk 4; Chunk 1; Interrupted; Interrupted])) = show (IoDone [lit "a"]) /\
  show (read_all_lines (mk_reader [255; 254; 97; 0; 10] [Chunk 5; Interrupted])) = show (IoDone [lit "a"]).
Proof. exact former_d6_input_decodes. Qed.

(* C08 -- The result depends on the bytes only, not on how they are
   delivered.  Statements only ([exact] of lemmas from Proofs/ReaderFacts.v and
   Proofs/IoWitnesses.v), Print Assumptions, pins, examples, and the
   refutation witness of the full statement (known finding D4). *)
From RM Require Import Model.Text Model.Encoding Model.Reader.
From RM Require Import Proofs.EncodingFacts Proofs.ReaderFacts Proofs.TransparencyFacts Proofs.IoWitnesses.
From RM Require Import Gen.Generated.
Open Scope Z_scope.

(* ---------- pins ---------- *)

(* read_bom keeps asking while a chunk has fewer than this many bytes *)
Example pin_read_bom_min_len : read_bom_min_len = 3.
Proof. reflexivity. Qed.
Example pin_bom_table :
  bom_table = [([239; 187; 191], 0, 3); ([255; 254], 2, 2); ([254; 255], 1, 2); ([], 0, 0)].
Proof. reflexivity. Qed.

(* ---------- T08b: the delivery paths are schedules ---------- *)

(* from_bytes / from_str: Cursor::fill_buf returns everything that is left =
   the empty schedule; BufReader::with_capacity(c, _): every source call
   yields at most c bytes = all-[Chunk c]; from_path: BufReader over a File =
   some schedule over the file's bytes (OS trusted).  For the empty schedule
   the decode is the schedule-free reference [decode_stream]. *)
Theorem C08_from_bytes_is_reference : forall b,
  read_all_lines (mk_reader b []) = decode_stream b.
Proof. exact one_chunk_stream. Qed.
Print Assumptions C08_from_bytes_is_reference.

(* ---------- T08 ---------- *)

(* Full statement (REFUTED on the pinned tree, witness below):
     forall b s1 s2, faultless s1 -> faultless s2 ->
       read_all_lines (mk_reader b s1) = read_all_lines (mk_reader b s2).
   Proved for every pair of schedules outside the D4 class, i.e. whose first
   non-empty chunk has at least three bytes or is the whole stream
   ([good_start]); chunk sizes after the first, and Interrupted events
   anywhere (faultless only excludes hard failures), are arbitrary. *)
Theorem C08_schedule_independent : forall b s1 s2,
  faultless s1 -> faultless s2 ->
  good_start (length b) s1 = true -> good_start (length b) s2 = true ->
  read_all_lines (mk_reader b s1) = read_all_lines (mk_reader b s2).
Proof. exact (schedule_independent decode_utf8_lossy_spec). Qed.
Print Assumptions C08_schedule_independent.

(* ... and the common value is what the bytes alone determine *)
Theorem C08_function_of_bytes : forall b s,
  faultless s -> good_start (length b) s = true ->
  read_all_lines (mk_reader b s) = decode_stream b.
Proof. exact (read_all_lines_faultless decode_utf8_lossy_spec). Qed.
Print Assumptions C08_function_of_bytes.

(* BufReader::with_capacity(c, _) with c >= 3 (n source calls scheduled, any n) *)
Theorem C08_bufreader_capacity_ge3 : forall b c n, (3 <= Pos.to_nat c)%nat ->
  read_all_lines (mk_reader b (repeat (Chunk c) n)) = decode_stream b.
Proof. exact bufreader_capacity_ge3. Qed.
Print Assumptions C08_bufreader_capacity_ge3.

(* Interrupted results never matter, for any schedule (also inside the D4
   class and with hard failures) *)
Theorem C08_interrupted_transparent : forall b s,
  read_all_lines (mk_reader b s) = read_all_lines (mk_reader b (strip_interrupted s)).
Proof. exact (interrupted_transparent decode_utf8_lossy_spec). Qed.
Print Assumptions C08_interrupted_transparent.

Theorem C08_interrupted_irrelevant : forall b s1 s2,
  strip_interrupted s1 = strip_interrupted s2 ->
  read_all_lines (mk_reader b s1) = read_all_lines (mk_reader b s2).
Proof. exact (interrupted_irrelevant decode_utf8_lossy_spec). Qed.
Print Assumptions C08_interrupted_irrelevant.

(* no panic and enough fuel, for every reader state *)
Theorem C08_total : forall r, io_ok (read_all_lines r).
Proof. exact (read_all_lines_ok decode_utf8_lossy_spec). Qed.
Print Assumptions C08_total.

(* a faultless delivery never yields an Err: for EVERY chunking (inside the D4
   class too), every placement of Interrupted, every byte string and encoding
   the result is a list of lines.  (Before the repair of D6 a UTF-16LE stream
   ending right after the low byte of a line feed gave Err(UnexpectedEof).) *)
Theorem C08_faultless_never_fails : forall b s,
  faultless s -> exists ls, read_all_lines (mk_reader b s) = IoDone ls.
Proof. exact clean_stream_never_fails. Qed.
Print Assumptions C08_faultless_never_fails.

(* the reference itself is total *)
Theorem C08_reference_total : forall b, exists ls, decode_stream b = IoDone ls.
Proof. exact decode_stream_done. Qed.
Print Assumptions C08_reference_total.

(* an Err is always a failure event of the schedule *)
Theorem C08_error_only_from_schedule : forall r k,
  read_all_lines r = IoErr k -> In (Fail k) (sched r).
Proof. exact (read_all_lines_err_from_reader decode_utf8_lossy_spec). Qed.
Print Assumptions C08_error_only_from_schedule.

(* ---------- non-vacuity ---------- *)

Example C08_nonvacuous :
  good_start (length d4_bytes) [Interrupted; Chunk 3; Chunk 1; Interrupted; Chunk 1; Chunk 200] = true /\
  faultlessb [Interrupted; Chunk 3; Chunk 1; Interrupted; Chunk 1; Chunk 200] = true /\
  show (read_all_lines (mk_reader d4_bytes [Interrupted; Chunk 3; Chunk 1; Interrupted; Chunk 1; Chunk 200]))
  = show (IoDone [lit "[Metadata]"; lit "Title:abc"]).
Proof. vm_compute. repeat split. Qed.

(* the former D6 input (UTF-16LE `a` LF cut after the low byte of the line
   feed): the same line at every chunking outside the D4 class, with
   Interrupted at the extra-byte read of read_line *)
Example C08_former_d6_input :
  show (read_all_lines (mk_reader [255; 254; 97; 0; 10] [])) = show (IoDone [lit "a"]) /\
  show (read_all_lines (mk_reader [255; 254; 97; 0; 10] [Chunk 3; Chunk 1; Chunk 1])) = show (IoDone [lit "a"]) /\
  show (read_all_lines (mk_reader [255; 254; 97; 0; 10] [Chunk 4; Chunk 1; Interrupted; Interrupted])) = show (IoDone [lit "a"]) /\
  show (read_all_lines (mk_reader [255; 254; 97; 0; 10] [Chunk 5; Interrupted])) = show (IoDone [lit "a"]).
Proof. exact former_d6_input_decodes. Qed.

(* ---------- refutation witness of the full statement (D4) ---------- *)

Theorem C08_schedule_independent_refuted :
  exists b s1 s2, faultless s1 /\ faultless s2 /\
    read_all_lines (mk_reader b s1) <> read_all_lines (mk_reader b s2).
Proof. exact schedule_independent_refuted. Qed.
Print Assumptions C08_schedule_independent_refuted.

(* the witness is in the excluded class, and only just *)
Example C08_witness_class :
  good_start (length d4_bytes) [Chunk 2] = false /\ good_start (length d4_bytes) [Chunk 3] = true.
Proof. vm_compute. split; reflexivity. Qed.

(* BufReader::with_capacity(2, _) loses the whole stream; capacity 3 does not;
   a single short first chunk loses exactly its own bytes; a stream of one or
   two bytes is dropped even by from_bytes *)
Example C08_d4_readings :
  show (read_all_lines (mk_reader d4_bytes (repeat (Chunk 2) 12))) = show (IoDone []) /\
  show (read_all_lines (mk_reader d4_bytes [])) = show (IoDone [lit "[Metadata]"; lit "Title:abc"]) /\
  show (read_all_lines (mk_reader d4_bytes (repeat (Chunk 3) 8))) = show (IoDone [lit "[Metadata]"; lit "Title:abc"]) /\
  show (read_all_lines (mk_reader d4_bytes [Chunk 2; Chunk 100])) = show (IoDone [lit "etadata]"; lit "Title:abc"]).
Proof. exact capacity_two_loses_everything. Qed.

Example C08_short_stream_dropped :
  show (read_all_lines (mk_reader (lit "ab") [])) = show (IoDone []) /\
  show (read_all_lines (mk_reader (lit "abc") [])) = show (IoDone [lit "abc"]).
Proof. exact short_stream_dropped. Qed.

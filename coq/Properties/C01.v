(* C01 — Decoding and re-encoding never panic, hang or fail on arbitrary bytes.

   "For every byte sequence and every provided decoder type, decoding an
   in-memory buffer terminates without panicking and returns a value;
   malformed, unknown or hostile content is skipped, never aborts the parse
   and never corrupts memory.  Re-encoding any map obtained this way also
   completes and yields valid UTF-8 text.  An error result can only originate
   from a failure reported by the underlying reader or writer."

   The property is assembled from one theorem per layer.  This file holds the
   layers that exist in the development today and says which clause of the
   text each theorem covers; the remaining layers are named at the end and
   are added as further sections of this file by their packages.

   LAYER 2 (here, proved): list of lines  ->  decoded value, for each of the
   nine decoder types of Model/Decoders.v.  Panics are [Panic] outcomes of the
   model (indexing, unwrap, checked arithmetic), loops without structural
   bound carry fuel ([OutOfFuel]); "terminates without panicking and returns
   a value" is [= Done v].
     C01_T01a_*            every decoder returns [Done v] on every list of
                           lines ("malformed, unknown or hostile content is
                           skipped, never aborts the parse"); for HitObjects
                           and Beatmap under the one hypothesis [dist_total]
                           on the slider-curve distance [dist_of], which is
                           the curve package's obligation (LAYER 3)
     C01_states_never_panic, C01_beatmap_fails_only_in_dist,
     C01_beatmap_total_on_sliders
                           the same without any hypothesis: no parse_* of any
                           decoder ever panics; only the finishing loop can
                           fail, and only inside [dist_of]
     C01_no_panic_*        the per-function facts behind it (hit-object
                           lines, timing-point lines and the final flush on
                           sorted collections, the difficulty-point lookup of
                           the slider loop, the loop body)
     C01_framing_fuel      the one fuel-bounded loop of the framing layer
                           never runs out ("hang")
     C01_T01b_*            `repeat_count as usize + 2` is between 2 and
                           cap + 1 = 9001 for every slider, at the line and in
                           every decoded map (no wrap of the cast, no
                           allocation blow-up)
     C01_T01c_*            `NonZeroU32::new_unchecked` only ever sees >= 2
   The six single-section decoders return a plain value by type: their
   parsers (Model/Sections.v) contain no panic point and no unbounded loop,
   which is a fact about the model's text that the correspondence check
   (entries `dec` 0..5, and C11) ties to the code.

   OPEN (other packages; nothing below claims them):
     LAYER 1  bytes + reader schedule -> lines (Reader.v / Encoding.v: BOM,
              UTF-8 lossy loop, UTF-16, `from_utf8_unchecked` on a validated
              prefix (T01d), read_until and the extra-byte loop of
              read_line; "an error result can only originate from a failure
              reported by the reader" is T01e, PROVED below for every reader
              state ([C01_T01e_error_only_from_reader]); finding D6 -- a
              UTF-16LE stream ending inside a line feed made read_exact
              manufacture UnexpectedEof -- was found by it and is repaired));
     LAYER 3  (the curve: see the section "LAYER 3" at the end of this file.
              PROVED there: calculate_path / calculate_length never panic,
              for every libm, and hence no decode ever panics; the Bézier
              subdivision fuel suffices in IEEE arithmetic for n control
              points within +-2^E when n * 2^E <= 2^22
              ([C01_T01g_ieee_bounded]).  PROVED at the level of whole
              files: the parser only ever stores control points that are
              finite and within +-2^18 of the slider head
              ([C01_parsed_control_points_bounded], an invariant of the
              parser state over all line sequences, kept by the finishing
              conversion), and the curve hands the Bezier routine one
              segment (typed point to next typed point) at a time
              ([C01_T01g_curve_bounded_segments]); so every list of lines
              -- and every byte stream / reader state delivering them --
              in which each SEGMENT of each slider has at most 16 control
              points, or n control points with the slider inside +-2^E of
              its head and n * 2^E <= 2^22, decodes to a VALUE with the
              pinned fuels, given an atan2 with values in [-PI, PI]:
              never OutOfFuel, never Panic, never Err
              ([C01_decode_terminates_segments], [.._segments_graded];
              whole-slider forms [C01_decode_terminates_bounded],
              [.._graded]; as decidable conditions on the input lines
              [C01_decode_terminates_segments_lines], [.._bounded_lines];
              bytes: [C01_decode_bytes_terminates_segments[_lines]],
              [C01_decode_bytes_terminates_bounded]; with the encoder:
              [C01_decode_encode_terminates_segments[_lines]],
              [C01_decode_encode_terminates_bounded]).  OPEN: the same for
              the remaining sliders a file can contain: a segment of more
              than 16 control points with some of them farther than 2^22 / n
              from the head (T01g, partial by design; proved for reals and
              for the flat classes; REFUTED for unbounded coordinates,
              finding D25 -- public API only));
     LAYER 4  (re-encoding: see the section "LAYER 4" at the end of this file.
              PROVED there: the encoder can fail only inside the slider-event
              calls; it never runs out of fuel on a decoded map (every tick
              distance is >= 2^-25); its output is valid UTF-8 text; Err only
              from the writer; it never panics outside the class "osu!/catch
              map with a slider of negative curve distance"; that class is
              EMPTY FOR BOUNDED INPUTS: osu!-mode Catmull sub-paths with
              finite vertices |c| <= 2^20 whose consecutive vertices are
              numerically equal or at least 2^-60 apart, at most 2^30
              vertices ([C01_curve_dist_nonneg_bounded],
              [C01_encode_never_panics_bounded]).  OPEN: the class is empty
              without those bounds -- Catmull steps between 0 and 2^-60
              (the binary32 underflow range; not reachable from a decoded
              file as far as probed: decoded control points are integers
              and no step below 2^-22 was seen) and coordinates beyond
              2^20; and that EVERY decoded slider meets the bounds
              ([C01_encode_never_panics_partial]; no counterexample in
              2*10^8 decoded sliders on the crate, nor in the underflow
              search of probes/C01_negdist, Q1u));
     not expressible in the model: memory safety of the `point_split`
              re-borrow given in-bounds indices, real stack/heap exhaustion,
              wall-clock time.
   The implementation-side oracle of this check (harness/src/c01.rs: nine
   decoders, debug + release + tracing builds, encode after decode) covers the
   whole property text on generated bytes and does not depend on the model. *)
From RM Require Import Model.Decoders Model.Drv07 Proofs.FramingFacts
     Proofs.ControlPointsFacts Proofs.HitObjectLineFacts Proofs.DecodersFacts
     Proofs.DecodersTotal Proofs.C01Clauses Gen.Generated.
Open Scope Z_scope.

(* ------------------------------------------------------------------ *)
(* Pins                                                                *)

Example pin_repeat_cap : repeat_cap = 9000.
Proof. reflexivity. Qed.

Example pin_nodes_bound : Z.max 0 (repeat_cap - 1) + 2 = 9001.
Proof. reflexivity. Qed.

(* ------------------------------------------------------------------ *)
(* LAYER 2, per function                                               *)

Theorem C01_no_panic_hit_object_line :
  forall st line, exists st' r, parse_hit_objects st line = Done (st', r).
Proof. exact parse_hit_objects_total. Qed.
Print Assumptions C01_no_panic_hit_object_line.

(* the binary searches are followed by indexings; on sorted lists they are in
   bounds, and every add keeps the lists sorted *)
Theorem C01_no_panic_timing_point_line :
  forall st l, cp_sorted (ts_cp st) ->
  exists st' r, parse_timing_points st l = Done (st', r) /\ cp_sorted (ts_cp st').
Proof. exact parse_timing_points_sorted. Qed.
Print Assumptions C01_no_panic_timing_point_line.

Theorem C01_no_panic_timing_points_flush :
  forall st, cp_sorted (ts_cp st) -> exists c, tp_finish st = Done c /\ cp_sorted c.
Proof. exact tp_finish_sorted. Qed.
Print Assumptions C01_no_panic_timing_points_flush.

(* `&self.difficulty_points[i]` in difficulty_point_at, as used by the slider
   loop of `From<HitObjectsState> for HitObjects` *)
Theorem C01_no_panic_difficulty_point_lookup :
  forall c t, cp_sorted c -> exists o, difficulty_point_at c t = Done o.
Proof.
  intros c t (_ & Hd & _). unfold difficulty_point_at.
  rewrite (at_opt_spec dp_time _ t Hd). eexists. reflexivity.
Qed.
Print Assumptions C01_no_panic_difficulty_point_lookup.

(* the loop body: nothing but the curve distance of a slider can fail *)
Theorem C01_no_panic_slider_loop_body :
  forall dist_of c sm mode h, cp_sorted c -> slider_dist_ok dist_of h ->
  exists h', process_object dist_of c sm mode h = Done h'.
Proof. exact process_object_total. Qed.
Print Assumptions C01_no_panic_slider_loop_body.

(* the outer `loop` of decode (re-dispatch on a new section header) is the
   only loop of the framing layer without a structural bound; with fuel
   [length lines + 1] it never runs out (C05) *)
Theorem C01_framing_fuel :
  forall S (ps : parsers S) fuel sec st lines,
  (length lines < fuel)%nat ->
  decode_loop fuel ps sec st lines = Done (section_loop ps sec st lines).
Proof. exact decode_loop_fused. Qed.
Print Assumptions C01_framing_fuel.

(* ------------------------------------------------------------------ *)
(* LAYER 2, whole decode, no hypothesis: the parser state is never a
   panic, after any prefix of any file, for the three decoders whose
   parsers have panic points at all                                     *)

Theorem C01_states_never_panic :
  forall pre,
  (exists s, state_after (fun _ => Done tpd_create) tp_parsers pre = Done s /\
             cp_sorted (tpd_cp s)) /\
  (exists s, state_after (fun _ => Done hod_create) ho_parsers pre = Done s /\
             cp_sorted (tpd_cp (hod_tp s))) /\
  (exists s, state_after (fun v => Done (bmd_create v)) bm_parsers pre = Done s /\
             cp_sorted (tpd_cp (hod_tp (bmd_ho s)))).
Proof. intros pre. exact (conj (tp_state_ok pre) (conj (ho_state_ok pre) (bm_state_ok pre))). Qed.
Print Assumptions C01_states_never_panic.

Theorem C01_T01a_timing_points :
  forall lines, exists tv, decode_timing_points lines = Done tv.
Proof. exact decode_timing_points_total. Qed.
Print Assumptions C01_T01a_timing_points.

Theorem C01_beatmap_fails_only_in_dist :
  forall dist_of lines,
  exists s, cp_sorted (tpd_cp (hod_tp (bmd_ho s))) /\
            decode_beatmap dist_of lines = bmd_finish dist_of s.
Proof. exact decode_beatmap_fails_only_in_dist. Qed.
Print Assumptions C01_beatmap_fails_only_in_dist.

(* sharper: only for a slider that is in the file.  If [dist_of] returns a
   value on the (mode, control points, expected distance) of every slider the
   parse collected, the Beatmap decode returns a value *)
Theorem C01_beatmap_total_on_sliders :
  forall dist_of lines,
  exists s,
    decode_beatmap dist_of lines = bmd_finish dist_of s /\
    (Forall (slider_dist_ok dist_of) (hod_objects (bmd_ho s)) ->
     exists bv, bmd_finish dist_of s = Done bv).
Proof. exact decode_beatmap_total_on_sliders. Qed.
Print Assumptions C01_beatmap_total_on_sliders.

(* ------------------------------------------------------------------ *)
(* LAYER 2, whole decode, under the curve package's obligation          *)

Section CurveObligation.
  Variable dist_of : Z -> list PCP -> option F64 -> outcome F64.
  (* LAYER 3 discharges or qualifies this *)
  Hypothesis dist_total : forall m cps e, exists d, dist_of m cps e = Done d.

  Theorem C01_T01a_hit_objects :
    forall lines, exists hv, decode_hit_objects dist_of lines = Done hv.
  Proof. exact (decode_hit_objects_total dist_of dist_total). Qed.

  Theorem C01_T01a_beatmap :
    forall lines, exists bv, decode_beatmap dist_of lines = Done bv.
  Proof. exact (decode_beatmap_total dist_of dist_total). Qed.
End CurveObligation.
Print Assumptions C01_T01a_hit_objects.
Print Assumptions C01_T01a_beatmap.

(* ------------------------------------------------------------------ *)
(* T01b                                                                *)

Theorem C01_T01b_accepted_line :
  forall st line st',
  parse_hit_objects st line = Done (st', Ok) ->
  exists obj, ho_objects st' = ho_objects st ++ [obj] /\
  match h_kind obj with
  | KSlider s => 0 <= sl_repeat_count s <= Z.max 0 (repeat_cap - 1) /\
                 Z.of_nat (length (sl_node_samples s)) = sl_repeat_count s + 2
  | _ => True
  end.
Proof. exact accepted_slider_nodes. Qed.
Print Assumptions C01_T01b_accepted_line.

Theorem C01_T01b_decoded_map :
  forall dist_of lines bv,
  decode_beatmap dist_of lines = Done bv ->
  Forall (fun h => match h_kind h with
                   | KSlider s => 0 <= sl_repeat_count s <= Z.max 0 (repeat_cap - 1) /\
                                  Z.of_nat (length (sl_node_samples s)) = sl_repeat_count s + 2
                   | _ => True
                   end) (hov_hit_objects (bmv_ho bv)).
Proof. exact decoded_nodes_bounded. Qed.
Print Assumptions C01_T01b_decoded_map.

(* ------------------------------------------------------------------ *)
(* T01c                                                                *)

Theorem C01_T01c_suffix_at_least_two :
  (forall name bank custom volume n,
     hs_suffix (hs_new name bank custom volume) = Some n -> 2 <= n) /\
  (forall p s, (forall n, hs_suffix s = Some n -> 2 <= n) ->
     forall n, hs_suffix (sp_apply p s) = Some n -> 2 <= n).
Proof. exact (conj hs_new_suffix sp_apply_suffix). Qed.
Print Assumptions C01_T01c_suffix_at_least_two.

(* ------------------------------------------------------------------ *)
(* Examples (on dumps): hostile content is skipped, the decode returns    *)

Definition ex_dist (_ : Z) (_ : list PCP) (e : option F64) : outcome F64 :=
  Done (match e with Some d => d | None => D.zero end).

Definition ex_hostile : list str :=
  map lit ["osu file format v99999999999"; "[General]"; "Mode: 7"; "PreviewTime: 1e999";
           "[Bogus]"; "[TimingPoints]"; "0"; "nan,nan"; "5,1e400"; "10,-0,0,9,9,9,9,9,9,9";
           "10,300,0,0,0,100,1,0"; "[HitObjects]"; ",,,,,"; "1,1,1,2,0,B|,1,1";
           "1,1,1,2,0,P|1:1|2:2|3:3|4:4,9001,1"; "1,1,1,2,0,B|1:1|1:1|B|1:1,0,-5,|||,:::|:";
           "1,1,2,2,0,B|1:1|1:1|B|1:1,0,-5";
           "0,0,5,12,0,-1e30"; "0,0,1e300,128,0,1e-300:1:1"; "[Colours]"; "Combo1 : 1,2,999"]%string.

Example ex_hostile_file_decodes :
  hd 9 (dump_oc dump_bmv (decode_beatmap ex_dist ex_hostile)) = 0 /\
  hd 9 (dump_oc dump_hov (decode_hit_objects ex_dist ex_hostile)) = 0 /\
  hd 9 (dump_oc dump_tpv (decode_timing_points ex_hostile)) = 0 /\
  match decode_beatmap ex_dist ex_hostile with
  | Done bv => length (hov_hit_objects (bmv_ho bv)) = 2%nat /\ bmv_version bv = 14 /\
               g_mode (hov_general (bmv_ho bv)) = 0
  | _ => False
  end.
Proof. vm_compute. repeat split; reflexivity. Qed.

(* without lines at all every decoder returns its default value *)
Example ex_empty_file :
  dump_oc dump_bmv (decode_beatmap ex_dist []) =
  0 :: [latest_format_version] ++ dump_editor editor_default ++ dump_metadata metadata_default ++
  dump_colors colors_default ++ dump_general general_default ++ dump_difficulty_v difficulty_default ++
  dump_events events_default ++ dump_cp cp_empty ++ [0].
Proof. vm_compute. reflexivity. Qed.

(* ------------------------------------------------------------------ *)
(* LAYER 1: bytes + reader schedule -> lines                            *)
(* T01e.  An error result can only originate from a failure reported     *)
(* by the underlying reader: for EVERY reader state (bytes, buffered      *)
(* part, schedule of chunks / Interrupted / failures) an Err of the      *)
(* decode is a failure event of the schedule -- so a reader that reports *)
(* no failure never gets an Err, in any of the encodings.  (Before the   *)
(* repair of D6 this was refuted by FF FE 61 00 0A.)                     *)

From RM Require Import Proofs.C01Bytes Model.Reader Model.Encoding.
From RM Require Proofs.ReaderFacts Proofs.EncodingFacts Proofs.TransparencyFacts Proofs.IoWitnesses.

Theorem C01_T01e_error_only_from_reader : forall r k,
  read_all_lines r = IoErr k -> In (Fail k) (sched r).
Proof. exact (ReaderFacts.read_all_lines_err_from_reader EncodingFacts.decode_utf8_lossy_spec). Qed.
Print Assumptions C01_T01e_error_only_from_reader.

(* the same for one call of Decoder::read_line *)
Theorem C01_T01e_read_line : forall fuel d k,
  read_line fuel d = IoErr k -> In (Fail k) (sched (second (inner d))).
Proof. exact (ReaderFacts.read_line_err_from_reader EncodingFacts.decode_utf8_lossy_spec). Qed.
Print Assumptions C01_T01e_read_line.

(* the one index of Decoder::read_line, read_buf[len - 2] in the UTF-16BE arm,
   is in bounds whenever it is evaluated (read_buf ends with b'\n' there), and
   the loop that assembles a line from several read_until calls neither panics
   nor runs out of rounds: every round that goes on has consumed a byte *)
Theorem C01_read_line_index_in_bounds : forall buf : bytes,
  ends_with_lf buf = true -> exists b, nth_error buf (length buf - 2) = Some b.
Proof. exact ReaderFacts.idx2_some. Qed.
Print Assumptions C01_read_line_index_in_bounds.

Theorem C01_read_line_loop_total : forall n fuel e c buf,
  (ReaderFacts.cmsr c < fuel)%nat -> (ReaderFacts.cmsr c < n)%nat ->
  ReaderFacts.io_ok (read_line_loop n fuel e c buf).
Proof. exact ReaderFacts.read_line_loop_ok. Qed.
Print Assumptions C01_read_line_loop_total.

(* hence: a faultless reader always gets the list of lines (no Err, no panic,
   fuel sufficient), for every byte string and every chunking *)
Theorem C01_faultless_reader_never_fails : forall b s,
  faultless s -> exists ls, read_all_lines (mk_reader b s) = IoDone ls.
Proof. exact TransparencyFacts.clean_stream_never_fails. Qed.
Print Assumptions C01_faultless_reader_never_fails.

(* the input of the former refutation (UTF-16LE `a` LF cut after the low byte
   of the line feed), at several chunkings and with Interrupted at the
   extra-byte read: one line "a" *)
Example C01_former_d6_input :
  let show := IoWitnesses.show in
  show (read_all_lines (mk_reader [255; 254; 97; 0; 10] [])) = show (IoDone [lit "a"]) /\
  show (read_all_lines (mk_reader [255; 254; 97; 0; 10] [Chunk 3; Chunk 1; Chunk 1])) = show (IoDone [lit "a"]) /\
  show (read_all_lines (mk_reader [255; 254; 97; 0; 10] [Chunk 4; Chunk 1; Interrupted; Interrupted])) = show (IoDone [lit "a"]) /\
  show (read_all_lines (mk_reader [255; 254; 97; 0; 10] [Chunk 5; Interrupted])) = show (IoDone [lit "a"]).
Proof. exact IoWitnesses.former_d6_input_decodes. Qed.

(* and what an in-memory buffer yields is what its bytes determine (the
   reference [decode_stream]: BOM, then lines), also for buffers of one or two
   bytes, which read_bom dropped before the repair of D4 *)
Theorem C01_from_bytes_lines : forall b : bytes,
  read_all_lines (mk_reader b []) = decode_stream b.
Proof. exact TransparencyFacts.one_chunk_stream. Qed.
Print Assumptions C01_from_bytes_lines.

(* ------------------------------------------------------------------ *)
(* LAYERS 1+2 composed: from_bytes on an in-memory buffer               *)
(* The reader model on the one-chunk schedule (= Cursor / from_bytes),  *)
(* then the decoder.  For EVERY byte string the result is a value:      *)
(* never an Err, never a panic, never out of fuel.                      *)

Theorem C01_from_bytes_beatmap :
  forall dist_of, (forall m cps e, exists d, dist_of m cps e = Done d) ->
  forall b : bytes, exists v, decode_bytes_beatmap dist_of b = IoDone v.
Proof. exact from_bytes_beatmap. Qed.
Print Assumptions C01_from_bytes_beatmap.

Theorem C01_from_bytes_hit_objects :
  forall dist_of, (forall m cps e, exists d, dist_of m cps e = Done d) ->
  forall b : bytes, exists v, decode_bytes_hit_objects dist_of b = IoDone v.
Proof. exact from_bytes_hit_objects. Qed.
Print Assumptions C01_from_bytes_hit_objects.

(* ------------------------------------------------------------------ *)
(* LAYER 3: the curve                                                   *)
(* [dist_of] of the decoders is [dist_of_curve lm] (Model/CurveDist.v):  *)
(* Curve::new of Model/Curve.v on the slider's control points, for a     *)
(* record [lm] of libm functions (sin, cos, atan2, acosf) about which    *)
(* NOTHING is assumed.  Every index / slice / usize subtraction /        *)
(* unreachable!() of curve.rs is a [Panic] of that model, the two loops  *)
(* without structural bound (Bezier subdivision stack, `while theta_end  *)
(* < theta_start`) carry fuel.                                          *)

From RM Require Import Model.CurveDist.
From RM Require Proofs.CurveNoPanic Proofs.DecodeNoPanic.

Example pin_bezier_fuel : Curve.bezier_fuel = (2 ^ 20)%positive.
Proof. reflexivity. Qed.

(* Curve::new never panics: every libm, every fuel, every control-point list
   (empty, one point, NaN / infinite coordinates), every requested length *)
Theorem C01_curve_L1_no_panic :
  forall lm fuel mode pts e w, Curve.curve_L1 lm fuel mode pts e <> Panic w.
Proof. exact CurveNoPanic.curve_L1_no_panic. Qed.
Print Assumptions C01_curve_L1_no_panic.

(* ... and [OutOfFuel] can only come out of the two unbounded loops: if every
   Bezier subdivision and every theta loop returns, the curve is a value *)
Theorem C01_curve_L1_done_if :
  forall lm fuel mode pts e,
  (forall path sub, sub <> [] -> exists r, Curve.approximate_bezier_L1 fuel path sub tt = Done r) ->
  (forall ts te, exists r, Curve.theta_loop ts te = Done r) ->
  exists c, Curve.curve_L1 lm fuel mode pts e = Done c.
Proof. exact CurveNoPanic.curve_L1_done_if. Qed.
Print Assumptions C01_curve_L1_done_if.

(* the code level with its scratch buffers (well-formed = the four Bezier
   vectors have equal length, as after Default or after any earlier call) *)
Theorem C01_curve_new_L0_no_panic :
  forall lm fuel mode pts e bufs w, CurveRefine.cb_wf bufs ->
  Curve.curve_new_L0 lm fuel mode pts e bufs <> Panic w /\
  Curve.borrowed_new_L0 lm fuel mode pts e bufs <> Panic w.
Proof.
  intros lm fuel mode pts e bufs w H.
  exact (conj (CurveNoPanic.curve_new_L0_no_panic lm fuel mode pts e bufs w H)
              (CurveNoPanic.borrowed_new_L0_no_panic lm fuel mode pts e bufs w H)).
Qed.
Print Assumptions C01_curve_new_L0_no_panic.

(* the per-function facts *)
Theorem C01_no_panic_calculate_length :
  forall path e opt, exists r, Curve.calculate_length path e opt = Done r.
Proof. exact CurveNoPanic.calculate_length_done. Qed.
Print Assumptions C01_no_panic_calculate_length.

Theorem C01_no_panic_bezier :
  forall fuel path points b w, points <> [] -> Curve.approximate_bezier_L1 fuel path points b <> Panic w.
Proof. intros fuel path points b w H. apply CurveNoPanic.np_iff. apply CurveNoPanic.approximate_bezier_L1_np. exact H. Qed.
Print Assumptions C01_no_panic_bezier.

(* `path[path_len..].rotate_left(1); path.pop()` only runs on a non-empty tail *)
Theorem C01_no_panic_drop_joint :
  forall path path_len, Curve.skip_first path path_len = true -> (1 <= path_len < length path)%nat.
Proof. exact CurveNoPanic.skip_first_in_range. Qed.
Print Assumptions C01_no_panic_drop_joint.

Theorem C01_dist_of_curve_no_panic :
  forall lm mode cps e w, dist_of_curve lm mode cps e <> Panic w.
Proof. exact DecodeNoPanic.dist_of_curve_no_panic. Qed.
Print Assumptions C01_dist_of_curve_no_panic.

(* LAYERS 2+3: decoding a file yields a value or -- only if a curve loop
   exhausts its fuel -- OutOfFuel; never a panic.  No hypothesis. *)
Theorem C01_decode_never_panics :
  forall lm lines,
  ((exists v, decode_hit_objects (dist_of_curve lm) lines = Done v) \/
   decode_hit_objects (dist_of_curve lm) lines = OutOfFuel) /\
  ((exists v, decode_beatmap (dist_of_curve lm) lines = Done v) \/
   decode_beatmap (dist_of_curve lm) lines = OutOfFuel).
Proof. exact DecodeNoPanic.decode_never_panics. Qed.
Print Assumptions C01_decode_never_panics.

Theorem C01_decode_no_panic :
  forall lm lines w,
  decode_hit_objects (dist_of_curve lm) lines <> Panic w /\
  decode_beatmap (dist_of_curve lm) lines <> Panic w.
Proof. exact DecodeNoPanic.decode_no_panic. Qed.
Print Assumptions C01_decode_no_panic.

(* LAYERS 1+2+3: from_bytes on an in-memory buffer: a value, or out of fuel
   (only inside the curve); never an Err, never a panic *)
Theorem C01_decode_bytes_never_panics :
  forall lm (b : bytes),
  ((exists v, decode_bytes_beatmap (dist_of_curve lm) b = IoDone v) \/
   decode_bytes_beatmap (dist_of_curve lm) b = IoFuel) /\
  ((exists v, decode_bytes_hit_objects (dist_of_curve lm) b = IoDone v) \/
   decode_bytes_hit_objects (dist_of_curve lm) b = IoFuel).
Proof. exact DecodeNoPanic.decode_bytes_never_panics. Qed.
Print Assumptions C01_decode_bytes_never_panics.

Theorem C01_decode_bytes_no_panic :
  forall lm (b : bytes) w,
  decode_bytes_beatmap (dist_of_curve lm) b <> IoPanic w /\
  decode_bytes_hit_objects (dist_of_curve lm) b <> IoPanic w.
Proof. exact DecodeNoPanic.decode_bytes_no_panic. Qed.
Print Assumptions C01_decode_bytes_no_panic.

Theorem C01_decode_bytes_no_error :
  forall lm (b : bytes) k,
  decode_bytes_beatmap (dist_of_curve lm) b <> IoErr k /\
  decode_bytes_hit_objects (dist_of_curve lm) b <> IoErr k.
Proof. exact DecodeNoPanic.decode_bytes_no_error. Qed.
Print Assumptions C01_decode_bytes_no_error.

(* ------------------------------------------------------------------ *)
(* LAYER 3, "hang": the two loops of curve.rs without structural bound   *)
(* T01g.  The model gives them binary fuel; [iterP step p] performs       *)
(* exactly [Pos.to_nat p] steps, so "the loop stops within n steps" and   *)
(* "[iter_fuel] with fuel >= n returns" are the same statement.           *)

From RM Require Proofs.BezierTermination Proofs.ThetaLoop.
From Coq Require Import Reals.

Theorem C01_fuel_is_step_count :
  forall St Res (step : St -> St + outcome Res) p s n r,
  BezierTermination.run step n s = inr r -> (n <= Pos.to_nat p)%nat ->
  Curve.iter_fuel step p s = r.
Proof. exact (@BezierTermination.iter_fuel_run). Qed.
Print Assumptions C01_fuel_is_step_count.

(* (a) the theta loop.  If the atan2 of the libm record returns NaN or a
   finite value in [-PI, PI] (every IEEE libm), the loop body runs at most
   once, in binary64 arithmetic; the fuel (64) is never exhausted. *)
Theorem C01_theta_loop_terminates :
  forall ts te, ThetaLoop.angle_ok ts -> ThetaLoop.angle_ok te ->
  exists r, Curve.theta_loop ts te = Done r.
Proof. exact ThetaLoop.theta_loop_done. Qed.
Print Assumptions C01_theta_loop_terminates.

(* the hypothesis is needed: for theta_start = +inf the loop of the code does
   not terminate *)
Theorem C01_theta_loop_hostile_atan2 :
  Curve.theta_loop (D.inf false) D.zero = OutOfFuel.
Proof. exact ThetaLoop.theta_loop_needs_range. Qed.

(* hence: with such an atan2 the only source of OutOfFuel in a curve is the
   Bezier subdivision *)
Theorem C01_curve_fails_only_in_bezier :
  forall lm fuel mode pts e,
  ThetaLoop.atan2_in_range lm ->
  (forall path sub, sub <> [] -> exists r, Curve.approximate_bezier_L1 fuel path sub tt = Done r) ->
  exists c, Curve.curve_L1 lm fuel mode pts e = Done c.
Proof. exact ThetaLoop.curve_L1_done_if_bezier. Qed.
Print Assumptions C01_curve_fails_only_in_bezier.

(* (b) the Bezier subdivision loop, as a stack machine over any point type;
   the model is the binary32 instance *)
Theorem C01_bezier_loop_is_generic :
  (forall st, Curve.bspline_step1 st =
     BezierTermination.bstep_g Curve.flat_enough BezierTermination.sub32 Curve.bezier_approx_pts st) /\
  (forall pts, Curve.flat_enough pts = BezierTermination.flat_g BezierTermination.far32 pts) /\
  (forall m, BezierTermination.sub32 m = DeCasteljau.subdiv_g Curve.avg2 Curve.pos0 (length m) m) /\
  S.bits Curve.bezier_limit = 1048576000.        (* 0.25f32 *)
Proof.
  exact (conj BezierTermination.model_bspline_step
        (conj BezierTermination.model_flat
        (conj (fun m => DeCasteljau.model_subdiv (length m) m) BezierTermination.bezier_limit_bits))).
Qed.

(* if the subdivision tree below the segment is flat at depth d, the loop
   returns within 2^(d+1) iterations -- for any point type *)
Theorem C01_bezier_loop_bound :
  forall P (flat : list P -> bool) sub emit d c path,
  BezierTermination.within flat sub d c ->
  exists n path', (n <= 2 ^ S d)%nat /\
    BezierTermination.run (BezierTermination.bstep_g flat sub emit) n ([c], path) = inr (Done path').
Proof. exact (@BezierTermination.loop_terminates). Qed.
Print Assumptions C01_bezier_loop_bound.

(* IEEE: depth <= 19 is enough for the pinned fuel 2^20 (NaN / infinite
   coordinates included: a NaN second difference counts as flat, as in the code) *)
Theorem C01_T01g_ieee_depth19 :
  forall path points, BezierTermination.within32 19 points ->
  exists path', Curve.approximate_bezier_L1 Curve.bezier_fuel path points tt = Done (path', tt).
Proof. exact BezierTermination.approximate_bezier_L1_depth19. Qed.
Print Assumptions C01_T01g_ieee_depth19.

(* T01g, exact arithmetic (control points in R x R, the flatness test
   ||P_i - 2 P_i+1 + P_i+2||^2 > 1/4 and the midpoint subdivision of the code
   read over the reals).  The second differences of either child are averages
   of the parent's, scaled by 1/4: *)
Theorem C01_T01g_second_differences :
  forall k m, length m = S (S k) ->
  BezierTermination.dd (DeCasteljau.left (S (S k)) m)
    = map BezierTermination.quarter (DeCasteljau.left k (BezierTermination.dd m)) /\
  BezierTermination.dd (DeCasteljau.right (S (S k)) m)
    = map BezierTermination.quarter (DeCasteljau.right k (BezierTermination.dd m)).
Proof. intros k m H. exact (conj (BezierTermination.dd_left k m H) (BezierTermination.dd_right k m H)). Qed.
Print Assumptions C01_T01g_second_differences.

(* ... so if every ||P_i - 2 P_i+1 + P_i+2|| <= M and M <= 4^d / 2, i.e.
   d >= log4 (M / 0.5), the loop returns within 2^(d+1) iterations *)
Theorem C01_T01g_exact :
  forall d (c : list BezierTermination.RP) M path emit,
  c <> [] ->
  BezierTermination.B2 M (BezierTermination.dd (map fst c)) (BezierTermination.dd (map snd c)) ->
  (0 <= M)%R -> (M <= 4 ^ d / 2)%R ->
  exists n path', (n <= 2 ^ S d)%nat /\
    BezierTermination.run
      (BezierTermination.bstep_g BezierTermination.flat_R BezierTermination.sub_R emit) n ([c], path)
    = inr (Done path').
Proof. exact BezierTermination.T01g_exact. Qed.
Print Assumptions C01_T01g_exact.

(* ... in particular never out of the model's fuel for M <= 4^19 / 2 = 2^37
   (coordinates are clamped to +-131072 = 2^17 by the parser: M <= 2^20) *)
Theorem C01_T01g_exact_fuel :
  forall (c : list BezierTermination.RP) M path emit,
  c <> [] ->
  BezierTermination.B2 M (BezierTermination.dd (map fst c)) (BezierTermination.dd (map snd c)) ->
  (0 <= M)%R -> (M <= 4 ^ 19 / 2)%R ->
  exists path',
    Curve.iter_fuel (BezierTermination.bstep_g BezierTermination.flat_R BezierTermination.sub_R emit)
      Curve.bezier_fuel ([c], path) = Done path'.
Proof. exact BezierTermination.T01g_exact_fuel. Qed.
Print Assumptions C01_T01g_exact_fuel.

(* T01g for the IEEE instance is FALSE without a bound on the coordinates
   (finding D25; not reachable from decoding, where every coordinate is clamped
   to +-131072; reachable through the public constructors): the Bezier segment
   (inf,0) (0,0) (0,0) is its own right child, and its left child counts as
   flat (NaN), so the loop never returns -- for every fuel, every libm, every
   mode and requested length -- while the path grows by two vertices every
   second iteration (in the code: until the allocation fails). *)
From RM Require Proofs.BezierDiverges.

Theorem C01_T01g_ieee_refuted_unbounded :
  (forall fuel path,
     Curve.approximate_bezier_L1 fuel path BezierDiverges.seg_inf tt = OutOfFuel) /\
  (forall lm fuel mode e,
     Curve.curve_L1 lm fuel mode BezierDiverges.slider_inf e = OutOfFuel) /\
  (forall n rest path, exists path',
     BezierTermination.run Curve.bspline_step1 (2 * n) (BezierDiverges.seg_inf :: rest, path)
       = inl (BezierDiverges.seg_inf :: rest, path') /\
     length path' = (length path + n * 2)%nat).
Proof.
  split; [exact BezierDiverges.bezier_inf_never_returns|].
  split; [exact BezierDiverges.curve_inf_never_returns|].
  intros n rest path. destruct (BezierDiverges.run_seg_inf_path n rest path) as (p' & H1 & H2).
  exists p'. split; [exact H1|]. rewrite H2, BezierDiverges.bezier_approx_pts_seg_inf_left_length. reflexivity.
Qed.
Print Assumptions C01_T01g_ieee_refuted_unbounded.

(* the witness, on dumps: (+inf, +0) (+0, +0) (+0, +0), first point of type Bezier *)
Example C01_T01g_witness_dump :
  map Curve.dump_pos BezierDiverges.seg_inf = [[2139095040; 0]; [0; 0]; [0; 0]] /\
  map (fun p => Curve.pc_type p) BezierDiverges.slider_inf = [Some Curve.BSpline; None; None].
Proof. vm_compute. split; reflexivity. Qed.

(* ... and FALSE for finite coordinates too, from 2^23 on (neighbouring binary32
   numbers are 1 apart there): the left child of the segment
   (2^23, 2^23 + 1) (2^23, 2^23) (2^23, 2^23) is the segment itself (the midpoint
   2^23 + 1/2 is a tie, rounded to even), its second difference (0, 1) is not
   flat; the loop never returns, `to_flatten` grows by one array per iteration.
   Not reachable from decoding; public constructors only (D25, extended). *)
From RM Require Proofs.BezierIEEEFinite.

Theorem C01_T01g_ieee_refuted_finite :
  (forall fuel path,
     Curve.approximate_bezier_L1 fuel path BezierIEEEFinite.seg_fin tt = OutOfFuel) /\
  (forall lm fuel mode e,
     Curve.curve_L1 lm fuel mode BezierIEEEFinite.slider_fin e = OutOfFuel) /\
  (forall n rest path,
     BezierTermination.run Curve.bspline_step1 n (BezierIEEEFinite.seg_fin :: rest, path)
       = inl (BezierIEEEFinite.seg_fin :: repeat BezierIEEEFinite.seg_fin_right n ++ rest, path)).
Proof.
  split; [exact BezierIEEEFinite.bezier_fin_never_returns|].
  split; [exact BezierIEEEFinite.curve_fin_never_returns|].
  exact BezierIEEEFinite.run_seg_fin.
Qed.
Print Assumptions C01_T01g_ieee_refuted_finite.

(* ... and already from 2^22 on (spacing 1/2): the right child of
   (2^22, 2^22 + 1) (2^22 + 1/2, 2^22 + 1/2) (2^22 + 1/2, 2^22 + 1/2) is the
   segment itself, its second difference (-1/2, 1/2) is not flat.  This is the
   smallest magnitude at which the search of probes/T01g_search found a
   segment on which the loop does not return. *)
Theorem C01_T01g_ieee_refuted_finite_2p22 :
  forall fuel path,
  Curve.approximate_bezier_L1 fuel path BezierIEEEFinite.seg22 tt = OutOfFuel.
Proof. exact BezierIEEEFinite.bezier_22_never_returns. Qed.
Print Assumptions C01_T01g_ieee_refuted_finite_2p22.

Example C01_T01g_finite_witness_2p22_dump :
  map Curve.dump_pos BezierIEEEFinite.seg22
    = [[1249902592; 1249902594]; [1249902593; 1249902593]; [1249902593; 1249902593]] /\
  forallb (fun p => is_finite_SF (B2SF (Curve.px p)) && is_finite_SF (B2SF (Curve.py p)))
    BezierIEEEFinite.seg22 = true.
Proof. exact (conj BezierIEEEFinite.seg22_dump BezierIEEEFinite.seg22_finite). Qed.

(* the witness, on dumps: 2^23 = 0x4B000000, 2^23 + 1 = 0x4B000001; all finite *)
Example C01_T01g_finite_witness_dump :
  map Curve.dump_pos BezierIEEEFinite.seg_fin
    = [[1258291200; 1258291201]; [1258291200; 1258291200]; [1258291200; 1258291200]] /\
  forallb (fun p => is_finite_SF (B2SF (Curve.px p)) && is_finite_SF (B2SF (Curve.py p)))
    BezierIEEEFinite.seg_fin = true.
Proof. exact (conj BezierIEEEFinite.seg_fin_dump BezierIEEEFinite.seg_fin_finite). Qed.

(* FULL STATEMENT, NOT PROVED (T01g for the IEEE instance, every segment a
   file can contain):
     forall path points, points <> [] -> (coordinates finite, |x| <= 2^18:
     control points are stored relative to the slider position, both within
     +-131072) ->
     exists r, Curve.approximate_bezier_L1 Curve.bezier_fuel path points tt = Done r.
   PROVED ([C01_T01g_ieee_bounded], below): the statement for every segment of
   n control points with finite coordinates |x| <= 2^E and n * 2^E <= 2^22
   -- e.g. <= 8192 control points within +-512, <= 1024 within +-4096, <= 32
   within +-131072, <= 16 anywhere in the parser's range (+-262144 relative
   to the slider).  The binary32 rounding of `(a + b) / 2.0` (at most u =
   2^(E-25) + 2^-150 per midpoint) and of the flatness test `(prev - curr * 2.0
   + next).length_squared() > 0.25` (false whenever both real second
   differences are <= 7/32 and E <= 20) cannot stall the 1/4 contraction
   there: the second differences along a row of the computed triangle grow
   by at most 4u per level, those of a child are a quarter of a row's plus at
   most 3u, so D' <= D/4 + n u, fixed point 4nu/3 <= 3/16.
   ([C01_T01g_ieee_bounded_via_exact_child] is the first, weaker form, (n - 1)
   * 2^E <= 2^19, obtained by comparing with the exact child.)
   LIFTED TO WHOLE FILES (section "LAYERS (1+)2+3, hang, for whole files"
   below): the premise "coordinates finite, |x| <= 2^18" of the full statement
   IS proved of everything the parser stores
   ([C01_parsed_control_points_bounded]); the curve calls the Bezier routine
   on one segment at a time ([C01_T01g_curve_bounded_segments]); hence decoding
   any file whose sliders have <= 16 control points per SEGMENT (or fit
   max_seg_len * 2^E <= 2^22 with their own E) returns a value
   ([C01_decode_terminates_segments], [.._segments_graded], [.._segments_lines],
   [C01_decode_bytes_terminates_segments]; whole-slider forms
   [C01_decode_terminates_bounded], [.._graded], [.._bounded_lines]).
   REMAINS OPEN: segments with n * 2^E > 2^22 inside the parser's range (a
   single segment of more than 16 control points, some of them far from the
   slider head).
   The worst-case bound n u is linear
   in n and exceeds the tolerance there; the true growth is logarithmic in n
   (the 4u increments have alternating signs that the next averaging step
   cancels), not mechanised; no such segment that fails to return was found
   (probes/T01g_search: 20952 segments of 3..2000 control points around
   +-131072 / +-262144, every one returned).
   Some bound on finite coordinates is needed: from 2^22 on (spacing >= 1/2)
   there are FINITE segments on which the loop never returns
   ([C01_T01g_ieee_refuted_finite], [C01_T01g_ieee_refuted_finite_2p22],
   finding D25 extended; public API only).
   Also proved for the IEEE instance, for every fuel >= 2: *)
Theorem C01_T01g_ieee_partial :
  forall fuel path, (2 <= Pos.to_nat fuel)%nat ->
  (forall a, Curve.approximate_bezier_L1 fuel path [a] tt
             = Done (path ++ Curve.bezier_approx_pts [a] ++ [a], tt)) /\
  (forall a b, Curve.approximate_bezier_L1 fuel path [a; b] tt
               = Done (path ++ Curve.bezier_approx_pts [a; b] ++ [b], tt)) /\
  (forall points, points <> [] -> Curve.flat_enough points = true ->
     Curve.approximate_bezier_L1 fuel path points tt
     = Done (path ++ Curve.bezier_approx_pts points ++ [last points Curve.pos0], tt)).
Proof.
  intros fuel path H.
  exact (conj (fun a => BezierTermination.bezier_one_point_partial fuel path a H)
        (conj (fun a b => BezierTermination.bezier_two_points_partial fuel path a b H)
              (fun points Hne Hf => BezierTermination.bezier_flat_partial fuel path points Hne Hf H))).
Qed.
Print Assumptions C01_T01g_ieee_partial.

(* all control points equal (`B|1:1|1:1`), each coordinate finite and
   doublable without overflow: x - x * 2 + x is an exact zero, the segment is
   flat at once (binary32, by Flocq's correctness theorems) *)
From RM Require Proofs.BezierEqualPoints.

Theorem C01_T01g_ieee_equal_points_partial :
  forall fuel path p n,
  BezierEqualPoints.doubles (Curve.px p) -> BezierEqualPoints.doubles (Curve.py p) ->
  (2 <= Pos.to_nat fuel)%nat ->
  Curve.approximate_bezier_L1 fuel path (repeat p (S n)) tt
  = Done (path ++ Curve.bezier_approx_pts (repeat p (S n)) ++ [p], tt).
Proof. exact BezierEqualPoints.bezier_equal_points_partial. Qed.
Print Assumptions C01_T01g_ieee_equal_points_partial.

(* T01g for the IEEE instance, bounded control points (binary32, through
   Flocq's correctness theorems for +, -, *, /, <).  [point_ok E p]: both
   coordinates of p are finite and of magnitude <= 2^E. *)
From RM Require Proofs.BezierIEEE Proofs.BezierIEEETight.

Example C01_T01g_point_ok_means :
  forall E p,
  BezierIEEE.point_ok E p <->
  (is_finite (Curve.px p) = true /\
   (Rabs (B2R (Curve.px p)) <= Flocq.Core.Raux.bpow Flocq.Core.Zaux.radix2 E)%R) /\
  (is_finite (Curve.py p) = true /\
   (Rabs (B2R (Curve.py p)) <= Flocq.Core.Raux.bpow Flocq.Core.Zaux.radix2 E)%R).
Proof. intros E p. split; intros H; exact H. Qed.

Theorem C01_T01g_ieee_bounded :
  forall (E : Z) path points,
  0 <= E -> Z.of_nat (length points) * 2 ^ E <= 2 ^ 22 ->
  points <> [] -> Forall (BezierIEEE.point_ok E) points ->
  exists path', Curve.approximate_bezier_L1 Curve.bezier_fuel path points tt = Done (path', tt).
Proof. exact BezierIEEETight.T01g_ieee_bounded_tight. Qed.
Print Assumptions C01_T01g_ieee_bounded.

(* ... with the depth: the subdivision tree below such a segment is flat at depth 19 *)
Theorem C01_T01g_ieee_bounded_depth :
  forall (E : Z) points,
  0 <= E -> Z.of_nat (length points) * 2 ^ E <= 2 ^ 22 ->
  points <> [] -> Forall (BezierIEEE.point_ok E) points ->
  BezierTermination.within32 19 points.
Proof. exact BezierIEEETight.within32_bounded_tight. Qed.
Print Assumptions C01_T01g_ieee_bounded_depth.

(* the first form (through the exact child: each child control point is within
   (n-1)u of the exact child's, D' <= D/4 + 4(n-1)u); it also covers a single
   control point of any finite magnitude *)
Theorem C01_T01g_ieee_bounded_via_exact_child :
  forall (E : Z) path points,
  0 <= E -> Z.of_nat (length points - 1) * 2 ^ E <= 2 ^ 19 ->
  points <> [] -> Forall (BezierIEEE.point_ok E) points ->
  exists path', Curve.approximate_bezier_L1 Curve.bezier_fuel path points tt = Done (path', tt).
Proof. exact BezierIEEE.T01g_ieee_bounded. Qed.
Print Assumptions C01_T01g_ieee_bounded_via_exact_child.

(* the pieces: one computed midpoint; the children of a covered segment whose
   real second differences are bounded by D ([Inv E D]: covered coordinates,
   second differences of either coordinate list at most D); the flatness test *)
Theorem C01_T01g_ieee_midpoint :
  forall E a b, 0 <= E <= 126 ->
  BezierIEEE.coord_ok E a -> BezierIEEE.coord_ok E b ->
  BezierIEEE.coord_ok E (BezierIEEEScalar.avg1 a b) /\
  (Rabs (B2R (BezierIEEEScalar.avg1 a b) - (B2R a + B2R b) / 2) <= BezierIEEE.uE E)%R.
Proof. exact BezierIEEE.midpoint_ok. Qed.
Print Assumptions C01_T01g_ieee_midpoint.

Theorem C01_T01g_ieee_contraction :
  forall E D pts, 0 <= E <= 126 -> (0 <= D)%R -> BezierIEEE.Inv E D pts ->
  let D' := (D / 4 + INR (length pts) * BezierIEEE.uE E)%R in
  BezierIEEE.Inv E D' (fst (BezierTermination.sub32 pts)) /\
  BezierIEEE.Inv E D' (snd (BezierTermination.sub32 pts)).
Proof. exact BezierIEEETight.contraction_tight_ok. Qed.
Print Assumptions C01_T01g_ieee_contraction.

Theorem C01_T01g_ieee_flat_test :
  forall E D pts, 0 <= E <= 100 -> BezierIEEE.Inv E D pts ->
  (D + Flocq.Core.Raux.bpow Flocq.Core.Zaux.radix2 (E - 23) <= 11 / 32)%R ->
  Curve.flat_enough pts = true.
Proof. exact BezierIEEETight.flat_test_gen_ok. Qed.
Print Assumptions C01_T01g_ieee_flat_test.

(* not vacuous: what the line
   `0,0,0,2,0,B|131072:-131072|-131072:131072|131072:131072,1,100` decodes to --
   four control points within +-2^17 (4 * 2^17 <= 2^22), far from flat *)
Example C01_T01g_ieee_bounded_example :
  map Curve.dump_pos BezierIEEE.ex_seg
    = [[0; 0]; [1207959552; 3355443200]; [3355443200; 1207959552]; [1207959552; 1207959552]] /\
  Curve.flat_enough BezierIEEE.ex_seg = false /\
  Forall (BezierIEEE.point_ok 17) BezierIEEE.ex_seg /\
  Z.of_nat (length BezierIEEE.ex_seg) * 2 ^ 17 <= 2 ^ 22 /\
  (forall path, exists path',
     Curve.approximate_bezier_L1 Curve.bezier_fuel path BezierIEEE.ex_seg tt = Done (path', tt)).
Proof.
  split; [exact BezierIEEE.ex_seg_dump|]. split; [exact BezierIEEE.ex_seg_not_flat|].
  split; [exact BezierIEEE.ex_seg_ok|]. split; [vm_compute; discriminate|].
  exact BezierIEEETight.ex_seg_terminates_tight.
Qed.

(* hence Curve::new / BorrowedCurve::new (pure level) return a value for every
   slider of n control points within +-2^E with n * 2^E <= 2^22, any segment
   kinds, mode and requested length, for every libm whose atan2 has its values
   in [-PI, PI]: calculate_path hands contiguous slices of the control points
   to the Bezier routine, and a slice of covered points is covered *)
From RM Require Proofs.BezierIEEECurve.

Theorem C01_T01g_curve_bounded :
  forall lm mode pts e (E : Z),
  ThetaLoop.atan2_in_range lm -> 0 <= E ->
  Z.of_nat (length pts) * 2 ^ E <= 2 ^ 22 ->
  Forall (fun p => BezierIEEE.point_ok E (Curve.pc_pos p)) pts ->
  exists c, Curve.curve_L1 lm Curve.bezier_fuel mode pts e = Done c.
Proof. exact BezierIEEECurve.curve_L1_bounded. Qed.
Print Assumptions C01_T01g_curve_bounded.

(* ------------------------------------------------------------------ *)
(* LAYERS (1+)2+3, "hang", for whole files                              *)
(* The fuel-bearing loops on the decode path, and where each is closed: *)
(*   reader: read_until / read_exact / read_bom / read_extra /           *)
(*     read_line_loop / lines_loop -- a value or an Err, never out of     *)
(*     fuel, for every reader state (C08_total =                          *)
(*     ReaderFacts.read_all_lines_ok; [C01_read_line_loop_total]; a       *)
(*     value for every faultless schedule,                                *)
(*     [C01_faultless_reader_never_fails]); the UTF-8 lossy loop          *)
(*     (EncodingFacts.decode_utf8_lossy_spec, used by those);             *)
(*   framing: the outer `loop` of decode ([C01_framing_fuel]);            *)
(*   hit-object line: the two index loops of convert_path_str /           *)
(*     convert_points (fuel = length + 1; [C01_no_panic_hit_object_line]  *)
(*     returns Done for every state and line);                            *)
(*   binary searches of ControlPoints (bs_loop: fuel = length, returns    *)
(*     an index in every case; C13); replace_sub_aux (Text.v) and         *)
(*     ndigits_aux (Num.v) likewise return plain values;                  *)
(*   curve: the theta loop ([C01_theta_loop_terminates], under            *)
(*     [atan2_in_range]) and the Bezier subdivision -- the only one left  *)
(*     ([C01_curve_fails_only_in_bezier], [C01_decode_never_panics]).     *)
(* So a decode returns a value as soon as every slider curve it computes  *)
(* is inside [C01_T01g_curve_bounded].  That is a fact about the PARSER:  *)

From RM Require Proofs.DecodeTerminatesPoints Proofs.DecodeTerminates Proofs.DecodeTerminatesLines
     Proofs.DecodeTerminatesExamples.

Example pin_max_coordinate_value : max_coordinate_value = 131072.
Proof. reflexivity. Qed.

(* the hit objects the parsers have collected after a list of lines (the
   state the finishing conversion starts from) *)
Example C01_parsed_means :
  forall lines,
  DecodeTerminates.ho_parsed lines =
    match state_after (fun _ => Done hod_create) ho_parsers lines with
    | Done s => hod_objects s | _ => [] end /\
  DecodeTerminates.bm_parsed lines =
    match state_after (fun v => Done (bmd_create v)) bm_parsers lines with
    | Done s => hod_objects (bmd_ho s) | _ => [] end /\
  (forall dist_of,
     decode_hit_objects dist_of lines
       = obind (state_after (fun _ => Done hod_create) ho_parsers lines) (hod_finish dist_of) /\
     decode_beatmap dist_of lines
       = obind (state_after (fun v => Done (bmd_create v)) bm_parsers lines) (bmd_finish dist_of)).
Proof.
  intros lines. split; [reflexivity|]. split; [reflexivity|]. intros dist_of.
  exact (conj (DecodeTerminates.decode_hit_objects_state dist_of lines)
              (DecodeTerminates.decode_beatmap_state dist_of lines)).
Qed.

(* PARSER BOUND.  After ANY list of lines (rejected and malformed lines
   included), every control point of every slider the parsers hold is finite
   and within +-2^18 = 2 * MAX_COORDINATE_VALUE in both coordinates: the head
   and the absolute point are integers within +-131072, their binary32
   difference is exact.  ([obj_points_ok E h]: every control point of a slider
   h is [BezierIEEE.point_ok E] after the conversion to the curve's points.) *)
Theorem C01_parsed_control_points_bounded :
  forall lines,
  Forall (DecodeTerminates.obj_points_ok 18) (DecodeTerminates.ho_parsed lines) /\
  Forall (DecodeTerminates.obj_points_ok 18) (DecodeTerminates.bm_parsed lines).
Proof. exact DecodeTerminates.parsed_points_ok. Qed.
Print Assumptions C01_parsed_control_points_bounded.

Example C01_obj_points_ok_means :
  forall E h,
  DecodeTerminates.obj_points_ok E h =
  match h_kind h with
  | KSlider s => Forall (fun p => BezierIEEE.point_ok E (conv_pos (cp_pos p))) (sl_control_points s)
  | _ => True
  end.
Proof. reflexivity. Qed.

(* ... and it is carried through the finishing conversion (stable sort, break
   pass, per-object loop): the same of every decoded value, for any [dist_of] *)
Theorem C01_decoded_control_points_bounded :
  forall dist_of lines,
  (forall hv, decode_hit_objects dist_of lines = Done hv ->
     Forall (DecodeTerminates.obj_points_ok 18) (hov_hit_objects hv)) /\
  (forall bv, decode_beatmap dist_of lines = Done bv ->
     Forall (DecodeTerminates.obj_points_ok 18) (hov_hit_objects (bmv_ho bv))).
Proof.
  intros dist_of lines.
  exact (conj (DecodeTerminates.decoded_points_ok_hit_objects dist_of lines)
              (DecodeTerminates.decoded_points_ok_beatmap dist_of lines)).
Qed.
Print Assumptions C01_decoded_control_points_bounded.

(* the conditions on a slider of the parser state are booleans; as propositions: *)
Example C01_obj_cps_le_means :
  forall n h,
  DecodeTerminates.obj_cps_le n h = true <->
  match h_kind h with KSlider s => (length (sl_control_points s) <= n)%nat | _ => True end.
Proof. exact DecodeTerminates.obj_cps_le_spec. Qed.

Example C01_obj_fits_means :
  forall h,
  DecodeTerminates.obj_fits_some h = true <->
  exists E,
  match h_kind h with
  | KSlider s =>
      0 <= E <= 22 /\ Z.of_nat (length (sl_control_points s)) * 2 ^ E <= 2 ^ 22 /\
      Forall (fun p => Z.abs (f32_as_i32 (px (cp_pos p))) <= 2 ^ E /\
                       Z.abs (f32_as_i32 (py (cp_pos p))) <= 2 ^ E) (sl_control_points s)
  | _ => True
  end.
Proof.
  intros h. rewrite DecodeTerminates.obj_fits_some_spec.
  split; intros (E & H); exists E; apply DecodeTerminates.obj_fits_spec; exact H.
Qed.

(* DECODE TERMINATES (never OutOfFuel, never Panic, with the pinned fuels):
   every list of lines in which every parsed slider has at most 16 control
   points -- anywhere in the parser's coordinate range -- decodes to a value,
   for both decoders that compute curves, for every libm record whose atan2
   has its values in [-PI, PI] (or NaN). *)
Theorem C01_decode_terminates_bounded :
  forall lm, ThetaLoop.atan2_in_range lm -> forall lines,
  (Forall (fun h => DecodeTerminates.obj_cps_le 16 h = true) (DecodeTerminates.ho_parsed lines) ->
   exists hv, decode_hit_objects (dist_of_curve lm) lines = Done hv) /\
  (Forall (fun h => DecodeTerminates.obj_cps_le 16 h = true) (DecodeTerminates.bm_parsed lines) ->
   exists bv, decode_beatmap (dist_of_curve lm) lines = Done bv).
Proof. exact DecodeTerminates.decode_terminates_bounded. Qed.
Print Assumptions C01_decode_terminates_bounded.

(* graded: n control points inside +-2^E of the slider head, n * 2^E <= 2^22
   (<= 16384 within +-256, <= 1024 within +-4096, <= 64 within +-65536 ...),
   E chosen per slider; the coordinates are read off the state *)
Theorem C01_decode_terminates_graded :
  forall lm, ThetaLoop.atan2_in_range lm -> forall lines,
  (Forall (fun h => DecodeTerminates.obj_fits_some h = true) (DecodeTerminates.ho_parsed lines) ->
   exists hv, decode_hit_objects (dist_of_curve lm) lines = Done hv) /\
  (Forall (fun h => DecodeTerminates.obj_fits_some h = true) (DecodeTerminates.bm_parsed lines) ->
   exists bv, decode_beatmap (dist_of_curve lm) lines = Done bv).
Proof. exact DecodeTerminates.decode_terminates_graded. Qed.
Print Assumptions C01_decode_terminates_graded.

(* the same as a DECIDABLE CONDITION ON THE INPUT: a slider has at most as
   many control points as its path field has `|`-separated pieces, so it is
   enough that the sixth comma-separated field of every line of the file has at
   most 16 pieces ([lines_fit 16]; lines of other sections and rejected lines
   included -- a sufficient condition, checked without parsing a number) *)
Example C01_lines_fit_means :
  forall n lines,
  DecodeTerminatesLines.lines_fit n lines =
  forallb (fun line =>
    Nat.leb (length (split_on 124 (odflt [] (nth_error (skipn 5 (split_on 44 (trim_comment line))) 0)))) n)
    lines.
Proof. reflexivity. Qed.

Theorem C01_parsed_control_point_count :
  forall n lines, DecodeTerminatesLines.lines_fit n lines = true ->
  Forall (fun h => DecodeTerminates.obj_cps_le n h = true) (DecodeTerminates.ho_parsed lines) /\
  Forall (fun h => DecodeTerminates.obj_cps_le n h = true) (DecodeTerminates.bm_parsed lines).
Proof. exact DecodeTerminatesLines.parsed_cps_le. Qed.
Print Assumptions C01_parsed_control_point_count.

Theorem C01_decode_terminates_bounded_lines :
  forall lm, ThetaLoop.atan2_in_range lm -> forall lines, DecodeTerminatesLines.lines_fit 16 lines = true ->
  (exists hv, decode_hit_objects (dist_of_curve lm) lines = Done hv) /\
  (exists bv, decode_beatmap (dist_of_curve lm) lines = Done bv).
Proof. exact DecodeTerminatesLines.decode_terminates_lines. Qed.
Print Assumptions C01_decode_terminates_bounded_lines.

(* with LAYER 1: every reader state (bytes, buffered part, schedule of chunks
   / Interrupted / failures) that delivers such lines, and from_bytes on an
   in-memory buffer (whose lines are those the bytes determine,
   [C01_from_bytes_lines]): a value -- no Err, no panic, not out of fuel *)
Theorem C01_decode_reader_terminates_bounded :
  forall lm, ThetaLoop.atan2_in_range lm -> forall r lines,
  read_all_lines r = IoDone lines -> DecodeTerminatesLines.lines_fit 16 lines = true ->
  (exists v, io_bind (read_all_lines r)
               (fun ls => io_of_outcome (decode_hit_objects (dist_of_curve lm) ls)) = IoDone v) /\
  (exists v, io_bind (read_all_lines r)
               (fun ls => io_of_outcome (decode_beatmap (dist_of_curve lm) ls)) = IoDone v).
Proof. exact DecodeTerminatesLines.decode_reader_terminates_lines. Qed.
Print Assumptions C01_decode_reader_terminates_bounded.

Theorem C01_decode_bytes_terminates_bounded :
  forall lm (b : bytes), ThetaLoop.atan2_in_range lm ->
  exists lines, read_all_lines (mk_reader b []) = IoDone lines /\
  (DecodeTerminatesLines.lines_fit 16 lines = true ->
   (exists v, decode_bytes_hit_objects (dist_of_curve lm) b = IoDone v) /\
   (exists v, decode_bytes_beatmap (dist_of_curve lm) b = IoDone v)) /\
  (Forall (fun h => DecodeTerminates.obj_fits_some h = true) (DecodeTerminates.bm_parsed lines) ->
   exists v, decode_bytes_beatmap (dist_of_curve lm) b = IoDone v) /\
  (Forall (fun h => DecodeTerminates.obj_fits_some h = true) (DecodeTerminates.ho_parsed lines) ->
   exists v, decode_bytes_hit_objects (dist_of_curve lm) b = IoDone v).
Proof.
  intros lm b Hlm.
  destruct (DecodeTerminatesLines.decode_bytes_terminates_lines lm Hlm b) as (lines & E & H).
  destruct (DecodeTerminates.decode_bytes_fits lm Hlm b) as (lines' & E' & H').
  rewrite E in E'. injection E' as <-. exists lines. exact (conj E (conj H H')).
Qed.
Print Assumptions C01_decode_bytes_terminates_bounded.

(* not vacuous, at the limits.  A file with the slider line
     -131072,-131072,0,2,0,B|131072:131072|-131072:131072|131072:-131072|...(15 points),1,100
   -- head at the coordinate limit, 16 control points, the farthest exactly
   2^18 from the head in both coordinates -- satisfies the input condition and
   the state condition (E = 18, no smaller E), so it decodes to a value for
   every libm with atan2 in range; also as bytes through the reader *)
Example C01_decode_terminates_example_16 :
  DecodeTerminatesLines.lines_fit 16 DecodeTerminatesExamples.ex16_lines = true /\
  DecodeTerminatesLines.lines_fit 15 DecodeTerminatesExamples.ex16_lines = false /\
  DecodeTerminatesExamples.parsed_coords (DecodeTerminates.bm_parsed DecodeTerminatesExamples.ex16_lines)
  = [[(0, 0); (262144, 262144); (0, 262144); (262144, 0); (262144, 262144); (0, 262144); (262144, 0);
      (262144, 262144); (0, 262144); (262144, 0); (262144, 262144); (0, 262144); (262144, 0);
      (262144, 262144); (0, 262144); (262144, 0)]] /\
  map (DecodeTerminates.obj_cps_le 16) (DecodeTerminates.bm_parsed DecodeTerminatesExamples.ex16_lines) = [true] /\
  map (DecodeTerminates.obj_fits 18) (DecodeTerminates.bm_parsed DecodeTerminatesExamples.ex16_lines) = [true] /\
  map (DecodeTerminates.obj_fits 17) (DecodeTerminates.bm_parsed DecodeTerminatesExamples.ex16_lines) = [false] /\
  read_all_lines (mk_reader DecodeTerminatesExamples.ex16_bytes []) = IoDone DecodeTerminatesExamples.ex16_lines /\
  (forall lm, ThetaLoop.atan2_in_range lm ->
     (exists hv, decode_hit_objects (dist_of_curve lm) DecodeTerminatesExamples.ex16_lines = Done hv) /\
     (exists bv, decode_beatmap (dist_of_curve lm) DecodeTerminatesExamples.ex16_lines = Done bv) /\
     (exists v, decode_bytes_beatmap (dist_of_curve lm) DecodeTerminatesExamples.ex16_bytes = IoDone v)).
Proof.
  destruct DecodeTerminatesExamples.ex16_lines_fit as [L16 L15].
  destruct DecodeTerminatesExamples.ex16_parsed as (P1 & P2 & _ & P4 & P5 & _).
  repeat (split; [assumption|]). split; [exact DecodeTerminatesExamples.ex16_bytes_lines|].
  intros lm Hlm. destruct (DecodeTerminatesExamples.ex16_decodes lm Hlm) as [H1 H2].
  destruct (DecodeTerminatesExamples.ex16_bytes_decode lm Hlm) as [_ H3].
  exact (conj H1 (conj H2 H3)).
Qed.

(* a slider of 24 control points inside +-4096 of its head: outside the
   16-point rule, inside the graded one (24 * 2^12 <= 2^22) *)
Example C01_decode_terminates_example_graded :
  map (DecodeTerminates.obj_cps_le 16) (DecodeTerminates.bm_parsed DecodeTerminatesExamples.ex24_lines) = [false] /\
  map (DecodeTerminates.obj_fits 12) (DecodeTerminates.bm_parsed DecodeTerminatesExamples.ex24_lines) = [true] /\
  map DecodeTerminates.obj_fits_some (DecodeTerminates.bm_parsed DecodeTerminatesExamples.ex24_lines) = [true] /\
  (forall lm, ThetaLoop.atan2_in_range lm ->
     (exists hv, decode_hit_objects (dist_of_curve lm) DecodeTerminatesExamples.ex24_lines = Done hv) /\
     (exists bv, decode_beatmap (dist_of_curve lm) DecodeTerminatesExamples.ex24_lines = Done bv)).
Proof.
  destruct DecodeTerminatesExamples.ex24_parsed as (_ & _ & P3 & P4 & _ & P6 & _).
  repeat (split; [assumption|]). exact DecodeTerminatesExamples.ex24_decodes.
Qed.

(* PER SEGMENT.  calculate_path hands the Bezier routine one segment at a
   time: the control points from one typed point to the next, both included
   ([untyped_between]: no typed point strictly between the two indices is the
   loop invariant).  So the count may be taken per segment, each with an E of
   its own: *)
From RM Require Model.HitObjectSpec Proofs.DecodeTerminatesSegLoop Proofs.DecodeTerminatesSegments
     Proofs.DecodeTerminatesSegLines.

Theorem C01_T01g_curve_bounded_segments :
  forall lm mode pts e,
  ThetaLoop.atan2_in_range lm ->
  (forall start i, (start <= i < length pts)%nat ->
     DecodeTerminatesSegLoop.untyped_between pts start i ->
     exists E, 0 <= E /\
       Forall (BezierIEEE.point_ok E) (firstn (S i - start) (skipn start (map Curve.pc_pos pts))) /\
       Z.of_nat (length (firstn (S i - start) (skipn start (map Curve.pc_pos pts)))) * 2 ^ E <= 2 ^ 22) ->
  exists c, Curve.curve_L1 lm Curve.bezier_fuel mode pts e = Done c.
Proof. exact DecodeTerminatesSegLoop.curve_L1_bounded_seg. Qed.
Print Assumptions C01_T01g_curve_bounded_segments.

(* [max_seg_len cps]: the longest run of untyped control points strictly inside
   the list plus its two end points, never more than the whole list -- a bound
   on every slice the curve can take *)
Example C01_max_seg_len_means :
  (forall cps, DecodeTerminatesSegments.max_seg_len cps
     = Nat.min (length cps) (DecodeTerminatesSegments.max_untyped_run (removelast cps) + 2)) /\
  (forall l a b, (a <= b <= length l)%nat ->
     (forall j, (a <= j < b)%nat -> exists p, nth_error l j = Some p /\ cp_type p = None) ->
     (b - a <= DecodeTerminatesSegments.max_untyped_run l)%nat) /\
  (forall cps start i, (start <= i < length cps)%nat ->
     DecodeTerminatesSegLoop.untyped_between (map conv_pcp cps) start i ->
     (S i - start <= DecodeTerminatesSegments.max_seg_len cps)%nat) /\
  (forall cps, (DecodeTerminatesSegments.max_seg_len cps <= length cps)%nat).
Proof.
  split; [reflexivity|]. split; [|split].
  - intros l a b Hab Hb. exact (proj1 (DecodeTerminatesSegments.run_scan_block l 0 0 a b Hab Hb)).
  - exact DecodeTerminatesSegments.seg_slice_length.
  - exact DecodeTerminatesSegments.max_seg_len_le.
Qed.

Example C01_obj_seg_means :
  (forall n h,
     DecodeTerminatesSegments.obj_seg_le n h = true <->
     match h_kind h with
     | KSlider s => (DecodeTerminatesSegments.max_seg_len (sl_control_points s) <= n)%nat
     | _ => True end) /\
  (forall h,
     DecodeTerminatesSegments.obj_seg_fits_some h = true <->
     exists E,
     match h_kind h with
     | KSlider s =>
         0 <= E <= 22 /\
         Z.of_nat (DecodeTerminatesSegments.max_seg_len (sl_control_points s)) * 2 ^ E <= 2 ^ 22 /\
         Forall (fun p => Z.abs (f32_as_i32 (px (cp_pos p))) <= 2 ^ E /\
                          Z.abs (f32_as_i32 (py (cp_pos p))) <= 2 ^ E) (sl_control_points s)
     | _ => True
     end) /\
  (* the whole-slider conditions are special cases *)
  (forall h, DecodeTerminates.obj_fits_some h = true -> DecodeTerminatesSegments.obj_seg_fits_some h = true).
Proof.
  split; [exact DecodeTerminatesSegments.obj_seg_le_spec|]. split.
  - intros h. rewrite DecodeTerminatesSegments.obj_seg_fits_some_spec.
    split; intros (E & H); exists E; apply DecodeTerminatesSegments.obj_seg_fits_spec; exact H.
  - exact DecodeTerminatesSegments.obj_fits_some_seg.
Qed.

(* DECODE TERMINATES, per segment: at most 16 control points in every segment
   of every parsed slider (any number of segments, anywhere in the parser's
   range); graded: max_seg_len * 2^E <= 2^22 with the slider inside +-2^E *)
Theorem C01_decode_terminates_segments :
  forall lm, ThetaLoop.atan2_in_range lm -> forall lines,
  (Forall (fun h => DecodeTerminatesSegments.obj_seg_le 16 h = true) (DecodeTerminates.ho_parsed lines) ->
   exists hv, decode_hit_objects (dist_of_curve lm) lines = Done hv) /\
  (Forall (fun h => DecodeTerminatesSegments.obj_seg_le 16 h = true) (DecodeTerminates.bm_parsed lines) ->
   exists bv, decode_beatmap (dist_of_curve lm) lines = Done bv).
Proof. exact DecodeTerminatesSegments.decode_terminates_segments. Qed.
Print Assumptions C01_decode_terminates_segments.

Theorem C01_decode_terminates_segments_graded :
  forall lm, ThetaLoop.atan2_in_range lm -> forall lines,
  (Forall (fun h => DecodeTerminatesSegments.obj_seg_fits_some h = true) (DecodeTerminates.ho_parsed lines) ->
   exists hv, decode_hit_objects (dist_of_curve lm) lines = Done hv) /\
  (Forall (fun h => DecodeTerminatesSegments.obj_seg_fits_some h = true) (DecodeTerminates.bm_parsed lines) ->
   exists bv, decode_beatmap (dist_of_curve lm) lines = Done bv).
Proof. exact DecodeTerminatesSegments.decode_terminates_segments_graded. Qed.
Print Assumptions C01_decode_terminates_segments_graded.

Theorem C01_decode_bytes_terminates_segments :
  forall lm, ThetaLoop.atan2_in_range lm -> forall b : bytes,
  exists lines, read_all_lines (mk_reader b []) = IoDone lines /\
  (Forall (fun h => DecodeTerminatesSegments.obj_seg_fits_some h = true) (DecodeTerminates.bm_parsed lines) ->
   exists v, decode_bytes_beatmap (dist_of_curve lm) b = IoDone v) /\
  (Forall (fun h => DecodeTerminatesSegments.obj_seg_fits_some h = true) (DecodeTerminates.ho_parsed lines) ->
   exists v, decode_bytes_hit_objects (dist_of_curve lm) b = IoDone v).
Proof. exact DecodeTerminatesSegments.decode_bytes_segments. Qed.
Print Assumptions C01_decode_bytes_terminates_segments.

(* ... and as a decidable condition on the input: in the path field
   `B|p|p|..|L|q|..` a piece that starts with an ASCII letter opens a segment;
   the longest run of untyped control points is at most the longest run of
   pieces that do not start with a letter ([max_piece_run]), whatever the
   points are.  [lines_seg_fit]: the path field of every line has at most 16
   pieces, or all its runs of point pieces are at most 14 long. *)
Example C01_lines_seg_fit_means :
  (forall lines,
     DecodeTerminatesSegLines.lines_seg_fit lines =
     forallb (fun line =>
       let field := odflt [] (nth_error (skipn 5 (split_on 44 (trim_comment line))) 0) in
       Nat.leb (length (split_on 124 field)) 16 ||
       Nat.leb (DecodeTerminatesSegLines.max_piece_run field) 14) lines) /\
  (forall s,
     DecodeTerminatesSegLines.max_piece_run s =
     match split_on 124 s with [] => 0%nat | _ :: rest => DecodeTerminatesSegLines.piece_runs 0 rest end) /\
  (forall cur, DecodeTerminatesSegLines.piece_runs cur [] = cur) /\
  (forall cur c t r,
     DecodeTerminatesSegLines.piece_runs cur ((c :: t) :: r) =
     if is_ascii_alpha c then Nat.max cur (DecodeTerminatesSegLines.piece_runs 0 r)
     else DecodeTerminatesSegLines.piece_runs (S cur) r) /\
  (forall lines, DecodeTerminatesLines.lines_fit 16 lines = true ->
     DecodeTerminatesSegLines.lines_seg_fit lines = true).
Proof.
  split; [reflexivity|]. split; [reflexivity|]. split; [reflexivity|]. split; [reflexivity|].
  exact DecodeTerminatesSegLines.lines_fit_seg_fit.
Qed.

(* what the path string gives, for every string and slider head *)
Theorem C01_path_string_runs :
  forall s offset a b,
  (a <= b <= length (fst (HitObjectSpec.path_spec s offset)))%nat ->
  (forall j, (a <= j < b)%nat ->
     exists p, nth_error (fst (HitObjectSpec.path_spec s offset)) j = Some p /\ cp_type p = None) ->
  (b - a <= DecodeTerminatesSegLines.max_piece_run s)%nat.
Proof. exact DecodeTerminatesSegLines.path_spec_runs. Qed.
Print Assumptions C01_path_string_runs.

Theorem C01_decode_terminates_segments_lines :
  forall lm, ThetaLoop.atan2_in_range lm -> forall lines,
  DecodeTerminatesSegLines.lines_seg_fit lines = true ->
  (exists hv, decode_hit_objects (dist_of_curve lm) lines = Done hv) /\
  (exists bv, decode_beatmap (dist_of_curve lm) lines = Done bv).
Proof. exact DecodeTerminatesSegLines.decode_terminates_seg_lines. Qed.
Print Assumptions C01_decode_terminates_segments_lines.

Theorem C01_decode_reader_terminates_segments_lines :
  forall lm, ThetaLoop.atan2_in_range lm -> forall r lines,
  read_all_lines r = IoDone lines -> DecodeTerminatesSegLines.lines_seg_fit lines = true ->
  (exists v, io_bind (read_all_lines r)
               (fun ls => io_of_outcome (decode_hit_objects (dist_of_curve lm) ls)) = IoDone v) /\
  (exists v, io_bind (read_all_lines r)
               (fun ls => io_of_outcome (decode_beatmap (dist_of_curve lm) ls)) = IoDone v).
Proof. exact DecodeTerminatesSegLines.decode_reader_terminates_seg_lines. Qed.
Print Assumptions C01_decode_reader_terminates_segments_lines.

Theorem C01_decode_bytes_terminates_segments_lines :
  forall lm, ThetaLoop.atan2_in_range lm -> forall b : bytes,
  exists lines, read_all_lines (mk_reader b []) = IoDone lines /\
  (DecodeTerminatesSegLines.lines_seg_fit lines = true ->
   (exists v, decode_bytes_hit_objects (dist_of_curve lm) b = IoDone v) /\
   (exists v, decode_bytes_beatmap (dist_of_curve lm) b = IoDone v)).
Proof. exact DecodeTerminatesSegLines.decode_bytes_terminates_seg_lines. Qed.
Print Assumptions C01_decode_bytes_terminates_segments_lines.

(* not vacuous: a slider of three Bezier segments of 14 point pieces each, all
   at the coordinate limits -- 43 control points, 16 in the longest segment:
   outside every whole-slider rule (43 * 2^18 > 2^22), inside the per-segment
   one, on the input and on the state *)
Example C01_decode_terminates_example_segments :
  DecodeTerminatesSegLines.lines_seg_fit DecodeTerminatesExamples.ex43_lines = true /\
  DecodeTerminatesLines.lines_fit 16 DecodeTerminatesExamples.ex43_lines = false /\
  map (fun x => (fst (fst x), snd (fst x)))
      (DecodeTerminatesExamples.parsed_shape (DecodeTerminates.bm_parsed DecodeTerminatesExamples.ex43_lines))
    = [(43%nat, 16%nat)] /\
  map (DecodeTerminatesSegments.obj_seg_le 16) (DecodeTerminates.bm_parsed DecodeTerminatesExamples.ex43_lines) = [true] /\
  map (DecodeTerminatesSegments.obj_seg_le 15) (DecodeTerminates.bm_parsed DecodeTerminatesExamples.ex43_lines) = [false] /\
  map DecodeTerminates.obj_fits_some (DecodeTerminates.bm_parsed DecodeTerminatesExamples.ex43_lines) = [false] /\
  (forall lm, ThetaLoop.atan2_in_range lm ->
     (exists hv, decode_hit_objects (dist_of_curve lm) DecodeTerminatesExamples.ex43_lines = Done hv) /\
     (exists bv, decode_beatmap (dist_of_curve lm) DecodeTerminatesExamples.ex43_lines = Done bv)).
Proof.
  destruct DecodeTerminatesExamples.ex43_lines_fit as [L1 L2].
  destruct DecodeTerminatesExamples.ex43_parsed as (P1 & _ & P3 & P4 & _ & _ & P7 & _).
  repeat (split; [assumption|]). exact DecodeTerminatesExamples.ex43_decodes.
Qed.

(* a slider line of a real map (resources/Within Temptation - The Unforgiving
   (Armin) [Marathon].osu): one type letter, 59 point pieces, two doubled points
   (red anchors) that split it into three segments -- 58 control points, 26 in
   the longest segment, within +-256 of the head.  Outside the number-free input
   condition (a run of 59 pieces), inside the graded per-segment one with a wide
   margin (26 * 2^8 against 2^22).  The state-side conditions are booleans
   computed from the input lines by the PARSER model alone (no curve), so they
   too are decidable conditions on the input.  (All 2828 slider lines of the 44
   .osu files under /repo/resources satisfy the graded per-segment condition,
   the largest product being 58 * 2^10; counted outside Coq,
   probes/C01_decode_cover.) *)
Example C01_decode_terminates_example_real_line :
  DecodeTerminatesSegLines.lines_seg_fit DecodeTerminatesExamples.ex_real_lines = false /\
  map (fun x => (fst (fst x), snd (fst x)))
      (DecodeTerminatesExamples.parsed_shape (DecodeTerminates.bm_parsed DecodeTerminatesExamples.ex_real_lines))
    = [(58%nat, 26%nat)] /\
  map (DecodeTerminatesSegments.obj_seg_fits 8) (DecodeTerminates.bm_parsed DecodeTerminatesExamples.ex_real_lines) = [true] /\
  map (DecodeTerminatesSegments.obj_seg_fits 7) (DecodeTerminates.bm_parsed DecodeTerminatesExamples.ex_real_lines) = [false] /\
  map DecodeTerminatesSegments.obj_seg_fits_some (DecodeTerminates.bm_parsed DecodeTerminatesExamples.ex_real_lines) = [true] /\
  (forall lm, ThetaLoop.atan2_in_range lm ->
     (exists hv, decode_hit_objects (dist_of_curve lm) DecodeTerminatesExamples.ex_real_lines = Done hv) /\
     (exists bv, decode_beatmap (dist_of_curve lm) DecodeTerminatesExamples.ex_real_lines = Done bv)).
Proof.
  destruct DecodeTerminatesExamples.ex_real_parsed as (P1 & P2 & _ & P4 & P5 & P6 & _).
  repeat (split; [assumption|]). exact DecodeTerminatesExamples.ex_real_decodes.
Qed.

(* the hypothesis on atan2 is satisfiable (and needed: [C01_theta_loop_hostile_atan2]) *)
Example C01_atan2_in_range_inhabited :
  ThetaLoop.atan2_in_range (Curve.mkLibm (fun x => x) (fun x => x) (fun _ _ => D.zero) (fun x => x)).
Proof. exact ThetaLoop.atan2_in_range_inhabited. Qed.

(* ------------------------------------------------------------------ *)
(* LAYER 4: re-encoding                                                 *)
(* ------------------------------------------------------------------ *)
(* "Re-encoding any map obtained this way also completes and yields valid
   UTF-8 text.  An error result can only originate from a failure reported by
   the underlying ... writer."

   Objects: [encode_tokens dist_of events_of m] is Model/Encode.v
   (`Beatmap::encode`, function by function); the parameters are the curve
   ([DrvEnc.dist_real lm] = [dist_of_curve lm], any libm record) and
   `SliderEventsIter::new(..).collect()` ([EncodeTotal.events_with chk fuel tf]
   = Model/SliderEvents.v, binary64, either integer-overflow mode, explicit
   fuel; Model/DrvEnc.v's [events_real] is [events_with false 10^6 10^6]).

   PROVED, for every libm record, every list of lines and every map decoded
   from it:
   (4a) shape of a decoded map; the encoder can fail ONLY inside the two
        SliderEventsIter::new(..).collect() calls of collect_samples (osu! and
        catch maps): add_path_data's indexing (`control_points[i-1]`, `[i-2]`,
        `len() - 1`: the model's loop reads them only for i >= 2 resp. i >= 1),
        `node_samples[i]` (guarded by `i < len`), `0..=span_count as usize`
        (repeat_count >= 0), `.max().unwrap()` (non-empty slice), the lookups
        behind binary searches and `ControlPoints::add` on the cloned, sorted
        collection, the curve (it returned a value for the very same arguments
        while decoding), float division / recip / `as` casts (total) all
        return.
   (4b) PANIC.  new() panics iff the curve distance is negative (C20 / D18).
        The distance of a decoded slider is 0, the requested length (> 0), or
        the natural length; a negative distance needs a NEGATIVE osu!-mode
        Catmull surplus.  Hence no panic for taiko / mania maps, for maps
        without an osu!-mode Catmull slider, and whenever the surplus of every
        slider is not negative; and a panic, if any, is the D18 panic of a
        concrete slider ([C01_encode_panic_is_D18]).
        The surplus -- a sum of differences
        `len_removed_since_start - dist_from_start` of ROUNDED f32 distances,
        non-negative over the reals (C16 T16c) but negative by rounding on
        concrete inputs -- cannot drive the FINAL cumulative length below
        zero when the Catmull sub-paths are bounded and free of underflow
        ([C01_curve_dist_nonneg_bounded]: every group of removed points adds
        r - d to the surplus and a segment of the very same binary32 length
        d to the path, and d <= 4 r, so the surplus takes at most 76% of the
        sum the running sum is going to add).
        NOT PROVED (full statement [C01_encode_never_panics], below in a
        comment): the same without those bounds.  See the note at
        [C01_encode_never_panics_partial].
   (4c) FUEL ("completes").  OutOfFuel only out of the slider-event calls, and
        there only through the tick loop or the event count
        ([C01_events_fuel_cases]); binary64 bound: a tick distance >= 2^-k
        gives at most 100000 * 2^k ticks per span ([C01_tick_loop_bound]),
        a tick distance clamped to the length itself at most one.  For a
        DECODED map every tick distance is +inf or finite and >= 2^-25 (the
        clamps: beat length in [6, 60000], slider velocity in [0.1, 10],
        multiplier in [0.4, 3.6], tick rate in [0.5, 8], pushed through
        slider.velocity = 100 * SM / (beat_len * m) in binary64 between powers
        of two; the true minimum, reached by a decoded map, is 0.5).  Hence:
        for EVERY decoded map the encoder never returns OutOfFuel once the
        fuel exceeds 3 + 9000 * (100000 * 2^25 + 1)
        ([C01_encode_never_out_of_fuel], no hypothesis), and outside the class
        of (4b) it returns its token stream ([C01_encode_completes]).
        Model/DrvEnc.v's fixed fuel 10^6 is below that bound (and below the
        1.8 * 10^9 events a 27-byte slider line can really cost: 9000 repeats,
        length 100000, tick distance 0.5 -- about 16 s of encode time per such
        line on the crate; it completes, the harness watchdog is 15 s).
   (4d) UTF-8.  Every string a decoder stores is built from characters of the
        input lines (and '/'), every line the reader produces from u8 bytes
        is a sequence of Unicode scalar values, every token the encoder emits
        is such a string or a number; with `Display` producing Rust Strings
        (hypothesis [fmt_scalar] on the formatting oracle) the written bytes
        are the UTF-8 encoding of a text and `String::from_utf8` in
        encode_to_string cannot fail.
   (4e) WRITER.  Err(k) from `Beatmap::encode` needs a first failing write
        event with fault k (an error, or Ok(0) = WriteZero) or a failing
        flush; for every chunking of the output. *)
From RM Require Import Model.Encode Model.Render Proofs.EncodingFacts Proofs.ReaderFacts.
From RM Require Proofs.FloatNonneg Proofs.CurveDistNonneg Proofs.DecodedObjects Proofs.EncodeTotal
     Proofs.TickBound Proofs.DecodeScalar Proofs.EncodeScalar Proofs.ReaderScalar Proofs.WriterOrigin
     Proofs.EncodeText Proofs.TimingPointsValues Proofs.DecodedValues Proofs.TickDistBound
     Proofs.EncodeCompletes Proofs.CatmullSurplusFold Proofs.CatmullSurplusLen Proofs.CatmullSurplusSeg Proofs.CatmullSurplusLoop
     Proofs.CatmullSurplus Proofs.CatmullSurplusEncode Proofs.CatmullSurplusCheck.
From RM Require Model.DrvEnc.
Import Proofs.FloatNonneg Proofs.CurveDistNonneg Proofs.DecodedObjects Proofs.EncodeTotal.
Import Proofs.CatmullSurplusFold Proofs.CatmullSurplusLen Proofs.CatmullSurplusSeg Proofs.CatmullSurplusLoop Proofs.CatmullSurplus
       Proofs.CatmullSurplusEncode Proofs.CatmullSurplusCheck.

(* pins: the constants the bounds below name *)
Example pin_max_len : slider_max_len_dec = (false, 1000000, -1).       (* MAX_LEN = 100000.0 *)
Proof. reflexivity. Qed.
Example pin_events_real : DrvEnc.events_real = events_with false DrvEnc.ev_fuel DrvEnc.ev_fuel.
Proof. exact events_real_is. Qed.
Example pin_dist_real : forall lm mode cps e, DrvEnc.dist_real lm mode cps e = dist_of_curve lm mode cps e.
Proof. exact dist_real_eq. Qed.

(* ---------- (4a) ---------- *)

(* every decoded Beatmap: sorted control points; every slider has
   0 <= repeat_count < 9000, a requested length that is absent or > 0, at
   least one control point (the typed point at the origin), and a curve
   distance that was computed (= Done d) during decoding *)
Theorem C01_decoded_shape :
  forall dist_of lines bv,
  decode_beatmap dist_of lines = Done bv ->
  cp_sorted (hov_control_points (bmv_ho bv)) /\
  Forall (fun h => match h_kind h with
                   | KSlider s =>
                       (0 <= sl_repeat_count s < repeat_cap /\
                        match sl_expected_dist s with None => True | Some L => D.lt D.zero L = true end /\
                        sl_control_points s <> []) /\
                       exists d, dist_of (sl_mode s) (sl_control_points s) (sl_expected_dist s) = Done d
                   | _ => True
                   end) (hov_hit_objects (bmv_ho bv)).
Proof. exact decoded_objects. Qed.
Print Assumptions C01_decoded_shape.

(* add_path_data reads `control_points[i - 1]` and `[i - 2]` for i > 1 inside
   `for i in 0..control_points.len()`, and `control_points.len() - 1` only
   when i != 0: in bounds, no underflow (the model's fall-back arms are dead) *)
Theorem C01_path_index_in_bounds :
  forall (all pre rest : list PCP) (p : PCP) (i : nat),
  all = pre ++ p :: rest -> length pre = i -> (1 < i)%nat ->
  exists a b, nth_error all (i - 1) = Some a /\ nth_error all (i - 2) = Some b.
Proof. exact path_index_in_bounds. Qed.
Print Assumptions C01_path_index_in_bounds.

(* the encoder avoids a failure class [b] (panic / out of fuel) on every map
   of that shape as soon as the slider-event calls do -- for ANY curve-distance
   and slider-event functions *)
Theorem C01_encode_fails_only_in_slider_events :
  forall dist_of events_of b m,
  map_shape dist_of m -> map_events_avoid dist_of events_of b m ->
  avoids b (encode_tokens dist_of events_of m).
Proof. exact encode_avoids. Qed.
Print Assumptions C01_encode_fails_only_in_slider_events.

(* ---------- (4b) panic ---------- *)

(* binary64 / binary32: sqrt(..) is never negative, a sum of non-negative
   values is not negative: every natural cumulative length of a path is not
   negative when the seed (the surplus) is not *)
Theorem C01_natural_lengths_not_negative :
  forall path opt, nn64 opt = true ->
  Forall (fun x => nn64 x = true) (LengthFacts.natural path opt) /\
  nn64 (LengthFacts.natural_len path opt) = true.
Proof. intros path opt H. exact (conj (natural_nn path opt H) (natural_len_nn path opt H)). Qed.
Print Assumptions C01_natural_lengths_not_negative.

(* [nn64 x = true] is exactly "x < 0.0 is false": NaN, zeros, positive, +inf *)
Theorem C01_not_negative_reading : forall x, D.lt x D.zero = negb (nn64 x).
Proof. exact nn64_lt_zero. Qed.

(* the surplus is +0.0 unless the mode is osu! and a control point is Catmull *)
Theorem C01_surplus_zero_outside_osu_catmull :
  forall lm fuel mode pts path opt,
  (Curve.is_osu mode && has_catmull pts)%bool = false ->
  Curve.calculate_path_L1 lm fuel mode pts = Done (path, opt) -> opt = D.zero.
Proof. exact calculate_path_L1_opt_zero. Qed.
Print Assumptions C01_surplus_zero_outside_osu_catmull.

(* the distance of a curve, requested length absent or positive: not negative
   when the surplus is not; and a negative distance needs a negative surplus *)
Theorem C01_curve_dist_not_negative :
  forall lm fuel mode pts e c,
  req_ok e -> surplus_nn lm fuel mode pts ->
  Curve.curve_L1 lm fuel mode pts e = Done c ->
  nn64 (Curve.dist (Curve.c_lengths c)) = true /\ Forall (fun x => nn64 x = true) (Curve.c_lengths c).
Proof.
  intros lm fuel mode pts e c He Hs H.
  exact (conj (curve_dist_nn lm fuel mode pts e c He Hs H) (curve_lengths_nn lm fuel mode pts e c He Hs H)).
Qed.
Print Assumptions C01_curve_dist_not_negative.

Theorem C01_negative_dist_needs_negative_surplus :
  forall path e opt path' lens,
  req_ok e -> Curve.calculate_length path e opt = Done (path', lens) ->
  D.lt (Curve.dist lens) D.zero = true -> D.lt opt D.zero = true.
Proof. exact negative_dist_needs_negative_surplus. Qed.
Print Assumptions C01_negative_dist_needs_negative_surplus.

(* FULL STATEMENT, NOT PROVED:
     Theorem C01_encode_never_panics : forall lm chk fuel tf lines bv w,
       decode_beatmap (dist_of_curve lm) lines = Done bv ->
       encode_tokens (DrvEnc.dist_real lm) (events_with chk fuel tf) bv <> Panic w.
   Proved below: the same outside the decidable class [neg_dist_class lm bv]
   ("an osu!/catch map with a slider whose curve distance is negative"), and
   that class is empty whenever no slider is an osu!-mode Catmull slider or,
   more generally, every slider's surplus is not negative or is outweighed by
   one segment of its path ([C01_encode_never_panics_outweighed_surplus]).
   The surplus itself IS negative on concrete decoded sliders (rounding of
   the f32 distances; probes/C01_negdist), and so are intermediate
   cumulative lengths; the final length is
     fl(..fl(fl(S + l_1) + l_2).. + l_N),  S = fl-sum of (r_k - d_k),
   where every chord d_k has the same value as one of the l_j.
   PROVED FURTHER BELOW ([C01_curve_dist_nonneg_bounded],
   [C01_encode_never_panics_bounded]): the class is empty for BOUNDED osu!-mode
   Catmull sliders -- every sub-path approximate_catmull produces has finite
   vertices with |c| <= 2^20 whose consecutive vertices are numerically equal
   or at least 2^-60 apart (no underflow in an f32 step length), those
   sub-paths have at most 2^30 vertices in total and the computed path at
   most 2^30 ([catmull_hyp], [path_small]; decidable by the sound test
   [map_boundedb]): then r_k >= d_k / 4 (triangle inequality under rounding),
   so -S <= 0.76 * (l_1 + .. + l_N), and a binary64 running sum seeded with
   S < 0 loses at most N * 2^-53 * |S| to rounding before it turns
   non-negative.
   STILL MISSING: (a) emptiness of the class without those bounds, i.e. for
   Catmull sub-paths with a step strictly between 0 and 2^-60 (the f32 step
   length is then relatively inaccurate, down to underflow to 0 below
   2^-75), with a coordinate beyond 2^20, or with more than 2^30 vertices;
   (b) that every DECODED slider meets the bounds (decoded control points
   are integers within +-2^18 of the origin -- `as i32 as f32` in
   read_point -- and the smallest non-zero Catmull step seen on 4*10^6
   decoded sliders is 2^-21, one ulp; the bound on the sub-path coordinates
   and the granularity are not proved).  No counterexample was found by
   the searches recorded in the evidence (probes/C01_negdist, including
   3.2*10^7 curves in the underflow regime, Q1u, which a decoded file
   cannot reach). *)
Theorem C01_encode_never_panics_partial :
  forall lm chk fuel tf lines bv w,
  decode_beatmap (dist_of_curve lm) lines = Done bv -> neg_dist_class lm bv = false ->
  encode_tokens (DrvEnc.dist_real lm) (events_with chk fuel tf) bv <> Panic w.
Proof. exact encode_no_panic_outside. Qed.
Print Assumptions C01_encode_never_panics_partial.

(* a panic of the encoder on a decoded map IS the D18 panic of one of its
   sliders: osu! or catch map, curve distance < 0 *)
Theorem C01_encode_panic_is_D18 :
  forall lm chk fuel tf lines bv w,
  decode_beatmap (dist_of_curve lm) lines = Done bv ->
  encode_tokens (DrvEnc.dist_real lm) (events_with chk fuel tf) bv = Panic w ->
  (g_mode (hov_general (bmv_ho bv)) = 0 \/ g_mode (hov_general (bmv_ho bv)) = 2) /\
  exists h s d, In h (hov_hit_objects (bmv_ho bv)) /\ h_kind h = KSlider s /\
    dist_of_curve lm (sl_mode s) (sl_control_points s) (sl_expected_dist s) = Done d /\
    D.lt d D.zero = true.
Proof. exact encode_panic_is_D18. Qed.
Print Assumptions C01_encode_panic_is_D18.

(* no panic at all: taiko / mania maps, and maps none of whose sliders is an
   osu!-mode slider with a Catmull control point *)
Theorem C01_encode_never_panics_no_osu_catmull :
  forall lm chk fuel tf lines bv w,
  decode_beatmap (dist_of_curve lm) lines = Done bv ->
  (g_mode (hov_general (bmv_ho bv)) <> 0 /\ g_mode (hov_general (bmv_ho bv)) <> 2) \/
  existsb obj_osu_catmull (hov_hit_objects (bmv_ho bv)) = false ->
  encode_tokens (DrvEnc.dist_real lm) (events_with chk fuel tf) bv <> Panic w.
Proof. exact encode_no_panic_no_catmull. Qed.
Print Assumptions C01_encode_never_panics_no_osu_catmull.

(* ... and whenever the osu!-mode Catmull surplus of every slider is not
   negative, or is finite and OUTWEIGHED BY ONE SEGMENT of the computed path
   (opt + l is not negative for the length l of some segment): the running
   sum only grows, and rounding to nearest is monotone, so from that segment
   on no cumulative length is negative.  What stays open is a path ALL of
   whose segments are shorter than -surplus; on the crate the surplus never
   went below -4.9e-8 times the distance (probes/C01_negdist). *)
Theorem C01_natural_length_not_negative_outweighed :
  forall path opt,
  is_finite opt = true ->
  Exists (fun l => nn64 (D.add opt l) = true) (seg_lens path) ->
  nn64 (LengthFacts.natural_len path opt) = true.
Proof. exact natural_len_nn_outweighed. Qed.
Print Assumptions C01_natural_length_not_negative_outweighed.

Theorem C01_encode_never_panics_outweighed_surplus :
  forall lm chk fuel tf lines bv w,
  decode_beatmap (dist_of_curve lm) lines = Done bv ->
  Forall (obj_surplus_ok lm) (hov_hit_objects (bmv_ho bv)) ->
  encode_tokens (DrvEnc.dist_real lm) (events_with chk fuel tf) bv <> Panic w.
Proof. exact encode_no_panic_surplus. Qed.
Print Assumptions C01_encode_never_panics_outweighed_surplus.

(* ... and for BOUNDED osu!-mode Catmull sliders, whatever the sign of the
   surplus.  The pieces:
   (i) `last_start.distance(curr)` (the chord the simplification subtracts)
       and `(curr - last_start).length()` (what calculate_length adds for
       the kept segment) have the same value, for vertices |c| <= 2^20; *)
Theorem C01_f32_distance_symmetric :
  forall a b : Curve.Pos,
  LengthBound.coord_le a 20 -> LengthBound.coord_le b 20 ->
  B2R (Curve.plen (Curve.psub a b)) = B2R (Curve.plen (Curve.psub b a)).
Proof. exact plen_psub_sym. Qed.
Print Assumptions C01_f32_distance_symmetric.

(* (ii) a binary64 running sum seeded with a finite a0 <= 0 to which values
        that are not negative are added is not negative at the end as soon
        as |a0| * (1 + N * 2^-53) <= the real sum of the N added values; *)
Theorem C01_negative_seed_running_sum :
  forall (a0 : F64) (ls : list F64),
  is_finite a0 = true -> (B2R a0 <= 0)%R -> Forall (fun l => nn64 l = true) ls ->
  (- B2R a0 * (1 + INR (length ls) * AdjustIEEEBase.u64) <= Rsum ls)%R ->
  nn64 (fold_left D.add ls a0) = true.
Proof.
  intros a0 ls Fa Na Hl H.
  pose proof (fold_low a0 Fa ls 0%R 0%nat a0 (low_start a0 Fa Na) Hl) as L.
  apply (low_nn a0 _ _ _ L). rewrite Rplus_0_l, Nat.add_0_l. exact H.
Qed.
Print Assumptions C01_negative_seed_running_sum.

(* (iii) the surplus calculate_path hands over is finite and takes at most
         76% of the sum of the segment lengths of the computed path; *)
Theorem C01_catmull_surplus_bound :
  forall lm fuel mode pts path opt,
  catmull_hyp mode pts ->
  Curve.calculate_path_L1 lm fuel mode pts = Done (path, opt) ->
  is_finite opt = true /\ (- B2R opt <= 0.76 * Lam path)%R.
Proof. exact catmull_surplus_bound. Qed.
Print Assumptions C01_catmull_surplus_bound.

(* the hypotheses, spelled out: [catmull_hyp mode pts] says that every
   sub-path approximate_catmull produces for an osu!-mode Catmull segment of
   the control points (the list [catmull_subpaths mode pts], which depends on
   the control points only) has finite vertices with |c| <= 2^20 whose
   consecutive vertices are numerically equal or >= 2^-60 apart, and that
   these sub-paths have at most 2^30 vertices in total *)
Example pin_cmax : cmax = IZR (2 ^ 30).
Proof. reflexivity. Qed.
Theorem C01_catmull_hyp_reading :
  forall mode pts,
  catmull_hyp mode pts <->
  (Forall (fun cat => Forall (fun p => LengthBound.coord_le p 20) cat /\ CatmullSurplusSeg.csegs_ok cat)
          (catmull_subpaths mode pts) /\
   (INR (length (concat (catmull_subpaths mode pts))) <= cmax)%R).
Proof. intros mode pts. reflexivity. Qed.
Theorem C01_seg_ok_reading :
  forall a b : Curve.Pos,
  CatmullSurplusSeg.cseg_ok a b <->
  (AdjustIEEE.R2 a = AdjustIEEE.R2 b \/
   (Raux.bpow Zaux.radix2 (-60) <= AdjustExact.edist (AdjustIEEE.R2 a) (AdjustIEEE.R2 b))%R).
Proof. intros a b. reflexivity. Qed.
(* the binary32 length of a segment at least 2^-60 long is exact up to 3.1 * 2^-24 *)
Theorem C01_f32_step_length_relative_error :
  forall a b : Curve.Pos,
  LengthBound.coord_le a 20 -> LengthBound.coord_le b 20 -> CatmullSurplusSeg.cseg_ok a b ->
  is_finite (f64_of_f32 (Curve.plen (Curve.psub b a))) = true /\
  AdjustIEEEBase.rel (B2R (f64_of_f32 (Curve.plen (Curve.psub b a))))
                     (AdjustExact.edist (AdjustIEEE.R2 a) (AdjustIEEE.R2 b)) (3.1 * AdjustIEEEBase.u32)%R.
Proof. exact CatmullSurplusSeg.cseg_rel. Qed.
Print Assumptions C01_f32_step_length_relative_error.

(* THE CURVE DISTANCE OF A BOUNDED OSU!-MODE CATMULL SLIDER IS NOT NEGATIVE,
   for every requested length that is absent or positive *)
Theorem C01_curve_dist_nonneg_bounded :
  forall lm fuel mode pts e path opt path' lens,
  catmull_hyp mode pts ->
  Curve.calculate_path_L1 lm fuel mode pts = Done (path, opt) ->
  (INR (length path) <= cmax)%R ->
  req_ok e -> Curve.calculate_length path e opt = Done (path', lens) ->
  D.lt (Curve.dist lens) D.zero = false.
Proof. exact curve_dist_nonneg_bounded. Qed.
Print Assumptions C01_curve_dist_nonneg_bounded.

Theorem C01_curve_dist_not_negative_bounded :
  forall lm fuel mode pts e c,
  catmull_hyp mode pts -> path_small lm fuel mode pts -> req_ok e ->
  Curve.curve_L1 lm fuel mode pts e = Done c -> nn64 (Curve.dist (Curve.c_lengths c)) = true.
Proof. exact curve_dist_nn_bounded. Qed.
Print Assumptions C01_curve_dist_not_negative_bounded.

(* lifted to decoded maps: no panic when every osu!-mode slider with a
   Catmull control point is bounded ([obj_bounded]: [catmull_hyp] and
   [path_small] for its control points); [neg_dist_class] is empty there *)
Theorem C01_bounded_class_empty :
  forall lm lines bv,
  decode_beatmap (dist_of_curve lm) lines = Done bv ->
  Forall (obj_bounded lm) (hov_hit_objects (bmv_ho bv)) -> neg_dist_class lm bv = false.
Proof. intros lm lines bv H Hs. exact (bounded_class_empty lm bv (decoded_shape lm lines bv H) Hs). Qed.
Print Assumptions C01_bounded_class_empty.

Theorem C01_encode_never_panics_bounded :
  forall lm chk fuel tf lines bv w,
  decode_beatmap (dist_of_curve lm) lines = Done bv ->
  Forall (obj_bounded lm) (hov_hit_objects (bmv_ho bv)) ->
  encode_tokens (DrvEnc.dist_real lm) (events_with chk fuel tf) bv <> Panic w.
Proof. exact encode_no_panic_bounded. Qed.
Print Assumptions C01_encode_never_panics_bounded.

(* the hypotheses are decidable by a test on integers (every finite binary32
   coordinate is an integer multiple of 2^-149), sound by proof *)
Theorem C01_bounded_test_sound :
  forall lm lines, map_boundedb lm lines = true ->
  exists bv, decode_beatmap (dist_of_curve lm) lines = Done bv /\
             Forall (obj_bounded lm) (hov_hit_objects (bmv_ho bv)).
Proof. exact map_boundedb_sound. Qed.
Print Assumptions C01_bounded_test_sound.

(* Non-vacuity, and the reason the class cannot simply be proved empty by
   "every cumulative length is not negative": the decoded osu!-mode slider
   `0,0,0,2,0,L|0:0|C|0:0|2:1,1` has the cumulative lengths
   [0, -2.42e-8, -2.42e-8, 2.236]: its Catmull surplus is NEGATIVE (rounding of
   the f32 distances), an intermediate length is negative, the distance is not.
   The same four bit patterns come out of the crate (probes/C01_negdist).
   The map is outside [neg_dist_class], has an osu!-mode Catmull slider, and the
   encoder model returns its token stream (marker 0x7e57). *)
Definition lm0_l4 : Curve.Libm := Curve.mkLibm (fun x => x) (fun x => x) (fun y _ => y) (fun x => x).
Definition l4_text : str :=
  lit "osu file format v14" ++ [10] ++ lit "[General]" ++ [10] ++ lit "Mode: 0" ++ [10] ++
  lit "[TimingPoints]" ++ [10] ++ lit "0,500,4,1,0,100,1,0" ++ [10] ++
  lit "[HitObjects]" ++ [10] ++ lit "0,0,0,2,0,L|0:0|C|0:0|2:1,1" ++ [10].
Definition l4_lengths : list Z :=
  match decode_beatmap (dist_of_curve lm0_l4) (lines_of_text l4_text) with
  | Done bv =>
      flat_map (fun h => match h_kind h with
                         | KSlider s =>
                             match curve_of lm0_l4 (sl_mode s) (sl_control_points s) (sl_expected_dist s) with
                             | Done c => map D.bits (Curve.c_lengths c)
                             | _ => []
                             end
                         | _ => []
                         end) (hov_hit_objects (bmv_ho bv))
  | _ => [99]
  end.
Example C01_negative_surplus_witness :
  l4_lengths = [0; 13716275615110266880; 13716275615110266880; 4612217596274540544] /\
  13716275615110266880 = 0xbe5a000000000000 /\ 4612217596274540544 = 0x4001e3779cc00000.
Proof. vm_compute. repeat split. Qed.
Example C01_encode_nonvacuous :
  match decode_beatmap (dist_of_curve lm0_l4) (lines_of_text l4_text) with
  | Done bv => neg_dist_class lm0_l4 bv = false /\
               existsb obj_osu_catmull (hov_hit_objects (bmv_ho bv)) = true
  | _ => False
  end /\
  firstn 1 (DrvEnc.run_enc lm0_l4 l4_text) = [tok_marker].
Proof. vm_compute. repeat split. Qed.

(* Non-vacuity of the bounded theorems on a slider with a NEGATIVE surplus:
   the decoded osu!-mode Catmull slider above hands calculate_length the
   surplus 0xbe5a000000000000 = -2.42e-8 (sign bit set), a path of 4
   vertices, one Catmull sub-path of 100 vertices -- and it passes the test
   of the hypotheses, so [C01_encode_never_panics_bounded] applies to it. *)
Definition l4_surplus : list Z :=
  match decode_beatmap (dist_of_curve lm0_l4) (lines_of_text l4_text) with
  | Done bv =>
      flat_map (fun h => match h_kind h with
                         | KSlider s =>
                             let pts := map CurveDist.conv_pcp (sl_control_points s) in
                             match Curve.calculate_path_L1 lm0_l4 Curve.bezier_fuel (sl_mode s) pts with
                             | Done (path, opt) =>
                                 [D.bits opt; Z.of_nat (length path);
                                  Z.of_nat (length (concat (catmull_subpaths (sl_mode s) pts)))]
                             | _ => []
                             end
                         | _ => []
                         end) (hov_hit_objects (bmv_ho bv))
  | _ => [99]
  end.
Example C01_bounded_nonvacuous :
  l4_surplus = [0xbe5a000000000000; 4; 100] /\ 2 ^ 63 <= 0xbe5a000000000000 /\
  map_boundedb lm0_l4 (lines_of_text l4_text) = true.
Proof. vm_compute. repeat split; discriminate. Qed.
(* a decoded slider with a SHORT non-zero Catmull step (probes/C01_negdist,
   Q1u intstep): `0,0,0,2,0,C|0:-5|0:-6|0:-3,1` has two consecutive sub-path
   vertices one ulp apart -- the smallest non-zero squared step is in
   [2^-42, 2^-41), the step about 2^-21 = 4.77e-7, far below 2^-10 -- and
   meets the hypotheses (threshold 2^-60) *)
Definition l5_text : str :=
  lit "osu file format v14" ++ [10] ++ lit "[General]" ++ [10] ++ lit "Mode: 0" ++ [10] ++
  lit "[TimingPoints]" ++ [10] ++ lit "0,500,4,1,0,100,1,0" ++ [10] ++
  lit "[HitObjects]" ++ [10] ++ lit "0,0,0,2,0,C|0:-5|0:-6|0:-3,1" ++ [10].
Definition l5_min_step_sq_log2 : list Z :=
  match decode_beatmap (dist_of_curve lm0_l4) (lines_of_text l5_text) with
  | Done bv =>
      flat_map (fun h => match h_kind h with
        | KSlider s =>
            map (fun cat =>
              let fix go (l : list Curve.Pos) : list Z :=
                match l with
                | a :: ((b :: _) as t) =>
                    match spos a, spos b with
                    | Some (xa, ya), Some (xb, yb) => ((xb - xa) ^ 2 + (yb - ya) ^ 2) :: go t
                    | _, _ => go t
                    end
                | _ => []
                end in
              Z.log2 (fold_right (fun x m => if x =? 0 then m else Z.min x m) (2 ^ 600) (go cat)) - 298)
              (catmull_subpaths (sl_mode s) (map CurveDist.conv_pcp (sl_control_points s)))
        | _ => []
        end) (hov_hit_objects (bmv_ho bv))
  | _ => [99]
  end.
Example C01_bounded_small_step :
  l5_min_step_sq_log2 = [-42] /\ map_boundedb lm0_l4 (lines_of_text l5_text) = true.
Proof. vm_compute. split; reflexivity. Qed.

Example C01_bounded_applies :
  exists bv, decode_beatmap (dist_of_curve lm0_l4) (lines_of_text l4_text) = Done bv /\
             Forall (obj_bounded lm0_l4) (hov_hit_objects (bmv_ho bv)) /\
             neg_dist_class lm0_l4 bv = false.
Proof.
  destruct (C01_bounded_test_sound lm0_l4 (lines_of_text l4_text)) as (bv & Hd & Hb).
  - vm_compute. reflexivity.
  - exists bv. split; [exact Hd|]. split; [exact Hb|]. exact (C01_bounded_class_empty lm0_l4 _ bv Hd Hb).
Qed.

(* ---------- (4c) fuel ---------- *)

(* OutOfFuel only out of the slider-event calls *)
Theorem C01_encode_fuel_only_events :
  forall lm chk fuel tf lines bv,
  decode_beatmap (dist_of_curve lm) lines = Done bv ->
  map_events_avoid (DrvEnc.dist_real lm) (events_with chk fuel tf) BFuel bv ->
  encode_tokens (DrvEnc.dist_real lm) (events_with chk fuel tf) bv <> OutOfFuel.
Proof. exact encode_fuel_only_events. Qed.
Print Assumptions C01_encode_fuel_only_events.

(* ... and there: the tick loop of a span exhausted tf, or >= fuel events *)
Theorem C01_events_fuel_cases :
  forall chk fuel tf start dur vel td total n,
  0 <= n <= i32_max ->
  events_with chk fuel tf start dur vel td total n = OutOfFuel ->
  let p := SliderEvents.mkP start dur vel td total n in
  SliderEvents.events_spec SliderEvents.ops64 tf p = OutOfFuel \/
  exists evs, SliderEvents.events_spec SliderEvents.ops64 tf p = Done evs /\ (fuel <= length evs)%nat.
Proof. exact events_with_fuel_cases. Qed.
Print Assumptions C01_events_fuel_cases.

(* binary64: the tick loop `while d <= len { .. d += tick_dist }` with a finite
   len <= L and a finite tick_dist >= 2^-k makes at most L * 2^k ticks *)
Theorem C01_tick_loop_bound :
  forall (len mdfe td : F64) (k L : Z) (tf : nat),
  0 <= k <= 1074 -> 0 <= L -> L * 2 ^ k + 2 < 2 ^ 53 ->
  is_finite len = true -> (B2R len <= IZR L)%R ->
  is_finite td = true -> (Raux.bpow Zaux.radix2 (- k) <= B2R td)%R ->
  L * 2 ^ k + 1 < Z.of_nat tf ->
  exists ds, SliderEvents.span_dists SliderEvents.ops64 tf len mdfe td = Done ds /\
             Z.of_nat (length ds) <= L * 2 ^ k.
Proof. exact TickBound.span_dists_bound. Qed.
Print Assumptions C01_tick_loop_bound.

(* the effective length min(MAX_LEN, total_dist) is finite and <= 100000 *)
Theorem C01_effective_length_bound :
  forall p : SliderEvents.params F64, nn64 (SliderEvents.p_total p) = true ->
  is_finite (SliderEvents.sp_len SliderEvents.ops64 p) = true /\
  (0 <= B2R (SliderEvents.sp_len SliderEvents.ops64 p) <= 100000)%R.
Proof. exact TickBound.sp_len_le. Qed.
Print Assumptions C01_effective_length_bound.

(* the same with the tick distances as a hypothesis ([slider_ticks_ok k]: the
   clamped tick distance of every slider is >= 2^-k, or is the length itself) *)
Theorem C01_encode_completes_given_tick_distances :
  forall lm chk fuel tf lines bv k,
  decode_beatmap (dist_of_curve lm) lines = Done bv ->
  neg_dist_class lm bv = false -> 0 <= k <= 30 ->
  Forall (slider_ticks_ok lm k bv) (hov_hit_objects (bmv_ho bv)) ->
  100000 * 2 ^ k + 1 < Z.of_nat tf ->
  3 + repeat_cap * (100000 * 2 ^ k + 1) < Z.of_nat fuel ->
  exists toks, encode_tokens (DrvEnc.dist_real lm) (events_with chk fuel tf) bv = Done toks.
Proof. exact encode_completes. Qed.
Print Assumptions C01_encode_completes_given_tick_distances.

(* every slider of every decoded map satisfies it with k = 25 *)
Example pin_tick_K : TickDistBound.K = 25.
Proof. reflexivity. Qed.

Theorem C01_decoded_tick_distances :
  forall lm lines bv,
  decode_beatmap (dist_of_curve lm) lines = Done bv ->
  Forall (slider_ticks_ok lm TickDistBound.K bv) (hov_hit_objects (bmv_ho bv)).
Proof. exact EncodeCompletes.decoded_ticks_ok. Qed.
Print Assumptions C01_decoded_tick_distances.

(* the value invariants behind it: clamps and the velocity closed form *)
Theorem C01_decoded_values :
  forall dist lines bv,
  decode_beatmap dist lines = Done bv ->
  let ho := bmv_ho bv in
  let c := hov_control_points ho in
  Forall TimingPointsValues.good_tp (cp_timing c) /\ Forall TimingPointsValues.good_dp (cp_difficulty c) /\
  TimingPointsValues.in_range slider_mult_lo slider_mult_hi (d_slider_multiplier (hov_difficulty ho)) /\
  TimingPointsValues.in_range tick_rate_lo tick_rate_hi (d_slider_tick_rate (hov_difficulty ho)) /\
  Forall (fun h => match h_kind h with
                   | KSlider s =>
                       sl_velocity s =
                       slider_velocity_of (d_slider_multiplier (hov_difficulty ho))
                         (match last_not_after dp_time (cp_difficulty c) (h_start h) with
                          | Some p => dp_sv p | None => D.one end)
                         (match timing_point_at c (h_start h) with
                          | Some p => tp_beat_len p | None => default_beat_len end)
                         (g_mode (hov_general ho))
                   | _ => True end) (hov_hit_objects ho).
Proof. exact DecodedValues.decoded_values. Qed.
Print Assumptions C01_decoded_values.

(* "RE-ENCODING COMPLETES", fuel: never OutOfFuel on any decoded map, for any
   fuel above the bound (no hypothesis) *)
Theorem C01_encode_never_out_of_fuel :
  forall lm chk fuel tf lines bv,
  decode_beatmap (dist_of_curve lm) lines = Done bv ->
  100000 * 2 ^ 25 + 1 < Z.of_nat tf -> 3 + 9000 * (100000 * 2 ^ 25 + 1) < Z.of_nat fuel ->
  encode_tokens (DrvEnc.dist_real lm) (events_with chk fuel tf) bv <> OutOfFuel.
Proof. exact EncodeCompletes.encode_never_out_of_fuel. Qed.
Print Assumptions C01_encode_never_out_of_fuel.

(* ... and outside the negative-distance class of (4b) the encoder returns
   its token stream.  FULL STATEMENT (not proved): the same without
   [neg_dist_class lm bv = false]; it is [C01_encode_never_panics]. *)
Theorem C01_encode_completes_partial :
  forall lm chk fuel tf lines bv,
  decode_beatmap (dist_of_curve lm) lines = Done bv -> neg_dist_class lm bv = false ->
  100000 * 2 ^ 25 + 1 < Z.of_nat tf -> 3 + 9000 * (100000 * 2 ^ 25 + 1) < Z.of_nat fuel ->
  exists toks, encode_tokens (DrvEnc.dist_real lm) (events_with chk fuel tf) bv = Done toks.
Proof. exact EncodeCompletes.encode_completes_decoded. Qed.
Print Assumptions C01_encode_completes_partial.

(* all outcomes: the token stream, or the D18 panic inside the class *)
Theorem C01_encode_outcomes :
  forall lm chk fuel tf lines bv,
  decode_beatmap (dist_of_curve lm) lines = Done bv ->
  100000 * 2 ^ 25 + 1 < Z.of_nat tf -> 3 + 9000 * (100000 * 2 ^ 25 + 1) < Z.of_nat fuel ->
  (exists toks, encode_tokens (DrvEnc.dist_real lm) (events_with chk fuel tf) bv = Done toks) \/
  (neg_dist_class lm bv = true /\
   exists w, encode_tokens (DrvEnc.dist_real lm) (events_with chk fuel tf) bv = Panic w).
Proof. exact EncodeCompletes.encode_outcomes. Qed.
Print Assumptions C01_encode_outcomes.

Theorem C01_encode_completes_taiko_mania :
  forall lm chk fuel tf lines bv,
  decode_beatmap (dist_of_curve lm) lines = Done bv ->
  g_mode (hov_general (bmv_ho bv)) <> 0 -> g_mode (hov_general (bmv_ho bv)) <> 2 ->
  exists toks, encode_tokens (DrvEnc.dist_real lm) (events_with chk fuel tf) bv = Done toks.
Proof. exact encode_completes_taiko_mania. Qed.
Print Assumptions C01_encode_completes_taiko_mania.

(* LAYERS 2+3+4, "hang": decode, then re-encode.  For every list of lines in
   which every parsed slider has at most 16 control points (resp. fits, graded),
   atan2 in range, encoder fuels above the bounds of
   [C01_encode_never_out_of_fuel]: the decode returns a map, and the encoder
   does not run out of fuel on it -- it returns its token stream, or panics
   with the D18 panic inside the class of (4b). *)
From RM Require Proofs.DecodeTerminatesEncode.

Theorem C01_decode_encode_terminates_bounded :
  forall lm, ThetaLoop.atan2_in_range lm ->
  forall chk fuel tf lines,
  Forall (fun h => DecodeTerminates.obj_cps_le 16 h = true) (DecodeTerminates.bm_parsed lines) ->
  100000 * 2 ^ 25 + 1 < Z.of_nat tf -> 3 + 9000 * (100000 * 2 ^ 25 + 1) < Z.of_nat fuel ->
  exists bv, decode_beatmap (dist_of_curve lm) lines = Done bv /\
    encode_tokens (DrvEnc.dist_real lm) (events_with chk fuel tf) bv <> OutOfFuel /\
    ((exists toks, encode_tokens (DrvEnc.dist_real lm) (events_with chk fuel tf) bv = Done toks) \/
     (neg_dist_class lm bv = true /\
      exists w, encode_tokens (DrvEnc.dist_real lm) (events_with chk fuel tf) bv = Panic w)).
Proof. exact DecodeTerminatesEncode.decode_encode_16. Qed.
Print Assumptions C01_decode_encode_terminates_bounded.

Theorem C01_decode_encode_terminates_segments :
  forall lm, ThetaLoop.atan2_in_range lm ->
  forall chk fuel tf lines,
  Forall (fun h => DecodeTerminatesSegments.obj_seg_fits_some h = true) (DecodeTerminates.bm_parsed lines) ->
  100000 * 2 ^ 25 + 1 < Z.of_nat tf -> 3 + 9000 * (100000 * 2 ^ 25 + 1) < Z.of_nat fuel ->
  exists bv, decode_beatmap (dist_of_curve lm) lines = Done bv /\
    encode_tokens (DrvEnc.dist_real lm) (events_with chk fuel tf) bv <> OutOfFuel /\
    ((exists toks, encode_tokens (DrvEnc.dist_real lm) (events_with chk fuel tf) bv = Done toks) \/
     (neg_dist_class lm bv = true /\
      exists w, encode_tokens (DrvEnc.dist_real lm) (events_with chk fuel tf) bv = Panic w)).
Proof. exact DecodeTerminatesEncode.decode_encode_seg_fits. Qed.
Print Assumptions C01_decode_encode_terminates_segments.

Theorem C01_decode_encode_terminates_segments_lines :
  forall lm, ThetaLoop.atan2_in_range lm ->
  forall chk fuel tf lines,
  DecodeTerminatesSegLines.lines_seg_fit lines = true ->
  100000 * 2 ^ 25 + 1 < Z.of_nat tf -> 3 + 9000 * (100000 * 2 ^ 25 + 1) < Z.of_nat fuel ->
  exists bv, decode_beatmap (dist_of_curve lm) lines = Done bv /\
    encode_tokens (DrvEnc.dist_real lm) (events_with chk fuel tf) bv <> OutOfFuel /\
    ((exists toks, encode_tokens (DrvEnc.dist_real lm) (events_with chk fuel tf) bv = Done toks) \/
     (neg_dist_class lm bv = true /\
      exists w, encode_tokens (DrvEnc.dist_real lm) (events_with chk fuel tf) bv = Panic w)).
Proof. exact DecodeTerminatesEncode.decode_encode_seg_lines. Qed.
Print Assumptions C01_decode_encode_terminates_segments_lines.

Theorem C01_decode_encode_terminates_graded :
  forall lm, ThetaLoop.atan2_in_range lm ->
  forall chk fuel tf lines,
  Forall (fun h => DecodeTerminates.obj_fits_some h = true) (DecodeTerminates.bm_parsed lines) ->
  100000 * 2 ^ 25 + 1 < Z.of_nat tf -> 3 + 9000 * (100000 * 2 ^ 25 + 1) < Z.of_nat fuel ->
  exists bv, decode_beatmap (dist_of_curve lm) lines = Done bv /\
    ((exists toks, encode_tokens (DrvEnc.dist_real lm) (events_with chk fuel tf) bv = Done toks) \/
     (neg_dist_class lm bv = true /\
      exists w, encode_tokens (DrvEnc.dist_real lm) (events_with chk fuel tf) bv = Panic w)).
Proof. exact DecodeTerminatesEncode.decode_encode_fits. Qed.
Print Assumptions C01_decode_encode_terminates_graded.

(* ---------- (4d) valid UTF-8 ---------- *)

(* every line the reader hands to the parsers is a sequence of Unicode scalar
   values (u8 input; refuted for out-of-range "bytes" of the untyped model) *)
Theorem C01_reader_lines_scalar :
  forall (b : bytes) sched lines,
  ReaderScalar.bytes_ok b -> read_all_lines (mk_reader b sched) = IoDone lines -> Forall scalar_str lines.
Proof. exact ReaderScalar.read_all_lines_scalar. Qed.
Print Assumptions C01_reader_lines_scalar.

(* every string of a decoded map is one *)
Theorem C01_decoded_strings_scalar :
  forall dist lines m,
  Forall scalar_str lines -> decode_beatmap dist lines = Done m -> DecodeScalar.bmv_scalar m.
Proof. exact DecodeScalar.decode_beatmap_scalar. Qed.
Print Assumptions C01_decoded_strings_scalar.

(* every string token of the encoder is one *)
Theorem C01_encoder_tokens_scalar :
  forall dist_of events_of m toks,
  DecodeScalar.bmv_scalar m -> encode_tokens dist_of events_of m = Done toks ->
  Forall EncodeScalar.tok_scalar toks.
Proof. exact EncodeScalar.encode_tokens_scalar. Qed.
Print Assumptions C01_encoder_tokens_scalar.

(* the text is a Rust String, its UTF-8 encoding validates and decodes back
   to it (`String::from_utf8` of encode_to_string): from lines, and from an
   in-memory byte buffer *)
Theorem C01_encode_output_is_utf8 :
  forall fmt_f64 fmt_f32 fmt_int,
  (forall x, scalar_str (fmt_f64 x)) /\ (forall x, scalar_str (fmt_f32 x)) /\ (forall n, scalar_str (fmt_int n)) ->
  forall dist dist_of events_of lines m toks,
  Forall scalar_str lines -> decode_beatmap dist lines = Done m ->
  encode_tokens dist_of events_of m = Done toks ->
  let text := EncodeText.rendered fmt_f64 fmt_f32 fmt_int toks in
  scalar_str text /\
  from_utf8 (utf8_enc text) = None /\ utf8_chars (utf8_enc text) = text /\
  decode Utf8 (utf8_enc text) = Done text.
Proof.
  intros f64 f32 fi Hf dist dist_of events_of lines m toks Hl Hd He.
  exact (conj (EncodeText.encode_text_scalar f64 f32 fi Hf dist dist_of events_of lines m toks Hl Hd He)
              (EncodeText.encode_to_string_utf8 f64 f32 fi Hf dist dist_of events_of lines m toks Hl Hd He)).
Qed.
Print Assumptions C01_encode_output_is_utf8.

Theorem C01_encode_output_is_utf8_bytes :
  forall fmt_f64 fmt_f32 fmt_int,
  (forall x, scalar_str (fmt_f64 x)) /\ (forall x, scalar_str (fmt_f32 x)) /\ (forall n, scalar_str (fmt_int n)) ->
  forall dist dist_of events_of (b : bytes) m toks,
  ReaderScalar.bytes_ok b -> decode_bytes_beatmap dist b = IoDone m ->
  encode_tokens dist_of events_of m = Done toks ->
  let text := EncodeText.rendered fmt_f64 fmt_f32 fmt_int toks in
  scalar_str text /\ from_utf8 (utf8_enc text) = None /\ decode Utf8 (utf8_enc text) = Done text.
Proof. exact EncodeText.encode_bytes_utf8. Qed.
Print Assumptions C01_encode_output_is_utf8_bytes.

(* ---------- (4e) errors only from the writer ---------- *)

(* `Beatmap::encode` into a writer [w], the output cut into write_all calls
   [ws] in any way: Err(k) needs a first failing write event with fault k
   (WFail k, or WZero = Ok(0) -> WriteZero) after a failure-free prefix of the
   schedule, or a flush that returns k *)
Theorem C01_encode_err_only_from_writer :
  forall ws (o : outcome (list tok)) w k w',
  EncodeText.beatmap_encode ws o w = (IoErr k, w') ->
  (exists s1 e s2, wsched w = s1 ++ e :: s2 /\ nofail s1 /\ wev_fails e = true /\ k = wfault e) \/
  flush_result w = Some k.
Proof. exact EncodeText.beatmap_encode_err_origin. Qed.
Print Assumptions C01_encode_err_only_from_writer.

(* with a token stream the result is Ok or an Err (never anything else); a
   writer without failing events and with a clean flush gives Ok; and it has
   then accepted exactly the UTF-8 of the text *)
Theorem C01_encode_ok_unless_writer_fails :
  forall fmt_f64 fmt_f32 fmt_int ws toks w,
  EncodeText.chunking_of fmt_f64 fmt_f32 fmt_int toks ws ->
  io_ok (fst (EncodeText.beatmap_encode ws (Done toks) w)) /\
  (nofail (wsched w) -> flush_result w = None ->
   exists w', EncodeText.beatmap_encode ws (Done toks) w = (IoDone tt, w')) /\
  (forall s fl, w = mkWriter s fl [] 0 -> nofail s ->
   exists w', EncodeText.beatmap_encode ws (Done toks) w =
              (match fl with None => IoDone tt | Some k => IoErr k end, w') /\
              Reader.accepted w' = EncodeText.encoded_bytes fmt_f64 fmt_f32 fmt_int toks).
Proof. exact EncodeText.beatmap_encode_outcome. Qed.
Print Assumptions C01_encode_ok_unless_writer_fails.

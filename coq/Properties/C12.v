(* C12 -- Timing-point lines resolve by the legacy precedence rules.
   This file holds only statements, each closed by [exact] of a lemma from
   Proofs/, followed by Print Assumptions; then pins of the constants the
   property names, and Examples (non-vacuity, witnesses).

   Vocabulary (coq/Model/TimingPoints.v):
     tp_decode g lines   the implementation model: fold parse_timing_points
                         over the lines from DecodeState::create, then the
                         final flush of From<TimingPointsState>; returns the
                         control points and the per-line Ok/Rejected results
     legacy_spec g lines the property text: accepted lines, cut into maximal
                         runs of consecutive lines with |dt| < eps, per run
                         and kind the last inherited line else the first
                         timing-change line, fed to ControlPoints::add
     g                   mode, default sample bank, default sample volume *)
From RM Require Import Model.TimingPoints Proofs.ControlPointsFacts
  Proofs.TimingPointsFacts Proofs.TimingPointsValues.
From RM Require Import Gen.Generated.
Open Scope Z_scope.

(* T12a: for every mode / defaults and every sequence of lines (any order,
   any duplicates, any text) the decoder's result is the specification's,
   and a line is Ok exactly when it parses. *)
Theorem C12_refines_legacy_spec :
  forall (g : tp_general) (lines : list str),
  tp_decode g lines = obind (legacy_spec g lines) (fun c => Done (c, spec_results g lines)).
Proof. exact tp_decode_spec. Qed.
Print Assumptions C12_refines_legacy_spec.

(* T12b: it never panics; every list is strictly increasing in the
   total_cmp order of the times; beat length in [6, 60000]; slider velocity
   in [0.1, 10]; scroll speed in [0.01, 10] and exactly 1 outside
   taiko/mania; volume in [0, 100]; no bank None; signature positive; every
   time finite.  (IEEE <= on both sides excludes NaN.) *)
Theorem C12_sorted_and_clamped :
  forall (g : tp_general) (lines : list str),
  exists c,
    tp_decode g lines = Done (c, spec_results g lines) /\
    legacy_spec g lines = Done c /\
    cp_sorted c /\
    (Forall (fun p => (D.le bl_lo (tp_beat_len p) = true /\ D.le (tp_beat_len p) bl_hi = true) /\
                      0 < tp_sig p /\ is_finite (tp_time p) = true) (cp_timing c) /\
     Forall (fun p => (D.le sv_lo (dp_sv p) = true /\ D.le (dp_sv p) sv_hi = true) /\
                      is_finite (dp_time p) = true) (cp_difficulty c) /\
     Forall (fun p => (D.le sc_lo (ep_scroll p) = true /\ D.le (ep_scroll p) sc_hi = true) /\
                      (scroll_mode (tpg_mode g) = false -> ep_scroll p = D.one) /\
                      is_finite (ep_time p) = true) (cp_effect c) /\
     Forall (fun p => vol_lo <= sp_vol p <= vol_hi /\ sp_bank p <> bank_none /\
                      is_finite (sp_time p) = true) (cp_sample c)).
Proof. exact tp_decode_good. Qed.
Print Assumptions C12_sorted_and_clamped.

(* ... and numerically strictly increasing (IEEE <) for every list that does
   not hold points at both -0.0 and +0.0: that pair is the only way the
   total_cmp order and the numeric order of stored times can differ (known
   finding D8; witness C12_signed_zero_witness below) *)
Theorem C12_numeric_order_outside_D8 :
  forall (g : tp_general) (lines : list str),
  exists c, tp_decode g lines = Done (c, spec_results g lines) /\
    (~ mixed_zero (map tp_time (cp_timing c)) -> num_sorted (map tp_time (cp_timing c))) /\
    (~ mixed_zero (map dp_time (cp_difficulty c)) -> num_sorted (map dp_time (cp_difficulty c))) /\
    (~ mixed_zero (map ep_time (cp_effect c)) -> num_sorted (map ep_time (cp_effect c))) /\
    (~ mixed_zero (map sp_time (cp_sample c)) -> num_sorted (map sp_time (cp_sample c))).
Proof. exact tp_decode_numeric. Qed.
Print Assumptions C12_numeric_order_outside_D8.

(* the runs of the specification partition the accepted lines in order *)
Theorem C12_runs_partition :
  forall ls : list tp_line, concat (runs ls) = ls.
Proof. exact concat_runs. Qed.
Print Assumptions C12_runs_partition.

(* every run is a chain of consecutive lines sharing a time, and two
   adjacent runs are separated by a time change: the runs are maximal *)
Theorem C12_runs_maximal :
  forall ls : list tp_line, Forall chain (runs ls) /\ separated (runs ls).
Proof. exact runs_maximal. Qed.
Print Assumptions C12_runs_maximal.

(* the run test of the code, not(|dt| >= eps), is the property's |dt| < eps
   on accepted lines: their times are finite *)
Theorem C12_run_test_is_near :
  forall g l1 l2 r1 r2,
  parse_tp_line g l1 = Some r1 -> parse_tp_line g l2 = Some r2 ->
  same_time (l_time r2) (l_time r1) = near (l_time r2) (l_time r1).
Proof.
  intros g l1 l2 r1 r2 H1 H2.
  exact (same_time_near _ _ (accepted_time_finite _ _ _ H2) (accepted_time_finite _ _ _ H1)).
Qed.
Print Assumptions C12_run_test_is_near.

(* T12c: a NaN beat length is rejected on timing-change lines ... *)
Theorem C12_nan_rejected_on_timing_change :
  forall g line r, parse_tp_line g line = Some r -> l_tc r = true -> D.is_nan (l_beat r) = false.
Proof. exact nan_timing_rejected. Qed.
Print Assumptions C12_nan_rejected_on_timing_change.

(* ... and on an inherited line yields generate_ticks = false, velocity 1;
   ticks are switched off by nothing else *)
Theorem C12_nan_inherited :
  forall g line r, parse_tp_line g line = Some r -> D.is_nan (l_beat r) = true ->
  l_tc r = false /\ line_dp r = mkDP (l_time r) D.one false.
Proof. exact nan_inherited. Qed.
Print Assumptions C12_nan_inherited.

Theorem C12_ticks_off_only_by_nan :
  forall r, dp_ticks (line_dp r) = negb (D.is_nan (l_beat r)).
Proof. exact ticks_iff_not_nan. Qed.
Print Assumptions C12_ticks_off_only_by_nan.

(* T12d: fields are read by position (at most eight; the rest is ignored),
   and an absent trailing field takes its default: signature 4, the General
   section's sample bank (None -> Normal afterwards) and volume, custom bank
   0, timing_change = true, no kiai, no omitted bar line; a signature field
   starting with '0' is skipped. *)
Theorem C12_fields_by_position :
  forall g line, parse_tp_line g line = parse_opts g (nth_error (split_on comma (trim_comment line))).
Proof. intros g line. exact (parse_fields_nth g _). Qed.
Print Assumptions C12_fields_by_position.

Theorem C12_field_defaults :
  forall g,
  f_sig None = Some 4 /\ f_bank g None = Some (tpg_bank g) /\ f_custom None = Some 0 /\
  f_vol g None = Some (tpg_volume g) /\ f_tc None = true /\ f_flags None = Some (false, false) /\
  (forall s, f_sig (Some (48 :: s)) = Some 4) /\
  (forall s, f_tc (Some s) = match s with 49 :: _ => true | _ => false end).
Proof. exact field_defaults. Qed.
Print Assumptions C12_field_defaults.

Theorem C12_two_field_line :
  forall g t b,
  parse_fields g [t; b] =
  obnd (pn_f64 t) (fun time => obnd (f_beat b) (fun beat =>
  if D.is_nan beat then None
  else Some (mkLine time beat (speed_multiplier beat) 4
               (if tpg_bank g =? bank_none then bank_normal else tpg_bank g) 0 (tpg_volume g)
               true false false))).
Proof. exact two_field_line. Qed.
Print Assumptions C12_two_field_line.

(* ---------- pins: the constants the property names ---------- *)

Example pin_beat_len_clamp : [D.bits bl_lo; D.bits bl_hi] = [D.bits (D.of_Z 6); D.bits (D.of_Z 60000)].
Proof. vm_compute. reflexivity. Qed.
(* 0.1 = 0x3FB999999999999A, 0.01 = 0x3F847AE147AE147B *)
Example pin_slider_velocity_clamp : [D.bits sv_lo; D.bits sv_hi] = [4591870180066957722; D.bits (D.of_Z 10)].
Proof. vm_compute. reflexivity. Qed.
Example pin_scroll_speed_clamp : [D.bits sc_lo; D.bits sc_hi] = [4576918229304087675; D.bits (D.of_Z 10)].
Proof. vm_compute. reflexivity. Qed.
Example pin_clamp_decimals :
  beat_len_clamp = ((false, 60, -1), (false, 600000, -1)) /\
  slider_velocity_clamp = ((false, 1, -1), (false, 100, -1)) /\
  scroll_speed_clamp = ((false, 1, -2), (false, 100, -1)).
Proof. repeat split; reflexivity. Qed.
Example pin_volume_clamp : sample_volume_clamp = (0, 100).
Proof. reflexivity. Qed.
(* scroll speed only in taiko (1) and mania (3) *)
Example pin_scroll_modes : map scroll_mode [0; 1; 2; 3] = [false; true; false; true].
Proof. reflexivity. Qed.
Example pin_speed_numerator : D.bits (dec64 tp_speed_num_dec) = D.bits (D.of_Z 100).
Proof. vm_compute. reflexivity. Qed.
Example pin_max_parse_value : max_parse_value = 2147483647.
Proof. reflexivity. Qed.
Example pin_banks :
  nth_error sample_bank_variants (Z.to_nat bank_none) = Some "None"%string /\
  nth_error sample_bank_variants (Z.to_nat bank_normal) = Some "Normal"%string /\
  sample_bank_of_int = [(0, 0); (1, 1); (2, 2); (3, 3)].
Proof. repeat split; reflexivity. Qed.
Example pin_effect_flags : effect_kiai = 1 /\ effect_omit_first_bar_line = 8.
Proof. split; reflexivity. Qed.
(* f64::EPSILON = 2^-52 = 0x3CB0000000000000 *)
Example pin_epsilon : D.bits D.eps = 4372995238176751616.
Proof. vm_compute. reflexivity. Qed.

(* ---------- non-vacuity and witnesses (on dumps: floats as bit patterns) ---------- *)

Definition f (n : Z) : F64 := D.of_Z n.
Definition g0 : tp_general := mkTPG 0 1 100.
Definition run (g : tp_general) (lines : list string) : list Z :=
  dump_decode (tp_decode g (map lit lines)).
(* per-line flags (1 = Ok, 0 = Rejected), then the four lists *)
Definition expect (flags : list Z) (c : ControlPoints) : list Z := flags ++ dump_cp c.
Open Scope string_scope.

(* one group at time 0: the first timing-change line gives the timing point
   (500, signature 4), the last inherited line gives difficulty (100/25 = 4),
   effect (kiai) and sample (bank 2, volume 60, custom 1) *)
Example C12_precedence_in_a_group :
  run g0 ["0,500,4,1,0,100,1,0"; "0,-50,4,2,0,50,0,0"; "0,400,3,3,0,30,1,8"; "0,-25,4,2,1,60,0,1"]
  = expect [1; 1; 1; 1]
      (mkCP [mkTP (f 0) (f 500) false 4] [mkDP (f 0) (f 4) true]
            [mkEP (f 0) true (f 1)] [mkSP (f 0) 2 60 1]).
Proof. vm_compute. reflexivity. Qed.

(* without an inherited line the first timing-change line wins every kind;
   the sample point at 10 repeats the one then active (0: bank 1) and is
   dropped; the later group at time 0 replaces the points stored at 0 *)
Example C12_first_timing_change_wins_and_replace :
  run g0 ["0,500,4,1,0,100,1,1"; "0,400,4,2,0,50,1,0"; "10,300,4,1,0,100,1,1"; "0,250,4,3,0,100,1,1"]
  = expect [1; 1; 1; 1]
      (mkCP [mkTP (f 0) (f 250) false 4; mkTP (f 10) (f 300) false 4] []
            [mkEP (f 0) true (f 1)] [mkSP (f 0) 3 100 0]).
Proof. vm_compute. reflexivity. Qed.

(* rejected lines: too few fields, NaN on a timing-change line, signature 0
   written as -0, padded effect flags (plain i32 parse, no trim) *)
Example C12_rejections :
  run g0 ["5"; "5,nan"; "5,nan,4,1,0,100,1,0"; "5,500,-0"; "5,500,4,1,0,100,1, 1"; "5,500,4,1,0,100,1,1 "]
  = expect [0; 0; 0; 0; 0; 1]
      (mkCP [mkTP (f 5) (f 500) false 4] [] [mkEP (f 5) true (f 1)] [mkSP (f 5) 1 100 0]).
Proof. vm_compute. reflexivity. Qed.

(* T12c witness: NaN on an inherited line is accepted, ticks off, velocity 1 *)
Example C12_nan_inherited_witness :
  run g0 ["5,NaN,4,1,0,100,0,0"]
  = expect [1] (mkCP [] [mkDP (f 5) (f 1) false] [] [mkSP (f 5) 1 100 0]).
Proof. vm_compute. reflexivity. Qed.

(* T12d witnesses: mania, defaults bank None (-> Normal) and volume 70;
   "5,-1": beat length clamped to 6, velocity 100/1 clamped to 10, scroll 10 *)
Example C12_two_fields_witness :
  run (mkTPG 3 0 70) ["5,-1"]
  = expect [1] (mkCP [mkTP (f 5) (f 6) false 4] [mkDP (f 5) (f 10) true]
                     [mkEP (f 5) false (f 10)] [mkSP (f 5) 1 70 0]).
Proof. vm_compute. reflexivity. Qed.

(* cutting after each field in turn *)
Example C12_every_cut :
  map (fun l => run (mkTPG 0 2 70) [l])
      ["9,500,3"; "9,500,3,3"; "9,500,3,3,5"; "9,500,3,3,5,40"; "9,500,3,3,5,40,0"; "9,500,3,3,5,40,0,9"]
  = [ expect [1] (mkCP [mkTP (f 9) (f 500) false 3] [] [] [mkSP (f 9) 2 70 0]);
      expect [1] (mkCP [mkTP (f 9) (f 500) false 3] [] [] [mkSP (f 9) 3 70 0]);
      expect [1] (mkCP [mkTP (f 9) (f 500) false 3] [] [] [mkSP (f 9) 3 70 5]);
      expect [1] (mkCP [mkTP (f 9) (f 500) false 3] [] [] [mkSP (f 9) 3 40 5]);
      expect [1] (mkCP [] [] [] [mkSP (f 9) 3 40 5]);
      expect [1] (mkCP [] [] [mkEP (f 9) true (f 1)] [mkSP (f 9) 3 40 5]) ].
Proof. vm_compute. reflexivity. Qed.

(* Known finding D8: the lists are ordered by total_cmp, which separates
   -0.0 from +0.0.  Times 0, 10, -0: the third line is a new group at the
   numerically same time as the first, but it does not replace it -- two
   timing points (and two sample points) at numerically equal times. *)
Example C12_signed_zero_witness :
  run g0 ["0,500"; "10,500"; "-0,400"]
  = expect [1; 1; 1]
      (mkCP [mkTP (D.neg (f 0)) (f 400) false 4; mkTP (f 0) (f 500) false 4; mkTP (f 10) (f 500) false 4]
            [] [] [mkSP (D.neg (f 0)) 1 100 0; mkSP (f 0) 1 100 0]).
Proof. vm_compute. reflexivity. Qed.

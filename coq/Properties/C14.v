(* C14 — Hit-object lines decode per the legacy grammar.
   Only statements, each closed by [exact] of a lemma from Proofs/, followed
   by Print Assumptions; pins of the constants the property text names; and
   Examples (non-vacuity, the dropped residue of a rejected slider, the repaired spinner-bit input).

   Model: Model/HitObjectLine.v (parse_hit_objects), Model/PathString.v
   (convert_path_str, convert_points with its index loops), Model/HitSamples.v.
   Specification written from the property text: Model/HitObjectSpec.v. *)
From RM Require Import Model.Text Model.Num Model.HitSamples Model.PathString
     Model.HitObjectLine Model.HitObjectSpec Model.Drv14.
From RM Require Import Proofs.HitSamplesFacts Proofs.PathStringFacts Proofs.FloatFacts14
     Proofs.HitObjectLineFacts Proofs.C14Clauses.
From RM Require Import Gen.Generated.
From Flocq Require Import BinarySingleNaN.
Open Scope Z_scope.

(* ---------- pins: the constants the property text names ---------- *)
Example pin_type_bits :
  hot_circle = 2 ^ 0 /\ hot_slider = 2 ^ 1 /\ hot_new_combo = 2 ^ 2 /\ hot_spinner = 2 ^ 3 /\
  hot_combo_offset = 7 * 2 ^ 4 /\ hot_hold = 2 ^ 7.
Proof. repeat split; reflexivity. Qed.
Example pin_sound_bits :
  hitsound_none = 0 /\ hitsound_normal = 2 ^ 0 /\ hitsound_whistle = 2 ^ 1 /\
  hitsound_finish = 2 ^ 2 /\ hitsound_clap = 2 ^ 3.
Proof. repeat split; reflexivity. Qed.
Example pin_repeat_cap : repeat_cap = 9000.
Proof. reflexivity. Qed.
Example pin_max_coordinate : max_coordinate_value = 131072.
Proof. reflexivity. Qed.
Example pin_path_letters :
  [path_letter_bspline; path_letter_linear; path_letter_perfect] = lit "BLP".
Proof. reflexivity. Qed.
Example pin_sample_banks :
  sample_bank_of_int = [(0, 0); (1, 1); (2, 2); (3, 3)] /\
  sample_bank_variants = ["None"; "Normal"; "Soft"; "Drum"]%string /\ sb_none = 0 /\ sb_normal = 1.
Proof. repeat split; reflexivity. Qed.
Example pin_number_limit : max_parse_value = 2 ^ 31 - 1.
Proof. reflexivity. Qed.

(* ---------- T14a: the line ---------- *)
(* parse_hit_objects never panics and never runs out of fuel, on every state
   and every line, and its result is the declarative [line_spec_with] (same
   object pushed, same state, or both reject); [vertices] is scratch. *)
Theorem C14_line_spec :
  forall st line, exists scratch,
    parse_hit_objects st line = Done (line_spec_with st line scratch).
Proof. exact parse_hit_objects_spec. Qed.
Print Assumptions C14_line_spec.

Theorem C14_no_panic :
  forall st line, exists st' r, parse_hit_objects st line = Done (st', r).
Proof. exact parse_hit_objects_total. Qed.
Print Assumptions C14_no_panic.

(* everything an accepted line does: one object is pushed whose kind follows
   the precedence circle > slider > spinner > hold of the type bits;
   [last_object] becomes the type without combo bits; per kind ([kind_ok]):
   position = the parsed, truncated one; new combo = flag, or first object,
   or after a line read as a spinner ([starts_combo]; by the kind of the last
   object produced: C14_new_combo_by_kind below); combo offset only with the flag;
   slider: repeats <= cap, stored repeats = max 0 (raw - 1), repeats + 2 node
   sample sets, length None or >= eps (> 0), control points = path_spec (whatever
   curve_points held before is dropped); spinner / hold duration >= 0. *)
Theorem C14_accepted_line :
  forall st line st',
  parse_hit_objects st line = Done (st', Ok) ->
  exists f k obj,
    common_spec line = Some f /\ kind_of_type (f_type f) = Some k /\
    ho_objects st' = ho_objects st ++ [obj] /\
    ho_last st' = Some (kept_type (f_type f)) /\ ho_mode st' = ho_mode st /\
    h_start obj = f_start f /\ kind_tag (h_kind obj) = k /\ kind_ok st f (h_kind obj) /\
    (k <> 1 -> ho_curve st' = ho_curve st /\ ho_vertices st' = ho_vertices st) /\
    (k = 1 -> ho_curve st' = []).
Proof. exact accepted_line. Qed.
Print Assumptions C14_accepted_line.

(* positions are truncated to integers within +-131072 *)
Theorem C14_position :
  forall line f, common_spec line = Some f ->
  exists nx ny, f_pos f = mkPos (S.of_Z nx) (S.of_Z ny) /\
                - max_coordinate_value <= nx <= max_coordinate_value /\
                - max_coordinate_value <= ny <= max_coordinate_value.
Proof. exact position_truncated. Qed.
Print Assumptions C14_position.

(* none of the four kind bits: rejected, state untouched; bad common field: likewise *)
Theorem C14_no_kind_rejected :
  forall st line f, common_spec line = Some f -> kind_of_type (f_type f) = None ->
  parse_hit_objects st line = Done (st, Rejected).
Proof. exact no_kind_bit_rejected. Qed.
Print Assumptions C14_no_kind_rejected.

Theorem C14_bad_common_rejected :
  forall st line, common_spec line = None -> parse_hit_objects st line = Done (st, Rejected).
Proof. exact bad_common_fields_rejected. Qed.
Print Assumptions C14_bad_common_rejected.

Theorem C14_combo_offset :
  forall t,
  (flag_bit hot_new_combo t = false -> combo_offset_spec t = 0) /\
  (flag_bit hot_new_combo t = true -> combo_offset_spec t = combo_bits t) /\
  0 <= combo_offset_spec t <= 7.
Proof. exact combo_offset_only_with_new_combo. Qed.
Print Assumptions C14_combo_offset.

Theorem C14_repeats_over_cap :
  forall st line f raw,
  common_spec line = Some f -> kind_of_type (f_type f) = Some 1 ->
  obnd (nth_error (f_rest f) 1) pn_i32 = Some raw -> repeat_cap < raw ->
  parse_hit_objects st line = Done (st, Rejected).
Proof. exact repeats_over_cap_rejected. Qed.
Print Assumptions C14_repeats_over_cap.

(* the float facts behind "absent, zero or negative length means natural
   length" and "durations are never negative" *)
Theorem C14_length_rule :
  forall v,
  (let new_len := f64_max_lit v D.zero in
   if D.ge (D.abs new_len) D.eps then Some new_len else None)
  = (if D.ge v D.eps then Some v else None).
Proof. exact length_rule. Qed.
Print Assumptions C14_length_rule.

Theorem C14_spinner_duration_nonneg :
  forall x, D.le D.zero (f64_max_lit x D.zero) = true.
Proof. exact max_lit_zero_nonneg. Qed.
Print Assumptions C14_spinner_duration_nonneg.

Theorem C14_hold_duration_nonneg :
  forall start e : F64, is_finite start = true -> is_finite e = true ->
  D.le D.zero (D.sub (D.max start e) start) = true.
Proof. exact hold_duration_nonneg. Qed.
Print Assumptions C14_hold_duration_nonneg.

(* ---------- "is the first object or directly follows a spinner" ---------- *)
(* The parser remembers the previous accepted line's type bits ([last_object])
   and applies the kind precedence to them when it asks "was that a spinner?"
   (spinner bit, and neither the circle nor the slider bit).  [coherent st]:
   the remembered type names the kind of the last object in [hit_objects];
   it holds after every sequence of lines.  [last_is_spinner] and
   [follows_by_kind] look at the KIND of the last object produced only. *)
Theorem C14_coherent_reachable : forall mode lines, coherent (run_lines mode lines).
Proof. exact coherent_run. Qed.
Print Assumptions C14_coherent_reachable.

Theorem C14_coherent_step :
  forall st line st' r,
  coherent st -> parse_hit_objects st line = Done (st', r) -> coherent st'.
Proof. exact coherent_step. Qed.
Print Assumptions C14_coherent_step.

(* in every such state, with no exception: the parser's test is "the last
   object produced is a spinner", and "first object" is "no object yet" *)
Theorem C14_follows_spinner :
  forall st, coherent st -> last_object_was_spinner st = last_is_spinner st.
Proof. exact follows_spinner_by_kind. Qed.
Print Assumptions C14_follows_spinner.

Theorem C14_first_object :
  forall st, coherent st ->
  first_object st = match ho_objects st with [] => true | _ => false end.
Proof. exact first_object_by_objects. Qed.
Print Assumptions C14_first_object.

(* one accepted line: a circle or slider gets new_combo = true iff the line
   carries the new-combo bit, or no object was produced before it, or the
   object produced right before it is a spinner -- by kind, not by type bits
   ([new_combo_of] is the flag of a circle / slider, None for the other kinds;
   [follows_by_kind objs] = objs is empty or its last element is a KSpinner) *)
Theorem C14_new_combo_by_kind :
  forall st line st',
  coherent st ->
  parse_hit_objects st line = Done (st', Ok) ->
  exists f obj,
    common_spec line = Some f /\ ho_objects st' = ho_objects st ++ [obj] /\
    forall b, new_combo_of (h_kind obj) = Some b ->
      b = flag_bit hot_new_combo (f_type f) || follows_by_kind (ho_objects st).
Proof. exact new_combo_by_kind. Qed.
Print Assumptions C14_new_combo_by_kind.

(* every sequence of lines: if [l] is accepted after [pre], its object [obj]
   stands in the final object list right behind the objects that [pre]
   produced (rejected lines of [pre] produced none, so they do not count), and
   the same equation holds with that list *)
Theorem C14_new_combo_in_sequence :
  forall mode pre l post st',
  parse_hit_objects (run_lines mode pre) l = Done (st', Ok) ->
  exists f obj rest,
    common_spec l = Some f /\
    ho_objects (run_lines mode (pre ++ l :: post)) = ho_objects (run_lines mode pre) ++ obj :: rest /\
    forall b, new_combo_of (h_kind obj) = Some b ->
      b = flag_bit hot_new_combo (f_type f) || follows_by_kind (ho_objects (run_lines mode pre)).
Proof. exact new_combo_in_sequence. Qed.
Print Assumptions C14_new_combo_in_sequence.

(* [follows_by_kind] says what its name says *)
Example follows_by_kind_unfolded :
  forall objs, follows_by_kind objs = true <->
    objs = [] \/ exists front o s, objs = front ++ [o] /\ h_kind o = KSpinner s.
Proof.
  intros objs. unfold follows_by_kind. split.
  - destruct (last_opt objs) as [o|] eqn:E.
    + intros H. right. destruct (h_kind o) as [c|sl|s|h] eqn:Ek; try discriminate.
      assert (Hf : exists front, objs = front ++ [o]).
      { clear - E. revert o E. induction objs as [|a r IH]; intros o E; [discriminate|].
        destruct r as [|b r]; [injection E as <-; exists []; reflexivity|].
        destruct (IH o E) as [fr Hf]. exists (a :: fr). rewrite Hf. reflexivity. }
      destruct Hf as [front Hf]. exists front, o, s. split; assumption.
    + intros _. left. apply last_opt_none. exact E.
  - intros [->|(front & o & s & -> & Hk)]; [reflexivity|]. rewrite last_opt_snoc, Hk. reflexivity.
Qed.

(* the former D15 input (repaired): "0,0,0,9,0" (circle + spinner bits: a
   circle, by precedence) no longer makes the next plain circle start a new
   combo; the same with the slider bit (10) and both (11); the spinner bit
   alone (8) or next to the hold bit (136) IS a spinner; a rejected line in
   between does not count.  On dumps ([obs_combo]: kind tag, new-combo flag;
   [dump_object] / [run_c14]: the canonical dump the correspondence check compares). *)
Definition enc_case (mode : Z) (lines : list str) : list Z :=
  mode :: flat_map (fun l => Z.of_nat (length l) :: l) lines.
Example spinner_bit_repaired :
  obs_combo (run_lines 0 [lit "0,0,0,9,0"; lit "0,0,0,1,0"]) = [(0, 1); (0, 0)] /\
  obs_combo (run_lines 0 [lit "0,0,0,1,0"; lit "0,0,0,1,0"]) = [(0, 1); (0, 0)] /\
  (* the two objects are, field for field, those of two plain circles *)
  map dump_object (ho_objects (run_lines 0 [lit "0,0,0,9,0"; lit "0,0,0,1,0"]))
  = map dump_object (ho_objects (run_lines 0 [lit "0,0,0,1,0"; lit "0,0,0,1,0"])) /\
  firstn 3 (Drv14.run_c14 (enc_case 0 [lit "0,0,0,9,0"; lit "0,0,0,1,0"])) = [0; 0; 2] /\
  obs_combo (run_lines 0 [lit "0,0,0,10,0,L|5:5,1"; lit "0,0,10,1,0"]) = [(1, 1); (0, 0)] /\
  obs_combo (run_lines 0 [lit "0,0,0,11,0"; lit "0,0,10,2,0,L|5:5,1"]) = [(0, 1); (1, 0)] /\
  obs_combo (run_lines 0 [lit "0,0,0,8,0,50"; lit "0,0,60,1,0"]) = [(2, 0); (0, 1)] /\
  obs_combo (run_lines 0 [lit "0,0,0,136,0,50"; lit "0,0,60,2,0,L|5:5,1"]) = [(2, 0); (1, 1)] /\
  obs_combo (run_lines 0 [lit "0,0,0,9,0"; lit "0,0,5,8,0"; lit "bad"; lit "0,0,10,1,0"]) = [(0, 1); (0, 0)] /\
  obs_combo (run_lines 0 [lit "0,0,0,8,0,50"; lit "0,0,5,9,0,x"; lit "0,0,60,1,0"]) = [(2, 0); (0, 1)].
Proof. repeat split; vm_compute; reflexivity. Qed.

(* ---------- T14b: the path string ---------- *)
(* convert_path_str (index loops, fuel) is total and equals the structural
   [path_spec]: on success the control points are appended to curve_points; on
   a malformed path the points of the well-formed leading segments stay there
   (scratch: parse_hit_objects clears curve_points before the next path) *)
Theorem C14_path_spec :
  forall pb point_str offset, exists V,
    convert_path_str pb point_str offset
    = Done (mkPB (pb_curve pb ++ fst (path_spec point_str offset)) V,
            if snd (path_spec point_str offset) then Ok else Rejected).
Proof. exact convert_path_str_spec. Qed.
Print Assumptions C14_path_spec.

(* one segment / the duplicate loop on their own *)
Theorem C14_segment_spec :
  forall pb cur closing first offset,
  (first = true \/ (1 < length cur)%nat \/ closing = None \/
   (exists c, closing = Some c /\ read_point c offset = None)) ->
  exists V,
    convert_points pb cur closing first offset =
    match seg_spec first cur closing offset with
    | Some em => Done (mkPB (pb_curve pb ++ em) V, Ok)
    | None => Done (mkPB (pb_curve pb) V, Rejected)
    end.
Proof. exact convert_points_spec. Qed.
Print Assumptions C14_segment_spec.

(* a token that begins with a letter is never read as a point *)
Theorem C14_letter_is_not_a_point :
  forall c r off, is_ascii_alpha c = true -> read_point (c :: r) off = None.
Proof. exact read_point_alpha. Qed.
Print Assumptions C14_letter_is_not_a_point.

Example path_examples :
  (* first point at the origin carrying the type; a repeated point splits *)
  flat_map dump_pcp (fst (path_spec (lit "B|1:1|1:1|2:2") (mkPos S.zero S.zero)))
  = flat_map dump_pcp [mkPCP (mkPos S.zero S.zero) (Some pt_bezier);
                       mkPCP (mkPos (S.of_Z 1) (S.of_Z 1)) (Some pt_bezier);
                       mkPCP (mkPos (S.of_Z 2) (S.of_Z 2)) None] /\
  (* three collinear points: perfect -> linear; four points: perfect -> Bezier *)
  map (fun p => omap pt_kind (cp_type p)) (fst (path_spec (lit "P|1:1|2:2") (mkPos S.zero S.zero)))
  = [Some sk_linear; None; None] /\
  map (fun p => omap pt_kind (cp_type p)) (fst (path_spec (lit "P|1:0|2:2|3:0") (mkPos S.zero S.zero)))
  = [Some sk_bspline; None; None; None] /\
  map (fun p => omap pt_kind (cp_type p)) (fst (path_spec (lit "P|1:0|2:2") (mkPos S.zero S.zero)))
  = [Some sk_perfect; None; None] /\
  (* Catmull: only the first pair splits; never at the segment's end *)
  length (fst (path_spec (lit "C|1:1|1:1|2:2|2:2|3:3") (mkPos S.zero S.zero))) = 6%nat /\
  length (fst (path_spec (lit "B|1:1|2:2|2:2") (mkPos S.zero S.zero))) = 4%nat /\
  (* malformed later segment: not ok (the two leading points stay in the scratch buffer) *)
  (length (fst (path_spec (lit "B|100:100|L|200:0|P|x:0") (mkPos S.zero S.zero))),
   snd (path_spec (lit "B|100:100|L|200:0|P|x:0") (mkPos S.zero S.zero))) = (2%nat, false).
Proof. repeat split; vm_compute; reflexivity. Qed.

(* ---------- T14c: samples ---------- *)
Theorem C14_samples_spec : forall b sound, convert_sound_type b sound = samples_spec b sound.
Proof. exact convert_sound_type_spec. Qed.
Print Assumptions C14_samples_spec.

Theorem C14_banks_spec :
  forall b fields only, read_custom_sample_banks b fields only = banks_spec b fields only.
Proof. exact read_custom_sample_banks_spec. Qed.
Print Assumptions C14_banks_spec.

Theorem C14_volume_nonneg :
  forall b fields only b', 0 <= sbi_volume b -> banks_spec b fields only = Some b' -> 0 <= sbi_volume b'.
Proof. exact banks_spec_volume. Qed.
Print Assumptions C14_volume_nonneg.

Theorem C14_bank_fallbacks :
  forall b f0 f1 rest only b' n a,
  f0 <> [] -> pn_i32 f0 = Some n -> pn_i32 f1 = Some a ->
  banks_spec b (f0 :: f1 :: rest) only = Some b' ->
  sbi_normal b' = bank_opt n /\
  sbi_addition b' = match bank_opt a with Some x => Some x | None => bank_opt n end.
Proof. exact banks_spec_banks. Qed.
Print Assumptions C14_bank_fallbacks.

Example samples_examples :
  (* order normal / finish / whistle / clap, layered when the normal bit is absent *)
  flat_map dump_sample (samples_spec (mkSBI None (Some 2) (Some 3) 40 3) 14)
  = flat_map dump_sample
      [mkHS (NDefault nm_normal) 2 (Some 3) 40 3 true true;
       mkHS (NDefault nm_finish) 3 (Some 3) 40 3 true false;
       mkHS (NDefault nm_whistle) 3 (Some 3) 40 3 true false;
       mkHS (NDefault nm_clap) 3 (Some 3) 40 3 true false] /\
  (* a file name replaces the normal sample *)
  map (fun s => match hs_name s with NFile _ => 1 | NDefault n => 10 + n end)
      (samples_spec (mkSBI (Some (lit "f.wav")) None None 0 0) 2) = [1; 10 + nm_whistle].
Proof. split; vm_compute; reflexivity. Qed.

(* ---------- C06-relevant: a rejected line is as if absent ---------- *)
(* [same_but_scratch a b]: a and b agree on last_object, hit_objects and mode,
   i.e. on everything except the scratch buffers curve_points and vertices *)

(* (a) on Rejected only the scratch buffers can differ *)
Theorem C14_rejected_state :
  forall st line st',
  parse_hit_objects st line = Done (st', Rejected) ->
  ho_last st' = ho_last st /\ ho_objects st' = ho_objects st /\ ho_mode st' = ho_mode st.
Proof. exact rejected_state. Qed.
Print Assumptions C14_rejected_state.

(* ... and only a slider line touches even those *)
Theorem C14_rejected_non_slider :
  forall st line st' f,
  parse_hit_objects st line = Done (st', Rejected) ->
  common_spec line = Some f -> kind_of_type (f_type f) <> Some 1 -> st' = st.
Proof. exact rejected_non_slider. Qed.
Print Assumptions C14_rejected_non_slider.

(* (b) congruence: states that agree up to the scratch buffers give the same
   result flag, the same hit_objects (hence the same pushed object) and
   last_object, and output states that again agree up to the scratch buffers *)
Theorem C14_scratch_irrelevant :
  forall st1 st2 line st1' r1 st2' r2,
  same_but_scratch st1 st2 ->
  parse_hit_objects st1 line = Done (st1', r1) ->
  parse_hit_objects st2 line = Done (st2', r2) ->
  r1 = r2 /\ same_but_scratch st1' st2'.
Proof. exact scratch_irrelevant. Qed.
Print Assumptions C14_scratch_irrelevant.

(* (c) over line sequences, from any start state: with [l] rejected where it
   stands, folding over [pre ++ l :: post] ends with the same hit_objects and
   last_object as folding over [pre ++ post] *)
Theorem C14_rejected_line_absent :
  forall st pre l post st',
  parse_hit_objects (run_from st pre) l = Done (st', Rejected) ->
  ho_last (run_from st (pre ++ post)) = ho_last (run_from st (pre ++ l :: post)) /\
  ho_objects (run_from st (pre ++ post)) = ho_objects (run_from st (pre ++ l :: post)) /\
  ho_mode (run_from st (pre ++ post)) = ho_mode (run_from st (pre ++ l :: post)).
Proof. exact rejected_line_absent. Qed.
Print Assumptions C14_rejected_line_absent.

(* the former D3 input: the rejected slider still leaves two points in the
   scratch buffer, and they no longer reach the next slider *)
Example residue_is_dropped :
  let bad := lit "1,1,0,2,0,B|100:100|L|200:0|P|x:0,1,300" in
  let good := lit "1,1,0,2,0,L|50:50,1,50" in
  Z.of_nat (length (ho_curve (run_lines 0 [bad]))) = 2 /\
  obs_cp_counts (run_lines 0 [bad; good]) = [2] /\
  obs_cp_counts (run_lines 0 [good]) = [2] /\
  firstn 2 (Drv14.run_c14 (enc_case 0 [bad; good])) = [1; 0] /\
  skipn 2 (Drv14.run_c14 (enc_case 0 [bad; good])) = skipn 1 (Drv14.run_c14 (enc_case 0 [good])).
Proof. repeat split; vm_compute; reflexivity. Qed.

(* the slider fields read before the path (repeat cap, repeats - 1 floored at
   0, length rule, repeats + 2 node sample sets by position with defaults for
   missing entries and surplus entries ignored): no panic, and the
   position-indexed [slider_fields_spec] *)
Theorem C14_slider_fields :
  forall sound rest, parse_slider_pre sound rest = Done (slider_fields_spec sound rest).
Proof. exact parse_slider_pre_spec. Qed.
Print Assumptions C14_slider_fields.

(* non-vacuity: the four kinds are produced, with the documented fields *)
Example C14_nonvacuous :
  obs_combo (run_lines 0 [lit "256,192,1000,12,0,3000,0:0:0:0:"; lit "1,2,3,1,14,1:2:3:40:file.wav";
                          lit "0,0,0,2,0,P|1:0|2:2,3,10"; lit "5,5,5,128,0,9:0:0:0:0:"])
  = [(2, 1); (0, 1); (1, 0); (3, 0)].
Proof. vm_compute. reflexivity. Qed.

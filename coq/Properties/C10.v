(* C10 -- statements are added below as the proofs land. *)
From RM Require Import Model.Text Model.Encoding Model.Reader Model.DrvIO.
From RM Require Import Gen.Generated.
Open Scope Z_scope.

Example pin_bom_table_C10 :
  bom_table = [([239; 187; 191], 0, 3); ([255; 254], 2, 2); ([254; 255], 1, 2); ([], 0, 0)].
Proof. reflexivity. Qed.

(* C10 -- Text encoding is transparent.  Statements only, each closed by
   [exact] of a lemma from Proofs/ (EncodingFacts, TransparencyFacts), followed
   by Print Assumptions; then pins, non-vacuity examples and the readings of the
   inputs of the repaired findings D5 (UTF-16 lines were cut at every BYTE
   0x0A) and D6. *)
From RM Require Import Model.Text Model.Encoding Model.Reader Model.DrvIO.
From RM Require Import Proofs.EncodingFacts Proofs.ReaderFacts Proofs.TransparencyFacts Proofs.IoWitnesses.
From RM Require Import Gen.Generated.
Open Scope Z_scope.

(* ---------- pins ---------- *)

Example pin_bom_table :
  bom_table = [([239; 187; 191], 0, 3); ([255; 254], 2, 2); ([254; 255], 1, 2); ([], 0, 0)].
Proof. reflexivity. Qed.
Example pin_boms :
  from_bom bom_utf8 = (Utf8, 3%nat) /\ from_bom bom_le = (Utf16LE, 2%nat) /\
  from_bom bom_be = (Utf16BE, 2%nat) /\ from_bom [] = (Utf8, 0%nat).
Proof. repeat split. Qed.
(* Decoder::read_line ends a UTF-16 line at a code unit U+000A only (the shape
   of the loop is recognised by the translator) *)
Example pin_read_line_unit_aligned : read_line_unit_aligned = true.
Proof. reflexivity. Qed.
Example pin_replacement : REPL = 65533 /\ LF = 10.
Proof. split; reflexivity. Qed.

(* ---------- T10a: codecs ---------- *)

Theorem C10_utf8_roundtrip : forall s, scalar_str s -> decode Utf8 (utf8_enc s) = Done s.
Proof. exact utf8_roundtrip. Qed.
Print Assumptions C10_utf8_roundtrip.

Theorem C10_utf16le_roundtrip : forall s, scalar_str s -> decode Utf16LE (utf16le_enc s) = Done s.
Proof. exact utf16le_roundtrip. Qed.
Print Assumptions C10_utf16le_roundtrip.

Theorem C10_utf16be_roundtrip : forall s, scalar_str s -> decode Utf16BE (utf16be_enc s) = Done s.
Proof. exact utf16be_roundtrip. Qed.
Print Assumptions C10_utf16be_roundtrip.

(* an unpaired surrogate between two well-formed texts becomes U+FFFD, and
   nothing else changes *)
Theorem C10_unpaired_surrogate : forall a u b,
  scalar_str a -> scalar_str b -> is_surrogate u = true ->
  decode_utf16 (utf16_units a ++ u :: utf16_units b) = a ++ REPL :: b.
Proof. exact utf16_unpaired_surrogate. Qed.
Print Assumptions C10_unpaired_surrogate.

(* an odd trailing byte of a UTF-16 buffer is dropped *)
Theorem C10_odd_tail_le : forall s x, scalar_str s -> decode Utf16LE (utf16le_enc s ++ [x]) = Done s.
Proof. exact utf16le_odd_tail. Qed.
Print Assumptions C10_odd_tail_le.
Theorem C10_odd_tail_be : forall s x, scalar_str s -> decode Utf16BE (utf16be_enc s ++ [x]) = Done s.
Proof. exact utf16be_odd_tail. Qed.
Print Assumptions C10_odd_tail_be.

(* ---------- T10b: lossy UTF-8 ---------- *)

(* the loop of encoding.rs over std's from_utf8 errors never runs out of fuel
   and equals the one-pass automaton (one U+FFFD per maximal invalid subpart),
   for ALL byte lists *)
Theorem C10_lossy_loop_is_spec : forall v : bytes, decode Utf8 v = Done (lossy_spec v).
Proof. exact decode_utf8_lossy_spec. Qed.
Print Assumptions C10_lossy_loop_is_spec.

(* on well-formed input the automaton is the identity *)
Theorem C10_lossy_spec_valid : forall s, scalar_str s -> lossy_spec (utf8_enc s) = s.
Proof. exact lossy_spec_valid. Qed.
Print Assumptions C10_lossy_spec_valid.

(* damage stays on its line *)
Theorem C10_lossy_local : forall a b : bytes,
  lossy_spec (a ++ [LF] ++ b) = lossy_spec a ++ [LF] ++ lossy_spec b.
Proof. exact lossy_spec_lf. Qed.
Print Assumptions C10_lossy_local.

(* from_utf8_unchecked is only applied to a prefix that validates *)
Theorem C10_unchecked_prefix_valid : forall v n el,
  from_utf8 v = Some (n, el) -> from_utf8 (firstn n v) = None /\ (n <= length v)%nat.
Proof. exact from_utf8_valid_prefix. Qed.
Print Assumptions C10_unchecked_prefix_valid.

(* at stream level: every line of a UTF-8 stream of arbitrary bytes is the
   lossy conversion of its own raw line *)
Theorem C10_utf8_stream_lines : forall b,
  one_chunk (bom_utf8 ++ b) = IoDone (map (fun l => trim_end (lossy_spec l)) (chunks LF b)).
Proof. exact utf8_stream_lines. Qed.
Print Assumptions C10_utf8_stream_lines.

Theorem C10_utf8_plain_stream_lines : forall b,
  from_bom b = (Utf8, 0%nat) ->
  one_chunk b = IoDone (map (fun l => trim_end (lossy_spec l)) (chunks LF b)).
Proof. exact utf8_plain_stream_lines. Qed.
Print Assumptions C10_utf8_plain_stream_lines.

(* the same for UTF-16: the raw lines of a UTF-16 stream of ARBITRARY bytes are
   cut behind every code unit U+000A that starts at an even offset
   ([chunks16]); a byte 0x0A at an odd offset or with a non-zero partner byte
   is content; a stream of odd length keeps its lone last byte on the last raw
   line, where the decoder drops it (C10_odd_tail_le, C10_odd_tail_be).  Every line is the lossy
   conversion of its own raw line: an unpaired surrogate becomes U+FFFD where
   it stands (C10_unpaired_surrogate) and touches no other line. *)
Theorem C10_utf16le_stream_lines : forall b,
  one_chunk (bom_le ++ b) = IoDone (map (fun l => trim_end (decode_utf16 (u16_le l))) (chunks16 true None b)).
Proof. exact utf16le_stream_lines. Qed.
Print Assumptions C10_utf16le_stream_lines.

Theorem C10_utf16be_stream_lines : forall b,
  one_chunk (bom_be ++ b) = IoDone (map (fun l => trim_end (decode_utf16 (u16_be l))) (chunks16 false None b)).
Proof. exact utf16be_stream_lines. Qed.
Print Assumptions C10_utf16be_stream_lines.

(* the raw lines are the successive cuts of the reference [scan16] *)
Theorem C10_chunks16_are_the_cuts : forall le b st, b <> [] ->
  chunks16 le st b = fst (scan16 le st b) :: chunks16 le None (snd (scan16 le st b)).
Proof. exact chunks16_split. Qed.
Print Assumptions C10_chunks16_are_the_cuts.

(* a code unit ends the line iff it IS U+000A, whatever bytes it contains *)
Theorem C10_only_unit_000A_ends_a_line : forall u, 0 <= u < 65536 ->
  is_lf_unit true (u mod 256) (u / 256) = (u =? LF) /\
  is_lf_unit false (u / 256) (u mod 256) = (u =? LF).
Proof. exact only_unit_lf_ends_a_line. Qed.
Print Assumptions C10_only_unit_000A_ends_a_line.

(* ---------- T10c: transparency ---------- *)

(* The full statement, for EVERY Unicode content: the four encodings of a
   scalar-value text give the same lines -- those of the text -- for EVERY
   faultless delivery schedule.  No exclusion is left: D5 (a UTF-16 code unit
   other than U+000A with a byte 0x0A, e.g. U+4E0A, U+0A41, U+010A, U+1040A,
   ended the line), D4 and D6 are repaired.  A BOM-less text that itself
   starts with U+FEFF *is* a text with BOM (interpretation), hence the side
   condition of the last clause. *)
Theorem C10_transparency : forall s, scalar_str s ->
  forall sch, faultless sch ->
  let L := IoDone (lines_of_text s) in
  read_all_lines (mk_reader (bom_utf8 ++ utf8_enc s) sch) = L /\
  read_all_lines (mk_reader (bom_le ++ utf16le_enc s) sch) = L /\
  read_all_lines (mk_reader (bom_be ++ utf16be_enc s) sch) = L /\
  (hd 0 s <> 65279 -> read_all_lines (mk_reader (utf8_enc s) sch) = L).
Proof. exact transparency. Qed.
Print Assumptions C10_transparency.

(* in the words of the property: the same result from all four forms *)
Theorem C10_four_encodings_agree : forall s, scalar_str s -> hd 0 s <> 65279 ->
  one_chunk (utf8_enc s) = one_chunk (bom_utf8 ++ utf8_enc s) /\
  one_chunk (utf8_enc s) = one_chunk (bom_le ++ utf16le_enc s) /\
  one_chunk (utf8_enc s) = one_chunk (bom_be ++ utf16be_enc s).
Proof. exact four_encodings_agree. Qed.
Print Assumptions C10_four_encodings_agree.

(* the cut of an encoded text is the encoding of the cut of the text *)
Theorem C10_utf16_cut_is_text_cut : forall s, scalar_str s ->
  scan16 true None (utf16le_enc s) = (utf16le_enc (fst (split_line LF s)), utf16le_enc (snd (split_line LF s))) /\
  scan16 false None (utf16be_enc s) = (utf16be_enc (fst (split_line LF s)), utf16be_enc (snd (split_line LF s))).
Proof. exact utf16_cut_is_text_cut. Qed.
Print Assumptions C10_utf16_cut_is_text_cut.

(* a clean stream never fails, whatever its encoding and its bytes: on every
   faultless delivery the decode yields a list of lines (D6 -- UnexpectedEof
   for a UTF-16LE stream ending right after the low byte of a line feed -- is
   repaired; the former statement was "an error arises only in the UTF-16LE
   arm, and it is UnexpectedEof") *)
Theorem C10_clean_stream_never_fails : forall b s,
  faultless s -> exists ls, read_all_lines (mk_reader b s) = IoDone ls.
Proof. exact clean_stream_never_fails. Qed.
Print Assumptions C10_clean_stream_never_fails.

(* ---------- non-vacuity ---------- *)

(* "Title:<U+6F22><U+1F600> \r\nx" : CJK, astral, trailing blanks, CRLF, last line without LF *)
Definition sample : str := lit "Title:" ++ [28450; 128512; 32; 13; 10; 120].

Example C10_nonvacuous :
  show (one_chunk (utf8_enc sample)) = show (IoDone [lit "Title:" ++ [28450; 128512]; [120]]) /\
  show (one_chunk (bom_utf8 ++ utf8_enc sample)) = show (one_chunk (utf8_enc sample)) /\
  show (one_chunk (bom_le ++ utf16le_enc sample)) = show (one_chunk (utf8_enc sample)) /\
  show (one_chunk (bom_be ++ utf16be_enc sample)) = show (one_chunk (utf8_enc sample)).
Proof. vm_compute. repeat split. Qed.

(* lossy: E0 A0 (truncated), then 'A', then F0 90 at the end: one U+FFFD each *)
Example C10_lossy_example :
  dump_ostr (decode Utf8 [224; 160; 65; 240; 144]) = [0; 3; 65533; 65; 65533].
Proof. vm_compute. reflexivity. Qed.

(* ---------- the inputs of the repaired findings ---------- *)

(* former D5: U+4E0A has the bytes 4E 0A (before the repair both UTF-16 forms
   gave "Title:<U+4E0A>" | "x"); a text with U+0A41 U+010A U+1040A U+0A00 U+0AFF
   U+FF0A U+200A; single-byte and uneven delivery *)
Example C10_former_d5_texts :
  scalar_str d5_text /\ scalar_str d5_text2 /\
  show (one_chunk (bom_utf8 ++ utf8_enc d5_text)) = show (IoDone [lit "Title:" ++ [19978; 120]]) /\
  show (one_chunk (bom_le ++ utf16le_enc d5_text)) = show (IoDone [lit "Title:" ++ [19978; 120]]) /\
  show (one_chunk (bom_be ++ utf16be_enc d5_text)) = show (IoDone [lit "Title:" ++ [19978; 120]]) /\
  show (one_chunk (bom_utf8 ++ utf8_enc d5_text2)) = show (IoDone (lines_of_text d5_text2)) /\
  show (one_chunk (bom_le ++ utf16le_enc d5_text2)) = show (IoDone (lines_of_text d5_text2)) /\
  show (one_chunk (bom_be ++ utf16be_enc d5_text2)) = show (IoDone (lines_of_text d5_text2)) /\
  show (IoDone (lines_of_text d5_text2)) = show (IoDone [[2625; 266; 66570; 2560; 2815; 65290]; lit "z"; [8202; 120]]) /\
  show (read_all_lines (mk_reader (bom_le ++ utf16le_enc d5_text2) (repeat (Chunk 1) 40))) = show (IoDone (lines_of_text d5_text2)) /\
  show (read_all_lines (mk_reader (bom_be ++ utf16be_enc d5_text2) [Chunk 3; Interrupted; Chunk 2; Chunk 1; Chunk 5])) = show (IoDone (lines_of_text d5_text2)).
Proof. exact former_d5_texts_decode. Qed.

(* malformed UTF-16 streams: what their lines are *)
Example C10_malformed_utf16_lines :
  show (one_chunk (bom_be ++ [0; 97; 10; 0; 98; 0; 10; 99])) = show (IoDone [[97; 2560; 25088; 2659]]) /\
  show (one_chunk (bom_le ++ [97; 0; 0; 10; 10; 0; 98])) = show (IoDone [[97; 2560]; []]) /\
  show (one_chunk (bom_le ++ [97; 0; 10; 1; 10])) = show (IoDone [[97; 266]]) /\
  show (one_chunk (bom_be ++ [0; 10; 10])) = show (IoDone [[]; []]) /\
  show (one_chunk (bom_be ++ [10; 10; 0; 10; 0; 98])) = show (IoDone [[2570]; [98]]).
Proof. exact malformed_utf16_lines. Qed.

(* former D6 (repaired): a UTF-16LE stream that ends right after the low byte
   of a line feed.  The odd trailing byte is a last raw line that decodes to
   the empty string (C10_odd_tail_le): the lines of the text, then one blank
   line, which the framing layer ignores (C05); no error *)
Theorem C10_odd_tail_decodes :
  exists s x, scalar_str s /\
    one_chunk (bom_le ++ utf16le_enc s ++ [x]) = IoDone (lines_of_text s ++ [[]]) /\
    one_chunk (bom_le ++ utf16le_enc s) = IoDone (lines_of_text s).
Proof. exact odd_tail_decodes. Qed.
Print Assumptions C10_odd_tail_decodes.

Example C10_former_d6_readings :
  show (one_chunk (bom_le ++ utf16le_enc (lit "ab" ++ [10]) ++ [10])) = show (IoDone [lit "ab"; []]) /\
  show (one_chunk (bom_le ++ utf16le_enc (lit "ab") ++ [10])) = show (IoDone [lit "ab"]) /\
  show (one_chunk (bom_le ++ utf16le_enc (lit "ab" ++ [10]))) = show (IoDone [lit "ab"]).
Proof. vm_compute. repeat split. Qed.

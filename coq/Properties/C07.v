(* C07 — Specialised decoders agree with the full decoder.

   "For every input, each specialised decoder (General, Editor, Metadata,
   Difficulty, Events, Colours, TimingPoints, HitObjects) returns exactly the
   values that the full Beatmap decoder returns for the fields they share.
   Choosing a cheaper decoder never changes what is read."

   Statements only, each closed by [exact] of a lemma of
   Proofs/DecodersFacts.v / Proofs/DecodersTotal.v and followed by
   Print Assumptions; plus Examples on dumps (non-vacuity).

   The nine decoders are the nine instantiations of the framing [driver] in
   Model/Decoders.v, with their own nested parser states and their delegation
   chains written out as in beatmap.rs, section/hit_objects/decode.rs,
   section/timing_points/decode.rs and the six single-section impls.  Input =
   the list of lines [Decoder::read_line] delivers (the byte -> line layer is
   C10 / C08 / C05).  Every statement is for every [dist_of], the slider-curve
   distance used by the finishing step of HitObjects / Beatmap (supplied by
   the curve model).

   Reading of "exactly":
     (1) whenever the Beatmap decode returns a value, the specialised decode
         returns the projection of that value on the shared fields
         (C07_general .. C07_hit_objects);
     (2) HitObjects and Beatmap fail on exactly the same files, with the same
         outcome (C07_hit_objects_exact: an equation between outcomes);
     (3) the parse itself never fails for any decoder; the only step that can
         is the curve distance in the HitObjects / Beatmap finishing loop
         (C07_beatmap_fails_only_in_dist).  With [dist_total] (the curve
         package's obligation) all nine decoders return values and the eight
         equations hold together (C07_decoders_agree). *)
From RM Require Import Model.Decoders Model.Drv07 Proofs.FramingFacts
     Proofs.ControlPointsFacts Proofs.DecodersFacts Proofs.DecodersTotal.
Open Scope Z_scope.

(* ------------------------------------------------------------------ *)
(* the same comment / blank-line rule in all nine decoders              *)

Theorem C07_same_skip_rule :
  (forall l, skip (simple_parsers SecGeneral parse_general) l = should_skip_line l) /\
  (forall l, skip (simple_parsers SecEditor parse_editor) l = should_skip_line l) /\
  (forall l, skip (simple_parsers SecMetadata parse_metadata) l = should_skip_line l) /\
  (forall l, skip (simple_parsers SecDifficulty parse_difficulty) l = should_skip_line l) /\
  (forall l, skip (simple_parsers SecEvents parse_events) l = should_skip_line l) /\
  (forall l, skip (simple_parsers SecColors parse_colors) l = should_skip_line l) /\
  (forall l, skip tp_parsers l = should_skip_line l) /\
  (forall l, skip ho_parsers l = should_skip_line l) /\
  (forall l, skip bm_parsers l = should_skip_line l).
Proof.
  repeat split; first [apply skip_simple | exact skip_tp | exact skip_ho | exact skip_bm].
Qed.
Print Assumptions C07_same_skip_rule.

(* ------------------------------------------------------------------ *)
(* (1) the specialised decoder returns the projection of the Beatmap    *)

Theorem C07_general :
  forall dist_of lines bv,
  decode_beatmap dist_of lines = Done bv ->
  hov_general (bmv_ho bv) = decode_general lines.
Proof. exact beatmap_general. Qed.
Print Assumptions C07_general.

Theorem C07_editor :
  forall dist_of lines bv,
  decode_beatmap dist_of lines = Done bv -> bmv_editor bv = decode_editor lines.
Proof. exact beatmap_editor. Qed.
Print Assumptions C07_editor.

Theorem C07_metadata :
  forall dist_of lines bv,
  decode_beatmap dist_of lines = Done bv -> bmv_metadata bv = decode_metadata lines.
Proof. exact beatmap_metadata. Qed.
Print Assumptions C07_metadata.

Theorem C07_difficulty :
  forall dist_of lines bv,
  decode_beatmap dist_of lines = Done bv ->
  hov_difficulty (bmv_ho bv) = decode_difficulty lines.
Proof. exact beatmap_difficulty. Qed.
Print Assumptions C07_difficulty.

Theorem C07_events :
  forall dist_of lines bv,
  decode_beatmap dist_of lines = Done bv ->
  hov_events (bmv_ho bv) = decode_events lines.
Proof. exact beatmap_events. Qed.
Print Assumptions C07_events.

Theorem C07_colours :
  forall dist_of lines bv,
  decode_beatmap dist_of lines = Done bv -> bmv_colors bv = decode_colors lines.
Proof. exact beatmap_colors. Qed.
Print Assumptions C07_colours.

(* TimingPoints = the General fields + the control points *)
Theorem C07_timing_points :
  forall dist_of lines bv,
  decode_beatmap dist_of lines = Done bv ->
  decode_timing_points lines =
  Done (mkTPV (hov_general (bmv_ho bv)) (hov_control_points (bmv_ho bv))).
Proof. exact beatmap_timing_points. Qed.
Print Assumptions C07_timing_points.

(* HitObjects = General, Difficulty, Events, control points, hit objects *)
Theorem C07_hit_objects :
  forall dist_of lines bv,
  decode_beatmap dist_of lines = Done bv ->
  decode_hit_objects dist_of lines = Done (bmv_ho bv).
Proof. exact beatmap_hit_objects_done. Qed.
Print Assumptions C07_hit_objects.

(* ------------------------------------------------------------------ *)
(* (2) HitObjects and Beatmap: one equation between outcomes            *)

Theorem C07_hit_objects_exact :
  forall dist_of lines,
  decode_hit_objects dist_of lines =
  obind (decode_beatmap dist_of lines) (fun bv => Done (bmv_ho bv)).
Proof. exact beatmap_hit_objects. Qed.
Print Assumptions C07_hit_objects_exact.

Theorem C07_hit_objects_converse :
  forall dist_of lines hv,
  decode_hit_objects dist_of lines = Done hv ->
  exists bv, decode_beatmap dist_of lines = Done bv /\ bmv_ho bv = hv.
Proof. exact hit_objects_done_beatmap. Qed.
Print Assumptions C07_hit_objects_converse.

(* ------------------------------------------------------------------ *)
(* (3) where a decode can fail at all                                   *)

(* the six single-section decoders return a value by type (their parsers
   have no panic point and no unbounded loop); TimingPoints always does: *)
Theorem C07_timing_points_total :
  forall lines, exists tv, decode_timing_points lines = Done tv.
Proof. exact decode_timing_points_total. Qed.
Print Assumptions C07_timing_points_total.

(* Beatmap: the parse never fails; the decode is the finishing conversion of
   a parser state with sorted control points, which fails only where a
   slider's curve distance [dist_of] does (Proofs/DecodersTotal.v,
   process_object_total) *)
Theorem C07_beatmap_fails_only_in_dist :
  forall dist_of lines,
  exists s, cp_sorted (tpd_cp (hod_tp (bmd_ho s))) /\
            decode_beatmap dist_of lines = bmd_finish dist_of s.
Proof. exact decode_beatmap_fails_only_in_dist. Qed.
Print Assumptions C07_beatmap_fails_only_in_dist.

(* all of it together, under the curve package's obligation *)
Theorem C07_decoders_agree :
  forall dist_of, dist_total dist_of -> forall lines,
  exists bv,
    decode_beatmap dist_of lines = Done bv /\
    decode_general lines = hov_general (bmv_ho bv) /\
    decode_editor lines = bmv_editor bv /\
    decode_metadata lines = bmv_metadata bv /\
    decode_difficulty lines = hov_difficulty (bmv_ho bv) /\
    decode_events lines = hov_events (bmv_ho bv) /\
    decode_colors lines = bmv_colors bv /\
    decode_timing_points lines =
      Done (mkTPV (hov_general (bmv_ho bv)) (hov_control_points (bmv_ho bv))) /\
    decode_hit_objects dist_of lines = Done (bmv_ho bv).
Proof. exact decoders_agree. Qed.
Print Assumptions C07_decoders_agree.

(* ------------------------------------------------------------------ *)
(* Examples (on dumps): one small file through all nine decoders         *)

(* a stand-in curve distance for the examples: the expected distance *)
Definition ex_dist (_ : Z) (_ : list PCP) (e : option F64) : outcome F64 :=
  Done (match e with Some d => d | None => D.zero end).

Definition ex_file : list str :=
  map lit ["osu file format v12"; "[General]"; "Mode: 1"; "  // an indented comment";
           "[Editor]"; "BeatDivisor: 7";
           "[Metadata]"; "Title:t";
           "[Difficulty]"; "SliderMultiplier:2";
           "[Events]"; "2,300,200"; "2,100,150";
           "[TimingPoints]"; "0,500,4,2,0,60,1,0"; "oops";
           "[Colours]"; "Combo1 : 1,2,3";
           "[HitObjects]"; "256,192,100,1,0"; "0,0,50,2,0,L|10:10,1,25"]%string.

Definition ex_beatmap : list Z := dump_oc dump_bmv (decode_beatmap ex_dist ex_file).

(* the Beatmap decode returns a value in which every section left a trace *)
Example ex_beatmap_is_done_and_nontrivial :
  hd 9 ex_beatmap = 0 /\ nth 1 ex_beatmap 0 = 12 /\
  match decode_beatmap ex_dist ex_file with
  | Done bv =>
      g_mode (hov_general (bmv_ho bv)) = 1 /\ ed_beat_divisor (bmv_editor bv) = 7 /\
      m_title (bmv_metadata bv) = lit "t" /\
      length (ev_breaks (hov_events (bmv_ho bv))) = 2%nat /\
      length (cp_timing (hov_control_points (bmv_ho bv))) = 1%nat /\
      length (co_custom_combo_colors (bmv_colors bv)) = 1%nat /\
      length (hov_hit_objects (bmv_ho bv)) = 2%nat
  | _ => False
  end.
Proof. vm_compute. repeat split; reflexivity. Qed.

(* ... and each specialised decoder returns its share of it *)
Example ex_specialised_agree :
  match decode_beatmap ex_dist ex_file with
  | Done bv =>
      dump_general (decode_general ex_file) = dump_general (hov_general (bmv_ho bv)) /\
      dump_editor (decode_editor ex_file) = dump_editor (bmv_editor bv) /\
      dump_metadata (decode_metadata ex_file) = dump_metadata (bmv_metadata bv) /\
      dump_difficulty_v (decode_difficulty ex_file) = dump_difficulty_v (hov_difficulty (bmv_ho bv)) /\
      dump_events (decode_events ex_file) = dump_events (hov_events (bmv_ho bv)) /\
      dump_colors (decode_colors ex_file) = dump_colors (bmv_colors bv) /\
      dump_oc dump_tpv (decode_timing_points ex_file) =
        0 :: dump_general (hov_general (bmv_ho bv)) ++ dump_cp (hov_control_points (bmv_ho bv)) /\
      dump_oc dump_hov (decode_hit_objects ex_dist ex_file) = 0 :: dump_hov (bmv_ho bv)
  | _ => False
  end.
Proof. vm_compute. repeat split; reflexivity. Qed.

(* the specialised decoders differ from each other and from the defaults:
   the statements above are not about constant functions *)
Example ex_not_default :
  dump_general (decode_general ex_file) <> dump_general general_default /\
  dump_events (decode_events ex_file) <> dump_events events_default /\
  dump_oc dump_tpv (decode_timing_points ex_file) <> dump_oc dump_tpv (decode_timing_points []).
Proof. vm_compute. repeat split; discriminate. Qed.

(* the breaks of the Events section reach the Beatmap in file order (not
   sorted): 300..200 is clamped by the parser, the order of the two lines is
   kept by every decoder *)
Example ex_breaks_in_file_order :
  map (fun b => D.bits (bp_start b)) (ev_breaks (decode_events ex_file))
  = map D.bits [D.of_Z 300; D.of_Z 100].
Proof. vm_compute. reflexivity. Qed.

(* a dist_of that fails makes Beatmap and HitObjects fail alike (a slider is
   present), while TimingPoints and the simple decoders are unaffected *)
Definition ex_dist_fails (_ : Z) (_ : list PCP) (_ : option F64) : outcome F64 := Panic 77.
Example ex_dist_failure_is_shared :
  dump_oc dump_bmv (decode_beatmap ex_dist_fails ex_file) = [1; 77] /\
  dump_oc dump_hov (decode_hit_objects ex_dist_fails ex_file) = [1; 77] /\
  hd 9 (dump_oc dump_tpv (decode_timing_points ex_file)) = 0.
Proof. vm_compute. repeat split; reflexivity. Qed.

(* C07 — placeholder while the simulation proofs are being written: pins only. *)
From RM Require Import Model.Decoders.
Example C07_decoders_exist : True. Proof. exact I. Qed.

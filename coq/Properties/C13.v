(* C13 — Control-point collections stay ordered and lookups return the
   active point.  This file holds only statements, each closed by [exact]
   of a lemma from Proofs/, followed by Print Assumptions. *)
From RM Require Import Model.ControlPoints Proofs.ControlPointsFacts.
Open Scope Z_scope.

(* T13a: any sequence of adds through the public API, in any order, never
   panics and leaves all four lists strictly increasing in time. *)
Theorem C13_sorted_all_histories :
  forall ops : list cp_op,
  exists c, cp_run cp_empty ops = Done c /\ cp_sorted c.
Proof. intros ops. exact (cp_run_sorted ops cp_empty cp_empty_sorted). Qed.
Print Assumptions C13_sorted_all_histories.

(* ... hence at most one point per time, in each list *)
Theorem C13_one_point_per_time :
  forall c, cp_sorted c ->
  NoDup (map (K tp_time) (cp_timing c)) /\ NoDup (map (K dp_time) (cp_difficulty c)) /\
  NoDup (map (K ep_time) (cp_effect c)) /\ NoDup (map (K sp_time) (cp_sample c)).
Proof.
  intros c (Ht & Hd & He & Hs).
  exact (conj (sorted_NoDup _ _ Ht) (conj (sorted_NoDup _ _ Hd)
        (conj (sorted_NoDup _ _ He) (sorted_NoDup _ _ Hs)))).
Qed.
Print Assumptions C13_one_point_per_time.

(* T13b: a difficulty / effect / sample point that repeats the point active
   at its time is not stored; otherwise it is inserted at, or replaces the
   point at, its own time and nothing else changes.  Before the first point
   the comparison is against the default for difficulty and effect points and
   a sample point is never redundant. *)
Theorem C13_add_difficulty :
  forall c p, cp_sorted c ->
  if dp_redundant p (active_dp c (dp_time p)) then add_difficulty c p = Done c
  else exists l1 l2,
      add_difficulty c p = Done (mkCP (cp_timing c) (l1 ++ p :: l2) (cp_effect c) (cp_sample c)) /\
      Forall (fun q => K dp_time q < K dp_time p) l1 /\ Forall (fun q => K dp_time p < K dp_time q) l2 /\
      (cp_difficulty c = l1 ++ l2 \/ exists q, cp_difficulty c = l1 ++ q :: l2 /\ K dp_time q = K dp_time p).
Proof. exact add_difficulty_spec. Qed.
Print Assumptions C13_add_difficulty.

Theorem C13_add_effect :
  forall c p, cp_sorted c ->
  if ep_redundant p (active_ep c (ep_time p)) then add_effect c p = Done c
  else exists l1 l2,
      add_effect c p = Done (mkCP (cp_timing c) (cp_difficulty c) (l1 ++ p :: l2) (cp_sample c)) /\
      Forall (fun q => K ep_time q < K ep_time p) l1 /\ Forall (fun q => K ep_time p < K ep_time q) l2 /\
      (cp_effect c = l1 ++ l2 \/ exists q, cp_effect c = l1 ++ q :: l2 /\ K ep_time q = K ep_time p).
Proof. exact add_effect_spec. Qed.
Print Assumptions C13_add_effect.

Theorem C13_add_sample :
  forall c p, cp_sorted c ->
  if match last_not_after sp_time (cp_sample c) (sp_time p) with
     | Some e => sp_redundant p e | None => false end
  then add_sample c p = Done c
  else exists l1 l2,
      add_sample c p = Done (mkCP (cp_timing c) (cp_difficulty c) (cp_effect c) (l1 ++ p :: l2)) /\
      Forall (fun q => K sp_time q < K sp_time p) l1 /\ Forall (fun q => K sp_time p < K sp_time q) l2 /\
      (cp_sample c = l1 ++ l2 \/ exists q, cp_sample c = l1 ++ q :: l2 /\ K sp_time q = K sp_time p).
Proof. exact add_sample_spec. Qed.
Print Assumptions C13_add_sample.

Theorem C13_add_timing :
  forall c p, cp_sorted c ->
  exists l1 l2,
      add_timing c p = Done (mkCP (l1 ++ p :: l2) (cp_difficulty c) (cp_effect c) (cp_sample c)) /\
      Forall (fun q => K tp_time q < K tp_time p) l1 /\ Forall (fun q => K tp_time p < K tp_time q) l2 /\
      (cp_timing c = l1 ++ l2 \/ exists q, cp_timing c = l1 ++ q :: l2 /\ K tp_time q = K tp_time p).
Proof. exact add_timing_spec. Qed.
Print Assumptions C13_add_timing.

(* T13d: lookups.  [last_not_after l t] is the declarative "latest point not
   after t" (last element of the filter).  Difficulty and effect lookups
   return it (nothing before the first point, nothing on an empty list);
   timing and sample lookups fall back to the first point. *)
Theorem C13_lookup_difficulty :
  forall c t, cp_sorted c ->
  difficulty_point_at c t = Done (last_not_after dp_time (cp_difficulty c) t).
Proof. intros c t (_ & Hd & _). exact (at_opt_spec dp_time _ t Hd). Qed.
Print Assumptions C13_lookup_difficulty.

Theorem C13_lookup_effect :
  forall c t, cp_sorted c ->
  effect_point_at c t = Done (last_not_after ep_time (cp_effect c) t).
Proof. intros c t (_ & _ & He & _). exact (at_opt_spec ep_time _ t He). Qed.
Print Assumptions C13_lookup_effect.

Theorem C13_lookup_timing :
  forall c t, cp_sorted c ->
  timing_point_at c t =
  match last_not_after tp_time (cp_timing c) t with
  | Some p => Some p | None => hd_error (cp_timing c) end.
Proof. intros c t (Ht & _). exact (at_first_spec tp_time _ t Ht). Qed.
Print Assumptions C13_lookup_timing.

Theorem C13_lookup_sample :
  forall c t, cp_sorted c ->
  sample_point_at c t =
  match last_not_after sp_time (cp_sample c) t with
  | Some p => Some p | None => hd_error (cp_sample c) end.
Proof. intros c t (_ & _ & _ & Hs). exact (at_first_spec sp_time _ t Hs). Qed.
Print Assumptions C13_lookup_sample.

(* T13c: for chronologically increasing adds (strictly later than everything
   stored), the stored difficulty / effect / sample list is exactly the input
   with every point dropped that repeats the last KEPT point (the default
   before the first difficulty / effect point; nothing before the first sample
   point) -- so no stored point repeats its predecessor. *)
From RM Require Import Proofs.ControlPointsChrono.

Theorem C13_chronological_difficulty_adds :
  forall ps c, cp_sorted c -> chrono dp_time ps ->
  Forall (fun p => Forall (fun q => K dp_time q < K dp_time p) (cp_difficulty c)) ps ->
  add_difficulties c ps =
  Done (mkCP (cp_timing c)
             (cp_difficulty c ++ compress dp_redundant (last_opt (cp_difficulty c))
                                          (fun p => dp_redundant p dflt_dp) ps)
             (cp_effect c) (cp_sample c)).
Proof. exact add_difficulties_chrono. Qed.
Print Assumptions C13_chronological_difficulty_adds.

Theorem C13_chronological_effect_adds :
  forall ps c, cp_sorted c -> chrono ep_time ps ->
  Forall (fun p => Forall (fun q => K ep_time q < K ep_time p) (cp_effect c)) ps ->
  add_effects c ps =
  Done (mkCP (cp_timing c) (cp_difficulty c)
             (cp_effect c ++ compress ep_redundant (last_opt (cp_effect c))
                                      (fun p => ep_redundant p dflt_ep) ps)
             (cp_sample c)).
Proof. exact add_effects_chrono. Qed.
Print Assumptions C13_chronological_effect_adds.

Theorem C13_chronological_sample_adds :
  forall ps c, cp_sorted c -> chrono sp_time ps ->
  Forall (fun p => Forall (fun q => K sp_time q < K sp_time p) (cp_sample c)) ps ->
  add_samples c ps =
  Done (mkCP (cp_timing c) (cp_difficulty c) (cp_effect c)
             (cp_sample c ++ compress sp_redundant (last_opt (cp_sample c)) (fun _ => false) ps)).
Proof. exact add_samples_chrono. Qed.
Print Assumptions C13_chronological_sample_adds.

Theorem C13_compressed_list_never_repeats :
  forall P (red : P -> P -> bool) prev dr ps, no_repeat red prev dr (compress red prev dr ps).
Proof. exact @compress_no_repeat. Qed.
Print Assumptions C13_compressed_list_never_repeats.

(* ---------- non-vacuity and recorded readings ---------- *)

Definition f (n : Z) : F64 := D.of_Z n.
Definition dpt (t : Z) (sv : Z) : DifficultyPoint := mkDP (f t) (f sv) true.

(* Floats carry proof terms, so concrete facts are stated on the canonical
   dumps (bit patterns), which vm_compute can evaluate. *)
Definition run_dump (ops : list cp_op) : list Z := dump_outcome dump_cp (cp_run cp_empty ops).

(* a non-trivial reachable state, and a redundant add that is dropped *)
Example C13_nonvacuous :
  run_dump [OpAddD (dpt 10 2); OpAddD (dpt 0 3); OpAddD (dpt 5 3); OpAddD (dpt 10 4)]
  = 0 :: dump_cp (mkCP [] [dpt 0 3; dpt 10 4] [] []).
Proof. vm_compute. reflexivity. Qed.

(* Reading recorded in DESIGN.md (T13c): "never stores a point that merely
   repeats the point active at its time" is about the time of the add.  For
   out-of-order adds the stored list can contain adjacent equal values: *)
Example C13_out_of_order_adjacent_redundancy :
  run_dump [OpAddD (dpt 1 2); OpAddD (dpt 0 2)]
  = 0 :: dump_cp (mkCP [] [dpt 0 2; dpt 1 2] [] []).
Proof. vm_compute. reflexivity. Qed.

(* Known finding D8: total_cmp separates -0.0 from +0.0, so a lookup at -0.0
   does not see a point stored at +0.0 (numerically the same time). *)
Example C13_signed_zero_witness :
  dump_outcome (dump_opt dump_dp) (difficulty_point_at (mkCP [] [dpt 0 2] [] []) (D.neg (f 0))) = [0; 0] /\
  dump_outcome (dump_opt dump_dp) (difficulty_point_at (mkCP [] [dpt 0 2] [] []) (f 0)) = 0 :: 1 :: dump_dp (dpt 0 2).
Proof. vm_compute. split; reflexivity. Qed.

(* Drv13: decoding of correspondence cases for C13 (glue, not verified). *)
From RM Require Import Model.ControlPoints.

Definition zb (z : Z) : bool := negb (z =? 0).

(* ops: tag then fields; 0-3 add T/D/E/S, 4-7 lookup T/D/E/S *)
Fixpoint run_c13_aux (fuel : nat) (c : ControlPoints) (inp : list Z) (acc : list Z) : list Z :=
  match fuel with
  | O => acc ++ [99]
  | S k =>
      match inp with
      | [] => acc ++ dump_cp c
      | 0 :: t :: b :: o :: s :: r =>
          match add_timing c (mkTP (D.of_bits t) (D.of_bits b) (zb o) s) with
          | Done c' => run_c13_aux k c' r acc | _ => acc ++ [-1] end
      | 1 :: t :: v :: g :: r =>
          match add_difficulty c (mkDP (D.of_bits t) (D.of_bits v) (zb g)) with
          | Done c' => run_c13_aux k c' r acc | _ => acc ++ [-1] end
      | 2 :: t :: ki :: sc :: r =>
          match add_effect c (mkEP (D.of_bits t) (zb ki) (D.of_bits sc)) with
          | Done c' => run_c13_aux k c' r acc | _ => acc ++ [-1] end
      | 3 :: t :: b :: v :: cu :: r =>
          match add_sample c (mkSP (D.of_bits t) b v cu) with
          | Done c' => run_c13_aux k c' r acc | _ => acc ++ [-1] end
      | 4 :: t :: r => run_c13_aux k c r (acc ++ dump_opt dump_tp (timing_point_at c (D.of_bits t)))
      | 5 :: t :: r => run_c13_aux k c r (acc ++ dump_outcome (dump_opt dump_dp) (difficulty_point_at c (D.of_bits t)))
      | 6 :: t :: r => run_c13_aux k c r (acc ++ dump_outcome (dump_opt dump_ep) (effect_point_at c (D.of_bits t)))
      | 7 :: t :: r => run_c13_aux k c r (acc ++ dump_opt dump_sp (sample_point_at c (D.of_bits t)))
      | _ => acc ++ [98]
      end
  end.

Definition run_c13 (inp : list Z) : list Z := run_c13_aux (S (length inp)) cp_empty inp [].

(* EncSpec: the statements' vocabulary for the encoder properties.
     - [*_ok]: boolean "every field holds a value the format can represent"
       (the [Representable] of C03; the decode image satisfies it --
       Proofs/EncImage.v -- except where a known finding says otherwise);
     - [carry_*]: what decoding the encoded section yields (C02's [carry]
       restricted to the section): the record itself, minus what the legacy
       format cannot carry.
   Definitions only. *)
From RM Require Export Model.Render.
From RM Require Import Gen.Generated.
From Flocq Require Import BinarySingleNaN.

(* ---------- numbers ---------- *)

(* within the ParseNumber limits +-MAX_PARSE_VALUE *)
Definition i32_ok (n : Z) : bool := (- max_parse_value <=? n) && (n <=? max_parse_value).
(* plain str::parse::<i32> (the effect flags of a timing point): the whole i32 range *)
Definition raw_i32_ok (n : Z) : bool := (i32_min <=? n) && (n <=? i32_max).
Definition u8_ok (n : Z) : bool := (0 <=? n) && (n <=? 255).
(* index of a four-variant enum (GameMode, CountdownType, SampleBank) *)
Definition enum4_ok (n : Z) : bool := (0 <=? n) && (n <=? 3).

Definition lim64 : F64 := D.of_Z max_parse_value.
Definition lim32 : F32 := S.of_Z max_parse_value.
Definition in_lim64 (x : F64) : bool := negb (D.is_nan x) && D.le (D.neg lim64) x && D.le x lim64.
Definition in_lim32 (x : F32) : bool := negb (S.is_nan x) && S.le (S.neg lim32) x && S.le x lim32.

(* structural equality of floats, as a boolean *)
Definition sf_eqb (a b : SpecFloat.spec_float) : bool :=
  match a, b with
  | SpecFloat.S754_zero s, SpecFloat.S754_zero t => Bool.eqb s t
  | SpecFloat.S754_infinity s, SpecFloat.S754_infinity t => Bool.eqb s t
  | SpecFloat.S754_nan, SpecFloat.S754_nan => true
  | SpecFloat.S754_finite s m e, SpecFloat.S754_finite t n f => Bool.eqb s t && Pos.eqb m n && Z.eqb e f
  | _, _ => false
  end.
Definition f64_eqb (x y : F64) : bool := sf_eqb (B2SF x) (B2SF y).

(* the lead-in is an integer number of milliseconds in the format *)
Definition lead_in_ok (x : F64) : bool :=
  let n := f64_as_i32 x in i32_ok n && f64_eqb x (D.of_Z n).

(* ---------- text ---------- *)

(* one line, no surrounding White_Space *)
Definition str_ok (s : str) : bool := tidyb s && negb (memb ch_lf s).
(* a file name of a comment-stripped record: no "//", and `\` is not a character of
   a name (the decoder turns it into `/`) *)
Definition file_ok (s : str) : bool := str_ok s && negb (has_ss s) && negb (memb backslash s).
(* the background name sits between double quotes in a comma-separated record *)
Definition bg_ok (s : str) : bool :=
  negb (memb ch_lf s) && negb (has_ss s) && negb (memb backslash s) && negb (memb comma s) &&
  negb (first_is 34 s) && negb (first_is 34 (rev s)).
(* the name of a custom colour: a key that is not a "Combo" key *)
Definition color_name_ok (s : str) : bool :=
  str_ok s && negb (has_ss s) && negb (memb colon s) && negb (starts_with (lit colors_combo_prefix) s).

(* what holds of EVERY decoded file name: the `\` -> `/` normalisation can leave "//" behind
   (known finding D23), everything else of [file_ok] / [bg_ok] holds *)
Definition file_pre (s : str) : bool := str_ok s && negb (memb backslash s).
Definition bg_pre (s : str) : bool :=
  negb (memb ch_lf s) && negb (memb backslash s) && negb (memb comma s) &&
  negb (first_is 34 s) && negb (first_is 34 (rev s)).

(* ---------- [General] ---------- *)

Definition general_ok (g : GeneralState) : bool :=
  file_ok (g_audio_file g) && lead_in_ok (g_audio_lead_in g) && i32_ok (g_preview_time g) &&
  in_lim32 (g_stack_leniency g) && enum4_ok (g_mode g) && enum4_ok (g_countdown g) &&
  i32_ok (g_countdown_offset g) && enum4_ok (g_default_sample_bank g).

Definition general_pre (g : GeneralState) : bool :=
  file_pre (g_audio_file g) && lead_in_ok (g_audio_lead_in g) && i32_ok (g_preview_time g) &&
  in_lim32 (g_stack_leniency g) && enum4_ok (g_mode g) && enum4_ok (g_countdown g) &&
  i32_ok (g_countdown_offset g) && enum4_ok (g_default_sample_bank g).

(* SampleSet is written from the first sample point; the default sample volume, a
   non-positive countdown offset and the special style outside mania are not carried *)
Definition carry_general (g : GeneralState) (c : ControlPoints) : GeneralState :=
  mkGeneral (g_audio_file g) (g_audio_lead_in g) (g_preview_time g)
            (first_sample_bank c) default_sample_volume (g_stack_leniency g) (g_mode g)
            (g_letterbox_in_breaks g)
            (if g_mode g =? mode_mania then g_special_style g else false)
            (g_widescreen_storyboard g) (g_epilepsy_warning g) (g_samples_match_playback_rate g)
            (g_countdown g)
            (if 0 <? g_countdown_offset g then g_countdown_offset g else 0).

(* ---------- [Editor] ---------- *)

Definition editor_ok (e : EditorState) : bool :=
  forallb i32_ok (ed_bookmarks e) && in_lim64 (ed_distance_spacing e) &&
  i32_ok (ed_beat_divisor e) && i32_ok (ed_grid_size e) && in_lim64 (ed_timeline_zoom e).

(* ---------- [Metadata] ---------- *)

Definition metadata_ok (m : MetadataState) : bool :=
  str_ok (m_title m) && str_ok (m_title_unicode m) && str_ok (m_artist m) &&
  str_ok (m_artist_unicode m) && str_ok (m_creator m) && str_ok (m_version m) &&
  str_ok (m_source m) && str_ok (m_tags m) && i32_ok (m_beatmap_id m) && i32_ok (m_beatmap_set_id m).

(* non-positive ids are not carried: they read back as the defaults *)
Definition carry_metadata (m : MetadataState) : MetadataState :=
  mkMetadata (m_title m) (m_title_unicode m) (m_artist m) (m_artist_unicode m) (m_creator m)
             (m_version m) (m_source m) (m_tags m)
             (if 0 <? m_beatmap_id m then m_beatmap_id m else default_beatmap_id)
             (if 0 <? m_beatmap_set_id m then m_beatmap_set_id m else 0).

(* ---------- [Difficulty] ---------- *)

Definition within64 (lo hi x : F64) : bool := D.le lo x && D.le x hi.
Definition difficulty_ok (d : DifficultyState) : bool :=
  in_lim32 (d_hp_drain_rate d) && in_lim32 (d_circle_size d) && in_lim32 (d_overall_difficulty d) &&
  in_lim32 (d_approach_rate d) &&
  in_lim64 (d_slider_multiplier d) && within64 slider_mult_lo slider_mult_hi (d_slider_multiplier d) &&
  in_lim64 (d_slider_tick_rate d) && within64 tick_rate_lo tick_rate_hi (d_slider_tick_rate d).

(* the ApproachRate record is always written: the flag "approach rate was set" is on *)
Definition carry_difficulty (d : DifficultyState) : DifficultyState :=
  mkDifficulty true (d_hp_drain_rate d) (d_circle_size d) (d_overall_difficulty d)
               (d_approach_rate d) (d_slider_multiplier d) (d_slider_tick_rate d).

(* ---------- [Events] ---------- *)

(* a break never ends before it starts: the decoder keeps the written end unless it
   lies before the start -- the plain order condition, zeros of either sign included *)
Definition break_ok (b : BreakPeriod) : bool :=
  in_lim64 (bp_start b) && in_lim64 (bp_end b) && negb (D.lt (bp_end b) (bp_start b)).
Definition events_ok (e : EventsState) : bool :=
  bg_ok (ev_background_file e) && forallb break_ok (ev_breaks e).

Definition events_pre (e : EventsState) : bool :=
  bg_pre (ev_background_file e) && forallb break_ok (ev_breaks e).

(* ---------- [Colours] ---------- *)

Definition color_ok (c : Color) : bool :=
  u8_ok (c_r c) && u8_ok (c_g c) && u8_ok (c_b c) && (c_a c =? color_default_alpha).
Fixpoint distinct_names (l : list CustomColor) : bool :=
  match l with
  | [] => true
  | x :: r => negb (existsb (fun y => str_eqb (cc_name y) (cc_name x)) r) && distinct_names r
  end.
Definition colors_ok (c : ColorsState) : bool :=
  forallb color_ok (co_custom_combo_colors c) &&
  forallb (fun x => color_name_ok (cc_name x) && color_ok (cc_color x)) (co_custom_colors c) &&
  distinct_names (co_custom_colors c).

(* ---------- control points: sample banks are enum values ---------- *)

Definition sample_banks_ok (c : ControlPoints) : bool := forallb (fun p => enum4_ok (sp_bank p)) (cp_sample c).

(* ---------- the six simple sections of a map ---------- *)

Definition simple_ok (m : BeatmapV) : bool :=
  let h := bmv_ho m in
  i32_ok (bmv_version m) && general_ok (hov_general h) && editor_ok (bmv_editor m) &&
  metadata_ok (bmv_metadata m) && difficulty_ok (hov_difficulty h) && events_ok (hov_events h) &&
  colors_ok (bmv_colors m) && sample_banks_ok (hov_control_points h).

(* the decoder's image: [simple_pre] always (Proofs/EncImage.v); [simple_ok] outside D23 *)
Definition simple_pre (m : BeatmapV) : bool :=
  let h := bmv_ho m in
  i32_ok (bmv_version m) && general_pre (hov_general h) && editor_ok (bmv_editor m) &&
  metadata_ok (bmv_metadata m) && difficulty_ok (hov_difficulty h) && events_pre (hov_events h) &&
  colors_ok (bmv_colors m) && sample_banks_ok (hov_control_points h).
(* known finding D23: a file name in which the normalisation produced "//" *)
Definition d23_class (m : BeatmapV) : bool :=
  has_ss (g_audio_file (hov_general (bmv_ho m))) || has_ss (ev_background_file (hov_events (bmv_ho m))).

(* the body lines of a section: everything after its header line *)
Definition body (ls : list line) : list line := tl ls.

(* ---------- C03: representable edits, and what reading a map back yields ---------- *)

(* [Representable]: the edit sets its field to a value the format can represent *)
Definition representable (e : edit) (m : BeatmapV) : bool :=
  match e with
  | EdVersion v => i32_ok v
  | EdAudioFile s => file_ok s
  | EdAudioLeadIn x => lead_in_ok x
  | EdPreviewTime n => i32_ok n
  | EdStackLeniency x => in_lim32 x
  | EdMode n => enum4_ok n
  | EdLetterbox _ | EdWidescreen _ | EdEpilepsy _ | EdSamplesMatch _ => true
  (* the special style exists in mania only *)
  | EdSpecialStyle _ => g_mode (hov_general (bmv_ho m)) =? mode_mania
  | EdCountdown n => enum4_ok n
  (* a countdown offset is carried when positive; 0 is the default *)
  | EdCountdownOffset n => i32_ok n && (0 <=? n)
  (* bookmarks are numbers of the format like any other: within the parse limits *)
  | EdBookmarks l => forallb i32_ok l
  | EdDistanceSpacing x | EdTimelineZoom x => in_lim64 x
  | EdBeatDivisor n | EdGridSize n => i32_ok n
  | EdTitle s | EdTitleUnicode s | EdArtist s | EdArtistUnicode s
  | EdCreator s | EdVersionName s | EdSource s | EdTags s => str_ok s
  (* ids are carried when positive *)
  | EdBeatmapId n | EdBeatmapSetId n => i32_ok n && (0 <? n)
  | EdHp x | EdCs x | EdOd x | EdAr x => in_lim32 x
  | EdSliderMultiplier x => in_lim64 x && within64 slider_mult_lo slider_mult_hi x
  | EdSliderTickRate x => in_lim64 x && within64 tick_rate_lo tick_rate_hi x
  | EdBackground s => bg_ok s
  | EdBreaks l => forallb break_ok l
  | EdComboColors l => forallb color_ok l
  | EdCustomColors l =>
      forallb (fun x => color_name_ok (cc_name x) && color_ok (cc_color x)) l && distinct_names l
  end.

(* the map as it is read back from its own encoding, for the six simple sections:
   [carry] of DESIGN C02 restricted to them (timing points and hit objects are kept) *)
Definition read_back (m : BeatmapV) : BeatmapV :=
  let h := bmv_ho m in
  mkBMV (bmv_version m) (bmv_editor m) (carry_metadata (bmv_metadata m)) (bmv_colors m)
        (mkHOV (carry_general (hov_general h) (hov_control_points h)) (carry_difficulty (hov_difficulty h))
               (hov_events h) (hov_control_points h) (hov_hit_objects h)).

(* the special style is carried in mania only: a mode edit may change whether it is *)
Definition without_special (m : BeatmapV) : BeatmapV :=
  upd_general (fun g => set_g_special_style g false) m.

(* ---------- hit-object lines (circles, spinners, holds) ---------- *)

Definition f32_eqb (x y : F32) : bool := sf_eqb (B2SF x) (B2SF y).
(* a coordinate: an integer within +-MAX_COORDINATE_VALUE (the decoder truncates) *)
Definition coord_ok (x : F32) : bool :=
  let n := f32_as_i32 x in (Z.abs n <=? max_coordinate_value) && f32_eqb x (S.of_Z n).
(* a sample file name: the last `:`-separated piece of the last `,`-separated field *)
Definition fname_ok (f : str) : bool :=
  negb (memb comma f) && negb (memb colon f) && negb (has_ss f) && negb (memb ch_lf f) && negb (last_ws f).
Definition sample_ok (s : HitSampleInfo) : bool :=
  i32_ok (hs_custom s) && i32_ok (hs_volume s) && enum4_ok (hs_bank s) &&
  match hs_name s with NFile f => fname_ok f | NDefault _ => true end.

Definition object_ok (h : HitObject) : bool :=
  in_lim64 (h_start h) && forallb sample_ok (h_samples h) &&
  match h_kind h with
  | KCircle c => coord_ok (px (ci_pos c)) && coord_ok (py (ci_pos c)) &&
                 (0 <=? ci_combo_offset c) && (ci_combo_offset c <=? 7)
  | KSpinner s => coord_ok (px (sp_pos s)) && coord_ok (py (sp_pos s)) &&
                  in_lim64 (D.add (h_start h) (sp_duration s))
  | KHold hd => coord_ok (hd_pos_x hd) && in_lim64 (D.add (h_start h) (hd_duration hd))
  | KSlider _ => false
  end.

Definition kind_tag (k : HitObjectKind) : Z :=
  match k with KCircle _ => 0 | KSlider _ => 1 | KSpinner _ => 2 | KHold _ => 3 end.
(* the position a hit-object line carries (a hold has only x) *)
Definition line_pos (k : HitObjectKind) : option Pos :=
  match k with
  | KCircle c => Some (ci_pos c)
  | KSlider s => Some (sl_pos s)
  | KSpinner s => None           (* the decoder puts every spinner at the centre *)
  | KHold hd => Some (mkPos (hd_pos_x hd) (hd_pos_x hd))
  end.

(* ---------- timing-point lines ---------- *)

(* the shape of every line of the [TimingPoints] section *)
Definition tp_line (time beat : F64) (p : Props) (is_timing : bool) : line :=
  [TF64 time; t_comma; TF64 beat; t_comma] ++ props_toks p is_timing.

(* the beat-length field: any finite value within the limits (the decoder also lets NaN
   through on inherited lines) *)
Definition tp_line_ok (time beat : F64) (p : Props) (is_timing : bool) : bool :=
  in_lim64 time && in_lim64 beat && (0 <? pr_sig p) && i32_ok (pr_sig p) && i32_ok (pr_bank p) &&
  i32_ok (pr_custom p) && i32_ok (pr_vol p) && raw_i32_ok (pr_flags p).

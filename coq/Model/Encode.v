(* Encode: `Beatmap::encode` (/repo/src/encode.rs) as a producer of TOKEN
   lines.  Number formatting (Rust's `Display` for f64 / f32 / integers) is an
   oracle and is NOT modelled: numeric values stay values ([TF64], [TF32],
   [TInt]); literal text and strings are [TStr].  The float arithmetic the
   encoder itself performs (`pos.x + point.pos.x` in f32, `start_time +
   duration`, `-100.0 / slider_velocity`, the `as i32` casts) is modelled.

   Every `writeln!` / trailing `write_all(b"\n")` closes a line, and every
   section ends with a closed line, so the output is [join_eol "\n" lines];
   the model produces the list of lines ([encode_lines]) and [encode_tokens]
   puts the line feeds back.

   Also here, as in encode.rs: ControlPointProperties, ControlPointGroup,
   add_path_data, get_sample_bank, collect_samples / collect_sample,
   slider_events / juicestream_events; HitObjectType::from(&HitObject)
   (hit_objects/mod.rs), HitSoundType::from(&[HitSampleInfo]) and LookupName
   (hit_samples.rs).  The slider-curve distance ([dist_of]) and the slider
   event iterator ([events_of]: the arguments of SliderEventsIter::new) are
   parameters.  Definitions only. *)
From RM Require Export Model.Decoders.
From RM Require Import Gen.Generated.

Inductive tok : Type :=
| TStr (s : str)
| TF64 (x : F64)
| TF32 (x : F32)
| TInt (n : Z).

Definition line := list tok.

Definition ts (s : string) : tok := TStr (lit s).
Definition tb (b : bool) : tok := TInt (if b then 1 else 0).     (* i32::from(bool) *)
Definition t_comma : tok := TStr [44].
Definition t_colon : tok := TStr [58].
Definition t_pipe : tok := TStr [124].

(* ---------- Display of the section keys (section_keys!: as_str = variant name) ---------- *)

Definition key_name (names : list string) (i : nat) : str := lit (nth i names EmptyString).

Definition general_key_idx (k : GeneralKey) : nat :=
  match k with
  | GAudioFilename => 0 | GAudioLeadIn => 1 | GPreviewTime => 2 | GSampleSet => 3
  | GSampleVolume => 4 | GStackLeniency => 5 | GMode => 6 | GLetterboxInBreaks => 7
  | GSpecialStyle => 8 | GWidescreenStoryboard => 9 | GEpilepsyWarning => 10
  | GSamplesMatchPlaybackRate => 11 | GCountdown => 12 | GCountdownOffset => 13
  end%nat.
Definition editor_key_idx (k : EditorKey) : nat :=
  match k with
  | EBookmarks => 0 | EDistanceSpacing => 1 | EBeatDivisor => 2 | EGridSize => 3 | ETimelineZoom => 4
  end%nat.
Definition metadata_key_idx (k : MetadataKey) : nat :=
  match k with
  | MTitle => 0 | MTitleUnicode => 1 | MArtist => 2 | MArtistUnicode => 3 | MCreator => 4
  | MVersion => 5 | MSource => 6 | MTags => 7 | MBeatmapID => 8 | MBeatmapSetID => 9
  end%nat.
Definition difficulty_key_idx (k : DifficultyKey) : nat :=
  match k with
  | DHPDrainRate => 0 | DCircleSize => 1 | DOverallDifficulty => 2 | DApproachRate => 3
  | DSliderMultiplier => 4 | DSliderTickRate => 5
  end%nat.

Definition gkey (k : GeneralKey) : str := key_name general_keys (general_key_idx k).
Definition ekey (k : EditorKey) : str := key_name editor_keys (editor_key_idx k).
Definition mkey (k : MetadataKey) : str := key_name metadata_keys (metadata_key_idx k).
Definition dkey (k : DifficultyKey) : str := key_name difficulty_keys (difficulty_key_idx k).

(* "{}: {}" *)
Definition colon_space : str := [58; 32].
Definition kv_line (key : str) (v : tok) : line := [TStr (key ++ colon_space); v].

(* the header line of a section, spelled as the decoder's table spells it *)
Definition header_tok (s : section) : line := [TStr (odflt [] (header_line s))].

(* ---------- writeln!(writer, "osu file format v{}", self.format_version) ---------- *)

Definition enc_version (v : Z) : line := [TStr (lit version_prefix); TInt v].

(* ---------- encode_general ---------- *)

Definition mode_mania : Z := 3.

(* control_points.sample_points.first().map_or(DEFAULT_SAMPLE_BANK, |p| p.sample_bank) *)
Definition first_sample_bank (c : ControlPoints) : Z :=
  match cp_sample c with p :: _ => sp_bank p | [] => sp_bank dflt_sp end.

Definition enc_general (g : GeneralState) (c : ControlPoints) : list line :=
  [ header_tok SecGeneral;
    kv_line (gkey GAudioFilename) (TStr (g_audio_file g));
    kv_line (gkey GAudioLeadIn) (TF64 (g_audio_lead_in g));
    kv_line (gkey GPreviewTime) (TInt (g_preview_time g));
    kv_line (gkey GCountdown) (TInt (g_countdown g));
    kv_line (gkey GSampleSet) (TInt (first_sample_bank c));
    kv_line (gkey GStackLeniency) (TF32 (g_stack_leniency g));
    kv_line (gkey GMode) (TInt (g_mode g));
    kv_line (gkey GLetterboxInBreaks) (tb (g_letterbox_in_breaks g)) ] ++
  (if g_epilepsy_warning g then [kv_line (gkey GEpilepsyWarning) (TInt 1)] else []) ++
  (if 0 <? g_countdown_offset g then [kv_line (gkey GCountdownOffset) (TInt (g_countdown_offset g))] else []) ++
  (if g_mode g =? mode_mania then [kv_line (gkey GSpecialStyle) (tb (g_special_style g))] else []) ++
  [ kv_line (gkey GWidescreenStoryboard) (tb (g_widescreen_storyboard g)) ] ++
  (if g_samples_match_playback_rate g then [kv_line (gkey GSamplesMatchPlaybackRate) (TInt 1)] else []).

(* ---------- encode_editor ---------- *)

(* write!("Bookmarks: {b0}"); for b in rest { write!(",{b}") }; "\n" *)
Definition bookmarks_line (bs : list Z) : list line :=
  match bs with
  | [] => []
  | b :: r => [ TStr (ekey EBookmarks ++ colon_space) :: TInt b ::
                flat_map (fun x => [t_comma; TInt x]) r ]
  end.

Definition enc_editor (e : EditorState) : list line :=
  [ header_tok SecEditor ] ++
  bookmarks_line (ed_bookmarks e) ++
  [ kv_line (ekey EDistanceSpacing) (TF64 (ed_distance_spacing e));
    kv_line (ekey EBeatDivisor) (TInt (ed_beat_divisor e));
    kv_line (ekey EGridSize) (TInt (ed_grid_size e));
    kv_line (ekey ETimelineZoom) (TF64 (ed_timeline_zoom e)) ].

(* ---------- encode_metadata (the two ids are written when positive) ---------- *)

Definition is_empty (s : str) : bool := match s with [] => true | _ => false end.
Definition opt_text_line (key : str) (v : str) : list line :=
  if is_empty v then [] else [kv_line key (TStr v)].

Definition enc_metadata (m : MetadataState) : list line :=
  [ header_tok SecMetadata;
    kv_line (mkey MTitle) (TStr (m_title m)) ] ++
  opt_text_line (mkey MTitleUnicode) (m_title_unicode m) ++
  [ kv_line (mkey MArtist) (TStr (m_artist m)) ] ++
  opt_text_line (mkey MArtistUnicode) (m_artist_unicode m) ++
  [ kv_line (mkey MCreator) (TStr (m_creator m));
    kv_line (mkey MVersion) (TStr (m_version m)) ] ++
  opt_text_line (mkey MSource) (m_source m) ++
  opt_text_line (mkey MTags) (m_tags m) ++
  (if 0 <? m_beatmap_id m then [kv_line (mkey MBeatmapID) (TInt (m_beatmap_id m))] else []) ++
  (if 0 <? m_beatmap_set_id m then [kv_line (mkey MBeatmapSetID) (TInt (m_beatmap_set_id m))] else []).

(* ---------- encode_difficulty ---------- *)

Definition enc_difficulty (d : DifficultyState) : list line :=
  [ header_tok SecDifficulty;
    kv_line (dkey DHPDrainRate) (TF32 (d_hp_drain_rate d));
    kv_line (dkey DCircleSize) (TF32 (d_circle_size d));
    kv_line (dkey DOverallDifficulty) (TF32 (d_overall_difficulty d));
    kv_line (dkey DApproachRate) (TF32 (d_approach_rate d));
    kv_line (dkey DSliderMultiplier) (TF64 (d_slider_multiplier d));
    kv_line (dkey DSliderTickRate) (TF64 (d_slider_tick_rate d)) ].

(* ---------- encode_events ---------- *)

(* EventType::X as i32 *)
Definition event_type_idx (t : EventType) : Z :=
  match t with
  | EvBackground => 0 | EvVideo => 1 | EvBreak => 2 | EvColor => 3
  | EvSprite => 4 | EvSample => 5 | EvAnimation => 6
  end.

(* "{},0,\"{}\",0,0" *)
Definition background_line (f : str) : line :=
  [TInt (event_type_idx EvBackground); TStr (lit ",0,""" ); TStr f; TStr (lit """,0,0")].
(* "{},{},{}" *)
Definition break_line (b : BreakPeriod) : line :=
  [TInt (event_type_idx EvBreak); t_comma; TF64 (bp_start b); t_comma; TF64 (bp_end b)].

Definition enc_events (e : EventsState) : list line :=
  [ header_tok SecEvents ] ++
  (if is_empty (ev_background_file e) then [] else [background_line (ev_background_file e)]) ++
  map break_line (ev_breaks e).

(* ---------- encode_colors ---------- *)

Definition color_toks (c : Color) : line :=
  [TInt (c_r c); t_comma; TInt (c_g c); t_comma; TInt (c_b c); t_comma; TInt (c_a c)].

(* "Combo{i}: r,g,b,a"  for (color, i) in colors.zip(1..) *)
Fixpoint combo_lines (i : Z) (l : list Color) : list line :=
  match l with
  | [] => []
  | c :: r => ([TStr (lit colors_combo_prefix); TInt i; TStr colon_space] ++ color_toks c) :: combo_lines (i + 1) r
  end.

Definition custom_color_line (c : CustomColor) : line :=
  [TStr (cc_name c); TStr colon_space] ++ color_toks (cc_color c).

Definition enc_colors (c : ColorsState) : list line :=
  [ header_tok SecColors ] ++ combo_lines 1 (co_custom_combo_colors c) ++
  map custom_color_line (co_custom_colors c).

(* ---------- hit_samples.rs: HitSoundType::from(&[HitSampleInfo]) ---------- *)

Definition sound_bit (s : HitSampleInfo) : Z :=
  match hs_name s with
  | NDefault n => if n =? nm_whistle then hitsound_whistle
                  else if n =? nm_finish then hitsound_finish
                  else if n =? nm_clap then hitsound_clap
                  else 0
  | NFile _ => 0
  end.
Definition sound_type_of (l : list HitSampleInfo) : Z :=
  fold_left (fun k s => Z.lor k (sound_bit s)) l hitsound_none.

(* ---------- get_sample_bank ---------- *)

Definition is_hit_normal (s : HitSampleInfo) : bool :=
  match hs_name s with NDefault n => n =? nm_normal | NFile _ => false end.
(* !matches!(name, HIT_NORMAL | File(_)) *)
Definition is_addition (s : HitSampleInfo) : bool :=
  match hs_name s with NDefault n => negb (n =? nm_normal) | NFile _ => false end.
Definition is_default_name (s : HitSampleInfo) : bool :=
  match hs_name s with NDefault _ => true | NFile _ => false end.
Definition nonempty_file (s : HitSampleInfo) : option str :=
  match hs_name s with NFile (c :: f) => Some (c :: f) | _ => None end.
Fixpoint first_file (l : list HitSampleInfo) : option str :=
  match l with
  | [] => None
  | s :: r => match nonempty_file s with Some f => Some f | None => first_file r end
  end.

(* SampleBank::default() = None = 0 *)
Definition bank_of_first (p : HitSampleInfo -> bool) (l : list HitSampleInfo) : Z :=
  match find p l with Some s => hs_bank s | None => sb_none end.

Definition sample_bank_toks (samples : list HitSampleInfo) (banks_only : bool) (mode : Z) : line :=
  let normal_bank := bank_of_first is_hit_normal samples in
  let add_bank := bank_of_first is_addition samples in
  [TInt normal_bank; t_colon; TInt add_bank] ++
  if banks_only then []
  else
    let custom0 := match find is_default_name samples with Some s => hs_custom s | None => 0 end in
    let volume0 := match samples with s :: _ => hs_volume s | [] => 100 end in
    let custom := if mode =? mode_mania then custom0 else 0 in
    let volume := if mode =? mode_mania then volume0 else 0 in
    [t_colon; TInt custom; t_colon; TInt volume; t_colon] ++
    (* LookupName of a File sample is the file name *)
    match first_file samples with Some f => [TStr f] | None => [] end.

(* ---------- HitObjectType::from(&HitObject) ---------- *)

Definition wrap_i32 (n : Z) : Z := (n + 2 ^ 31) mod 2 ^ 32 - 2 ^ 31.

Definition object_type (h : HitObject) : Z :=
  match h_kind h with
  | KCircle c =>
      Z.lor (Z.lor (wrap_i32 (Z.shiftl (ci_combo_offset c) 4)) (if ci_new_combo c then hot_new_combo else 0)) hot_circle
  | KSlider s =>
      Z.lor (Z.lor (wrap_i32 (Z.shiftl (sl_combo_offset s) 4)) (if sl_new_combo s then hot_new_combo else 0)) hot_slider
  | KSpinner s => Z.lor (if sp_new_combo s then hot_new_combo else 0) hot_spinner
  | KHold _ => hot_hold
  end.

(* ---------- add_path_data ---------- *)

Definition pos_add (a b : Pos) : Pos := mkPos (S.add (px a) (px b)) (S.add (py a) (py b)).

(* the letter(s) of an explicit segment *)
Definition path_type_toks (t : PathType) : line :=
  if pt_kind t =? sk_bspline then
    match pt_degree t with
    | Some d => [TStr [path_letter_bspline]; TInt d]
    | None => [TStr [path_letter_bspline]]
    end
  else if pt_kind t =? sk_catmull then [TStr [67]]
  else if pt_kind t =? sk_perfect then [TStr [path_letter_perfect]]
  else [TStr [path_letter_linear]].

Definition opt_pt_eqb (a b : option PathType) : bool :=
  match a, b with
  | Some x, Some y => pt_eqb x y
  | None, None => true
  | _, _ => false
  end.

(* "{x}:{y}" with x = pos.x + point.pos.x *)
Definition point_toks (pos : Pos) (p : PCP) : line :=
  let q := pos_add pos (cp_pos p) in [TF32 (px q); t_colon; TF32 (py q)].

(* p1.x as i32 == p2.x as i32 && p1.y as i32 == p2.y as i32 *)
Definition same_int_pos (a b : Pos) : bool :=
  (f32_as_i32 (px a) =? f32_as_i32 (px b)) && (f32_as_i32 (py a) =? f32_as_i32 (py b)).

(* the `for i in 0..control_points.len()` loop.  [all] is the whole list
   (for control_points[i - 1], [i - 2] and len), [rest] = all[i..]. *)
Fixpoint path_loop_toks (pos : Pos) (all : list PCP) (i : nat) (rest : list PCP)
         (last_type : option PathType) : line :=
  match rest with
  | [] => []
  | point :: r =>
      (* the `separator` closure: ',' at the last index, '|' otherwise *)
      let sep := if (i =? length all - 1)%nat then t_comma else t_pipe in
      let '(typed, last_type') :=
        match cp_type point with
        | None => ([], last_type)
        | Some path_type =>
            let nes0 := negb (opt_pt_eqb (cp_type point) last_type) ||
                        opt_pt_eqb (cp_type point) (Some pt_perfect) in
            let nes :=
              if (1 <? i)%nat then
                match nth_error all (i - 1), nth_error all (i - 2) with
                | Some a, Some b =>
                    if same_int_pos (pos_add pos (cp_pos a)) (pos_add pos (cp_pos b)) then true else nes0
                | _, _ => nes0          (* unreachable: i - 1, i - 2 < len *)
                end
              else nes0 in
            (* `type_separator`: ',' only when the path has a single control point *)
            let tsep := if (length all =? 1)%nat then t_comma else t_pipe in
            if nes then (path_type_toks path_type ++ [tsep], Some path_type)
            else (point_toks pos point ++ [t_pipe], last_type)
        end in
      typed ++
      (if (i =? 0)%nat then [] else point_toks pos point ++ [sep]) ++
      path_loop_toks pos all (S i) r last_type'
  end.

Definition path_toks (pos : Pos) (cps : list PCP) : line := path_loop_toks pos cps 0 cps None.

(* for i in 0..=span_count { "{sound}{'|' or ','}" } *)
Fixpoint node_sound_toks (n : nat) (i : nat) (nodes : list (list HitSampleInfo)) : line :=
  match n with
  | O => []
  | S k =>
      [TInt (match nth_error nodes i with Some l => sound_type_of l | None => 0 end);
       (match k with O => t_comma | _ => t_pipe end)] ++
      node_sound_toks k (S i) nodes
  end.

Fixpoint node_bank_toks (n : nat) (i : nat) (nodes : list (list HitSampleInfo)) (mode : Z) : line :=
  match n with
  | O => []
  | S k =>
      (match nth_error nodes i with
       | Some l => sample_bank_toks l true mode
       | None => [TStr (lit "0:0")]
       end) ++
      [match k with O => t_comma | _ => t_pipe end] ++
      node_bank_toks k (S i) nodes mode
  end.

(* one slider event, as far as encode.rs looks at it *)
Record EncEvent := mkEncEv { ee_kind : Z; ee_span_idx : Z; ee_time : F64 }.
(* SliderEventType as index: Head, Tick, Repeat, LastTick, Tail *)
Definition evk_head : Z := 0.
Definition evk_tick : Z := 1.
Definition evk_repeat : Z := 2.
Definition evk_last_tick : Z := 3.
Definition evk_tail : Z := 4.

(* struct ControlPointGroup / ControlPointProperties *)
Record Group := mkGroup { gr_time : F64; gr_timing : option TimingPoint }.
Record Props := mkProps {
  pr_sv : F64; pr_sig : Z; pr_bank : Z; pr_custom : Z; pr_vol : Z; pr_flags : Z }.

Section Enc.
  Variable dist_of : Z -> list PCP -> option F64 -> outcome F64.

  (* SliderEventsIter::new(start_time, span_duration, velocity, tick_dist,
     total_dist, span_count, _).collect() *)
  Variable events_of : F64 -> F64 -> F64 -> F64 -> F64 -> Z -> outcome (list EncEvent).

  Definition slider_curve_dist (s : Slider) : outcome F64 :=
    dist_of (sl_mode s) (sl_control_points s) (sl_expected_dist s).

  (* `0..=slider.span_count() as usize`: a negative count is 2^64-ish
     iterations; never reached on decoded maps (repeat_count >= 0) *)
  Definition span_iters (s : Slider) : outcome nat :=
    let sc := sl_repeat_count s + 1 in
    if sc <? 0 then OutOfFuel else Done (Datatypes.S (Z.to_nat sc)).

  Definition slider_toks (s : Slider) (pos : Pos) (mode : Z) : outcome line :=
    obind (match sl_expected_dist s with
           | Some d => Done d
           | None => slider_curve_dist s
           end) (fun dist =>
    obind (span_iters s) (fun n =>
    Done (path_toks pos (sl_control_points s) ++
          [TInt (sl_repeat_count s + 1); t_comma; TF64 dist; t_comma] ++
          node_sound_toks n 0 (sl_node_samples s) ++
          node_bank_toks n 0 (sl_node_samples s) mode))).

  (* ---------- encode_hit_objects ---------- *)

  Definition f32_192 : F32 := S.of_Z 192.

  Definition object_pos (h : HitObject) : Pos :=
    match h_kind h with
    | KCircle c => ci_pos c
    | KSlider s => sl_pos s
    | KSpinner s => sp_pos s
    | KHold hd => mkPos (hd_pos_x hd) f32_192
    end.

  Definition object_line (mode : Z) (h : HitObject) : outcome line :=
    let pos := object_pos h in
    obind (match h_kind h with
           | KCircle _ => Done []
           | KSlider s => slider_toks s pos mode
           | KSpinner s => Done [TF64 (D.add (h_start h) (sp_duration s)); t_comma]
           | KHold hd => Done [TF64 (D.add (h_start h) (hd_duration hd)); t_colon]
           end) (fun mid =>
    Done ([TF32 (px pos); t_comma; TF32 (py pos); t_comma; TF64 (h_start h); t_comma;
           TInt (object_type h); t_comma; TInt (sound_type_of (h_samples h)); t_comma] ++
          mid ++ sample_bank_toks (h_samples h) false mode)).

  Fixpoint object_lines (mode : Z) (l : list HitObject) : outcome (list line) :=
    match l with
    | [] => Done []
    | h :: r => obind (object_line mode h) (fun x =>
                obind (object_lines mode r) (fun xs => Done (x :: xs)))
    end.

  Definition enc_hit_objects (mode : Z) (objs : list HitObject) : outcome (list line) :=
    obind (object_lines mode objs) (fun ls => Done (header_tok SecHitObjects :: ls)).

  (* ---------- collect_sample / collect_samples ---------- *)

  Definition zmax_list (f : HitSampleInfo -> Z) (first : HitSampleInfo) (rest : list HitSampleInfo) : Z :=
    fold_left (fun m s => Z.max m (f s)) rest (f first).

  (* pushes at most one SamplePoint *)
  Definition collect_sample (samples : list HitSampleInfo) (time : F64) : list SamplePoint :=
    match samples with
    | [] => []
    | s :: r => [mkSP time (sp_bank dflt_sp) (zmax_list hs_volume s r) (zmax_list hs_custom s r)]
    end.

  (* slider.duration_with_bufs = f64::from(span_count) * dist / velocity *)
  Definition enc_slider_duration (s : Slider) : outcome F64 :=
    obind (slider_curve_dist s) (fun d =>
    Done (D.div (D.mul (D.of_Z (sl_repeat_count s + 1)) d) (sl_velocity s))).

  (* h.end_time_with_bufs *)
  Definition end_time (h : HitObject) : outcome F64 :=
    match h_kind h with
    | KCircle _ => Done (h_start h)
    | KSlider s => obind (enc_slider_duration s) (fun d => Done (D.add (h_start h) d))
    | KSpinner s => Done (D.add (h_start h) (sp_duration s))
    | KHold hd => Done (D.add (h_start h) (hd_duration hd))
    end.

  Definition format_version_old_ticks : Z := 8.       (* `format_version < 8` *)

  Definition tick_dist_multiplier (version : Z) (sv : F64) : F64 :=
    if version <? format_version_old_ticks then D.div D.one sv (* recip *) else D.one.

  (* fn slider_events: the arguments handed to SliderEventsIter::new *)
  Definition slider_events (start : F64) (s : Slider) (version : Z) (tick_rate : F64)
             (c : ControlPoints) : outcome (list EncEvent) :=
    let beat_len := match timing_point_at c start with Some p => tp_beat_len p | None => default_beat_len end in
    obind (difficulty_point_at c start) (fun dp =>
    let '(sv, gen_ticks) := match dp with Some p => (dp_sv p, dp_ticks p) | None => (D.one, true) end in
    let scoring_dist := D.mul (sl_velocity s) beat_len in
    let tick_dist := if gen_ticks
                     then D.mul (D.div scoring_dist tick_rate) (tick_dist_multiplier version sv)
                     else D.inf false in
    obind (slider_curve_dist s) (fun dist =>
    obind (enc_slider_duration s) (fun duration =>
    let span_count := sl_repeat_count s + 1 in
    let span_duration := D.div duration (D.of_Z span_count) in
    events_of start span_duration (sl_velocity s) tick_dist dist span_count))).

  (* fn juicestream_events *)
  Definition juicestream_events (start : F64) (s : Slider) (version : Z) (tick_rate slider_mult : F64)
             (c : ControlPoints) : outcome (list EncEvent) :=
    obind (difficulty_point_at c start) (fun dp =>
    let sv := match dp with Some p => dp_sv p | None => D.one end in
    let factor := D.div (D.mul (f64_of_f32 (dec32' base_scoring_dist_dec)) slider_mult) tick_rate in
    let tick_dist := D.mul factor (tick_dist_multiplier version sv) in
    obind (slider_curve_dist s) (fun dist =>
    obind (enc_slider_duration s) (fun duration =>
    let span_count := sl_repeat_count s + 1 in
    let span_duration := D.div duration (D.of_Z span_count) in
    events_of start span_duration (sl_velocity s) tick_dist dist span_count))).

  (* node_samples.get(i).unwrap_or(&h.samples); a negative index `as usize` is out of range *)
  Definition node_or (nodes : list (list HitSampleInfo)) (i : Z) (dflt : list HitSampleInfo)
    : list HitSampleInfo :=
    if i <? 0 then dflt else match nth_error nodes (Z.to_nat i) with Some l => l | None => dflt end.

  (* GameMode::Osu arm *)
  Definition osu_event_samples (s : Slider) (hs : list HitSampleInfo) (e : EncEvent) : list SamplePoint :=
    if ee_kind e =? evk_head then collect_sample (node_or (sl_node_samples s) 0 hs) (ee_time e)
    else if ee_kind e =? evk_repeat then
      collect_sample (node_or (sl_node_samples s) (ee_span_idx e + 1) hs) (ee_time e)
    else if ee_kind e =? evk_tail then
      collect_sample (node_or (sl_node_samples s) (sl_repeat_count s + 1) hs) (ee_time e)
    else [].

  (* GameMode::Catch arm, with its running node_idx *)
  Fixpoint catch_event_samples (s : Slider) (hs : list HitSampleInfo) (node_idx : Z)
           (evs : list EncEvent) : list SamplePoint :=
    match evs with
    | [] => []
    | e :: r =>
        if (ee_kind e =? evk_head) || (ee_kind e =? evk_repeat) || (ee_kind e =? evk_tail) then
          collect_sample (node_or (sl_node_samples s) node_idx hs) (ee_time e) ++
          catch_event_samples s hs (node_idx + 1) r
        else catch_event_samples s hs node_idx r
    end.

  (* the body of `for h in map.hit_objects.iter_mut()` *)
  Definition object_samples (mode version : Z) (tick_rate slider_mult : F64) (c : ControlPoints)
             (h : HitObject) : outcome (list SamplePoint) :=
    obind (end_time h) (fun et =>
    let own := collect_sample (h_samples h) et in
    match h_kind h with
    | KCircle _ | KSpinner _ => Done own
    | KSlider s =>
        if mode =? 0 then
          obind (slider_events (h_start h) s version tick_rate c) (fun evs =>
          Done (own ++ flat_map (osu_event_samples s (h_samples h)) evs))
        else if mode =? 1 then Done own
        else if mode =? 2 then
          obind (juicestream_events (h_start h) s version tick_rate slider_mult c) (fun evs =>
          Done (own ++ catch_event_samples s (h_samples h) 0 evs))
        else Done (own ++ collect_sample (h_samples h) (h_start h))
    | KHold _ => Done (own ++ collect_sample (h_samples h) (h_start h))
    end).

  Fixpoint all_object_samples (mode version : Z) (tick_rate slider_mult : F64) (c : ControlPoints)
           (l : list HitObject) : outcome (list SamplePoint) :=
    match l with
    | [] => Done []
    | h :: r => obind (object_samples mode version tick_rate slider_mult c h) (fun x =>
                obind (all_object_samples mode version tick_rate slider_mult c r) (fun xs => Done (x ++ xs)))
    end.

  (* the tail of collect_samples: add the first, then every sample that is
     not redundant w.r.t. the last one added *)
  Fixpoint add_collected (c : ControlPoints) (last : SamplePoint) (l : list SamplePoint)
    : outcome ControlPoints :=
    match l with
    | [] => Done c
    | s :: r =>
        if sp_redundant s last then add_collected c last r
        else obind (add_sample c s) (fun c' => add_collected c' s r)
    end.

  Definition sp_key (p : SamplePoint) : Z := D.key (sp_time p).

  (* fn collect_samples(map, control_points): [c0] = map.control_points (read
     by slider_events), the result is the updated clone *)
  Definition collect_samples (mode version : Z) (tick_rate slider_mult : F64) (c0 : ControlPoints)
             (objs : list HitObject) : outcome ControlPoints :=
    obind (all_object_samples mode version tick_rate slider_mult c0 objs) (fun collected =>
    match ssort sp_key collected with                   (* sort_by: stable *)
    | [] => Done c0
    | s :: r => obind (add_sample c0 s) (fun c1 => add_collected c1 s r)
    end).

  (* ---------- ControlPointGroup, ControlPointProperties ---------- *)

  Definition group_of_tp (p : TimingPoint) : Group := mkGroup (tp_time p) (Some p).
  Definition gr_key (g : Group) : Z := D.key (gr_time g).

  (* if let Err(i) = groups.binary_search_by(..) { groups.insert(i, new(time)) } *)
  Definition insert_group (gs : list Group) (t : F64) : list Group :=
    match search gr_time gs t with
    | inl _ => gs
    | inr i => insert_nth i (mkGroup t None) gs
    end.

  Definition groups_of (c : ControlPoints) : list Group :=
    let g0 := ssort gr_key (map group_of_tp (cp_timing c)) in       (* sort_unstable_by on distinct keys *)
    let times := map dp_time (cp_difficulty c) ++ map ep_time (cp_effect c) ++ map sp_time (cp_sample c) in
    fold_left insert_group times g0.

  Definition props_default : Props := mkProps D.zero 0 0 0 0 0.

  (* ControlPointProperties::new *)
  Definition props_new (time : F64) (c : ControlPoints) (last : Props) (update_bank : bool) : outcome Props :=
    let timing := timing_point_at c time in
    obind (difficulty_point_at c time) (fun difficulty =>
    let sample := match sample_point_at c time with Some p => p | None => dflt_sp end in
    obind (effect_point_at c time) (fun effect =>
    let tmp := sp_apply sample (hs_new (NDefault nm_normal) None 0 0) in
    let kiai := match effect with Some p => ep_kiai p | None => false end in
    let omit := match timing with Some p => tp_omit p | None => false end in
    let flags := Z.lor (if kiai then effect_kiai else effect_none)
                       (if omit then effect_omit_first_bar_line else effect_none) in
    Done (mkProps
            (match difficulty with Some p => dp_sv p | None => D.one end)
            (match timing with Some p => tp_sig p | None => tp_default_signature end)
            (if update_bank then hs_bank tmp else pr_bank last)
            (if 0 <=? hs_custom tmp then hs_custom tmp else pr_custom last)
            (hs_volume tmp)
            flags))).

  Definition props_redundant (a b : Props) : bool :=
    near (pr_sv a) (pr_sv b) && (pr_sig a =? pr_sig b) && (pr_bank a =? pr_bank b) &&
    (pr_custom a =? pr_custom b) && (pr_vol a =? pr_vol b) && (pr_flags a =? pr_flags b).

  (* output_control_point_at: "{},{},{},{},{},{}" *)
  Definition props_toks (p : Props) (is_timing : bool) : line :=
    [TInt (pr_sig p); t_comma; TInt (pr_bank p); t_comma; TInt (pr_custom p); t_comma;
     TInt (pr_vol p); t_comma; TStr (if is_timing then [49] else [48]); t_comma; TInt (pr_flags p)].

  Definition f64_m100 : F64 := D.neg f64_100.

  (* the `for group in groups` loop *)
  Fixpoint group_lines (c : ControlPoints) (last : Props) (gs : list Group) : outcome (list line) :=
    match gs with
    | [] => Done []
    | g :: r =>
        obind (props_new (gr_time g) c last (match gr_timing g with Some _ => true | None => false end))
        (fun props =>
        let '(timing_lines, last1) :=
          match gr_timing g with
          | Some t =>
              ([ [TF64 (tp_time t); t_comma; TF64 (tp_beat_len t); t_comma] ++ props_toks props true ],
               mkProps D.one (pr_sig props) (pr_bank props) (pr_custom props) (pr_vol props) (pr_flags props))
          | None => ([], last)
          end in
        if props_redundant props last1 then
          obind (group_lines c last1 r) (fun ls => Done (timing_lines ++ ls))
        else
          obind (group_lines c props r) (fun ls =>
          Done (timing_lines ++
                ([TF64 (gr_time g); t_comma; TF64 (D.div f64_m100 (pr_sv props)); t_comma] ++
                 props_toks props false) :: ls)))
    end.

  Definition enc_timing_points (m : BeatmapV) : outcome (list line) :=
    let ho := bmv_ho m in
    obind (collect_samples (g_mode (hov_general ho)) (bmv_version m)
                           (d_slider_tick_rate (hov_difficulty ho))
                           (d_slider_multiplier (hov_difficulty ho))
                           (hov_control_points ho) (hov_hit_objects ho)) (fun c =>
    obind (group_lines c props_default (groups_of c)) (fun ls =>
    Done (header_tok SecTimingPoints :: ls))).

  (* ---------- Beatmap::encode ---------- *)

  Definition encode_lines (m : BeatmapV) : outcome (list line) :=
    let ho := bmv_ho m in
    obind (enc_timing_points m) (fun tp =>
    obind (enc_hit_objects (g_mode (hov_general ho)) (hov_hit_objects ho)) (fun objs =>
    Done ([enc_version (bmv_version m)] ++
          [] :: enc_general (hov_general ho) (hov_control_points ho) ++
          [] :: enc_editor (bmv_editor m) ++
          [] :: enc_metadata (bmv_metadata m) ++
          [] :: enc_difficulty (hov_difficulty ho) ++
          [] :: enc_events (hov_events ho) ++
          [] :: tp ++
          [] :: enc_colors (bmv_colors m) ++
          [] :: objs))).

  Definition t_lf : tok := TStr [10].
  Definition encode_tokens (m : BeatmapV) : outcome (list tok) :=
    obind (encode_lines m) (fun ls => Done (flat_map (fun l => l ++ [t_lf]) ls)).
End Enc.

(* ---------- dump of a token stream (marker 0x7e57, see harness/src/render.rs) ---------- *)

Definition tok_marker : Z := 32343.       (* 0x7e57 *)
Definition dump_tok (t : tok) : list Z :=
  match t with
  | TStr s => 0 :: Z.of_nat (length s) :: s
  | TF64 x => [1; D.bits x]
  | TF32 x => [2; S.bits x]
  | TInt n => [3; n]
  end.
Definition dump_toks (l : list tok) : list Z := tok_marker :: flat_map dump_tok l.

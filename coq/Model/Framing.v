(* Framing: which lines reach which section parser.

   Mirrors, function by function,
     /repo/src/section/mod.rs     Section, Section::try_from_line
     /repo/src/format_version.rs  try_version_from_line
     /repo/src/decode.rs          DecodeBeatmap::{decode, should_skip_line},
                                  parse_version, parse_first_section,
                                  parse_section
   over a list of lines as [Decoder::read_line] delivers them: each element is
   [trim_end] of one raw line, end of list = [Ok(None)] (EOF).  The byte ->
   line layer (BOM, encodings, I/O schedule) belongs to Reader.v / Encoding.v;
   the one function of it that the framing statements rely on is stated here
   as [lines_of_text].

   The second half of the file is the *specification* [frame_spec], written
   from the text of property C05 and not from the code.  Definitions only;
   the proofs are in Proofs/FramingFacts.v. *)
From RM Require Export Model.Text Model.Num.
From RM Require Import Gen.Generated.

(* ------------------------------------------------------------------ *)
(* section/mod.rs                                                      *)

(* enum Section, in declaration order (= Generated.section_variants) *)
Inductive section : Type :=
| SecGeneral | SecEditor | SecMetadata | SecDifficulty | SecEvents
| SecTimingPoints | SecColors | SecHitObjects | SecVariables
| SecCatchTheBeat | SecMania.

Definition all_sections : list section :=
  [SecGeneral; SecEditor; SecMetadata; SecDifficulty; SecEvents;
   SecTimingPoints; SecColors; SecHitObjects; SecVariables;
   SecCatchTheBeat; SecMania].

(* discriminant, used by dumps and by the generated table *)
Definition section_index (s : section) : Z :=
  match s with
  | SecGeneral => 0 | SecEditor => 1 | SecMetadata => 2 | SecDifficulty => 3
  | SecEvents => 4 | SecTimingPoints => 5 | SecColors => 6 | SecHitObjects => 7
  | SecVariables => 8 | SecCatchTheBeat => 9 | SecMania => 10
  end.

(* variant name as written in the Rust enum; pinned against
   [section_variants] in Properties/C05.v *)
Definition section_variant_name (s : section) : string :=
  match s with
  | SecGeneral => "General" | SecEditor => "Editor" | SecMetadata => "Metadata"
  | SecDifficulty => "Difficulty" | SecEvents => "Events"
  | SecTimingPoints => "TimingPoints" | SecColors => "Colors"
  | SecHitObjects => "HitObjects" | SecVariables => "Variables"
  | SecCatchTheBeat => "CatchTheBeat" | SecMania => "Mania"
  end.

Definition section_of_index (i : Z) : option section :=
  if i <? 0 then None else nth_error all_sections (Z.to_nat i).

(* the [match section { "General" => Self::General, ... _ => return None }]
   of try_from_line, from the regenerated table: first arm that matches *)
Fixpoint lookup_header (t : list (string * Z)) (name : str) : option Z :=
  match t with
  | [] => None
  | (n, i) :: r => if str_eqb (lit n) name then Some i else lookup_header r name
  end.

Definition lbracket : char := 91.
Definition rbracket : char := 93.

(* Section::try_from_line:
     let section = line.strip_prefix('[')?.strip_suffix(']')?; match ... *)
Definition section_of_line (line : str) : option section :=
  obnd (strip_prefix [lbracket] line) (fun a =>
  obnd (strip_suffix [rbracket] a) (fun name =>
  obnd (lookup_header section_table name) section_of_index)).

(* the header line of a section, as the table spells it (for statements) *)
Definition header_name (s : section) : option str :=
  omap (fun p => lit (fst p))
       (find (fun p => snd p =? section_index s) section_table).
Definition header_line (s : section) : option str :=
  omap (fun n => lbracket :: n ++ [rbracket]) (header_name s).

(* ------------------------------------------------------------------ *)
(* format_version.rs                                                   *)

(* ControlFlow<Result<i32, ParseVersionError>, ()> with the error payload
   dropped: Continue(()) | Break(Ok v) | Break(Err _) *)
Inductive vflow : Type :=
| VContinue
| VBreak (r : option Z).

Definition letter_v : char := 118.

(* try_version_from_line.  [line.rsplit('v').next()] is always [Some] (the
   iterator of a split yields at least one piece), so the [None =>
   Ok(LATEST_FORMAT_VERSION)] arm of the source is unreachable and has no
   counterpart here; [i32::parse] is ParseNumber ([pn_i32]: trims, then
   [i32::from_str], then the MAX_PARSE_VALUE limits). *)
Definition try_version_from_line (line : str) : vflow :=
  if negb (starts_with (lit version_prefix) line) then
    match line with
    | [] => VContinue
    | _ => VBreak None
    end
  else VBreak (pn_i32 (after_last letter_v line)).

(* ------------------------------------------------------------------ *)
(* decode.rs                                                           *)

(* DecodeBeatmap::should_skip_line, default body *)
Definition should_skip_line (line : str) : bool :=
  match line with
  | [] => true
  | _ => starts_with slashes (trim_start line)
  end.

(* The part of [trait DecodeBeatmap] the driver calls: eleven
   [fn parse_x(state: &mut State, line: &str) -> Result<(), Error>] as
   [S -> str -> S * res] (state as mutated up to the error), and
   [should_skip_line]. *)
Record parsers (S : Type) : Type := mkParsers {
  p_general : S -> str -> S * res;
  p_editor : S -> str -> S * res;
  p_metadata : S -> str -> S * res;
  p_difficulty : S -> str -> S * res;
  p_events : S -> str -> S * res;
  p_timing_points : S -> str -> S * res;
  p_colors : S -> str -> S * res;
  p_hit_objects : S -> str -> S * res;
  p_variables : S -> str -> S * res;
  p_catch_the_beat : S -> str -> S * res;
  p_mania : S -> str -> S * res;
  skip : str -> bool
}.
Arguments mkParsers {S}.
Arguments p_general {S}. Arguments p_editor {S}. Arguments p_metadata {S}.
Arguments p_difficulty {S}. Arguments p_events {S}. Arguments p_timing_points {S}.
Arguments p_colors {S}. Arguments p_hit_objects {S}. Arguments p_variables {S}.
Arguments p_catch_the_beat {S}. Arguments p_mania {S}. Arguments skip {S}.

(* [let parse_fn = match section { Section::General => Self::parse_general, … }] *)
Definition parser_of {S} (ps : parsers S) (sec : section) : S -> str -> S * res :=
  match sec with
  | SecGeneral => p_general ps
  | SecEditor => p_editor ps
  | SecMetadata => p_metadata ps
  | SecDifficulty => p_difficulty ps
  | SecEvents => p_events ps
  | SecTimingPoints => p_timing_points ps
  | SecColors => p_colors ps
  | SecHitObjects => p_hit_objects ps
  | SecVariables => p_variables ps
  | SecCatchTheBeat => p_catch_the_beat ps
  | SecMania => p_mania ps
  end.

(* What [parse_version] leaves behind: the version, the UseCurrentLine flag,
   and the reader ([curr_line()] = the line read last, and the unread lines).
   At EOF [read_line] has cleared its buffer, so [curr_line()] is "". *)
Record version_result : Type := mkVR {
  vr_version : option Z;
  vr_use_curr_line : bool;
  vr_curr_line : str;
  vr_rest : list str
}.

(* fn parse_version: loop { match reader.read_line() { … } } *)
Fixpoint parse_version (lines : list str) : version_result :=
  match lines with
  | [] => mkVR None false [] []                          (* Ok(None) => (None, false) *)
  | line :: rest =>
      match try_version_from_line line with
      | VContinue => parse_version rest                  (* continue *)
      | VBreak (Some v) => mkVR (Some v) false line rest (* (Some(version), false) *)
      | VBreak None => mkVR None true line rest          (* (None, true) *)
      end
  end.

(* the [loop] of parse_first_section *)
Fixpoint scan_first_section (lines : list str) : option (section * list str) :=
  match lines with
  | [] => None                                           (* Ok(None) => return Ok(None) *)
  | line :: rest =>
      match section_of_line line with
      | Some sec => Some (sec, rest)
      | None => scan_first_section rest
      end
  end.

(* fn parse_first_section(reader, UseCurrentLine(use_curr_line)) *)
Definition parse_first_section (use_curr_line : bool) (curr_line : str)
           (lines : list str) : option (section * list str) :=
  match (if use_curr_line then section_of_line curr_line else None) with
  | Some sec => Some (sec, lines)
  | None => scan_first_section lines
  end.

(* [parse_section] together with the [loop] of [decode] that re-dispatches on
   [SectionFlow::Continue(next)]: the inner loop returning [Continue(next)]
   and the outer loop immediately calling [parse_section] again with the
   parser of [next] is the recursive call with [next]; [Break(())] at EOF is
   the end of the list.  The parser's result is discarded ([let res = f(state,
   line)], only logged under the `tracing` feature). *)
Fixpoint section_loop {S} (ps : parsers S) (sec : section) (st : S)
         (lines : list str) : S :=
  match lines with
  | [] => st                                             (* SectionFlow::Break(()) *)
  | line :: rest =>
      if skip ps line then section_loop ps sec st rest   (* continue *)
      else match section_of_line line with
           | Some next => section_loop ps next st rest   (* SectionFlow::Continue(next) *)
           | None => section_loop ps sec (fst (parser_of ps sec st line)) rest
           end
  end.

(* The same two loops kept apart, exactly as the source has them:
   [parse_section] returns [SectionFlow] (and, here, the unread lines), and the
   [loop] of [decode] dispatches again.  The outer loop has no structural
   bound of its own, hence fuel; Proofs/FramingFacts.v shows that
   [length lines + 1] is always enough and that the result is [section_loop]
   ([decode_loop_fused]). *)
Fixpoint parse_section {S} (ps : parsers S) (f : S -> str -> S * res) (st : S)
         (lines : list str) : S * option (section * list str) :=
  match lines with
  | [] => (st, None)                                     (* Ok(SectionFlow::Break(())) *)
  | line :: rest =>
      if skip ps line then parse_section ps f st rest
      else match section_of_line line with
           | Some next => (st, Some (next, rest))        (* Ok(SectionFlow::Continue(next)) *)
           | None => parse_section ps f (fst (f st line)) rest
           end
  end.

Fixpoint decode_loop {S} (fuel : nat) (ps : parsers S) (sec : section) (st : S)
         (lines : list str) : outcome S :=
  match fuel with
  | O => OutOfFuel
  | Datatypes.S k =>
      match parse_section ps (parser_of ps sec) st lines with
      | (st', Some (next, rest)) => decode_loop k ps next st' rest   (* section = next *)
      | (st', None) => Done st'                                      (* break *)
      end
  end.

(* DecodeBeatmap::decode after [Decoder::new] *)
Definition driver {S V} (create : Z -> S) (ps : parsers S) (finish : S -> V)
           (lines : list str) : V :=
  let vr := parse_version lines in
  let st := create (odflt latest_format_version (vr_version vr)) in
  match parse_first_section (vr_use_curr_line vr) (vr_curr_line vr) (vr_rest vr) with
  | None => finish st                                    (* return Ok(state.into()) *)
  | Some (sec, rest) => finish (section_loop ps sec st rest)
  end.

(* ------------------------------------------------------------------ *)
(* The reader's line splitting, as assumed by the framing statements:
   [read_until(b'\n')] pieces (a final piece without LF is still a line, an
   empty file has no line, nothing follows a final LF), each [trim_end]-ed by
   [curr_line].  CR is White_Space, so CRLF is absorbed by [trim_end]. *)

Definition ch_lf : char := 10.
Definition ch_cr : char := 13.

Fixpoint drop_final_empty (pieces : list str) : list str :=
  match pieces with
  | [] => []
  | p :: r =>
      match p, r with
      | [], [] => []
      | _, _ => p :: drop_final_empty r
      end
  end.

Definition raw_lines (text : str) : list str := drop_final_empty (split_on ch_lf text).
Definition lines_of_text (text : str) : list str := map trim_end (raw_lines text).

(* how the statements build files out of lines *)
Definition join_eol (eol : str) (ls : list str) : str :=
  concat (map (fun l => l ++ eol) ls).
Definition no_lf (l : str) : Prop := ~ In ch_lf l.
Definition to_crlf (text : str) : str :=
  flat_map (fun c => if c =? ch_lf then [ch_cr; ch_lf] else [c]) text.

(* ================================================================== *)
(* Specification, from the property text:

     take the format version from the first non-blank line if it carries
     the version prefix (otherwise assume the latest version and let that
     line itself open a section), skip everything before the first
     recognised section header, and then hand every non-blank line that is
     not a // comment to the parser of the most recent recognised header   *)
(* ================================================================== *)

Definition is_blank (l : str) : bool :=
  match l with [] => true | _ => false end.

Definition is_comment (l : str) : bool := starts_with slashes (trim_start l).

Fixpoint drop_blank (lines : list str) : list str :=
  match lines with
  | [] => []
  | l :: r => if is_blank l then drop_blank r else lines
  end.

(* the version a line carries: it has the prefix and what follows the last
   'v' is a number ParseNumber accepts *)
Definition version_of_line (l : str) : option Z :=
  if starts_with (lit version_prefix) l then pn_i32 (after_last letter_v l) else None.

(* One pass over the lines that follow the version decision.  [cur] is the
   most recent recognised header, [None] before the first one.  [skip] is the
   decoder's notion of "blank or comment". *)
Fixpoint route (skip : str -> bool) (cur : option section) (lines : list str)
  : list (section * str) :=
  match lines with
  | [] => []
  | l :: r =>
      match cur with
      | None => route skip (section_of_line l) r
      | Some sec =>
          if skip l then route skip cur r
          else match section_of_line l with
               | Some next => route skip (Some next) r
               | None => (sec, l) :: route skip cur r
               end
      end
  end.

(* the most recent recognised header after [lines] have gone by *)
Fixpoint section_after_from (skip : str -> bool) (cur : option section)
         (lines : list str) : option section :=
  match lines with
  | [] => cur
  | l :: r =>
      match cur with
      | None => section_after_from skip (section_of_line l) r
      | Some _ =>
          if skip l then section_after_from skip cur r
          else match section_of_line l with
               | Some next => section_after_from skip (Some next) r
               | None => section_after_from skip cur r
               end
      end
  end.

(* what is left for routing once the version decision is made *)
Definition body_of (lines : list str) : list str :=
  match drop_blank lines with
  | [] => []
  | first :: more =>
      match version_of_line first with
      | Some _ => more
      | None => first :: more
      end
  end.

Definition version_of (lines : list str) : Z :=
  match drop_blank lines with
  | [] => latest_format_version
  | first :: _ => odflt latest_format_version (version_of_line first)
  end.

Definition frame_spec (skip : str -> bool) (lines : list str)
  : Z * list (section * str) :=
  (version_of lines, route skip None (body_of lines)).

(* feeding the routed lines to the parsers, results ignored *)
Definition feed {S} (ps : parsers S) (st : S) (routed : list (section * str)) : S :=
  fold_left (fun st '(sec, l) => fst (parser_of ps sec st l)) routed st.

Definition has_nonblank (lines : list str) : Prop :=
  exists l, In l lines /\ is_blank l = false.

Definition section_after (skip : str -> bool) (lines : list str) : option section :=
  section_after_from skip None (body_of lines).

(* declarative reading of "most recent recognised header": the last line of
   the prefix that is a header *)
Fixpoint last_header (lines : list str) : option section :=
  match lines with
  | [] => None
  | l :: r =>
      match last_header r with
      | Some s => Some s
      | None => section_of_line l
      end
  end.

(* ------------------------------------------------------------------ *)
(* Recording parsers (the model of the harness-side Recorder): the state is
   the version and the log, newest first; a line containing the marker '!' is
   answered with Err — after logging, to show that results do not steer
   routing. *)

Definition rec_state : Type := Z * list (Z * str).
Definition rec_marker : char := 33.

Definition rec_parse (i : Z) (st : rec_state) (l : str) : rec_state * res :=
  ((fst st, (i, l) :: snd st),
   if existsb (fun c => c =? rec_marker) l then Rejected else Ok).

Definition rec_parsers : parsers rec_state :=
  mkParsers (rec_parse 0) (rec_parse 1) (rec_parse 2) (rec_parse 3) (rec_parse 4)
            (rec_parse 5) (rec_parse 6) (rec_parse 7) (rec_parse 8) (rec_parse 9)
            (rec_parse 10) should_skip_line.

Definition rec_create (v : Z) : rec_state := (v, []).

Fixpoint dump_log (log : list (Z * str)) : list Z :=
  match log with
  | [] => []
  | (i, l) :: r => i :: Z.of_nat (length l) :: l ++ dump_log r
  end.

(* dump: version, number of log entries, then (section, len, code points)* *)
Definition rec_finish (st : rec_state) : list Z :=
  fst st :: Z.of_nat (length (snd st)) :: dump_log (rev (snd st)).

Definition rec_decode (lines : list str) : list Z :=
  driver rec_create rec_parsers rec_finish lines.

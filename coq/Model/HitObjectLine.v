(* HitObjectLine: <HitObjects as DecodeBeatmap>::parse_hit_objects
   (section/hit_objects/decode.rs), with HitObjectType (mod.rs).
   State mutation is kept: the function returns the state as mutated up to the
   point of the error.  The map-level post-processing
   (From<HitObjectsState> for HitObjects) is NOT here (C15). *)
From RM Require Import Model.Text Model.Num Model.HitSamples Model.PathString.
From RM Require Import Gen.Generated.
Open Scope Z_scope.

(* ---------- hit objects ---------- *)
Record Circle := mkCircle { ci_pos : Pos; ci_new_combo : bool; ci_combo_offset : Z }.
Record Slider := mkSlider {
  sl_pos : Pos; sl_new_combo : bool; sl_combo_offset : Z;
  sl_mode : Z;                              (* SliderPath.mode *)
  sl_control_points : list PCP;             (* SliderPath.control_points *)
  sl_expected_dist : option F64;            (* SliderPath.expected_dist *)
  sl_node_samples : list (list HitSampleInfo);
  sl_repeat_count : Z;
  sl_velocity : F64 }.
Record Spinner := mkSpinner { sp_pos : Pos; sp_duration : F64; sp_new_combo : bool }.
Record Hold := mkHold { hd_pos_x : F32; hd_duration : F64 }.

Inductive HitObjectKind :=
| KCircle (c : Circle) | KSlider (s : Slider) | KSpinner (s : Spinner) | KHold (h : Hold).

Record HitObject := mkHObj { h_start : F64; h_kind : HitObjectKind; h_samples : list HitSampleInfo }.

(* ---------- parsing state (the fields parse_hit_objects touches) ---------- *)
Record HOState := mkHO {
  ho_last : option Z;                (* last_object: Option<HitObjectType> *)
  ho_curve : list PCP;               (* curve_points *)
  ho_vertices : list PCP;            (* vertices *)
  ho_objects : list HitObject;       (* hit_objects *)
  ho_mode : Z }.                     (* timing_points.mode() *)

Definition ho_create (mode : Z) : HOState := mkHO None [] [] [] mode.

(* HitObjectType(i32)::has_flag *)
Definition has_flag (t f : Z) : bool := negb (Z.land t f =? 0).

Definition first_object (st : HOState) : bool :=
  match ho_last st with None => true | Some _ => false end.
(* self.last_object.is_some_and(|kind| kind.has_flag(SPINNER) && !kind.has_flag(CIRCLE) && !kind.has_flag(SLIDER))
   -- the circle and slider flags take precedence over the spinner flag *)
Definition last_object_was_spinner (st : HOState) : bool :=
  match ho_last st with
  | Some k => has_flag k hot_spinner && negb (has_flag k hot_circle) && negb (has_flag k hot_slider)
  | None => false
  end.

(* ---------- the common head of a line ---------- *)
Record Header := mkHeader {
  hd_pos : Pos;
  hd_start : F64;
  hd_type : Z;              (* with COMBO_OFFSET and NEW_COMBO bits cleared *)
  hd_new_combo : bool;
  hd_combo_offset : Z;
  hd_sound : Z;
  hd_rest : list str }.     (* what [split] still holds *)

(* [s.parse_with_limits(MAX_COORDINATE_VALUE as f32)? as i32 as f32] *)
Definition parse_coord (s : str) : option F32 := omap trunc32 (pn_f32_lim coord_lim32 s).

Definition parse_header (line : str) : option Header :=
  match split_on 44 (trim_comment line) with
  | x :: y :: start_time :: kind :: sound_type :: rest =>
      match parse_coord x with None => None | Some px_ =>
      match parse_coord y with None => None | Some py_ =>
      match pn_f64 start_time with None => None | Some start =>
      match parse_i32_raw kind with None => None | Some t0 =>      (* str::parse::<i32>, no trim *)
        let combo_offset := Z.shiftr (Z.land t0 hot_combo_offset) 4 in
        let t1 := Z.land t0 (Z.lnot hot_combo_offset) in
        let new_combo := has_flag t1 hot_new_combo in
        let t2 := Z.land t1 (Z.lnot hot_new_combo) in
        match parse_sound_type sound_type with None => None | Some snd_ =>
          Some (mkHeader (mkPos px_ py_) start t2 new_combo combo_offset snd_ rest)
        end
      end end end end
  | _ => None
  end.

(* optional trailing "extras" field: if let Some(s) = split.next() { read_custom_sample_banks(s.split(':'), false)? } *)
Definition read_extras (o : option str) (b : SampleBankInfo) : option SampleBankInfo :=
  match o with
  | Some s => read_custom_sample_banks b (split_on 58 s) false
  | None => Some b
  end.

(* ---------- slider fields that are read before the path ---------- *)
Fixpoint replicate {A} (n : nat) (x : A) : list A :=
  match n with O => [] | S k => x :: replicate k x end.

(* for (bank_info, set) in node_bank_infos.iter_mut().zip(next.split('|')) { bank_info.read(set.split(':'), false)? } *)
Fixpoint zip_banks (infos : list SampleBankInfo) (sets : list str) : option (list SampleBankInfo) :=
  match infos, sets with
  | b :: br, s :: sr =>
      match read_custom_sample_banks b (split_on 58 s) false with
      | Some b' => omap (cons b') (zip_banks br sr)
      | None => None
      end
  | _, _ => Some infos
  end.

(* for (sound_type, s) in node_sound_types.iter_mut().zip(next.split('|')) { *sound_type = s.parse().unwrap_or_default() } *)
Fixpoint zip_sounds (sounds : list Z) (toks : list str) : list Z :=
  match sounds, toks with
  | _ :: sr, t :: tr => odflt 0 (parse_sound_type t) :: zip_sounds sr tr
  | _, _ => sounds
  end.

Fixpoint zip_convert (infos : list SampleBankInfo) (sounds : list Z) : list (list HitSampleInfo) :=
  match infos, sounds with
  | b :: br, s :: sr => convert_sound_type b s :: zip_convert br sr
  | _, _ => []
  end.

Definition nonempty (o : option str) : option str :=
  match o with Some (c :: s) => Some (c :: s) | _ => None end.

Record SliderPre := mkSliderPre {
  spre_point_str : str;
  spre_repeat : Z;
  spre_len : option F64;
  spre_nodes : list (list HitSampleInfo);
  spre_bank : SampleBankInfo }.

(* everything of the slider arm up to (not including) convert_path_str.
   Done None = Err.  The Panic outcomes are the debug-build overflow of
   [repeat_count - 1] and [repeat_count as usize + 2] / vec! allocation for a
   negative count. *)
Definition parse_slider_pre (sound : Z) (rest : list str) : outcome (option SliderPre) :=
  match rest with
  | point_str :: repeat_s :: r2 =>
      match pn_i32 repeat_s with
      | None => Done None
      | Some rc0 =>
          if repeat_cap <? rc0 then Done None                      (* InvalidRepeatCount *)
          else if rc0 - 1 <? i32_min then Panic 149                  (* repeat_count - 1 *)
          else
            let rc := Z.max 0 (rc0 - 1) in
            let '(o_len, r3) := next r2 in
            match (match o_len with
                   | Some s =>
                       match pn_f64_lim coord_lim64 s with
                       | Some v =>
                           let new_len := f64_max_lit v D.zero in   (* .max(0.0) *)
                           Some (if D.ge (D.abs new_len) D.eps then Some new_len else None)
                       | None => None
                       end
                   | None => Some None end) with
            | None => Done None
            | Some len =>
                let '(next_8, r4) := next r3 in
                let '(next_9, r5) := next r4 in
                let '(next_10, _) := next r5 in
                match (match next_10 with
                       | Some s => read_custom_sample_banks sbi_default (split_on 58 s) true
                       | None => Some sbi_default end) with
                | None => Done None
                | Some bank_info =>
                    if rc <? 0 then Panic 150                        (* repeat_count as usize + 2 *)
                    else
                      let nodes := Z.to_nat (rc + 2) in
                      match (match nonempty next_9 with
                             | Some s => zip_banks (replicate nodes bank_info) (split_on 124 s)
                             | None => Some (replicate nodes bank_info) end) with
                      | None => Done None
                      | Some node_bank_infos =>
                          let node_sound_types :=
                            match nonempty next_8 with
                            | Some s => zip_sounds (replicate nodes sound) (split_on 124 s)
                            | None => replicate nodes sound
                            end in
                          Done (Some (mkSliderPre point_str rc len
                                        (zip_convert node_bank_infos node_sound_types) bank_info))
                      end
                end
            end
      end
  | _ => Done None
  end.

Definition spinner_pos : Pos :=
  let '(a, b, c, d) := spinner_pos_dec in
  let f (x : bool * Z * Z) : F32 := let '(s, m, e) := x in S.of_decimal s m e in
  mkPos (S.div (f a) (f b)) (S.div (f c) (f d)).

Definition forced_new_combo (st : HOState) (new_combo : bool) : bool :=
  first_object st || last_object_was_spinner st || new_combo.

Definition set_bufs (st : HOState) (pb : PBuf) : HOState :=
  mkHO (ho_last st) (pb_curve pb) (pb_vertices pb) (ho_objects st) (ho_mode st).

(* the [let kind = if .. else if .. else { return Err }] expression:
   (state, Some (kind, bank_info)) or (state, None) on Err *)
Definition parse_kind (st : HOState) (h : Header)
  : outcome (HOState * option (HitObjectKind * SampleBankInfo)) :=
  let t := hd_type h in
  let rest := hd_rest h in
  if has_flag t hot_circle then
    match read_extras (fst (next rest)) sbi_default with
    | None => Done (st, None)
    | Some bank =>
        Done (st, Some (KCircle (mkCircle (hd_pos h) (forced_new_combo st (hd_new_combo h))
                                          (if hd_new_combo h then hd_combo_offset h else 0)), bank))
    end
  else if has_flag t hot_slider then
    match parse_slider_pre (hd_sound h) rest with
    | Panic w => Panic w
    | OutOfFuel => OutOfFuel
    | Done None => Done (st, None)
    | Done (Some pre) =>
        (* state.curve_points.clear(): a previously rejected slider may have left points behind *)
        match convert_path_str (mkPB [] (ho_vertices st)) (spre_point_str pre) (hd_pos h) with
        | Panic w => Panic w
        | OutOfFuel => OutOfFuel
        | Done (pb, Rejected) => Done (set_bufs st pb, None)
        | Done (pb, Ok) =>
            (* control_points.append(&mut state.curve_points) *)
            let st' := set_bufs st (mkPB [] (pb_vertices pb)) in
            Done (st', Some (KSlider (mkSlider (hd_pos h) (forced_new_combo st' (hd_new_combo h))
                                               (if hd_new_combo h then hd_combo_offset h else 0)
                                               (ho_mode st') (pb_curve pb) (spre_len pre)
                                               (spre_nodes pre) (spre_repeat pre) D.one),
                             spre_bank pre))
        end
    end
  else if has_flag t hot_spinner then
    match rest with
    | [] => Done (st, None)
    | dur_s :: r1 =>
        match pn_f64 dur_s with
        | None => Done (st, None)
        | Some d =>
            let duration := f64_max_lit (D.sub d (hd_start h)) D.zero in
            match read_extras (fst (next r1)) sbi_default with
            | None => Done (st, None)
            | Some bank => Done (st, Some (KSpinner (mkSpinner spinner_pos duration (hd_new_combo h)), bank))
            end
        end
    end
  else if has_flag t hot_hold then
    let start := hd_start h in
    let end0 := D.max start start in
    match nonempty (fst (next rest)) with
    | None => Done (st, Some (KHold (mkHold (px (hd_pos h)) (D.sub end0 start)), sbi_default))
    | Some s =>
        match split_on 58 s with
        | [] => Done (st, None)
        | e_s :: ss =>
            match pn_f64 e_s with
            | None => Done (st, None)
            | Some new_end =>
                let end1 := D.max start new_end in
                match read_custom_sample_banks sbi_default ss false with
                | None => Done (st, None)
                | Some bank => Done (st, Some (KHold (mkHold (px (hd_pos h)) (D.sub end1 start)), bank))
                end
            end
        end
    end
  else Done (st, None).                               (* UnknownHitObjectType *)

Definition parse_hit_objects (st : HOState) (line : str) : outcome (HOState * res) :=
  match parse_header line with
  | None => Done (st, Rejected)
  | Some h =>
      match parse_kind st h with
      | Panic w => Panic w
      | OutOfFuel => OutOfFuel
      | Done (st', None) => Done (st', Rejected)
      | Done (st', Some (kind, bank)) =>
          let obj := mkHObj (hd_start h) kind (convert_sound_type bank (hd_sound h)) in
          Done (mkHO (Some (hd_type h)) (ho_curve st') (ho_vertices st')
                     (ho_objects st' ++ [obj]) (ho_mode st'), Ok)
      end
  end.

(* ---------- canonical dumps ---------- *)
Definition dump_pos (p : Pos) : list Z := [S.bits (px p); S.bits (py p)].
Definition dump_optf64 (x : option F64) : list Z :=
  match x with Some v => [1; D.bits v] | None => [0] end.
Definition dump_kind (k : HitObjectKind) : list Z :=
  match k with
  | KCircle c => 0 :: dump_pos (ci_pos c) ++ [hbz (ci_new_combo c); ci_combo_offset c]
  | KSlider s =>
      1 :: dump_pos (sl_pos s) ++ [hbz (sl_new_combo s); sl_combo_offset s; sl_mode s] ++
      dump_pcps (sl_control_points s) ++ dump_optf64 (sl_expected_dist s) ++
      (Z.of_nat (length (sl_node_samples s)) :: flat_map dump_samples (sl_node_samples s)) ++
      [sl_repeat_count s; D.bits (sl_velocity s)]
  | KSpinner s => 2 :: dump_pos (sp_pos s) ++ [D.bits (sp_duration s); hbz (sp_new_combo s)]
  | KHold h => [3; S.bits (hd_pos_x h); D.bits (hd_duration h)]
  end.
Definition dump_object (h : HitObject) : list Z :=
  D.bits (h_start h) :: dump_kind (h_kind h) ++ dump_samples (h_samples h).
Definition dump_state (st : HOState) : list Z :=
  (Z.of_nat (length (ho_objects st)) :: flat_map dump_object (ho_objects st)) ++
  dump_optz (ho_last st) ++ dump_pcps (ho_curve st) ++ dump_pcps (ho_vertices st).

(* Drv12: decoding of correspondence cases for C12 (glue, not verified).
   case = mode, default bank, default volume, then the lines, each as
   length followed by its code points. *)
From RM Require Import Model.TimingPoints.

Fixpoint take_lines (fuel : nat) (inp : list Z) : list str :=
  match fuel with
  | O => []
  | S k =>
      match inp with
      | [] => []
      | n :: r => firstn (Z.to_nat n) r :: take_lines k (skipn (Z.to_nat n) r)
      end
  end.

Definition run_c12 (inp : list Z) : list Z :=
  match inp with
  | m :: b :: v :: r => dump_decode (tp_decode (mkTPG m b v) (take_lines (length r) r))
  | _ => [98]
  end.

(* Edit: setting one field of a decoded map (the `edit f v m` of property C03),
   for every field of the six simple sections, and the untyped decoding of an
   edit used by the `edit` correspondence entry.  Definitions only. *)
From RM Require Export Model.Encode.
From RM Require Import Gen.Generated.

(* ---------- lifting section updates to the whole map ---------- *)

Definition with_ho (m : BeatmapV) (h : HitObjectsV) : BeatmapV :=
  mkBMV (bmv_version m) (bmv_editor m) (bmv_metadata m) (bmv_colors m) h.

Definition upd_version (v : Z) (m : BeatmapV) : BeatmapV :=
  mkBMV v (bmv_editor m) (bmv_metadata m) (bmv_colors m) (bmv_ho m).
Definition upd_general (f : GeneralState -> GeneralState) (m : BeatmapV) : BeatmapV :=
  let h := bmv_ho m in
  with_ho m (mkHOV (f (hov_general h)) (hov_difficulty h) (hov_events h) (hov_control_points h) (hov_hit_objects h)).
Definition upd_difficulty (f : DifficultyState -> DifficultyState) (m : BeatmapV) : BeatmapV :=
  let h := bmv_ho m in
  with_ho m (mkHOV (hov_general h) (f (hov_difficulty h)) (hov_events h) (hov_control_points h) (hov_hit_objects h)).
Definition upd_events (f : EventsState -> EventsState) (m : BeatmapV) : BeatmapV :=
  let h := bmv_ho m in
  with_ho m (mkHOV (hov_general h) (hov_difficulty h) (f (hov_events h)) (hov_control_points h) (hov_hit_objects h)).
Definition upd_editor (f : EditorState -> EditorState) (m : BeatmapV) : BeatmapV :=
  mkBMV (bmv_version m) (f (bmv_editor m)) (bmv_metadata m) (bmv_colors m) (bmv_ho m).
Definition upd_metadata (f : MetadataState -> MetadataState) (m : BeatmapV) : BeatmapV :=
  mkBMV (bmv_version m) (bmv_editor m) (f (bmv_metadata m)) (bmv_colors m) (bmv_ho m).
Definition upd_colors (f : ColorsState -> ColorsState) (m : BeatmapV) : BeatmapV :=
  mkBMV (bmv_version m) (bmv_editor m) (bmv_metadata m) (f (bmv_colors m)) (bmv_ho m).

(* ---------- typed edits ---------- *)

Inductive edit : Type :=
| EdVersion (v : Z)
| EdAudioFile (s : str) | EdAudioLeadIn (x : F64) | EdPreviewTime (n : Z) | EdStackLeniency (x : F32)
| EdMode (n : Z) | EdLetterbox (b : bool) | EdSpecialStyle (b : bool) | EdWidescreen (b : bool)
| EdEpilepsy (b : bool) | EdSamplesMatch (b : bool) | EdCountdown (n : Z) | EdCountdownOffset (n : Z)
| EdBookmarks (l : list Z) | EdDistanceSpacing (x : F64) | EdBeatDivisor (n : Z) | EdGridSize (n : Z)
| EdTimelineZoom (x : F64)
| EdTitle (s : str) | EdTitleUnicode (s : str) | EdArtist (s : str) | EdArtistUnicode (s : str)
| EdCreator (s : str) | EdVersionName (s : str) | EdSource (s : str) | EdTags (s : str)
| EdBeatmapId (n : Z) | EdBeatmapSetId (n : Z)
| EdHp (x : F32) | EdCs (x : F32) | EdOd (x : F32) | EdAr (x : F32)
| EdSliderMultiplier (x : F64) | EdSliderTickRate (x : F64)
| EdBackground (s : str) | EdBreaks (l : list BreakPeriod)
| EdComboColors (l : list Color) | EdCustomColors (l : list CustomColor).

Definition apply_edit (e : edit) (m : BeatmapV) : BeatmapV :=
  match e with
  | EdVersion v => upd_version v m
  | EdAudioFile s => upd_general (fun g => set_g_audio_file g s) m
  | EdAudioLeadIn x => upd_general (fun g => set_g_audio_lead_in g x) m
  | EdPreviewTime n => upd_general (fun g => set_g_preview_time g n) m
  | EdStackLeniency x => upd_general (fun g => set_g_stack_leniency g x) m
  | EdMode n => upd_general (fun g => set_g_mode g n) m
  | EdLetterbox b => upd_general (fun g => set_g_letterbox_in_breaks g b) m
  | EdSpecialStyle b => upd_general (fun g => set_g_special_style g b) m
  | EdWidescreen b => upd_general (fun g => set_g_widescreen_storyboard g b) m
  | EdEpilepsy b => upd_general (fun g => set_g_epilepsy_warning g b) m
  | EdSamplesMatch b => upd_general (fun g => set_g_samples_match_playback_rate g b) m
  | EdCountdown n => upd_general (fun g => set_g_countdown g n) m
  | EdCountdownOffset n => upd_general (fun g => set_g_countdown_offset g n) m
  | EdBookmarks l => upd_editor (fun s => set_ed_bookmarks s l) m
  | EdDistanceSpacing x => upd_editor (fun s => set_ed_distance_spacing s x) m
  | EdBeatDivisor n => upd_editor (fun s => set_ed_beat_divisor s n) m
  | EdGridSize n => upd_editor (fun s => set_ed_grid_size s n) m
  | EdTimelineZoom x => upd_editor (fun s => set_ed_timeline_zoom s x) m
  | EdTitle s => upd_metadata (fun x => set_m_title x s) m
  | EdTitleUnicode s => upd_metadata (fun x => set_m_title_unicode x s) m
  | EdArtist s => upd_metadata (fun x => set_m_artist x s) m
  | EdArtistUnicode s => upd_metadata (fun x => set_m_artist_unicode x s) m
  | EdCreator s => upd_metadata (fun x => set_m_creator x s) m
  | EdVersionName s => upd_metadata (fun x => set_m_version x s) m
  | EdSource s => upd_metadata (fun x => set_m_source x s) m
  | EdTags s => upd_metadata (fun x => set_m_tags x s) m
  | EdBeatmapId n => upd_metadata (fun x => set_m_beatmap_id x n) m
  | EdBeatmapSetId n => upd_metadata (fun x => set_m_beatmap_set_id x n) m
  | EdHp x => upd_difficulty (fun d => set_d_hp_drain_rate d x) m
  | EdCs x => upd_difficulty (fun d => set_d_circle_size d x) m
  | EdOd x => upd_difficulty (fun d => set_d_overall_difficulty d x) m
  | EdAr x => upd_difficulty (fun d => set_d_approach_rate d x) m
  | EdSliderMultiplier x => upd_difficulty (fun d => set_d_slider_multiplier d x) m
  | EdSliderTickRate x => upd_difficulty (fun d => set_d_slider_tick_rate d x) m
  | EdBackground s => upd_events (fun e => set_ev_background_file e s) m
  | EdBreaks l => upd_events (fun e => set_ev_breaks e l) m
  | EdComboColors l => upd_colors (fun c => set_co_custom_combo_colors c l) m
  | EdCustomColors l => upd_colors (fun c => set_co_custom_colors c l) m
  end.

(* ---------- untyped decoding (correspondence glue) ---------- *)

Definition zb0 (z : Z) : bool := negb (z =? 0).
Definition hdz (v : list Z) : Z := match v with x :: _ => x | [] => 0 end.

Fixpoint breaks_of (v : list Z) : list BreakPeriod :=
  match v with
  | s :: e :: r => mkBreak (D.of_bits s) (D.of_bits e) :: breaks_of r
  | _ => []
  end.
Fixpoint colors_of (fuel : nat) (v : list Z) : list Color :=
  match fuel, v with
  | S k, r :: g :: b :: a :: rest => mkColor r g b a :: colors_of k rest
  | _, _ => []
  end.
Fixpoint customs_of (fuel : nat) (v : list Z) : list CustomColor :=
  match fuel, v with
  | S k, n :: rest =>
      let name := firstn (Z.to_nat n) rest in
      match skipn (Z.to_nat n) rest with
      | r :: g :: b :: a :: rest' => mkCustomColor name (mkColor r g b a) :: customs_of k rest'
      | _ => []
      end
  | _, _ => []
  end.

(* field ids as in harness/src/c03.rs FIELDS *)
Definition edit_of (id : Z) (v : list Z) : option edit :=
  let n := hdz v in
  let bits64 := D.of_bits n in
  let bits32 := S.of_bits n in
  let fuel := length v in
  match Z.to_nat id with
  | 0%nat => Some (EdVersion n)
  | 1%nat => Some (EdAudioFile v)
  | 2%nat => Some (EdAudioLeadIn bits64)
  | 3%nat => Some (EdPreviewTime n)
  | 4%nat => Some (EdStackLeniency bits32)
  | 5%nat => Some (EdMode n)
  | 6%nat => Some (EdLetterbox (zb0 n))
  | 7%nat => Some (EdSpecialStyle (zb0 n))
  | 8%nat => Some (EdWidescreen (zb0 n))
  | 9%nat => Some (EdEpilepsy (zb0 n))
  | 10%nat => Some (EdSamplesMatch (zb0 n))
  | 11%nat => Some (EdCountdown n)
  | 12%nat => Some (EdCountdownOffset n)
  | 13%nat => Some (EdBookmarks v)
  | 14%nat => Some (EdDistanceSpacing bits64)
  | 15%nat => Some (EdBeatDivisor n)
  | 16%nat => Some (EdGridSize n)
  | 17%nat => Some (EdTimelineZoom bits64)
  | 18%nat => Some (EdTitle v)
  | 19%nat => Some (EdTitleUnicode v)
  | 20%nat => Some (EdArtist v)
  | 21%nat => Some (EdArtistUnicode v)
  | 22%nat => Some (EdCreator v)
  | 23%nat => Some (EdVersionName v)
  | 24%nat => Some (EdSource v)
  | 25%nat => Some (EdTags v)
  | 26%nat => Some (EdBeatmapId n)
  | 27%nat => Some (EdBeatmapSetId n)
  | 28%nat => Some (EdHp bits32)
  | 29%nat => Some (EdCs bits32)
  | 30%nat => Some (EdOd bits32)
  | 31%nat => Some (EdAr bits32)
  | 32%nat => Some (EdSliderMultiplier bits64)
  | 33%nat => Some (EdSliderTickRate bits64)
  | 34%nat => Some (EdBackground v)
  | 35%nat => Some (EdBreaks (breaks_of v))
  | 36%nat => Some (EdComboColors (colors_of fuel v))
  | 37%nat => Some (EdCustomColors (customs_of fuel v))
  | _ => None
  end.

(* Drv05: decoding of correspondence cases for C05 (glue, not verified).

   c05   input = the raw lines of a file, each as <len> <code points...>;
         [trim_end] is applied here, as [Decoder::curr_line] does
   c05t  input = the code points of the whole (decoded) text; the lines are
         [lines_of_text], so this entry also compares the assumed line
         splitting with the real reader
   output (both): version, number of log entries, (section, len, cps...)* *)
From RM Require Import Model.Framing.

Fixpoint dec_lines (fuel : nat) (inp : list Z) : list str :=
  match fuel with
  | O => []
  | S k =>
      match inp with
      | [] => []
      | n :: r =>
          let m := Z.to_nat n in
          firstn m r :: dec_lines k (skipn m r)
      end
  end.

Definition run_c05 (inp : list Z) : list Z :=
  rec_decode (map trim_end (dec_lines (length inp) inp)).

Definition run_c05t (inp : list Z) : list Z :=
  rec_decode (lines_of_text inp).

(* Reader: the BufRead / Read / Write contracts as schedules, std's
   read_until / write_all transcribed over them (read_exact is kept as a
   transcription of std; decoder.rs no longer calls it), and
   /repo/src/reader/decoder.rs (Decoder::new / read_bom / read_line /
   curr_line; the decoder reads through std's Chain of the bytes read_bom took
   and the reader) plus the way /repo/src/decode.rs drives it (every read_line
   error is returned, the loop runs to EOF).  Definitions only; lemmas are in
   Proofs/ReaderFacts.v. *)
From RM Require Import Model.Text Model.Encoding.
From RM Require Import Gen.Generated.

(* ---------- I/O outcomes ---------- *)

Inductive io_kind := Other | UnexpectedEof | PermissionDenied | TimedOut | WouldBlock | WriteZero.

Definition io_kind_eqb (a b : io_kind) : bool :=
  match a, b with
  | Other, Other | UnexpectedEof, UnexpectedEof | PermissionDenied, PermissionDenied
  | TimedOut, TimedOut | WouldBlock, WouldBlock | WriteZero, WriteZero => true
  | _, _ => false
  end.

(* Result<A, io::Error> of a call that may also panic or (model only) run out
   of loop fuel.  Constructors are prefixed to keep Prelude.outcome usable. *)
Inductive io (A : Type) : Type :=
| IoDone (a : A)
| IoErr (k : io_kind)
| IoPanic (why : Z)
| IoFuel.
Arguments IoDone {A} a.
Arguments IoErr {A} k.
Arguments IoPanic {A} why.
Arguments IoFuel {A}.

Definition io_bind {A B} (x : io A) (f : A -> io B) : io B :=
  match x with
  | IoDone a => f a
  | IoErr k => IoErr k
  | IoPanic w => IoPanic w
  | IoFuel => IoFuel
  end.

Definition io_of_outcome {A} (x : outcome A) : io A :=
  match x with Done a => IoDone a | Panic w => IoPanic w | OutOfFuel => IoFuel end.

(* ---------- the reader: what the BufRead contract allows ---------- *)

(* One event = the result of one call of the underlying source:
   [Chunk n]: up to n fresh bytes become available (fewer at the end of the
   data, none at EOF); [Interrupted]: ErrorKind::Interrupted; [Fail k]: a hard
   error.  An exhausted schedule delivers everything that is left in one
   chunk, then EOF for ever.  from_bytes / from_str = the empty schedule;
   BufReader::with_capacity(c, _) = all Chunk c. *)
Inductive ev := Chunk (n : positive) | Interrupted | Fail (k : io_kind).

(* [buffered]: bytes already obtained and not yet consumed (the BufRead's
   internal buffer); [rest]: bytes not yet delivered. *)
Record reader := mkReader { buffered : bytes; rest : bytes; sched : list ev }.
Definition mk_reader (b : bytes) (s : list ev) : reader := mkReader [] b s.

Inductive fb := FbBuf (b : bytes) | FbInt | FbErr (k : io_kind).

(* BufRead::fill_buf: returns the buffer if non-empty, else asks the source once *)
Definition fill_buf (r : reader) : fb * reader :=
  match buffered r with
  | _ :: _ => (FbBuf (buffered r), r)
  | [] =>
      match sched r with
      | [] => (FbBuf (rest r), mkReader (rest r) [] [])
      | Chunk n :: s =>
          let a := firstn (Pos.to_nat n) (rest r) in
          (FbBuf a, mkReader a (skipn (Pos.to_nat n) (rest r)) s)
      | Interrupted :: s => (FbInt, mkReader [] (rest r) s)
      | Fail k :: s => (FbErr k, mkReader [] (rest r) s)
      end
  end.

(* BufRead::consume *)
Definition consume (k : nat) (r : reader) : reader :=
  mkReader (skipn k (buffered r)) (rest r) (sched r).

(* memchr::memchr *)
Fixpoint memchr (d : Z) (l : bytes) : option nat :=
  match l with
  | [] => None
  | x :: t => if x =? d then Some O else omap S (memchr d t)
  end.

(* std::io::read_until (library/std/src/io/mod.rs): [buf] is the Vec being
   extended; the returned count is the number of bytes appended. *)
Fixpoint read_until (fuel : nat) (d : Z) (r : reader) (buf : bytes) : io (bytes * reader) :=
  match fuel with
  | O => IoFuel
  | S f =>
      match fill_buf r with
      | (FbInt, r') => read_until f d r' buf                         (* continue *)
      | (FbErr k, _) => IoErr k
      | (FbBuf a, r') =>
          match memchr d a with
          | Some i => IoDone (buf ++ firstn (S i) a, consume (S i) r')
          | None =>
              let r'' := consume (length a) r' in
              match a with
              | [] => IoDone (buf, r'')                               (* used == 0 *)
              | _ :: _ => read_until f d r'' (buf ++ a)
              end
          end
      end
  end.

(* Read::read for a BufRead source: copy out of fill_buf, consume.  [read] and
   [read_exact] transcribe std; since the repair of D6 Decoder::read_line no
   longer calls read_exact (see [read_extra] below). *)
Inductive rd := RdOk (b : bytes) | RdInt | RdErr (k : io_kind).
Definition read (n : nat) (r : reader) : rd * reader :=
  match fill_buf r with
  | (FbBuf a, r') => let got := firstn n a in (RdOk got, consume (length got) r')
  | (FbInt, r') => (RdInt, r')
  | (FbErr k, r') => (RdErr k, r')
  end.

(* std::io::default_read_exact: [n] bytes still wanted, [acc] bytes obtained *)
Fixpoint read_exact (fuel : nat) (n : nat) (r : reader) (acc : bytes) : io (bytes * reader) :=
  match n with
  | O => IoDone (acc, r)
  | S _ =>
      match fuel with
      | O => IoFuel
      | S f =>
          match read n r with
          | (RdOk [], _) => IoErr UnexpectedEof                       (* Ok(0) => break; buf not empty *)
          | (RdOk got, r') => read_exact f (n - length got) r' (acc ++ got)
          | (RdInt, r') => read_exact f n r' acc
          | (RdErr k, _) => IoErr k
          end
      end
  end.

(* ---------- decoder.rs ---------- *)

(* std::io::Chain<Cursor<Vec<u8>>, R> (Decoder::inner since the repair of D4):
   [pending] is what is left of the cursor over the bytes read_bom took from
   the reader beyond the BOM, [second] the reader, [done_first] the flag of
   std's Chain. *)
Record chain := mkChain { pending : bytes; done_first : bool; second : reader }.

(* Chain::fill_buf:
     if !self.done_first {
         match self.first.fill_buf()? {
             buf if buf.is_empty() => self.done_first = true,
             buf => return Ok(buf) } }
     self.second.fill_buf()
   (Cursor::fill_buf returns the unread part of its vector and never fails) *)
Definition chain_fill_buf (c : chain) : fb * chain :=
  if done_first c then
    let '(x, r') := fill_buf (second c) in (x, mkChain (pending c) true r')
  else
    match pending c with
    | _ :: _ => (FbBuf (pending c), c)
    | [] => let '(x, r') := fill_buf (second c) in (x, mkChain [] true r')
    end.

(* Chain::consume: if !self.done_first { self.first.consume(amt) } else { self.second.consume(amt) } *)
Definition chain_consume (k : nat) (c : chain) : chain :=
  if done_first c then mkChain (pending c) true (consume k (second c))
  else mkChain (skipn k (pending c)) false (second c).

(* BufRead::read_until of the Cursor (std's default loop over fill_buf /
   consume of a source that never fails): up to and including the delimiter,
   or everything; returns (bytes appended, what is left) *)
Definition cursor_read_until (d : Z) (p : bytes) : bytes * bytes :=
  match memchr d p with
  | Some i => (firstn (S i) p, skipn (S i) p)
  | None => (p, [])
  end.

(* Chain::read_until (std overrides the default):
     let mut read = 0;
     if !self.done_first {
         let n = self.first.read_until(byte, buf)?;
         read += n;
         match buf.last() {
             Some(b) if *b == byte && n != 0 => return Ok(read),
             _ => self.done_first = true } }
     read += self.second.read_until(byte, buf)?;
     Ok(read) *)
Definition chain_read_until (fuel : nat) (d : Z) (c : chain) (buf : bytes) : io (bytes * chain) :=
  if done_first c then
    io_bind (read_until fuel d (second c) buf)
            (fun '(buf', r') => IoDone (buf', mkChain (pending c) true r'))
  else
    let '(got, lft) := cursor_read_until d (pending c) in
    let buf1 := buf ++ got in
    if (match last_opt buf1 with Some b => b =? d | None => false end) && negb (length got =? 0)%nat then
      IoDone (buf1, mkChain lft false (second c))
    else
      io_bind (read_until fuel d (second c) buf1)
              (fun '(buf', r') => IoDone (buf', mkChain lft true r')).

Record decoder := mkDecoder { inner : chain; read_buf : bytes; enc : encoding }.

(* the number of bytes read_bom collects before it looks for a BOM *)
Definition min_bom_len : nat := Z.to_nat read_bom_min_len.

(* the end of Decoder::read_bom:
     let (encoding, consumed) = Encoding::from_bom(&head);
     head.drain(..consumed);
     Ok((encoding, head)) *)
Definition bom_finish (head : bytes) (r : reader) : io (encoding * bytes * reader) :=
  let '(e, c) := from_bom head in IoDone (e, skipn c head, r).

(* Decoder::read_bom: up to three bytes are taken from the reader, over as
   many chunks as it takes:
     while head.len() < 3 {
         let available = match reader.fill_buf() {
             Ok(n) => n,
             Err(ref err) if err.kind() == ErrorKind::Interrupted => continue,
             Err(err) => return Err(err) };
         if available.is_empty() { break; }
         let len = available.len().min(3 - head.len());
         head.extend_from_slice(&available[..len]);
         reader.consume(len); } *)
Fixpoint read_bom (fuel : nat) (r : reader) (head : bytes) : io (encoding * bytes * reader) :=
  if (length head <? min_bom_len)%nat then
    match fuel with
    | O => IoFuel
    | S f =>
        match fill_buf r with
        | (FbInt, r') => read_bom f r' head
        | (FbErr k, _) => IoErr k
        | (FbBuf a, r') =>
            match a with
            | [] => bom_finish head r'
            | _ :: _ =>
                let len := Nat.min (length a) (min_bom_len - length head) in
                read_bom f (consume len r') (head ++ firstn len a)
            end
        end
    end
  else bom_finish head r.

(* Decoder::new: inner = Cursor::new(head).chain(inner) *)
Definition decoder_new (fuel : nat) (r : reader) : io decoder :=
  io_bind (read_bom fuel r []) (fun '(e, head, r') => IoDone (mkDecoder (mkChain head false r') [] e)).

Definition enc_is_le (e : encoding) : bool :=
  match e with Utf16LE => true | _ => false end.
Definition ends_with_lf (b : bytes) : bool :=
  match last_opt b with Some x => x =? LF | None => false end.

(* Decoder::curr_line *)
Definition curr_line (d : decoder) : io str :=
  io_bind (io_of_outcome (decode (enc d) (read_buf d))) (fun s => IoDone (trim_end s)).

(* the loop of Decoder::read_line that fetches the high byte of a UTF-16LE
   line feed ([buf] is read_buf):
     loop { match self.inner.fill_buf() {
         Ok(&[byte, ..]) => { self.read_buf.push(byte); self.inner.consume(1); break }
         Ok(_) => break,                  // the stream ended right after the b'\n'
         Err(ref err) if err.kind() == ErrorKind::Interrupted => {}
         Err(err) => return Err(err) } }
   An empty fill_buf is EOF: the line is kept without the extra byte. *)
Fixpoint read_extra (fuel : nat) (c : chain) (buf : bytes) : io (bytes * chain) :=
  match fuel with
  | O => IoFuel
  | S f =>
      match chain_fill_buf c with
      | (FbBuf (byte :: _), c') => IoDone (buf ++ [byte], chain_consume 1 c')
      | (FbBuf [], c') => IoDone (buf, c')
      | (FbInt, c') => read_extra f c' buf
      | (FbErr k, _) => IoErr k
      end
  end.

(* [high] of Decoder::read_line: the byte the extra-byte loop pushed onto
   read_buf (`break Some(byte)`), None when the stream had ended (`break None`);
   read off read_buf: the loop pushes that byte and nothing else *)
Definition pushed (before after : bytes) : option Z := nth_error after (length before).

Inductive flow := Break | Continue.

(* the body of the `while` of Decoder::read_line, entered when read_until has
   appended something and read_buf ends with b'\n' ([buf] is read_buf):
     let len = self.read_buf.len();
     match self.encoding {
         Encoding::Utf8 => break,
         Encoding::Utf16BE => { if len % 2 == 0 && self.read_buf[len - 2] == 0 { break; } }
         Encoding::Utf16LE if len % 2 == 0 => {}      // the b'\n' is the high byte of its unit
         Encoding::Utf16LE => {
             let high = loop { ... };                  // read_extra above
             if matches!(high, Some(0) | None) { break; } } }
   In UTF-16 a byte 0x0A ends the line only as a code unit of its own.  The
   index read_buf[len - 2] is a panic point of the model. *)
Definition line_step (fuel : nat) (e : encoding) (c : chain) (buf : bytes) : io (flow * bytes * chain) :=
  let len := length buf in
  match e with
  | Utf8 => IoDone (Break, buf, c)
  | Utf16BE =>
      if Nat.even len then
        match nth_error buf (len - 2) with
        | Some b => IoDone (if b =? 0 then Break else Continue, buf, c)
        | None => IoPanic 1
        end
      else IoDone (Continue, buf, c)
  | Utf16LE =>
      if Nat.even len then IoDone (Continue, buf, c)
      else
        io_bind (read_extra fuel c buf) (fun '(buf', c') =>
          IoDone (match pushed buf buf' with
                  | Some Z0 | None => Break
                  | Some _ => Continue
                  end, buf', c'))
  end.

(* the `while` of Decoder::read_line:
     while self.inner.read_until(b'\n', &mut self.read_buf)? > 0 && self.read_buf.ends_with(b"\n") { body }
   read_until appends to read_buf, so a line may be assembled from several
   calls; [n] bounds the iterations (every one that goes on has taken at least
   one byte from the reader), [fuel] the loops of read_until / read_extra *)
Fixpoint read_line_loop (n fuel : nat) (e : encoding) (c : chain) (buf : bytes) : io (bytes * chain) :=
  match n with
  | O => IoFuel
  | S m =>
      io_bind (chain_read_until fuel LF c buf) (fun '(buf1, c1) =>
        if (length buf <? length buf1)%nat && ends_with_lf buf1 then
          io_bind (line_step fuel e c1 buf1) (fun '(k, buf2, c2) =>
            match k with
            | Break => IoDone (buf2, c2)
            | Continue => read_line_loop m fuel e c2 buf2
            end)
        else IoDone (buf1, c1))
  end.

(* Decoder::read_line: read_buf.clear(); the loop; None if read_buf is empty *)
Definition read_line (fuel : nat) (d : decoder) : io (option str * decoder) :=
  io_bind (read_line_loop fuel fuel (enc d) (inner d) []) (fun '(buf, c) =>
    match buf with
    | [] => IoDone (None, mkDecoder c [] (enc d))
    | _ :: _ =>
        let d' := mkDecoder c buf (enc d) in
        io_bind (curr_line d') (fun l => IoDone (Some l, d'))
    end).

(* ---------- the way decode.rs consumes lines ---------- *)

(* parse_version, parse_first_section and parse_section call read_line until
   it yields None, returning every Err with `?`; the only other call is
   curr_line on the line just read.  Hence the lines seen by the section
   parsers are exactly this list, and an error anywhere aborts the decode. *)
Fixpoint lines_loop (n : nat) (fuel : nat) (d : decoder) : io (list str) :=
  match n with
  | O => IoFuel
  | S m =>
      io_bind (read_line fuel d) (fun '(o, d') =>
        match o with
        | None => IoDone []
        | Some l => io_bind (lines_loop m fuel d') (fun ls => IoDone (l :: ls))
        end)
  end.

(* a bound on every loop below: each iteration uses up a byte or an event *)
Definition msr (r : reader) : nat :=
  (length (buffered r) + length (rest r) + length (sched r))%nat.

Definition read_all_lines (r : reader) : io (list str) :=
  let fuel := S (S (msr r)) in
  io_bind (decoder_new fuel r) (fun d => lines_loop fuel fuel d).

(* ---------- schedule predicates ---------- *)

Definition is_fail (e : ev) : bool := match e with Fail _ => true | _ => false end.
Definition faultless (s : list ev) : Prop := forall k, ~ In (Fail k) s.
Definition faultlessb (s : list ev) : bool := negb (existsb is_fail s).

Fixpoint strip_interrupted (s : list ev) : list ev :=
  match s with
  | [] => []
  | Interrupted :: t => strip_interrupted t
  | e :: t => e :: strip_interrupted t
  end.

(* the hard failure the decoder is bound to run into: bytes are handed out
   chunk by chunk; a failure scheduled before the source has reported EOF *)
Fixpoint reaches_fail (n : nat) (s : list ev) : option io_kind :=
  match s with
  | [] => None
  | Interrupted :: t => reaches_fail n t
  | Fail k :: _ => Some k
  | Chunk c :: t => match n with O => None | S _ => reaches_fail (n - Pos.to_nat c) t end
  end.

(* ---------- schedule-free reference: what the bytes alone determine ---------- *)

Fixpoint split_line (d : Z) (l : bytes) : bytes * bytes :=
  match l with
  | [] => ([], [])
  | x :: t => if x =? d then ([x], t) else let '(a, b) := split_line d t in (x :: a, b)
  end.

(* UTF-16: the code unit U+000A, low byte first (LE) or high byte first (BE) *)
Definition is_lf_unit (le : bool) (x y : Z) : bool :=
  if le then (x =? LF) && (y =? 0) else (x =? 0) && (y =? LF).

(* a UTF-16 stream is cut behind the first code unit U+000A at a unit boundary.
   [st]: None at a unit boundary, Some x when x is the first byte of the current
   unit.  A byte 0x0A inside another unit (U+4E0A, U+0A41, U+010A, a surrogate),
   or at a misaligned position of a malformed stream, does not end the line; a
   lone last byte of a stream of odd length belongs to the last line. *)
Fixpoint scan16 (le : bool) (st : option Z) (b : bytes) : bytes * bytes :=
  match b with
  | [] => ([], [])
  | y :: t =>
      match st with
      | None => let '(a, r) := scan16 le (Some y) t in (y :: a, r)
      | Some x =>
          if is_lf_unit le x y then ([y], t)
          else let '(a, r) := scan16 le None t in (y :: a, r)
      end
  end.

Definition raw_split (e : encoding) (b : bytes) : bytes * bytes :=
  match e with
  | Utf8 => split_line LF b
  | Utf16LE => scan16 true None b
  | Utf16BE => scan16 false None b
  end.

(* the raw buffer of the next line and the unread remainder *)
Definition next_raw (e : encoding) (b : bytes) : option (bytes * bytes) :=
  let '(l, r) := raw_split e b in
  match l with
  | [] => None
  | _ :: _ => Some (l, r)
  end.

Fixpoint lines_pure (n : nat) (e : encoding) (b : bytes) : io (list str) :=
  match n with
  | O => IoFuel
  | S m =>
      match next_raw e b with
      | None => IoDone []
      | Some (l, r) =>
          io_bind (io_of_outcome (decode e l)) (fun s =>
            io_bind (lines_pure m e r) (fun ls => IoDone (trim_end s :: ls)))
      end
  end.

(* what the bytes alone determine: the BOM (if any) selects the encoding and is
   skipped, the rest is cut into lines *)
Definition decode_stream (b : bytes) : io (list str) :=
  let '(e, c) := from_bom b in lines_pure (S (length b)) e (skipn c b).

(* ---------- the writer (dual) and std's Write::write_all ---------- *)

(* One event = the result of one call of Write::write: [WAccept n] takes up to
   n bytes of what is offered (n >= 1; a short write when less than offered),
   [WZero] is Ok(0), [WInterrupted], [WFail k].  An exhausted schedule
   accepts everything. *)
Inductive wev := WAccept (n : positive) | WZero | WInterrupted | WFail (k : io_kind).

Record writer := mkWriter {
  wsched : list wev;
  flush_result : option io_kind;      (* what the final flush() returns *)
  accepted_rev : bytes;               (* everything taken so far, latest byte first *)
  calls : nat                         (* number of write() calls issued *)
}.

(* Write::write_all: retries on Interrupted and after short writes, Ok(0) is
   ErrorKind::WriteZero.  Every iteration issues one write() = one event, so
   the loop is structural in the schedule. *)
Fixpoint write_all_s (s : list wev) (buf : bytes) (acc : bytes) (n : nat)
  : io unit * (list wev * bytes * nat) :=
  match buf with
  | [] => (IoDone tt, (s, acc, n))
  | _ :: _ =>
      match s with
      | [] => (IoDone tt, ([], rev_append buf acc, S n))
      | WAccept c :: t =>
          write_all_s t (skipn (Pos.to_nat c) buf) (rev_append (firstn (Pos.to_nat c) buf) acc) (S n)
      | WZero :: t => (IoErr WriteZero, (t, acc, S n))
      | WInterrupted :: t => write_all_s t buf acc (S n)
      | WFail k :: t => (IoErr k, (t, acc, S n))
      end
  end.

Definition write_all (buf : bytes) (w : writer) : io unit * writer :=
  let '(res, (s, acc, n)) := write_all_s (wsched w) buf (accepted_rev w) (calls w) in
  (res, mkWriter s (flush_result w) acc n).

Definition accepted (w : writer) : bytes := rev (accepted_rev w).

Definition flush (w : writer) : io unit :=
  match flush_result w with None => IoDone tt | Some k => IoErr k end.

(* Beatmap::encode as seen by the writer: the chunks [ws] are handed to
   write_all in order (directly or through write_fmt, whose adapter stops at
   the first failed write_str), each followed by `?`; then flush(). *)
Fixpoint write_chunks (ws : list bytes) (w : writer) : io unit * writer :=
  match ws with
  | [] => (IoDone tt, w)
  | c :: t =>
      match write_all c w with
      | (IoDone _, w') => write_chunks t w'
      | (e, w') => (e, w')
      end
  end.

Definition encode_writes (ws : list bytes) (w : writer) : io unit * writer :=
  match write_chunks ws w with
  | (IoDone _, w') => (flush w', w')
  | (e, w') => (e, w')
  end.

(* ---------- canonical dumps ---------- *)

Definition kind_code (k : io_kind) : Z :=
  match k with
  | Other => 1 | UnexpectedEof => 2 | PermissionDenied => 3
  | TimedOut => 4 | WouldBlock => 5 | WriteZero => 6
  end.
Definition kind_of_code (z : Z) : io_kind :=
  if z =? 2 then UnexpectedEof else if z =? 3 then PermissionDenied
  else if z =? 4 then TimedOut else if z =? 5 then WouldBlock
  else if z =? 6 then WriteZero else Other.

(* io: 0 = Ok then payload; 1 kind = Err; 2 = panic; 3 = out of fuel *)
Definition dump_io {A} (d : A -> list Z) (x : io A) : list Z :=
  match x with
  | IoDone a => 0 :: d a
  | IoErr k => [1; kind_code k]
  | IoPanic w => [2; w]
  | IoFuel => [3]
  end.
Definition dump_lines (ls : list str) : list Z :=
  Z.of_nat (length ls) :: flat_map dump_str ls.

(* Encoding: mirrors /repo/src/reader/encoding.rs and u16_iter.rs, plus the
   std functions they rest on, transcribed from the installed std sources:
     core::str::validations::run_utf8_validation  (valid_up_to / error_len)
     core::char::decode::DecodeUtf16::next
   Bytes are integers 0..255 (list Z), text is a list of code points (str).
   Only definitions live here; the lemmas are in Proofs/EncodingFacts.v. *)
From RM Require Import Model.Text.
From RM Require Import Gen.Generated.

Definition byte := Z.
Definition bytes := list Z.

Definition REPL : Z := 65533.        (* char::REPLACEMENT_CHARACTER, U+FFFD *)
Definition LF : Z := 10.

(* ---------- Encoding and Encoding::from_bom ---------- *)

Inductive encoding := Utf8 | Utf16BE | Utf16LE.

(* discriminants of the Rust enum, as used by Gen.bom_table *)
Definition enc_index (e : encoding) : Z :=
  match e with Utf8 => 0 | Utf16BE => 1 | Utf16LE => 2 end.
Definition enc_of_index (z : Z) : encoding :=
  if z =? 1 then Utf16BE else if z =? 2 then Utf16LE else Utf8.

(* slice pattern [p0, p1, .., ..] *)
Fixpoint is_prefix (p b : bytes) : bool :=
  match p, b with
  | [], _ => true
  | x :: p', y :: b' => (x =? y) && is_prefix p' b'
  | _ :: _, [] => false
  end.

(* match arms in source order, first match wins; the table is regenerated
   from encoding.rs on every check *)
Fixpoint from_bom_tab (tab : list (list Z * Z * Z)) (b : bytes) : encoding * nat :=
  match tab with
  | [] => (Utf8, O)
  | (p, e, n) :: t => if is_prefix p b then (enc_of_index e, Z.to_nat n) else from_bom_tab t b
  end.
Definition from_bom (b : bytes) : encoding * nat := from_bom_tab bom_table b.

(* ---------- std: str::from_utf8 (run_utf8_validation) ---------- *)

(* core::str::validations::utf8_char_width (UTF8_CHAR_WIDTH table) *)
Definition utf8_char_width (b : Z) : Z :=
  if b <? 128 then 1 else if b <? 194 then 0 else if b <? 224 then 2
  else if b <? 240 then 3 else if b <? 245 then 4 else 0.

(* [x as i8 >= -64] is false: x is a continuation byte 0x80..0xBF *)
Definition is_cont (b : Z) : bool := (128 <=? b) && (b <=? 191).

Definition in_rng (lo hi b : Z) : bool := (lo <=? b) && (b <=? hi).

(* the (first, second) patterns of the 3- and 4-byte arms *)
Definition ok3 (first second : Z) : bool :=
  ((first =? 224) && in_rng 160 191 second)
  || (in_rng 225 236 first && in_rng 128 191 second)
  || ((first =? 237) && in_rng 128 159 second)
  || (in_rng 238 239 first && in_rng 128 191 second).
Definition ok4 (first second : Z) : bool :=
  ((first =? 240) && in_rng 144 191 second)
  || (in_rng 241 243 first && in_rng 128 191 second)
  || ((first =? 244) && in_rng 128 143 second).

(* Utf8Error { valid_up_to, error_len }; None = Ok(()).  [index] is the
   offset of [v] in the original slice.  next!() fails with error_len = None
   when the slice ends inside a sequence. *)
Definition utf8_error := (nat * option nat)%type.

Fixpoint run_utf8_validation (v : bytes) (index : nat) : option utf8_error :=
  match v with
  | [] => None
  | first :: r1 =>
      if first <? 128 then run_utf8_validation r1 (S index)
      else
        let w := utf8_char_width first in
        if w =? 2 then
          match r1 with
          | [] => Some (index, None)
          | b1 :: r2 =>
              if is_cont b1 then run_utf8_validation r2 (2 + index)%nat
              else Some (index, Some 1%nat)
          end
        else if w =? 3 then
          match r1 with
          | [] => Some (index, None)
          | b1 :: r2 =>
              if ok3 first b1 then
                match r2 with
                | [] => Some (index, None)
                | b2 :: r3 =>
                    if is_cont b2 then run_utf8_validation r3 (3 + index)%nat
                    else Some (index, Some 2%nat)
                end
              else Some (index, Some 1%nat)
          end
        else if w =? 4 then
          match r1 with
          | [] => Some (index, None)
          | b1 :: r2 =>
              if ok4 first b1 then
                match r2 with
                | [] => Some (index, None)
                | b2 :: r3 =>
                    if is_cont b2 then
                      match r3 with
                      | [] => Some (index, None)
                      | b3 :: r4 =>
                          if is_cont b3 then run_utf8_validation r4 (4 + index)%nat
                          else Some (index, Some 3%nat)
                      end
                    else Some (index, Some 2%nat)
                end
              else Some (index, Some 1%nat)
          end
        else Some (index, Some 1%nat)
  end.

Definition from_utf8 (v : bytes) : option utf8_error := run_utf8_validation v O.

(* the chars of a (valid) UTF-8 slice: what push_str / from_utf8_unchecked
   make of the bytes.  Total; on ill-formed input (never reached, T01d) it
   decodes by the lead byte and stops at a truncated sequence. *)
Fixpoint utf8_chars (v : bytes) : str :=
  match v with
  | [] => []
  | b0 :: r1 =>
      if b0 <? 128 then b0 :: utf8_chars r1
      else if b0 <? 224 then
        match r1 with
        | b1 :: r2 => ((b0 mod 32) * 64 + b1 mod 64) :: utf8_chars r2
        | _ => []
        end
      else if b0 <? 240 then
        match r1 with
        | b1 :: b2 :: r3 => (((b0 mod 16) * 64 + b1 mod 64) * 64 + b2 mod 64) :: utf8_chars r3
        | _ => []
        end
      else
        match r1 with
        | b1 :: b2 :: b3 :: r4 =>
            ((((b0 mod 8) * 64 + b1 mod 64) * 64 + b2 mod 64) * 64 + b3 mod 64) :: utf8_chars r4
        | _ => []
        end
  end.

(* ---------- Encoding::decode, UTF-8 arm: the lossy loop ---------- *)

(* loop { push valid prefix; push U+FFFD; skip error_len or return;
          re-validate; Ok => push rest, return; Err => continue }
   Every iteration drops at least one byte of [src]; fuel = S (length src). *)
Fixpoint lossy_loop (fuel : nat) (src : bytes) (err : utf8_error) (dst : str) : outcome str :=
  match fuel with
  | O => OutOfFuel
  | S f =>
      let '(valid_up_to, error_len) := err in
      let dst1 := dst ++ utf8_chars (firstn valid_up_to src) ++ [REPL] in
      match error_len with
      | None => Done dst1
      | Some el =>
          let src' := skipn (valid_up_to + el) src in
          match from_utf8 src' with
          | None => Done (dst1 ++ utf8_chars src')
          | Some e => lossy_loop f src' e dst1
          end
      end
  end.

Definition decode_utf8 (src : bytes) : outcome str :=
  match from_utf8 src with
  | None => Done (utf8_chars src)
  | Some err => lossy_loop (S (length src)) src err []
  end.

(* ---------- u16_iter.rs: DoubleByteIterator + from_le/be_bytes ---------- *)

Fixpoint u16_le (b : bytes) : list Z :=
  match b with
  | a :: c :: r => (a + 256 * c) :: u16_le r
  | _ => []                                  (* a trailing odd byte is dropped *)
  end.
Fixpoint u16_be (b : bytes) : list Z :=
  match b with
  | a :: c :: r => (256 * a + c) :: u16_be r
  | _ => []
  end.

(* ---------- std: char::decode_utf16(..).map(unwrap_or(REPLACEMENT)) ---------- *)

Definition is_surrogate (u : Z) : bool := (55296 <=? u) && (u <=? 57343).

(* DecodeUtf16::next; the [buf] slot (a non-low unit after a high surrogate is
   looked at again) is the recursive call on [r] instead of [r2] *)
Fixpoint decode_utf16 (us : list Z) : str :=
  match us with
  | [] => []
  | u :: r =>
      if negb (is_surrogate u) then u :: decode_utf16 r
      else if 56320 <=? u then REPL :: decode_utf16 r          (* lone trailing surrogate *)
      else
        match r with
        | [] => [REPL]                                        (* high surrogate at the end *)
        | u2 :: r2 =>
            if (u2 <? 56320) || (57343 <? u2) then REPL :: decode_utf16 r
            else (((u mod 1024) * 1024 + u2 mod 1024) + 65536) :: decode_utf16 r2
        end
  end.

(* ---------- Encoding::decode ---------- *)

Definition decode (e : encoding) (src : bytes) : outcome str :=
  match e with
  | Utf8 => decode_utf8 src
  | Utf16LE => Done (decode_utf16 (u16_le src))
  | Utf16BE => Done (decode_utf16 (u16_be src))
  end.

(* ---------- encoders (for theorem statements only; the crate has none) ---------- *)

Definition is_scalar (c : Z) : bool :=
  ((0 <=? c) && (c <? 55296)) || ((57344 <=? c) && (c <=? 1114111)).

Definition utf8_enc_char (c : Z) : bytes :=
  if c <? 128 then [c]
  else if c <? 2048 then [192 + c / 64; 128 + c mod 64]
  else if c <? 65536 then [224 + c / 4096; 128 + (c / 64) mod 64; 128 + c mod 64]
  else [240 + c / 262144; 128 + (c / 4096) mod 64; 128 + (c / 64) mod 64; 128 + c mod 64].
Definition utf8_enc (s : str) : bytes := flat_map utf8_enc_char s.

Definition utf16_units_char (c : Z) : list Z :=
  if c <? 65536 then [c]
  else [55296 + (c - 65536) / 1024; 56320 + (c - 65536) mod 1024].
Definition utf16_units (s : str) : list Z := flat_map utf16_units_char s.

Definition le_bytes (u : Z) : bytes := [u mod 256; u / 256].
Definition be_bytes (u : Z) : bytes := [u / 256; u mod 256].
Definition utf16le_enc (s : str) : bytes := flat_map le_bytes (utf16_units s).
Definition utf16be_enc (s : str) : bytes := flat_map be_bytes (utf16_units s).

Definition bom_utf8 : bytes := [239; 187; 191].
Definition bom_le : bytes := [255; 254].
Definition bom_be : bytes := [254; 255].

(* ---------- lossy_spec: U+FFFD per maximal invalid subpart ---------- *)

(* One-pass automaton over Unicode Table 3-7 (well-formed UTF-8 byte
   sequences).  [SNeed n lo hi acc]: inside a sequence, the next byte must lie
   in lo..hi, after it [n] more continuation bytes follow, [acc] = bits so
   far.  A byte that does not fit ends the maximal subpart: one U+FFFD, and
   the byte is looked at again from the start state. *)
Inductive lstate := SStart | SNeed (n : nat) (lo hi acc : Z).

Definition lossy_start (b : Z) : str * lstate :=
  if b <? 128 then ([b], SStart)
  else if in_rng 194 223 b then ([], SNeed 0 128 191 (b mod 32))
  else if b =? 224 then ([], SNeed 1 160 191 (b mod 16))
  else if in_rng 225 236 b then ([], SNeed 1 128 191 (b mod 16))
  else if b =? 237 then ([], SNeed 1 128 159 (b mod 16))
  else if in_rng 238 239 b then ([], SNeed 1 128 191 (b mod 16))
  else if b =? 240 then ([], SNeed 2 144 191 (b mod 8))
  else if in_rng 241 243 b then ([], SNeed 2 128 191 (b mod 8))
  else if b =? 244 then ([], SNeed 2 128 143 (b mod 8))
  else ([REPL], SStart).

Definition lossy_step (st : lstate) (b : Z) : str * lstate :=
  match st with
  | SStart => lossy_start b
  | SNeed n lo hi acc =>
      if in_rng lo hi b then
        let acc' := acc * 64 + b mod 64 in
        match n with
        | O => ([acc'], SStart)
        | S m => ([], SNeed m 128 191 acc')
        end
      else let '(o, st') := lossy_start b in (REPL :: o, st')
  end.

Fixpoint lossy_run (st : lstate) (v : bytes) : str :=
  match v with
  | [] => match st with SStart => [] | SNeed _ _ _ _ => [REPL] end
  | b :: r => let '(o, st') := lossy_step st b in o ++ lossy_run st' r
  end.

Definition lossy_spec (v : bytes) : str := lossy_run SStart v.

(* ---------- canonical dumps ---------- *)

Definition dump_str (s : str) : list Z := Z.of_nat (length s) :: s.
Definition dump_ostr (x : outcome str) : list Z :=
  match x with Done s => 0 :: dump_str s | Panic w => [1; w] | OutOfFuel => [2] end.
Definition dump_utf8_error (x : option utf8_error) : list Z :=
  match x with
  | None => [0]
  | Some (v, None) => [1; Z.of_nat v; 0]
  | Some (v, Some n) => [1; Z.of_nat v; Z.of_nat n]
  end.

(* Curve: section/hit_objects/slider/curve.rs and util/pos.rs, function by
   function.  Two levels (DESIGN C18):
     L0  mirrors the code with its scratch buffers (CurveBuffers, in-place
         bezier_subdivide with index writes, extend_exact, mem::take);
     L1  is the pure function of (mode, control points, expected length).
   The part of calculate_path / calculate_subpath that does not touch the
   Bezier scratch buffers is written once, parametric in the Bezier routine
   and its state type [B] (L0: BezierBuffers, L1: unit).
   libm (sin, cos, atan2 on f64, acosf on f32) is not modelled: it is a record
   of functions passed as an argument.
   Every f32 expression is transcribed in the source's association order; rustc
   never contracts to fused multiply-add. *)
From RM Require Export Model.Floats.
From RM Require Import Model.ControlPoints Gen.Generated.
Open Scope Z_scope.

(* ---------- external functions ---------- *)

Record Libm := mkLibm {
  l_sin : F64 -> F64;
  l_cos : F64 -> F64;
  l_atan2 : F64 -> F64 -> F64;     (* y.atan2(x) *)
  l_acosf : F32 -> F32 }.

(* ---------- loops without structural bound: binary fuel ----------
   [iterP p k s] performs at most [p] steps from [s] and continues with [k];
   a step either goes on (inl) or stops with a result (inr). *)
Section Iter.
  Context {St R : Type} (step : St -> St + outcome R).
  Fixpoint iterP (p : positive) (k : St -> outcome R) (s : St) : outcome R :=
    match p with
    | xH => match step s with inl s' => k s' | inr r => r end
    | xO q => iterP q (iterP q k) s
    | xI q => match step s with inl s' => iterP q (iterP q k) s' | inr r => r end
    end.
  Definition iter_fuel (p : positive) (s : St) : outcome R := iterP p (fun _ => OutOfFuel) s.
End Iter.

(* ---------- literals ---------- *)

Definition dec32 (d : bool * Z * Z) : F32 := let '(s, m, e) := d in S.of_decimal s m e.

Definition s2 : F32 := S.of_Z 2.
Definition s3 : F32 := S.of_Z 3.
Definition s4 : F32 := S.of_Z 4.
Definition s5 : F32 := S.of_Z 5.
Definition s_half : F32 := S.of_ZE 1 (-1) false.
Definition s_quarter : F32 := S.of_ZE 1 (-2) false.
(* std::f64::consts::PI = 0x400921FB54442D18 *)
Definition d_pi : F64 := D.of_bits 4614256656552045848.
Definition d_two_pi : F64 := D.mul (D.of_Z 2) d_pi.

Definition bezier_tolerance : F32 := dec32 bezier_tolerance_dec.
Definition circular_arc_tolerance : F32 := dec32 circular_arc_tolerance_dec.
Definition catmull_detail_f : F32 := S.of_Z catmull_detail.
Definition catmull_segment_len : Z := catmull_detail * 2.
Definition catmull_simplify_dist : F64 := dec64 catmull_simplify_dist_dec.
(* let limit = BEZIER_TOLERANCE * BEZIER_TOLERANCE * 4.0; *)
Definition bezier_limit : F32 := S.mul (S.mul bezier_tolerance bezier_tolerance) s4.

(* ---------- util/pos.rs ---------- *)

Record Pos := mkPos { px : F32; py : F32 }.
Definition pos0 : Pos := mkPos S.zero S.zero.                  (* Pos::default() *)

Definition padd (a b : Pos) : Pos := mkPos (S.add (px a) (px b)) (S.add (py a) (py b)).
Definition psub (a b : Pos) : Pos := mkPos (S.sub (px a) (px b)) (S.sub (py a) (py b)).
Definition pmul (a : Pos) (k : F32) : Pos := mkPos (S.mul (px a) k) (S.mul (py a) k).
Definition pdiv (a : Pos) (k : F32) : Pos := mkPos (S.div (px a) k) (S.div (py a) k).
Definition pdot (a b : Pos) : F32 := S.add (S.mul (px a) (px b)) (S.mul (py a) (py b)).
Definition plen_sq (a : Pos) : F32 := pdot a a.
(* f64::from(self.x * self.x + self.y * self.y).sqrt() as f32 *)
Definition plen (a : Pos) : F32 :=
  f32_of_f64 (D.sqrt (f64_of_f32 (S.add (S.mul (px a) (px a)) (S.mul (py a) (py a))))).
Definition pdist (a b : Pos) : F32 := plen (psub a b).
(* let scale = self.length().recip(); self.x *= scale; self.y *= scale *)
Definition pnormalize (a : Pos) : Pos :=
  let scale := S.div S.one (plen a) in mkPos (S.mul (px a) scale) (S.mul (py a) scale).
(* derived PartialEq: IEEE equality per field (NaN <> NaN, -0 = +0) *)
Definition peqb (a b : Pos) : bool := S.eq (px a) (px b) && S.eq (py a) (py b).

(* ---------- path_type.rs / path.rs ---------- *)

Inductive SplineType := Catmull | BSpline | Linear | PerfectCurve.
(* PathType.degree is never read by curve.rs; it is not part of the model *)
Record PathControlPoint := mkPCP { pc_pos : Pos; pc_type : option SplineType }.

(* ---------- indexing ---------- *)

Definition aget {A} (l : list A) (i : nat) : outcome A :=
  match nth_error l i with Some p => Done p | None => Panic 2 end.
Definition aset {A} (l : list A) (i : nat) (x : A) : outcome (list A) :=
  if Nat.ltb i (length l) then Done (replace_nth i x l) else Panic 2.

(* ================================================================== *)
(* Bezier                                                              *)
(* ================================================================== *)

(* bezier_is_flat_enough *)
Fixpoint flat_enough (pts : list Pos) : bool :=
  match pts with
  | prev :: ((curr :: next :: _) as t) =>
      if S.gt (plen_sq (padd (psub prev (pmul curr s2)) next)) bezier_limit then false
      else flat_enough t
  | _ => true
  end.

Definition avg2 (a b : Pos) : Pos := pdiv (padd a b) s2.

(* the emitted points of bezier_approximate after points[0]:
   chain.skip(1) zip chain.skip(2) zip chain.skip(3), step_by(2);
   [triples] is applied to chain.skip(1) *)
Definition tri (prev curr next : Pos) : Pos := pmul (padd (padd prev (pmul curr s2)) next) s_quarter.
Fixpoint triples (c : list Pos) : list Pos :=
  match c with
  | a :: b :: ((c0 :: _) as t) => tri a b c0 :: triples t
  | _ => []
  end.

(* ---- L1: de Casteljau, pure ---- *)

Fixpoint avg_step (m : list Pos) : list Pos :=
  match m with
  | a :: ((b :: _) as t) => avg2 a b :: avg_step t
  | _ => []
  end.

(* n = number of points of m; (left, right) control polygons *)
Fixpoint subdiv (n : nat) (m : list Pos) : list Pos * list Pos :=
  match n with
  | O => ([], [])
  | S k => let '(l, r) := subdiv k (avg_step m) in
           (hd pos0 m :: l, r ++ [last m pos0])
  end.

Definition bezier_approx_pts (points : list Pos) : list Pos :=
  let '(l, r) := subdiv (length points) points in
  hd pos0 points :: triples (tl (l ++ tl r)).

Definition bspline_step1 (st : list (list Pos) * list Pos)
  : (list (list Pos) * list Pos) + outcome (list Pos) :=
  match fst st with
  | [] => inr (Done (snd st))
  | parent :: rest =>
      match parent with
      | [] => inr (Panic 2)                    (* l[count - 1] with count = 0 *)
      | _ =>
          if flat_enough parent then inl (rest, snd st ++ bezier_approx_pts parent)
          else let '(l, r) := subdiv (length parent) parent in inl (l :: r :: rest, snd st)
      end
  end.

Definition approximate_bezier_L1 (fuel : positive) (path points : list Pos) (b : unit)
  : outcome (list Pos * unit) :=
  obind (iter_fuel bspline_step1 fuel ([points], path)) (fun path' =>
  match points with
  | [] => Panic 2
  | _ => Done (path' ++ [last points pos0], tt)
  end).

(* ---- L0: the code with its buffers ---- *)

Record BezierBuffers := mkBB {
  bb_left : list Pos; bb_right : list Pos; bb_mid : list Pos; bb_lchild : list Pos }.

Definition extend_exact (b : BezierBuffers) (len : nat) : BezierBuffers :=
  if Nat.leb len (length (bb_left b)) then b
  else
    let add := repeat pos0 (len - length (bb_left b)) in
    mkBB (bb_left b ++ add) (bb_right b ++ add) (bb_mid b ++ add) (bb_lchild b ++ add).

(* for j in 0..i { midpoints[j] = (midpoints[j] + midpoints[j + 1]) / 2.0 } *)
Fixpoint avg_loop (n : nat) (j : nat) (mid : list Pos) : outcome (list Pos) :=
  match n with
  | O => Done mid
  | S n' =>
      obind (aget mid j) (fun a =>
      obind (aget mid (S j)) (fun b =>
      obind (aset mid j (avg2 a b)) (fun mid' =>
      avg_loop n' (S j) mid')))
  end.

(* for i in (1..count).rev() { l[count-i-1] = mid[0]; r[i] = mid[i]; inner loop } *)
Fixpoint sub_loop (i : nat) (count : nat) (l r mid : list Pos)
  : outcome (list Pos * list Pos * list Pos) :=
  match i with
  | O => Done (l, r, mid)
  | S i' =>
      obind (aget mid 0) (fun m0 =>
      obind (aset l (count - i - 1) m0) (fun l' =>
      obind (aget mid i) (fun mi =>
      obind (aset r i mi) (fun r' =>
      obind (avg_loop i 0 mid) (fun mid' =>
      sub_loop i' count l' r' mid')))))
  end.

Definition bezier_subdivide_L0 (points l r mid : list Pos)
  : outcome (list Pos * list Pos * list Pos) :=
  let count := length points in
  (* midpoints[..count].copy_from_slice(&points[..count]) *)
  if Nat.ltb (length mid) count then Panic 2 else
  let mid0 := points ++ skipn count mid in
  obind (sub_loop (count - 1) count l r mid0) (fun '(l1, r1, mid1) =>
  match count with
  | O => Panic 2                               (* count - 1 *)
  | S c1 =>
      obind (aget mid1 0) (fun m0 =>
      obind (aset l1 c1 m0) (fun l2 =>
      obind (aset r1 0 m0) (fun r2 =>
      Done (l2, r2, mid1))))
  end).

Definition bezier_approximate_L0 (points path l r mid : list Pos)
  : outcome (list Pos * list Pos * list Pos * list Pos) :=
  let count := length points in
  obind (bezier_subdivide_L0 points l r mid) (fun '(l', r', mid') =>
  obind (aget points 0) (fun p0 =>
  (* &l[..count], &r[1..count] *)
  if Nat.ltb (length l') count || Nat.ltb (length r') count || Nat.ltb count 1 then Panic 2 else
  let chain := firstn count l' ++ skipn 1 (firstn count r') in
  Done (path ++ [p0] ++ triples (tl chain), l', r', mid'))).

Record BsState := mkBs {
  bs_stack : list (list Pos);       (* to_flatten, top first *)
  bs_free : list (list Pos);        (* free_bufs, top first *)
  bs_path : list Pos;
  bs_buf : BezierBuffers }.

Definition bspline_step0 (p : nat) (st : BsState)
  : BsState + outcome (list Pos * BezierBuffers) :=
  match bs_stack st with
  | [] => inr (Done (bs_path st, bs_buf st))
  | parent :: rest =>
      let b := bs_buf st in
      if flat_enough parent then
        match bezier_approximate_L0 parent (bs_path st) (bb_left b) (bb_right b) (bb_mid b) with
        | Done (path', l', r', m') =>
            inl (mkBs rest (parent :: bs_free st) path' (mkBB l' r' m' (bb_lchild b)))
        | Panic w => inr (Panic w)
        | OutOfFuel => inr OutOfFuel
        end
      else
        let '(rc, free') := match bs_free st with
                            | f :: fr => (f, fr)
                            | [] => (repeat pos0 p, [])
                            end in
        match bezier_subdivide_L0 parent (bb_lchild b) rc (bb_mid b) with
        | Done (lc', rc', m') =>
            (* parent.to_mut().copy_from_slice(&left_child[..p]) *)
            if Nat.leb p (length lc') && Nat.eqb (length parent) p then
              inl (mkBs (firstn p lc' :: rc' :: rest) free' (bs_path st)
                        (mkBB (bb_left b) (bb_right b) m' lc'))
            else inr (Panic 4)
        | Panic w => inr (Panic w)
        | OutOfFuel => inr OutOfFuel
        end
  end.

Definition approximate_bspline_L0 (fuel : positive) (path points : list Pos) (b : BezierBuffers)
  : outcome (list Pos * BezierBuffers) :=
  let p := length points in
  obind (iter_fuel (bspline_step0 p) fuel (mkBs [points] [] path b)) (fun '(path', b') =>
  match p with
  | O => Panic 2
  | S p1 => obind (aget points p1) (fun x => Done (path' ++ [x], b'))
  end).

Definition approximate_bezier_L0 (fuel : positive) (path points : list Pos) (b : BezierBuffers)
  : outcome (list Pos * BezierBuffers) :=
  approximate_bspline_L0 fuel path points (extend_exact b (length points)).

(* ================================================================== *)
(* Catmull                                                             *)
(* ================================================================== *)

(* The coefficient and evaluation formulas are written once over a record of
   scalar operations and read twice: with the IEEE binary32 operations (the
   executable model, below) and with real arithmetic (Proofs/CatmullFacts). *)
Record Ops (T : Type) := mkOps {
  o_add : T -> T -> T; o_sub : T -> T -> T; o_mul : T -> T -> T; o_neg : T -> T;
  o_of_Z : Z -> T; o_half : T }.
Arguments o_add {T} _. Arguments o_sub {T} _. Arguments o_mul {T} _. Arguments o_neg {T} _.
Arguments o_of_Z {T} _. Arguments o_half {T} _.

Definition catmull_coord_g {T} (o : Ops T) (v1 v2 v3 v4 : T) : T * T * T * T :=
  let x1 := o_mul o (o_of_Z o 2) v2 in
  let x2 := o_add o (o_neg o v1) v3 in
  let x3 := o_sub o (o_add o (o_sub o (o_mul o (o_of_Z o 2) v1) (o_mul o (o_of_Z o 5) v2))
                           (o_mul o (o_of_Z o 4) v3)) v4 in
  let x4 := o_add o (o_add o (o_neg o v1) (o_mul o (o_of_Z o 3) (o_sub o v2 v3))) v4 in
  (x1, x2, x3, x4).

(* 0.5 * (x1 + x2 * t1 + x3 * t2 + x4 * t3) *)
Definition catmull_eval_g {T} (o : Ops T) (k : T * T * T * T) (t1 : T) : T :=
  let '(x1, x2, x3, x4) := k in
  let t2 := o_mul o t1 t1 in
  let t3 := o_mul o t2 t1 in
  o_mul o (o_half o) (o_add o (o_add o (o_add o x1 (o_mul o x2 t1)) (o_mul o x3 t2)) (o_mul o x4 t3)).

Definition f32_ops : Ops F32 := mkOps F32 S.add S.sub S.mul S.neg S.of_Z s_half.

Definition catmull_coord : F32 -> F32 -> F32 -> F32 -> F32 * F32 * F32 * F32 := catmull_coord_g f32_ops.
Definition catmull_eval : F32 * F32 * F32 * F32 -> F32 -> F32 := catmull_eval_g f32_ops.

Definition catmull_subpath (v1 v2 v3 v4 : Pos) : list Pos :=
  let kx := catmull_coord (px v1) (px v2) (px v3) (px v4) in
  let ky := catmull_coord (py v1) (py v2) (py v3) (py v4) in
  flat_map (fun c : nat =>
    let cf := S.of_Z (Z.of_nat c) in
    let ta := S.div cf catmull_detail_f in
    let tb := S.div (S.add cf S.one) catmull_detail_f in
    [mkPos (catmull_eval kx ta) (catmull_eval ky ta);
     mkPos (catmull_eval kx tb) (catmull_eval ky tb)])
  (seq 0 (Z.to_nat catmull_detail)).

(* the iterations after the first: (v1, v2) = (points[i-2], points[i-1]),
   v3 = points[i], v4 = points.get(i+1) or v3 * 2 - v2 *)
Fixpoint catmull_rest (pts : list Pos) : list Pos :=
  match pts with
  | v1 :: ((v2 :: v3 :: r) as t) =>
      let v4 := match r with v4 :: _ => v4 | [] => psub (pmul v3 s2) v2 end in
      catmull_subpath v1 v2 v3 v4 ++ catmull_rest t
  | _ => []
  end.

Definition approximate_catmull (points : list Pos) : outcome (list Pos) :=
  match points with
  | [] => Panic 2                               (* points.len() - 1 *)
  | [_] => Done []
  | p0 :: p1 :: r =>
      let v4 := match r with v4 :: _ => v4 | [] => psub (pmul p1 s2) p0 end in
      Done (catmull_subpath p0 p0 p1 v4 ++ catmull_rest points)
  end.

(* the osu!-mode simplification loop of calculate_subpath.
   i = index of the head of l in sub_path, n = sub_path.len(),
   prev = sub_path[i-1].
   Written once over a point type, a scalar type, the distance between two
   points, addition, subtraction, zero and the "farther than 6 px" test; the
   model is the IEEE instance below, Proofs/SimplifyExact reads it over R. *)
Section Simplify.
  Context {P T : Type}.
  Variables (dist_g : P -> P -> T) (add_g sub_g : T -> T -> T) (zero_g : T) (far_g : T -> bool).
  Fixpoint simplify_loop_g (l : list P) (i n : Z) (prev : P) (last_start : option P)
      (removed : T) (acc : list P) (opt : T) : list P * T :=
    match l with
    | [] => (acc, opt)
    | curr :: t =>
        match last_start with
        | None => simplify_loop_g t (i + 1) n curr (Some curr) removed (acc ++ [curr]) opt
        | Some ls =>
            let dist_from_start := dist_g ls curr in
            let removed' := add_g removed (dist_g prev curr) in
            if far_g dist_from_start
               || ((i + 1) mod catmull_segment_len =? 0)
               || (i =? n - 1)
            then simplify_loop_g t (i + 1) n curr None zero_g (acc ++ [curr])
                                 (add_g opt (sub_g removed' dist_from_start))
            else simplify_loop_g t (i + 1) n curr (Some ls) removed' acc opt
        end
    end.
End Simplify.

(* f64::from(a.distance(b)); dist_from_start > 6.0 *)
Definition simplify_loop : list Pos -> Z -> Z -> Pos -> option Pos -> F64 -> list Pos -> F64 -> list Pos * F64 :=
  simplify_loop_g (fun a b => f64_of_f32 (pdist a b)) D.add D.sub D.zero
                  (fun x => D.gt x catmull_simplify_dist).

Definition catmull_simplify (sub_path : list Pos) (opt : F64) : list Pos * F64 :=
  simplify_loop sub_path 0 (Z.of_nat (length sub_path)) pos0 None D.zero [] opt.

(* ================================================================== *)
(* Circular arc                                                        *)
(* ================================================================== *)

Record ArcProps := mkArc {
  a_theta_start : F64; a_theta_range : F64; a_direction : F64; a_radius : F32; a_centre : Pos }.

Definition theta_fuel : positive := 64.
(* while theta_end < theta_start { theta_end += 2.0 * PI } *)
Definition theta_loop (theta_start theta_end : F64) : outcome F64 :=
  iter_fuel (fun te : F64 => if D.lt te theta_start then inl (D.add te d_two_pi) else inr (Done te))
            theta_fuel theta_end.

(* the circum-centre (Cartesian formula of the source), written once over
   abstract field operations: the model uses the IEEE binary32 instance,
   Proofs/ArcExact reads it over the reals.
     d = 2 * (a.x * (b - c).y + b.x * (c - a).y + c.x * (a - b).y)
     x = (a_sq * (b - c).y + b_sq * (c - a).y + c_sq * (a - b).y) / d
     y = (a_sq * (c - b).x + b_sq * (a - c).x + c_sq * (b - a).x) / d *)
Definition arc_centre_g {T} (add sub mul div : T -> T -> T) (two : T) (ax ay bx by_ cx cy : T) : T * T :=
  let d := mul two (add (add (mul ax (sub by_ cy)) (mul bx (sub cy ay))) (mul cx (sub ay by_))) in
  let a_sq := add (mul ax ax) (mul ay ay) in
  let b_sq := add (mul bx bx) (mul by_ by_) in
  let c_sq := add (mul cx cx) (mul cy cy) in
  (div (add (add (mul a_sq (sub by_ cy)) (mul b_sq (sub cy ay))) (mul c_sq (sub ay by_))) d,
   div (add (add (mul a_sq (sub cx bx)) (mul b_sq (sub ax cx))) (mul c_sq (sub bx ax))) d).

Definition circular_arc_properties (lm : Libm) (a b c : Pos) : outcome (option ArcProps) :=
  if S.le (S.abs (S.sub (S.mul (S.sub (py b) (py a)) (S.sub (px c) (px a)))
                        (S.mul (S.sub (px b) (px a)) (S.sub (py c) (py a))))) S.eps
  then Done None
  else
    let '(ccx, ccy) := arc_centre_g S.add S.sub S.mul S.div s2 (px a) (py a) (px b) (py b) (px c) (py c) in
    let centre := mkPos ccx ccy in
    let d_a := psub a centre in
    let d_c := psub c centre in
    let radius := plen d_a in
    let theta_start := l_atan2 lm (f64_of_f32 (py d_a)) (f64_of_f32 (px d_a)) in
    let theta_end0 := l_atan2 lm (f64_of_f32 (py d_c)) (f64_of_f32 (px d_c)) in
    obind (theta_loop theta_start theta_end0) (fun theta_end =>
    let theta_range := D.sub theta_end theta_start in
    let ac := psub c a in
    let ortho := mkPos (py ac) (S.neg (px ac)) in
    if S.lt (pdot ortho (psub b a)) S.zero
    then Done (Some (mkArc theta_start (D.sub d_two_pi theta_range) (D.neg D.one) radius centre))
    else Done (Some (mkArc theta_start theta_range D.one radius centre))).

Definition arc_sub_points (lm : Libm) (pr : ArcProps) : Z :=
  if S.le (S.mul s2 (a_radius pr)) circular_arc_tolerance then 2
  else
    let divisor := S.mul s2 (l_acosf lm (S.sub S.one (S.div circular_arc_tolerance (a_radius pr)))) in
    if S.le (S.abs divisor) S.eps then 2
    else Z.max (f64_as_usize (D.ceil (D.div (a_theta_range pr) (f64_of_f32 divisor)))) 2.

Definition arc_point (lm : Libm) (pr : ArcProps) (divisor directed_range : F64) (i : nat) : Pos :=
  let fract := D.div (D.of_Z (Z.of_nat i)) divisor in
  let theta := D.add (a_theta_start pr) (D.mul fract directed_range) in
  let origin := mkPos (f32_of_f64 (l_cos lm theta)) (f32_of_f64 (l_sin lm theta)) in
  padd (a_centre pr) (pmul origin (a_radius pr)).

(* None = "return false" (fall back to Bezier) *)
Definition approximate_circular_arc (lm : Libm) (a b c : Pos) : outcome (option (list Pos)) :=
  obind (circular_arc_properties lm a b c) (fun o =>
  match o with
  | None => Done None
  | Some pr =>
      let sub_points := arc_sub_points lm pr in
      if arc_subpoint_cap <=? sub_points then Done None
      else
        let divisor := D.of_Z (sub_points - 1) in
        let directed_range := D.mul (a_direction pr) (a_theta_range pr) in
        Done (Some (map (arc_point lm pr divisor directed_range) (seq 0 (Z.to_nat sub_points))))
  end).

(* ================================================================== *)
(* calculate_subpath / calculate_path, parametric in the Bezier routine *)
(* ================================================================== *)

Definition pop {A} (l : list A) : list A := removelast l.
Definition rotate_left1 {A} (l : list A) : list A :=
  match l with [] => [] | x :: t => t ++ [x] end.

Section CalcPath.
  Context {B : Type}.
  Variable bezier : list Pos -> list Pos -> B -> outcome (list Pos * B).  (* path points bufs *)
  Variable lm : Libm.

  Definition bez3 (path sub : list Pos) (opt : F64) (b : B) : outcome (list Pos * F64 * B) :=
    obind (bezier path sub b) (fun '(path', b') => Done (path', opt, b')).

  Definition calculate_subpath (osu : bool) (path sub : list Pos) (kind : SplineType)
      (opt : F64) (b : B) : outcome (list Pos * F64 * B) :=
    match kind with
    | Linear => Done (path ++ sub, opt, b)
    | PerfectCurve =>
        match sub with
        | [a; m; c] =>
            obind (approximate_circular_arc lm a m c) (fun o =>
            match o with
            | Some arc => Done (path ++ arc, opt, b)
            | None => bez3 path sub opt b
            end)
        | _ => bez3 path sub opt b
        end
    | Catmull =>
        obind (approximate_catmull sub) (fun cat =>
        if negb osu then Done (path ++ cat, opt, b)
        else let '(kept, opt') := catmull_simplify cat opt in Done (path ++ kept, opt', b))
    | BSpline => bez3 path sub opt b
    end.

  (* skip_first: path_len.checked_sub(1).zip(path.get(path_len))
                  .map_or(false, |(idx, first)| &path[idx] == first) *)
  Definition skip_first (path : list Pos) (path_len : nat) : bool :=
    match path_len with
    | O => false
    | S idx =>
        match nth_error path path_len, nth_error path idx with
        | Some first, Some prev => peqb prev first
        | _, _ => false
        end
    end.

  (* path[path_len..].rotate_left(1); path.pop() *)
  Definition drop_joint (path : list Pos) (path_len : nat) : list Pos :=
    pop (firstn path_len path ++ rotate_left1 (skipn path_len path)).

  (* the body of `for i in 0..points.len()`; k = iterations left, n = points.len() *)
  Fixpoint cpath_loop (k : nat) (i start n : nat) (osu : bool) (pts : list PathControlPoint)
      (verts path : list Pos) (opt : F64) (b : B) : outcome (list Pos * F64 * B) :=
    match k with
    | O => Done (path, opt, b)
    | S k' =>
        obind (aget pts i) (fun cp =>
        if (match pc_type cp with None => true | Some _ => false end) && Nat.ltb i (n - 1)
        then cpath_loop k' (S i) start n osu pts verts path opt b
        else
          (* &vertices[start..=i] *)
          if Nat.ltb i start || Nat.leb (length verts) i then Panic 2 else
          let seg := firstn (S i - start) (skipn start verts) in
          match seg with
          | [] => Panic 5                                       (* unreachable!() *)
          | [v] => cpath_loop k' (S i) i n osu pts verts (path ++ [v]) opt b
          | _ =>
              obind (aget pts start) (fun cps =>
              let kind := match pc_type cps with None => Linear | Some t => t end in
              let path_len := length path in
              obind (calculate_subpath osu path seg kind opt b) (fun '(path', opt', b') =>
              let path'' := if skip_first path' path_len then drop_joint path' path_len else path' in
              cpath_loop k' (S i) i n osu pts verts path'' opt' b'))
          end)
    end.
End CalcPath.

(* ================================================================== *)
(* calculate_length (the lengths buffer is cleared first: a function of *)
(* the path)                                                           *)
(* ================================================================== *)

(* the lengths pushed after the initial 0.0, and the final calculated_len *)
Fixpoint cum_lengths (acc : F64) (path : list Pos) : list F64 * F64 :=
  match path with
  | curr :: ((next :: _) as t) =>
      let acc' := D.add acc (f64_of_f32 (plen (psub next curr))) in
      let '(l, fin) := cum_lengths acc' t in (acc' :: l, fin)
  | _ => ([], acc)
  end.

(* matches!(path, [.., a, b] if a == b) *)
Definition last_two_equal (path : list Pos) : bool :=
  match rev path with b :: a :: _ => peqb a b | _ => false end.

(* iter().rev().position(|l| *l < expected).map_or(0, |idx| len - idx):
   one past the index of the last element below expected, 0 if there is none *)
Fixpoint last_valid (l : list F64) (expected : F64) : nat :=
  match l with
  | [] => O
  | x :: t => match last_valid t expected with
              | O => if D.lt x expected then 1%nat else O
              | S k => S (S k)
              end
  end.

Definition calculate_length (path : list Pos) (expected : option F64) (opt : F64)
  : outcome (list Pos * list F64) :=
  let '(rest, calculated) := cum_lengths opt path in
  let cum := D.zero :: rest in
  match expected with
  | None => Done (path, cum)
  | Some e =>
      (* expected_len.filter(|&len| (calculated_len - len).abs() > 0.0): a requested
         length is ignored only when it does not differ from the calculated one
         (difference +-0.0, or NaN: NaN > 0.0 is false) *)
      if negb (D.gt (D.abs (D.sub calculated e)) D.zero) then Done (path, cum)
      else if last_two_equal path && D.gt e calculated then Done (path, cum ++ [calculated])
      else if Nat.eqb (length cum) 1 then Done (path, cum)
      else
        let cum1 := pop cum in
        let lv := last_valid cum1 e in
        let trunc := Nat.ltb lv (length cum1) in
        let cum2 := if trunc then firstn lv cum1 else cum1 in
        let path2 := if trunc then firstn (S lv) path else path in
        match cum2 with
        | [] => if trunc then Done (path2, [D.zero]) else Panic 2
        | _ =>
            let end_idx := length cum2 in
            let prev_idx := (end_idx - 1)%nat in
            obind (aget path2 end_idx) (fun pe =>
            obind (aget path2 prev_idx) (fun pp =>
            obind (aget cum2 prev_idx) (fun lp =>
            let dir := pnormalize (psub pe pp) in
            obind (aset path2 end_idx (padd pp (pmul dir (f32_of_f64 (D.sub e lp))))) (fun path3 =>
            Done (path3, cum2 ++ [e])))))
        end
  end.

(* ================================================================== *)
(* Curve::new / BorrowedCurve::new                                     *)
(* ================================================================== *)

Record CurveBuffers := mkCB {
  cb_path : list Pos; cb_lengths : list F64; cb_vertices : list Pos; cb_bezier : BezierBuffers }.
Definition bufs_default : CurveBuffers := mkCB [] [] [] (mkBB [] [] [] []).

Record Curve := mkCurve { c_path : list Pos; c_lengths : list F64 }.

(* generous: measured on 3300 random Bezier segments with 2..12 control points and
   coordinates within +-131072 (MAX_COORDINATE_VALUE), the loop runs at most
   ~2^12 iterations; the harness cases stay below 2^13 *)
Definition bezier_fuel : positive := 1048576.

Definition is_osu (mode : Z) : bool := mode =? 0.          (* GameMode::Osu = 0 *)

Section WithLibm.
  Variable lm : Libm.
  Variable fuel : positive.

  (* calculate_path: path.clear(); *optimized_len = 0.0; then the early return on
     empty points (the vertices buffer is left as it was) *)
  Definition calculate_path_L0 (mode : Z) (pts : list PathControlPoint) (bufs : CurveBuffers)
      (opt : F64) : outcome (CurveBuffers * F64) :=
    match pts with
    | [] => Done (mkCB [] (cb_lengths bufs) (cb_vertices bufs) (cb_bezier bufs), D.zero)
    | _ =>
        let verts := map pc_pos pts in
        obind (cpath_loop (approximate_bezier_L0 fuel) lm (length pts) 0 0 (length pts)
                          (is_osu mode) pts verts [] D.zero (cb_bezier bufs))
              (fun '(path, opt', bz) => Done (mkCB path (cb_lengths bufs) verts bz, opt'))
    end.

  Definition calculate_length_L0 (bufs : CurveBuffers) (expected : option F64) (opt : F64)
    : outcome CurveBuffers :=
    obind (calculate_length (cb_path bufs) expected opt) (fun '(path, lens) =>
    Done (mkCB path lens (cb_vertices bufs) (cb_bezier bufs))).

  Definition compute_L0 (mode : Z) (pts : list PathControlPoint) (expected : option F64)
      (bufs : CurveBuffers) : outcome CurveBuffers :=
    obind (calculate_path_L0 mode pts bufs D.zero) (fun '(bufs1, opt) =>
    calculate_length_L0 bufs1 expected opt).

  (* Curve::new: mem::take of path and lengths *)
  Definition curve_new_L0 (mode : Z) (pts : list PathControlPoint) (expected : option F64)
      (bufs : CurveBuffers) : outcome (Curve * CurveBuffers) :=
    obind (compute_L0 mode pts expected bufs) (fun b =>
    Done (mkCurve (cb_path b) (cb_lengths b), mkCB [] [] (cb_vertices b) (cb_bezier b))).

  (* BorrowedCurve::new: a view of the buffers, which keep the data *)
  Definition borrowed_new_L0 (mode : Z) (pts : list PathControlPoint) (expected : option F64)
      (bufs : CurveBuffers) : outcome (Curve * CurveBuffers) :=
    obind (compute_L0 mode pts expected bufs) (fun b =>
    Done (mkCurve (cb_path b) (cb_lengths b), b)).

  (* L1: the pure curve *)
  Definition calculate_path_L1 (mode : Z) (pts : list PathControlPoint)
    : outcome (list Pos * F64) :=
    match pts with
    | [] => Done ([], D.zero)
    | _ =>
        obind (cpath_loop (approximate_bezier_L1 fuel) lm (length pts) 0 0 (length pts)
                          (is_osu mode) pts (map pc_pos pts) [] D.zero tt)
              (fun '(path, opt, _) => Done (path, opt))
    end.

  Definition curve_L1 (mode : Z) (pts : list PathControlPoint) (expected : option F64)
    : outcome Curve :=
    obind (calculate_path_L1 mode pts) (fun '(path, opt) =>
    obind (calculate_length path expected opt) (fun '(path', lens) =>
    Done (mkCurve path' lens))).
End WithLibm.

(* ================================================================== *)
(* position_at & friends                                               *)
(* ================================================================== *)

Definition dist (lengths : list F64) : F64 :=
  match last_opt lengths with Some x => x | None => D.zero end.

Definition progress_to_dist (lengths : list F64) (progress : F64) : F64 :=
  D.mul (D.clamp progress D.zero D.one) (dist lengths).

(* len.partial_cmp(&d).unwrap_or(Ordering::Equal) *)
Definition cmp_or_equal (d len : F64) : comparison :=
  if D.lt len d then Lt else if D.gt len d then Gt else Eq.

Definition idx_of_dist (lengths : list F64) (d : F64) : nat :=
  match bsearch_by (cmp_or_equal d) lengths with inl i => i | inr i => i end.

Definition interpolate_vertices (path : list Pos) (lengths : list F64) (i : nat) (d : F64)
  : outcome Pos :=
  match path with
  | [] => Done pos0
  | first :: _ =>
      match i with
      | O => Done first
      | S i1 =>
          match nth_error path i with
          | None => Done (last path pos0)
          | Some p1 =>
              obind (aget path i1) (fun p0 =>
              obind (aget lengths i1) (fun d0 =>
              obind (aget lengths i) (fun d1 =>
              if D.le (D.abs (D.sub d0 d1)) D.eps then Done p0
              else
                let w := D.div (D.sub d d0) (D.sub d1 d0) in
                Done (padd p0 (pmul (psub p1 p0) (f32_of_f64 w))))))
          end
      end
  end.

Definition position_at (path : list Pos) (lengths : list F64) (progress : F64) : outcome Pos :=
  let d := progress_to_dist lengths progress in
  let i := idx_of_dist lengths d in
  interpolate_vertices path lengths i d.

(* ================================================================== *)
(* dumps                                                               *)
(* ================================================================== *)

Definition dump_pos (p : Pos) : list Z := [S.bits (px p); S.bits (py p)].
Definition dump_f64 (x : F64) : list Z := [D.bits x].
Definition dump_curve (c : Curve) : list Z :=
  dump_list dump_pos (c_path c) ++ dump_list dump_f64 (c_lengths c).
(* outcome without the panic code: 0 payload | 1 | 2 *)
Definition dump_out {A} (d : A -> list Z) (x : outcome A) : list Z :=
  match x with Done a => 0 :: d a | Panic _ => [1] | OutOfFuel => [2] end.

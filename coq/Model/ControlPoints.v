(* ControlPoints: section/timing_points/decode.rs (ControlPoints, the
   ControlPoint trait impls) and control_points/*.rs. *)
From RM Require Export Model.Floats.
From RM Require Import Gen.Generated.

(* ---------- std: <[T]>::binary_search_by, transcribed ---------- *)

(* the `while size > 1` loop; returns the final [base].  [fuel] bounds the
   iteration count; [length l] always suffices (Proofs/ControlPointsFacts). *)
Fixpoint bs_loop {P} (fuel : nat) (f : P -> comparison) (l : list P) (base size : nat) : nat :=
  match fuel with
  | O => base
  | S k =>
      if Nat.leb size 1 then base
      else
        let half := Nat.div size 2 in
        let mid := (base + half)%nat in
        let base' := match nth_error l mid with
                     | Some p => match f p with Gt => base | _ => mid end
                     | None => base            (* unreachable: mid < len *)
                     end in
        bs_loop k f l base' (size - half)%nat
  end.

(* Ok i = inl i, Err i = inr i *)
Definition bsearch_by {P} (f : P -> comparison) (l : list P) : nat + nat :=
  match l with
  | [] => inr O
  | _ =>
      let base := bs_loop (length l) f l O (length l) in
      match nth_error l base with
      | Some p => match f p with
                  | Eq => inl base
                  | Lt => inr (S base)
                  | Gt => inr base
                  end
      | None => inr base                        (* unreachable: base < len *)
      end
  end.

(* ---------- the four point types ---------- *)

Record TimingPoint := mkTP { tp_time : F64; tp_beat_len : F64; tp_omit : bool; tp_sig : Z }.
Record DifficultyPoint := mkDP { dp_time : F64; dp_sv : F64; dp_ticks : bool }.
Record EffectPoint := mkEP { ep_time : F64; ep_kiai : bool; ep_scroll : F64 }.
(* sample bank: index into the SampleBank enum (None, Normal, Soft, Drum) *)
Record SamplePoint := mkSP { sp_time : F64; sp_bank : Z; sp_vol : Z; sp_custom : Z }.

Definition dflt_dp : DifficultyPoint := mkDP D.zero D.one true.
Definition dflt_ep : EffectPoint := mkEP D.zero false D.one.
Definition dflt_sp : SamplePoint := mkSP D.zero 1 100 0.

Definition near (a b : F64) : bool := D.lt (D.abs (D.sub a b)) D.eps.

Definition dp_redundant (p e : DifficultyPoint) : bool :=
  Bool.eqb (dp_ticks p) (dp_ticks e) && near (dp_sv p) (dp_sv e).
Definition ep_redundant (p e : EffectPoint) : bool :=
  Bool.eqb (ep_kiai p) (ep_kiai e) && near (ep_scroll p) (ep_scroll e).
Definition sp_redundant (p e : SamplePoint) : bool :=
  (sp_bank p =? sp_bank e) && (sp_vol p =? sp_vol e) && (sp_custom p =? sp_custom e).

Record ControlPoints := mkCP {
  cp_timing : list TimingPoint;
  cp_difficulty : list DifficultyPoint;
  cp_effect : list EffectPoint;
  cp_sample : list SamplePoint }.

Definition cp_empty : ControlPoints := mkCP [] [] [] [].

(* ---------- generic collection operations ---------- *)

Section Coll.
  Context {P : Type} (time : P -> F64).

  Definition probe (t : F64) (p : P) : comparison := D.total_cmp (time p) t.
  Definition search (l : list P) (t : F64) : nat + nat := bsearch_by (probe t) l.

  (* l[i] : panics when out of bounds *)
  Definition idx (l : list P) (i : nat) : outcome P :=
    match nth_error l i with Some p => Done p | None => Panic 2 end.

  (* .map_or_else(|i| i.checked_sub(1), Some).map(|i| &l[i]) *)
  Definition at_opt (l : list P) (t : F64) : outcome (option P) :=
    match search l t with
    | inl i => obind (idx l i) (fun p => Done (Some p))
    | inr O => Done None
    | inr (S j) => obind (idx l j) (fun p => Done (Some p))
    end.

  (* .unwrap_or_else(|i| i.saturating_sub(1)); l.get(i) *)
  Definition at_first (l : list P) (t : F64) : option P :=
    match search l t with
    | inl i => nth_error l i
    | inr i => nth_error l (Nat.pred i)
    end.

  (* Err(i) => insert(i, p) ; Ok(i) => l[i] = p *)
  Definition put (l : list P) (p : P) : outcome (list P) :=
    match search l (time p) with
    | inr i => if Nat.leb i (length l) then Done (insert_nth i p l) else Panic 3
    | inl i => if Nat.ltb i (length l) then Done (replace_nth i p l) else Panic 2
    end.
End Coll.

(* ---------- ControlPoints API ---------- *)

Definition difficulty_point_at (c : ControlPoints) (t : F64) := at_opt dp_time (cp_difficulty c) t.
Definition effect_point_at (c : ControlPoints) (t : F64) := at_opt ep_time (cp_effect c) t.
Definition sample_point_at (c : ControlPoints) (t : F64) := at_first sp_time (cp_sample c) t.
Definition timing_point_at (c : ControlPoints) (t : F64) := at_first tp_time (cp_timing c) t.

Definition add_timing (c : ControlPoints) (p : TimingPoint) : outcome ControlPoints :=
  obind (put tp_time (cp_timing c) p) (fun l =>
  Done (mkCP l (cp_difficulty c) (cp_effect c) (cp_sample c))).

Definition add_difficulty (c : ControlPoints) (p : DifficultyPoint) : outcome ControlPoints :=
  obind (difficulty_point_at c (dp_time p)) (fun ex =>
  let red := match ex with Some e => dp_redundant p e | None => dp_redundant p dflt_dp end in
  if red then Done c
  else obind (put dp_time (cp_difficulty c) p) (fun l =>
       Done (mkCP (cp_timing c) l (cp_effect c) (cp_sample c)))).

Definition add_effect (c : ControlPoints) (p : EffectPoint) : outcome ControlPoints :=
  obind (effect_point_at c (ep_time p)) (fun ex =>
  let red := match ex with Some e => ep_redundant p e | None => ep_redundant p dflt_ep end in
  if red then Done c
  else obind (put ep_time (cp_effect c) p) (fun l =>
       Done (mkCP (cp_timing c) (cp_difficulty c) l (cp_sample c)))).

Definition add_sample (c : ControlPoints) (p : SamplePoint) : outcome ControlPoints :=
  obind (at_opt sp_time (cp_sample c) (sp_time p)) (fun ex =>
  let red := match ex with Some e => sp_redundant p e | None => false end in
  if red then Done c
  else obind (put sp_time (cp_sample c) p) (fun l =>
       Done (mkCP (cp_timing c) (cp_difficulty c) (cp_effect c) l))).

(* constructors with their clamps (control_points/*.rs ::new) *)
Definition dec64 (d : bool * Z * Z) : F64 := let '(s, m, e) := d in D.of_decimal s m e.

Definition tp_new (time beat_len : F64) (omit : bool) (sig : Z) : TimingPoint :=
  mkTP time (D.clamp beat_len (dec64 (fst beat_len_clamp)) (dec64 (snd beat_len_clamp))) omit sig.
Definition dp_new (time beat_len speed : F64) : DifficultyPoint :=
  mkDP time (D.clamp speed (dec64 (fst slider_velocity_clamp)) (dec64 (snd slider_velocity_clamp)))
       (negb (D.is_nan beat_len)).
Definition zclamp (x lo hi : Z) : Z := if x <? lo then lo else if hi <? x then hi else x.
Definition sp_new (time : F64) (bank vol custom : Z) : SamplePoint :=
  mkSP time bank (zclamp vol (fst sample_volume_clamp) (snd sample_volume_clamp)) custom.
Definition ep_new (time : F64) (kiai : bool) : EffectPoint := mkEP time kiai D.one.

(* ---------- operations, for histories ---------- *)

Inductive cp_op :=
| OpAddT (p : TimingPoint) | OpAddD (p : DifficultyPoint)
| OpAddE (p : EffectPoint) | OpAddS (p : SamplePoint).

Definition cp_step (c : ControlPoints) (o : cp_op) : outcome ControlPoints :=
  match o with
  | OpAddT p => add_timing c p
  | OpAddD p => add_difficulty c p
  | OpAddE p => add_effect c p
  | OpAddS p => add_sample c p
  end.

Fixpoint cp_run (c : ControlPoints) (ops : list cp_op) : outcome ControlPoints :=
  match ops with
  | [] => Done c
  | o :: r => obind (cp_step c o) (fun c' => cp_run c' r)
  end.

(* ---------- canonical dumps (lists of integers; floats as bit patterns) ---------- *)

Definition bz (b : bool) : Z := if b then 1 else 0.
Definition dump_tp (p : TimingPoint) : list Z :=
  [D.bits (tp_time p); D.bits (tp_beat_len p); bz (tp_omit p); tp_sig p].
Definition dump_dp (p : DifficultyPoint) : list Z :=
  [D.bits (dp_time p); D.bits (dp_sv p); bz (dp_ticks p)].
Definition dump_ep (p : EffectPoint) : list Z :=
  [D.bits (ep_time p); bz (ep_kiai p); D.bits (ep_scroll p)].
Definition dump_sp (p : SamplePoint) : list Z :=
  [D.bits (sp_time p); sp_bank p; sp_vol p; sp_custom p].
Definition dump_list {A} (d : A -> list Z) (l : list A) : list Z :=
  Z.of_nat (length l) :: flat_map d l.
Definition dump_cp (c : ControlPoints) : list Z :=
  dump_list dump_tp (cp_timing c) ++ dump_list dump_dp (cp_difficulty c) ++
  dump_list dump_ep (cp_effect c) ++ dump_list dump_sp (cp_sample c).
Definition dump_opt {A} (d : A -> list Z) (x : option A) : list Z :=
  match x with Some a => 1 :: d a | None => [0] end.
(* outcome: 0 = Done, then payload; 1 = Panic; 2 = OutOfFuel *)
Definition dump_outcome {A} (d : A -> list Z) (x : outcome A) : list Z :=
  match x with Done a => 0 :: d a | Panic w => [1; w] | OutOfFuel => [2] end.

(* Decoders: the nine provided decoder types as nine instantiations of the
   framing driver, with their state nesting and delegation chains written out
   as in the code:
     General / Editor / Metadata / Difficulty / Events / Colors   (own parser only)
     TimingPoints  : state {general, pending.., control_points};  parse_general -> General::parse_general
     HitObjects    : state {timing_points, difficulty, events, last_object, curve_points, vertices, hit_objects};
                     parse_general -> TimingPoints::parse_general -> General::parse_general, ...
     Beatmap       : state {version, editor, metadata, colors, hit_objects};
                     parse_general/difficulty/events/timing_points/hit_objects -> HitObjects::..
   (beatmap.rs, section/*/decode.rs).  The finishing conversions
   (`From<State> for T`) are [*_finish].  Panics of the inner parsers are
   threaded through: every decoder's state is an [outcome]. *)
From RM Require Export Model.Framing Model.Sections Model.TimingPoints Model.MapLevel.
From RM Require Import Gen.Generated.

Definition noop {S} (st : S) (_ : str) : S * res := (st, Ok).

(* parsers that can panic, lifted to states that remember the panic *)
Definition liftp {S} (p : S -> str -> outcome (S * res)) (os : outcome S) (l : str) : outcome S * res :=
  match os with
  | Done s => match p s l with
              | Done (s', r) => (Done s', r)
              | Panic w => (Panic w, Ok)
              | OutOfFuel => (OutOfFuel, Ok)
              end
  | e => (e, Ok)
  end.
Definition liftt {S} (p : S -> str -> S * res) : S -> str -> outcome (S * res) :=
  fun s l => Done (p s l).

(* ---------- the six simple decoders ---------- *)

Definition simple_parsers {S} (which : section) (p : S -> str -> S * res) : parsers S :=
  mkParsers
    (match which with SecGeneral => p | _ => noop end)
    (match which with SecEditor => p | _ => noop end)
    (match which with SecMetadata => p | _ => noop end)
    (match which with SecDifficulty => p | _ => noop end)
    (match which with SecEvents => p | _ => noop end)
    noop
    (match which with SecColors => p | _ => noop end)
    noop noop noop noop
    should_skip_line.

Definition decode_general (lines : list str) : GeneralState :=
  driver (fun _ => general_default) (simple_parsers SecGeneral parse_general) (fun s => s) lines.
Definition decode_editor (lines : list str) : EditorState :=
  driver (fun _ => editor_default) (simple_parsers SecEditor parse_editor) (fun s => s) lines.
Definition decode_metadata (lines : list str) : MetadataState :=
  driver (fun _ => metadata_default) (simple_parsers SecMetadata parse_metadata) (fun s => s) lines.
(* Difficulty: the value drops the has_approach_rate flag; it is kept here and
   ignored by the dump *)
Definition decode_difficulty (lines : list str) : DifficultyState :=
  driver (fun _ => difficulty_default) (simple_parsers SecDifficulty parse_difficulty) (fun s => s) lines.
Definition decode_events (lines : list str) : EventsState :=
  driver (fun _ => events_default) (simple_parsers SecEvents parse_events) (fun s => s) lines.
Definition decode_colors (lines : list str) : ColorsState :=
  driver (fun _ => colors_default) (simple_parsers SecColors parse_colors) (fun s => s) lines.

(* ---------- TimingPoints ---------- *)

Definition tpg_of (g : GeneralState) : tp_general :=
  mkTPG (g_mode g) (g_default_sample_bank g) (g_default_sample_volume g).

(* TimingPointsState = { general, pending_control_points_time, pending_*,
   control_points }, field for field.  Model/TimingPoints.v works on a
   [TPState] that carries the three General fields it reads ([tp_general]);
   [tpd_core] builds that view from the current General part (so the reads of
   `state.general.mode` / `.default_sample_bank` / `.default_sample_volume`
   are always those of the current state, as in the code) and
   [tpd_with_core] stores the six fields parse_timing_points can write. *)
Record TPD := mkTPD {
  tpd_general : GeneralState;
  tpd_time : F64;                         (* pending_control_points_time *)
  tpd_pt : option TimingPoint;            (* pending_timing_point *)
  tpd_pd : option DifficultyPoint;        (* pending_difficulty_point *)
  tpd_pe : option EffectPoint;            (* pending_effect_point *)
  tpd_ps : option SamplePoint;            (* pending_sample_point *)
  tpd_cp : ControlPoints }.               (* control_points *)

Definition tpd_core (s : TPD) : TPState :=
  mkTS (tpg_of (tpd_general s)) (tpd_time s) (tpd_pt s) (tpd_pd s) (tpd_pe s) (tpd_ps s) (tpd_cp s).

Definition tpd_with_core (s : TPD) (c : TPState) : TPD :=
  mkTPD (tpd_general s) (ts_time c) (ts_pt c) (ts_pd c) (ts_pe c) (ts_ps c) (ts_cp c).

Definition tpd_with_general (s : TPD) (g : GeneralState) : TPD :=
  mkTPD g (tpd_time s) (tpd_pt s) (tpd_pd s) (tpd_pe s) (tpd_ps s) (tpd_cp s).

(* DecodeState::create: the pending time is 0.0, nothing pending, no points
   (= [tp_init] seen through [tpd_core]) *)
Definition tpd_create : TPD := mkTPD general_default D.zero None None None None cp_empty.

Definition tpd_parse_general (s : TPD) (l : str) : TPD * res :=
  let '(g, r) := parse_general (tpd_general s) l in
  (tpd_with_general s g, r).

Definition tpd_parse_timing_points (s : TPD) (l : str) : outcome (TPD * res) :=
  obind (parse_timing_points (tpd_core s) l) (fun '(c, r) => Done (tpd_with_core s c, r)).

Record TimingPointsV := mkTPV { tpv_general : GeneralState; tpv_control_points : ControlPoints }.

Definition tpd_finish (s : TPD) : outcome TimingPointsV :=
  obind (tp_finish (tpd_core s)) (fun c => Done (mkTPV (tpd_general s) c)).

Definition tp_parsers : parsers (outcome TPD) :=
  mkParsers (liftp (liftt tpd_parse_general)) noop noop noop noop
            (liftp tpd_parse_timing_points) noop noop noop noop noop should_skip_line.

Definition decode_timing_points (lines : list str) : outcome TimingPointsV :=
  driver (fun _ => Done tpd_create) tp_parsers (fun os => obind os tpd_finish) lines.

(* ---------- HitObjects ---------- *)

(* HitObjectsState = { last_object, curve_points, vertices, events,
   timing_points, difficulty, hit_objects, point_split }, field for field
   ([point_split] is empty between calls and has no counterpart).
   Model/HitObjectLine.v works on an [HOState] that carries the mode it reads
   through `state.timing_points.mode()`; [hod_core] builds that view from the
   current General part, [hod_with_core] stores the four fields
   parse_hit_objects can write. *)
Record HOD := mkHOD {
  hod_tp : TPD;
  hod_difficulty : DifficultyState;
  hod_events : EventsState;
  hod_last : option Z;                 (* last_object *)
  hod_curve : list PCP;                (* curve_points *)
  hod_vertices : list PCP;             (* vertices *)
  hod_objects : list HitObject }.      (* hit_objects *)

Definition hod_core (s : HOD) : HOState :=
  mkHO (hod_last s) (hod_curve s) (hod_vertices s) (hod_objects s) (g_mode (tpd_general (hod_tp s))).

Definition hod_with_core (s : HOD) (c : HOState) : HOD :=
  mkHOD (hod_tp s) (hod_difficulty s) (hod_events s)
        (ho_last c) (ho_curve c) (ho_vertices c) (ho_objects c).

Definition hod_with_tp (s : HOD) (tp : TPD) : HOD :=
  mkHOD tp (hod_difficulty s) (hod_events s) (hod_last s) (hod_curve s) (hod_vertices s) (hod_objects s).

Definition hod_create : HOD :=
  mkHOD tpd_create difficulty_default events_default None [] [] [].

Definition hod_parse_general (s : HOD) (l : str) : HOD * res :=
  let '(tp, r) := tpd_parse_general (hod_tp s) l in
  (hod_with_tp s tp, r).
Definition hod_parse_difficulty (s : HOD) (l : str) : HOD * res :=
  let '(d, r) := parse_difficulty (hod_difficulty s) l in
  (mkHOD (hod_tp s) d (hod_events s) (hod_last s) (hod_curve s) (hod_vertices s) (hod_objects s), r).
Definition hod_parse_events (s : HOD) (l : str) : HOD * res :=
  let '(e, r) := parse_events (hod_events s) l in
  (mkHOD (hod_tp s) (hod_difficulty s) e (hod_last s) (hod_curve s) (hod_vertices s) (hod_objects s), r).
Definition hod_parse_timing_points (s : HOD) (l : str) : outcome (HOD * res) :=
  obind (tpd_parse_timing_points (hod_tp s) l) (fun '(tp, r) => Done (hod_with_tp s tp, r)).
Definition hod_parse_hit_objects (s : HOD) (l : str) : outcome (HOD * res) :=
  obind (parse_hit_objects (hod_core s) l) (fun '(c, r) => Done (hod_with_core s c, r)).

Record HitObjectsV := mkHOV {
  hov_general : GeneralState;
  hov_difficulty : DifficultyState;
  hov_events : EventsState;
  hov_control_points : ControlPoints;
  hov_hit_objects : list HitObject }.

Section WithDist.
  Variable dist_of : Z -> list PCP -> option F64 -> outcome F64.

  (* impl From<HitObjectsState> for HitObjects *)
  Definition hod_finish (s : HOD) : outcome HitObjectsV :=
    obind (tpd_finish (hod_tp s)) (fun tp =>
    let g := tpv_general tp in
    let c := tpv_control_points tp in
    obind (finish_hit_objects dist_of c (ev_breaks (hod_events s))
                              (d_slider_multiplier (hod_difficulty s)) (g_mode g)
                              (hod_objects s)) (fun objs =>
    Done (mkHOV g (hod_difficulty s) (hod_events s) c objs))).

  Definition ho_parsers : parsers (outcome HOD) :=
    mkParsers (liftp (liftt hod_parse_general)) noop noop
              (liftp (liftt hod_parse_difficulty)) (liftp (liftt hod_parse_events))
              (liftp hod_parse_timing_points) noop (liftp hod_parse_hit_objects)
              noop noop noop should_skip_line.

  Definition decode_hit_objects (lines : list str) : outcome HitObjectsV :=
    driver (fun _ => Done hod_create) ho_parsers (fun os => obind os hod_finish) lines.

  (* ---------- Beatmap ---------- *)

  Record BMD := mkBMD {
    bmd_version : Z;
    bmd_editor : EditorState;
    bmd_metadata : MetadataState;
    bmd_colors : ColorsState;
    bmd_ho : HOD }.

  Definition bmd_create (version : Z) : BMD :=
    mkBMD version editor_default metadata_default colors_default hod_create.

  Definition on_ho (p : HOD -> str -> outcome (HOD * res)) (s : BMD) (l : str) : outcome (BMD * res) :=
    obind (p (bmd_ho s) l) (fun '(h, r) =>
    Done (mkBMD (bmd_version s) (bmd_editor s) (bmd_metadata s) (bmd_colors s) h, r)).

  Definition bmd_parse_editor (s : BMD) (l : str) : BMD * res :=
    let '(e, r) := parse_editor (bmd_editor s) l in
    (mkBMD (bmd_version s) e (bmd_metadata s) (bmd_colors s) (bmd_ho s), r).
  Definition bmd_parse_metadata (s : BMD) (l : str) : BMD * res :=
    let '(m, r) := parse_metadata (bmd_metadata s) l in
    (mkBMD (bmd_version s) (bmd_editor s) m (bmd_colors s) (bmd_ho s), r).
  Definition bmd_parse_colors (s : BMD) (l : str) : BMD * res :=
    let '(c, r) := parse_colors (bmd_colors s) l in
    (mkBMD (bmd_version s) (bmd_editor s) (bmd_metadata s) c (bmd_ho s), r).

  Record BeatmapV := mkBMV {
    bmv_version : Z;
    bmv_editor : EditorState;
    bmv_metadata : MetadataState;
    bmv_colors : ColorsState;
    bmv_ho : HitObjectsV }.

  Definition bmd_finish (s : BMD) : outcome BeatmapV :=
    obind (hod_finish (bmd_ho s)) (fun h =>
    Done (mkBMV (bmd_version s) (bmd_editor s) (bmd_metadata s) (bmd_colors s) h)).

  Definition bm_parsers : parsers (outcome BMD) :=
    mkParsers (liftp (on_ho (liftt hod_parse_general)))
              (liftp (liftt bmd_parse_editor))
              (liftp (liftt bmd_parse_metadata))
              (liftp (on_ho (liftt hod_parse_difficulty)))
              (liftp (on_ho (liftt hod_parse_events)))
              (liftp (on_ho hod_parse_timing_points))
              (liftp (liftt bmd_parse_colors))
              (liftp (on_ho hod_parse_hit_objects))
              noop noop noop should_skip_line.

  Definition decode_beatmap (lines : list str) : outcome BeatmapV :=
    driver (fun v => Done (bmd_create v)) bm_parsers (fun os => obind os bmd_finish) lines.
End WithDist.

(* ---------- dumps of decoded values ---------- *)

Definition dump_difficulty_v (s : DifficultyState) : list Z :=
  [S.bits (d_hp_drain_rate s); S.bits (d_circle_size s); S.bits (d_overall_difficulty s);
   S.bits (d_approach_rate s); D.bits (d_slider_multiplier s); D.bits (d_slider_tick_rate s)].
Definition dump_tpv (v : TimingPointsV) : list Z :=
  dump_general (tpv_general v) ++ dump_cp (tpv_control_points v).
Definition dump_hov (v : HitObjectsV) : list Z :=
  dump_general (hov_general v) ++ dump_difficulty_v (hov_difficulty v) ++ dump_events (hov_events v) ++
  dump_cp (hov_control_points v) ++
  (Z.of_nat (length (hov_hit_objects v)) :: flat_map dump_object (hov_hit_objects v)).
Definition dump_bmv (v : BeatmapV) : list Z :=
  [bmv_version v] ++ dump_editor (bmv_editor v) ++ dump_metadata (bmv_metadata v) ++
  dump_colors (bmv_colors v) ++ dump_hov (bmv_ho v).

(* HitSamples: section/hit_objects/hit_samples.rs -- HitSoundType::from_str,
   SampleBankInfo::read_custom_sample_banks, SampleBankInfo::convert_sound_type,
   HitSampleInfo::new.  Definitions only. *)
From RM Require Import Model.Text Model.Num.
From RM Require Import Gen.Generated.
Open Scope Z_scope.

(* SampleBank as its index in the enum (Generated.sample_bank_variants):
   0 None, 1 Normal, 2 Soft, 3 Drum *)
Definition sb_none : Z := 0.
Definition sb_normal : Z := 1.

Fixpoint zassoc (k : Z) (l : list (Z * Z)) : option Z :=
  match l with
  | [] => None
  | (a, b) :: r => if a =? k then Some b else zassoc k r
  end.

(* i32 -> SampleBank: [n.try_into().unwrap_or(SampleBank::Normal)] *)
Definition bank_of_i32 (n : Z) : Z := odflt sb_normal (zassoc n sample_bank_of_int).

(* HitSampleDefaultName as index: 0 Normal, 1 Whistle, 2 Finish, 3 Clap *)
Definition nm_normal : Z := 0.
Definition nm_whistle : Z := 1.
Definition nm_finish : Z := 2.
Definition nm_clap : Z := 3.

Inductive SampleName := NDefault (n : Z) | NFile (s : str).

Record HitSampleInfo := mkHS {
  hs_name : SampleName;
  hs_bank : Z;
  hs_suffix : option Z;
  hs_volume : Z;
  hs_custom : Z;
  hs_bank_specified : bool;
  hs_layered : bool }.

(* HitSampleInfo::new *)
Definition hs_new (name : SampleName) (bank : option Z) (custom volume : Z) : HitSampleInfo :=
  mkHS name (odflt sb_normal bank)
       (if 2 <=? custom then Some custom else None)
       volume custom
       (match bank with Some _ => true | None => false end)
       false.

Definition hs_set_layered (s : HitSampleInfo) (b : bool) : HitSampleInfo :=
  mkHS (hs_name s) (hs_bank s) (hs_suffix s) (hs_volume s) (hs_custom s) (hs_bank_specified s) b.

(* HitSoundType(u8) *)
Definition snd_has_flag (st f : Z) : bool := negb (Z.land st f =? 0).

(* <HitSoundType as FromStr>::from_str: plain i32 parse (no trim), low byte *)
Definition parse_sound_type (s : str) : option Z :=
  omap (fun n => Z.land n 255) (parse_i32_raw s).

Record SampleBankInfo := mkSBI {
  sbi_filename : option str;
  sbi_normal : option Z;
  sbi_addition : option Z;
  sbi_volume : Z;
  sbi_custom : Z }.

Definition sbi_default : SampleBankInfo := mkSBI None None None 0 0.

(* SampleBankInfo::read_custom_sample_banks(&mut self, split, banks_only):
   [None] = Err (the partially updated [self] is always discarded by the
   callers, which propagate the error with [?]). *)
Definition read_custom_sample_banks (b : SampleBankInfo) (split : list str) (banks_only : bool)
  : option SampleBankInfo :=
  match split with
  | [] => Some b
  | [] :: _ => Some b                      (* .filter(|s| !s.is_empty()) *)
  | first :: r1 =>
      match pn_i32 first with
      | None => None
      | Some bank_n =>
          let bank := bank_of_i32 bank_n in
          match r1 with
          | [] => None                     (* MissingInfo *)
          | s2 :: r2 =>
              match pn_i32 s2 with
              | None => None
              | Some add_n =>
                  let add_bank := bank_of_i32 add_n in
                  let normal_bank := if bank =? sb_none then None else Some bank in
                  let add_bank := if add_bank =? sb_none then None else Some add_bank in
                  let addition := match add_bank with Some a => Some a | None => normal_bank end in
                  if banks_only then
                    Some (mkSBI (sbi_filename b) normal_bank addition (sbi_volume b) (sbi_custom b))
                  else
                    let '(o3, r3) := next r2 in
                    match (match o3 with Some s => pn_i32 s | None => Some (sbi_custom b) end) with
                    | None => None
                    | Some custom =>
                        let '(o4, r4) := next r3 in
                        match (match o4 with
                               | Some s => omap (Z.max 0) (pn_i32 s)
                               | None => Some (sbi_volume b) end) with
                        | None => None
                        | Some volume =>
                            Some (mkSBI (fst (next r4)) normal_bank addition volume custom)
                        end
                    end
              end
          end
      end
  end.

(* SampleBankInfo::convert_sound_type *)
Definition convert_sound_type (b : SampleBankInfo) (st : Z) : list HitSampleInfo :=
  let head :=
    match sbi_filename b with
    | Some (c :: f) => hs_new (NFile (c :: f)) None 1 (sbi_volume b)
    | _ =>
        hs_set_layered (hs_new (NDefault nm_normal) (sbi_normal b) (sbi_custom b) (sbi_volume b))
                       (negb (st =? hitsound_none) && negb (snd_has_flag st hitsound_normal))
    end in
  let add (flag name : Z) : list HitSampleInfo :=
    if snd_has_flag st flag
    then [hs_new (NDefault name) (sbi_addition b) (sbi_custom b) (sbi_volume b)] else [] in
  head :: add hitsound_finish nm_finish ++ add hitsound_whistle nm_whistle ++ add hitsound_clap nm_clap.

(* ---------- canonical dumps ---------- *)
Definition hbz (b : bool) : Z := if b then 1 else 0.
Definition dump_str (s : str) : list Z := Z.of_nat (length s) :: s.
Definition dump_optz (x : option Z) : list Z := match x with Some v => [1; v] | None => [0] end.
Definition dump_sample (s : HitSampleInfo) : list Z :=
  (match hs_name s with NDefault n => [0; n] | NFile f => 1 :: dump_str f end) ++
  [hs_bank s] ++ dump_optz (hs_suffix s) ++
  [hs_volume s; hs_custom s; hbz (hs_bank_specified s); hbz (hs_layered s)].
Definition dump_samples (l : list HitSampleInfo) : list Z :=
  Z.of_nat (length l) :: flat_map dump_sample l.
